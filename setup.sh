#!/bin/sh
# Offline build of the framework: Lean model, proofs, driver (first Mathlib import can take minutes).
set -e
cd "$(dirname "$0")"
mkdir -p build evidence replays
[ -f translate/tables.py ] && python3 translate/tables.py || true
cd lean
lake build 2>&1 | grep -v auto_activate_base | tail -5
