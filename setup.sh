#!/bin/sh
# Offline build of the framework: Lean model, proofs, driver (first Mathlib import can take minutes).
cd "$(dirname "$0")"
mkdir -p build evidence replays
python3 translate/tables.py >/dev/null 2>&1 || true
python3 translate/statics.py >/dev/null 2>&1 || true
cd lean
lake build 2>&1 | grep -v auto_activate_base | tail -3
# property modules are separate targets so that a broken one cannot break the others
for f in PiqpProofs/Properties/C*.lean; do
  m=$(basename "$f" .lean)
  lake build "PiqpProofs.Properties.$m" 2>&1 | grep -v auto_activate_base | tail -1
done
exit 0
