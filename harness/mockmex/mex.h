// Mock MEX runtime for the C17 dynamic cross-check (vlib/props/c17.py, harness/hmex.cpp).
// Just enough of the MATLAB C Matrix API for interfaces/matlab/piqp_mex.cpp to compile unmodified and run
// in-process.  Misuse that real MATLAB would punish silently or with a crash (mxSetField on a name the struct
// was not created with, mxGetField of a missing field, mxGetScalar(NULL)) is recorded in mock::errors().
#ifndef PIQP_VERIF_MOCK_MEX_H
#define PIQP_VERIF_MOCK_MEX_H

#include <cmath>
#include <cstdint>
#include <cstdio>
#include <cstring>
#include <stdexcept>
#include <string>
#include <vector>

typedef std::size_t mwSize;
typedef std::size_t mwIndex;

enum mxClassID { mxUNKNOWN_CLASS = 0, mxSTRUCT_CLASS, mxCHAR_CLASS, mxDOUBLE_CLASS, mxUINT64_CLASS };
enum mxComplexity { mxREAL = 0, mxCOMPLEX };

struct mxArray
{
    mxClassID cls = mxUNKNOWN_CLASS;
    std::size_t m = 0, n = 0;
    std::vector<double> pr;
    std::vector<std::uint64_t> u64;
    std::string str;
    std::vector<std::string> fnames;
    std::vector<mxArray*> fvals;
    bool sparse = false;
    std::vector<mwIndex> jc, ir;
};

namespace mock
{
struct MexError : std::runtime_error { using std::runtime_error::runtime_error; };
inline std::vector<std::string>& errors() { static std::vector<std::string> e; return e; }
inline std::vector<std::string>& warnings() { static std::vector<std::string> w; return w; }
inline int& lock_count() { static int c = 0; return c; }
} // namespace mock

inline void mexLock() { ++mock::lock_count(); }
inline void mexUnlock() { --mock::lock_count(); }
[[noreturn]] inline void mexErrMsgTxt(const char* msg) { throw mock::MexError(msg); }
inline void mexWarnMsgTxt(const char* msg) { mock::warnings().push_back(msg); }

inline mxArray* mxCreateNumericMatrix(mwSize m, mwSize n, mxClassID cls, mxComplexity)
{
    auto* a = new mxArray; a->cls = cls; a->m = m; a->n = n;
    if (cls == mxUINT64_CLASS) a->u64.assign(m * n, 0); else a->pr.assign(m * n, 0.0);
    return a;
}
inline mxArray* mxCreateDoubleMatrix(mwSize m, mwSize n, mxComplexity)
{
    auto* a = new mxArray; a->cls = mxDOUBLE_CLASS; a->m = m; a->n = n; a->pr.assign(m * n, 0.0); return a;
}
inline mxArray* mxCreateDoubleScalar(double v)
{
    auto* a = mxCreateDoubleMatrix(1, 1, mxREAL); a->pr[0] = v; return a;
}
inline mxArray* mxCreateString(const char* s)
{
    auto* a = new mxArray; a->cls = mxCHAR_CLASS; a->str = s; a->m = 1; a->n = a->str.size(); return a;
}
inline mxArray* mxCreateStructMatrix(mwSize m, mwSize n, int nfields, const char** names)
{
    auto* a = new mxArray; a->cls = mxSTRUCT_CLASS; a->m = m; a->n = n;
    for (int i = 0; i < nfields; i++) { a->fnames.push_back(names[i]); a->fvals.push_back(nullptr); }
    return a;
}
inline void* mxGetData(const mxArray* a)
{
    return a->cls == mxUINT64_CLASS ? (void*) a->u64.data() : (void*) a->pr.data();
}
inline double* mxGetPr(const mxArray* a) { return const_cast<double*>(a->pr.data()); }
inline mwIndex* mxGetJc(const mxArray* a) { return const_cast<mwIndex*>(a->jc.data()); }
inline mwIndex* mxGetIr(const mxArray* a) { return const_cast<mwIndex*>(a->ir.data()); }
inline mwSize mxGetNzmax(const mxArray* a) { return a->ir.size(); }
inline std::size_t mxGetNumberOfElements(const mxArray* a) { return a->m * a->n; }
inline mxClassID mxGetClassID(const mxArray* a) { return a->cls; }
inline bool mxIsComplex(const mxArray*) { return false; }
inline bool mxIsEmpty(const mxArray* a) { return a->m == 0 || a->n == 0; }
inline int mxGetString(const mxArray* a, char* buf, mwSize len)
{
    if (!a || a->cls != mxCHAR_CLASS || a->str.size() + 1 > len) return 1;
    std::memcpy(buf, a->str.c_str(), a->str.size() + 1);
    return 0;
}
inline void mxSetField(mxArray* a, mwIndex idx, const char* name, mxArray* v)
{
    if (!a || a->cls != mxSTRUCT_CLASS || idx != 0) { mock::errors().push_back(std::string("mxSetField on a non-struct: ") + name); return; }
    for (std::size_t i = 0; i < a->fnames.size(); i++)
        if (a->fnames[i] == name) {
            if (a->fvals[i]) mock::errors().push_back(std::string("mxSetField: field set twice: ") + name);
            a->fvals[i] = v; return;
        }
    mock::errors().push_back(std::string("mxSetField: struct was not created with field: ") + name);
}
inline mxArray* mxGetField(const mxArray* a, mwIndex idx, const char* name)
{
    if (a && a->cls == mxSTRUCT_CLASS && idx == 0)
        for (std::size_t i = 0; i < a->fnames.size(); i++)
            if (a->fnames[i] == name) return a->fvals[i];
    mock::errors().push_back(std::string("mxGetField: no such field: ") + name);
    return nullptr;
}
inline double mxGetScalar(const mxArray* a)
{
    if (!a || a->pr.empty()) { mock::errors().push_back("mxGetScalar of a missing/empty array"); return std::nan(""); }
    return a->pr[0];
}

#endif // PIQP_VERIF_MOCK_MEX_H
