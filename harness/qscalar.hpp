// Exact scalar `Q` for instantiating the real PIQP templates (tie A of DESIGN.md).
//
// Q = GMP rational + tag {finite, +inf, -inf, poison}.  Twin of Lean `Piqp.QQ`:
//   * default-constructed (never written) = poison   -> Eigen resize() leaves poison where double has garbage
//   * arithmetic with a poison or infinite operand = poison (unary minus keeps infinities)
//   * division by zero = poison
//   * any comparison involving poison is false
//   * sqrt = fixed rational function selected by Q::sqrt_mode (shared with the Lean driver)
// Events (arithmetic/comparison on poison, division by zero, ...) are counted in Q::ev so that a harness can
// report "uninitialised memory was used as an operand" deterministically.
#ifndef VERIF_QSCALAR_HPP
#define VERIF_QSCALAR_HPP

#include <gmpxx.h>
#include <cmath>
#include <cstdint>
#include <cstring>
#include <limits>
#include <string>
#include <type_traits>
#include <iostream>
#include <Eigen/Core>

struct QEvents {
    long poison_arith = 0, poison_cmp = 0, div0 = 0, inf_arith = 0, sqrt_bad = 0, to_double = 0;
    long uninit_arith = 0, uninit_cmp = 0;   // a never-written (default-constructed) value used as an operand
    void reset() { *this = QEvents(); }
    long total() const { return poison_arith + poison_cmp + div0 + inf_arith + sqrt_bad; }
};

class Q {
public:
    enum Tag : unsigned char { FIN = 0, PINF = 1, NINF = 2, POISON = 3, UNINIT = 4 };  // UNINIT prints and behaves as poison
    mpq_class v;
    Tag tag;

    static QEvents& ev() { static QEvents e; return e; }
    // sqrt mode: k >= 0 : floor(sqrt(a*b*4^k))/(b*2^k);  -1 : largest power of two 2^e with 4^e <= x
    static int& sqrt_mode() { static int k = 32; return k; }

    Q() : v(0), tag(UNINIT) {}
    Q(const Q&) = default;
    Q(Q&&) = default;
    Q& operator=(const Q&) = default;
    Q& operator=(Q&&) = default;

    template<typename I, typename std::enable_if<std::is_integral<I>::value, int>::type = 0>
    Q(I i) : v(static_cast<long>(i)), tag(FIN) {}
    Q(long long i) : tag(FIN) { v = mpq_class(std::to_string(i)); }
    Q(unsigned long long i) : tag(FIN) { v = mpq_class(std::to_string(i)); }
    Q(double d) { set_double(d); }
    Q(float d) { set_double(static_cast<double>(d)); }
    Q(long double d) { set_double(static_cast<double>(d)); }
    Q(const mpq_class& q) : v(q), tag(FIN) { v.canonicalize(); }

    static Q poison() { Q q; q.tag = POISON; return q; }
    static Q pinf() { Q q; q.tag = PINF; return q; }
    static Q ninf() { Q q; q.tag = NINF; return q; }
    static Q frac(long a, long b) { Q q(mpq_class(a, b)); return q; }

    void set_double(double d) {
        if (std::isnan(d)) { tag = POISON; v = 0; }
        else if (std::isinf(d)) { tag = d > 0 ? PINF : NINF; v = 0; }
        else { tag = FIN; v = mpq_class(d); }
    }

    bool is_fin() const { return tag == FIN; }
    bool is_poison() const { return tag == POISON || tag == UNINIT; }

    explicit operator double() const {
        ev().to_double++;
        switch (tag) {
            case FIN: return v.get_d();
            case PINF: return std::numeric_limits<double>::infinity();
            case NINF: return -std::numeric_limits<double>::infinity();
            default: return std::numeric_limits<double>::quiet_NaN();
        }
    }
    explicit operator long() const { return static_cast<long>(v.get_d()); }
    explicit operator int() const { return static_cast<int>(v.get_d()); }

    std::string str() const {
        switch (tag) {
            case FIN: return v.get_str(16);   // hexadecimal: linear-time, same format as the Lean driver
            case PINF: return "inf";
            case NINF: return "-inf";
            default: return "poison";
        }
    }

    static Q parse(const std::string& s) {
        if (s == "inf") return pinf();
        if (s == "-inf") return ninf();
        if (s == "poison") return poison();
        mpq_class q(s);
        q.canonicalize();
        return Q(q);
    }

    static bool bad_operands(const Q& a, const Q& b) {
        if (a.tag == FIN && b.tag == FIN) return false;
        if (a.tag == UNINIT || b.tag == UNINIT) ev().uninit_arith++;
        else if (a.tag == POISON || b.tag == POISON) ev().poison_arith++;
        else ev().inf_arith++;
        return true;
    }

    Q& operator+=(const Q& o) { if (bad_operands(*this, o)) { tag = POISON; v = 0; } else v += o.v; return *this; }
    Q& operator-=(const Q& o) { if (bad_operands(*this, o)) { tag = POISON; v = 0; } else v -= o.v; return *this; }
    Q& operator*=(const Q& o) { if (bad_operands(*this, o)) { tag = POISON; v = 0; } else v *= o.v; return *this; }
    Q& operator/=(const Q& o) {
        if (bad_operands(*this, o)) { tag = POISON; v = 0; }
        else if (o.v == 0) { ev().div0++; tag = POISON; v = 0; }
        else v /= o.v;
        return *this;
    }
    Q operator-() const {
        Q r(*this);
        switch (tag) {
            case FIN: r.v = -v; break;
            case PINF: r.tag = NINF; break;
            case NINF: r.tag = PINF; break;
            case UNINIT: ev().uninit_arith++; r.tag = POISON; break;
            default: break;
        }
        return r;
    }
    Q operator+() const { return *this; }

    // -1, 0, +1 ; 2 = unordered (poison involved)
    static int cmp(const Q& a, const Q& b) {
        if (a.tag == UNINIT || b.tag == UNINIT) { ev().uninit_cmp++; return 2; }
        if (a.tag == POISON || b.tag == POISON) { ev().poison_cmp++; return 2; }
        if (a.tag == FIN && b.tag == FIN) return ::cmp(a.v, b.v) < 0 ? -1 : (::cmp(a.v, b.v) > 0 ? 1 : 0);
        auto rank = [](const Q& q) { return q.tag == NINF ? -1 : (q.tag == PINF ? 1 : 0); };
        int ra = rank(a), rb = rank(b);
        return ra < rb ? -1 : (ra > rb ? 1 : 0);
    }
};

#define VERIF_Q_ARITH(T) std::enable_if<std::is_arithmetic<T>::value, int>::type = 0

inline Q operator+(const Q& a, const Q& b) { Q r(a); r += b; return r; }
inline Q operator-(const Q& a, const Q& b) { Q r(a); r -= b; return r; }
inline Q operator*(const Q& a, const Q& b) { Q r(a); r *= b; return r; }
inline Q operator/(const Q& a, const Q& b) { Q r(a); r /= b; return r; }
template<typename T, typename VERIF_Q_ARITH(T)> inline Q operator+(const Q& a, T b) { return a + Q(b); }
template<typename T, typename VERIF_Q_ARITH(T)> inline Q operator-(const Q& a, T b) { return a - Q(b); }
template<typename T, typename VERIF_Q_ARITH(T)> inline Q operator*(const Q& a, T b) { return a * Q(b); }
template<typename T, typename VERIF_Q_ARITH(T)> inline Q operator/(const Q& a, T b) { return a / Q(b); }
template<typename T, typename VERIF_Q_ARITH(T)> inline Q operator+(T a, const Q& b) { return Q(a) + b; }
template<typename T, typename VERIF_Q_ARITH(T)> inline Q operator-(T a, const Q& b) { return Q(a) - b; }
template<typename T, typename VERIF_Q_ARITH(T)> inline Q operator*(T a, const Q& b) { return Q(a) * b; }
template<typename T, typename VERIF_Q_ARITH(T)> inline Q operator/(T a, const Q& b) { return Q(a) / b; }
template<typename T, typename VERIF_Q_ARITH(T)> inline Q& operator+=(Q& a, T b) { return a += Q(b); }
template<typename T, typename VERIF_Q_ARITH(T)> inline Q& operator-=(Q& a, T b) { return a -= Q(b); }
template<typename T, typename VERIF_Q_ARITH(T)> inline Q& operator*=(Q& a, T b) { return a *= Q(b); }
template<typename T, typename VERIF_Q_ARITH(T)> inline Q& operator/=(Q& a, T b) { return a /= Q(b); }

inline bool operator<(const Q& a, const Q& b) { return Q::cmp(a, b) == -1; }
inline bool operator>(const Q& a, const Q& b) { return Q::cmp(a, b) == 1; }
inline bool operator<=(const Q& a, const Q& b) { int c = Q::cmp(a, b); return c == -1 || c == 0; }
inline bool operator>=(const Q& a, const Q& b) { int c = Q::cmp(a, b); return c == 1 || c == 0; }
inline bool operator==(const Q& a, const Q& b) { return Q::cmp(a, b) == 0; }
inline bool operator!=(const Q& a, const Q& b) { return Q::cmp(a, b) != 0; }   // IEEE: unordered values are 'not equal'
#define VERIF_Q_CMP(OP) \
    template<typename T, typename VERIF_Q_ARITH(T)> inline bool operator OP(const Q& a, T b) { return a OP Q(b); } \
    template<typename T, typename VERIF_Q_ARITH(T)> inline bool operator OP(T a, const Q& b) { return Q(a) OP b; }
VERIF_Q_CMP(<) VERIF_Q_CMP(>) VERIF_Q_CMP(<=) VERIF_Q_CMP(>=) VERIF_Q_CMP(==) VERIF_Q_CMP(!=)

inline std::ostream& operator<<(std::ostream& os, const Q& q) { return os << q.str(); }

inline Q abs(const Q& a) {
    // mirrors `if a < 0 then -a else a`
    if (a < Q(0)) return -a;
    return a;
}
inline Q fabs(const Q& a) { return abs(a); }

inline Q sqrt(const Q& x) {
    if (x.tag == Q::UNINIT) { Q::ev().uninit_arith++; return Q::poison(); }
    if (x.tag != Q::FIN || sgn(x.v) < 0) { Q::ev().sqrt_bad++; return Q::poison(); }
    int k = Q::sqrt_mode();
    if (k >= 0) {
        mpz_class a = x.v.get_num(), b = x.v.get_den();
        mpz_class four_k; mpz_ui_pow_ui(four_k.get_mpz_t(), 4, (unsigned long) k);
        mpz_class two_k; mpz_ui_pow_ui(two_k.get_mpz_t(), 2, (unsigned long) k);
        mpz_class arg = a * b * four_k, r;
        mpz_sqrt(r.get_mpz_t(), arg.get_mpz_t());
        mpq_class q(r, b * two_k);
        q.canonicalize();
        return Q(q);
    }
    // power-of-two mode: 2^e with e the largest integer such that 4^e <= x ; sqrt(0) = 0
    if (sgn(x.v) == 0) return Q(0);
    mpz_class a = x.v.get_num(), b = x.v.get_den();
    if (a >= b) {
        mpz_class fl = a / b;                       // floor(x) >= 1
        size_t lg = mpz_sizeinbase(fl.get_mpz_t(), 2) - 1;  // floor(log2(fl))
        unsigned long e = lg / 2;
        mpz_class r; mpz_ui_pow_ui(r.get_mpz_t(), 2, e);
        return Q(mpq_class(r));
    } else {
        // smallest f >= 1 with 4^f * a >= b  -> result 2^-f
        unsigned long f = 1;
        mpz_class p = 4;
        while (p * a < b) { p *= 4; f++; }
        mpz_class r; mpz_ui_pow_ui(r.get_mpz_t(), 2, f);
        return Q(mpq_class(mpz_class(1), r));
    }
}

inline bool isfinite(const Q& a) { return a.tag == Q::FIN; }
inline bool isnan(const Q& a) { return a.is_poison(); }
inline bool isinf(const Q& a) { return a.tag == Q::PINF || a.tag == Q::NINF; }

namespace std {
template<> class numeric_limits<Q> {
public:
    static constexpr bool is_specialized = true;
    static constexpr bool is_signed = true;
    static constexpr bool is_integer = false;
    static constexpr bool is_exact = true;
    static constexpr bool has_infinity = true;
    static constexpr bool has_quiet_NaN = true;
    static constexpr int digits = 53;
    static constexpr int digits10 = 15;
    static constexpr int max_digits10 = 17;
    static Q epsilon() { return Q(std::numeric_limits<double>::epsilon()); }
    static Q infinity() { return Q::pinf(); }
    static Q quiet_NaN() { return Q::poison(); }
    static Q max() { return Q(std::numeric_limits<double>::max()); }
    static Q min() { return Q(std::numeric_limits<double>::min()); }
    static Q lowest() { return Q(std::numeric_limits<double>::lowest()); }
};
}  // namespace std

namespace Eigen {
template<> struct NumTraits<Q> : GenericNumTraits<Q> {
    typedef Q Real;
    typedef Q NonInteger;
    typedef Q Nested;
    typedef Q Literal;
    enum {
        IsComplex = 0,
        IsInteger = 0,
        IsSigned = 1,
        RequireInitialization = 1,
        ReadCost = 8,
        AddCost = 100,
        MulCost = 200
    };
    static inline Real epsilon() { return std::numeric_limits<Q>::epsilon(); }
    static inline Real dummy_precision() { return Q(1e-12); }
    static inline Real highest() { return std::numeric_limits<Q>::max(); }
    static inline Real lowest() { return std::numeric_limits<Q>::lowest(); }
    static inline Real infinity() { return Q::pinf(); }
    static inline Real quiet_NaN() { return Q::poison(); }
    static inline int digits10() { return 15; }
};
template<typename BinOp> struct ScalarBinaryOpTraits<Q, double, BinOp> { typedef Q ReturnType; };
template<typename BinOp> struct ScalarBinaryOpTraits<double, Q, BinOp> { typedef Q ReturnType; };
template<typename BinOp> struct ScalarBinaryOpTraits<Q, int, BinOp> { typedef Q ReturnType; };
template<typename BinOp> struct ScalarBinaryOpTraits<int, Q, BinOp> { typedef Q ReturnType; };
}  // namespace Eigen

#endif  // VERIF_QSCALAR_HPP
