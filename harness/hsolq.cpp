// hsolq: drives the real PIQP solvers instantiated with the exact scalar Q through the `sol.*` line
// protocol (twin of lean/PiqpModel/Driver/SolCmd.lean).  White box: after every op the whole solver state
// can be dumped (members are reached by compiling the PIQP headers with private/protected -> public;
// the headers themselves are the unmodified ones from /repo/include).
#include "proto.hpp"
#include <algorithm>
#include <array>
#include <cstdio>
#include <functional>
#include <initializer_list>
#include <map>
#include <numeric>
#include <utility>
#include <unistd.h>
#include <Eigen/Cholesky>
#include <Eigen/OrderingMethods>
#define private public
#define protected public
#include "piqp/piqp.hpp"
#undef private
#undef protected

using namespace piqp;

// access to the private members of the two Ruiz classes (they are `class`es whose members are private by default):
// explicit template instantiation may name private members, the friend function hands the pointer out.
template<typename Tag, typename Tag::type M> struct Rob { friend typename Tag::type get(Tag) { return M; } };
#define ROB(Tag, Class, Member, Type) \
    struct Tag { typedef Type Class::*type; friend type get(Tag); }; \
    template struct Rob<Tag, &Class::Member>;
using DRz = dense::RuizEquilibration<Q>;
using SRz = sparse::RuizEquilibration<Q, int>;
#define ROB_ALL(Pfx, Class) \
    ROB(Pfx##_n, Class, n, isize) ROB(Pfx##_p, Class, p, isize) ROB(Pfx##_m, Class, m, isize) \
    ROB(Pfx##_n_lb, Class, n_lb, isize) ROB(Pfx##_n_ub, Class, n_ub, isize) \
    ROB(Pfx##_c, Class, c, Q) ROB(Pfx##_c_inv, Class, c_inv, Q) \
    ROB(Pfx##_delta, Class, delta, Vec<Q>) ROB(Pfx##_delta_lb, Class, delta_lb, Vec<Q>) ROB(Pfx##_delta_ub, Class, delta_ub, Vec<Q>) \
    ROB(Pfx##_delta_inv, Class, delta_inv, Vec<Q>) ROB(Pfx##_delta_lb_inv, Class, delta_lb_inv, Vec<Q>) ROB(Pfx##_delta_ub_inv, Class, delta_ub_inv, Vec<Q>)
ROB_ALL(D, DRz)
ROB_ALL(S, SRz)
template<typename C> struct PreView;
#define PREVIEW(Pfx, Class) \
    template<> struct PreView<Class> { \
        const Class& o; \
        isize n() const { return o.*get(Pfx##_n()); } isize p() const { return o.*get(Pfx##_p()); } isize m() const { return o.*get(Pfx##_m()); } \
        isize n_lb() const { return o.*get(Pfx##_n_lb()); } isize n_ub() const { return o.*get(Pfx##_n_ub()); } \
        const Q& c() const { return o.*get(Pfx##_c()); } const Q& c_inv() const { return o.*get(Pfx##_c_inv()); } \
        const Vec<Q>& delta() const { return o.*get(Pfx##_delta()); } const Vec<Q>& delta_lb() const { return o.*get(Pfx##_delta_lb()); } \
        const Vec<Q>& delta_ub() const { return o.*get(Pfx##_delta_ub()); } const Vec<Q>& delta_inv() const { return o.*get(Pfx##_delta_inv()); } \
        const Vec<Q>& delta_lb_inv() const { return o.*get(Pfx##_delta_lb_inv()); } const Vec<Q>& delta_ub_inv() const { return o.*get(Pfx##_delta_ub_inv()); } \
    };
PREVIEW(D, DRz)
PREVIEW(S, SRz)

using DMat = Eigen::Matrix<Q, Eigen::Dynamic, Eigen::Dynamic>;
using DVec = Eigen::Matrix<Q, Eigen::Dynamic, 1>;
using SMat = Eigen::SparseMatrix<Q, Eigen::ColMajor, int>;

struct RawMat { long r = 0, c = 0; std::vector<std::pair<bool, Q>> e; };
struct Args {
    bool hasP = false, hasc = false, hasA = false, hasb = false, hasG = false, hash = false, haslb = false, hasub = false;
    RawMat P, A, G;
    DVec c, b, h, lb, ub;
};

static RawMat parse_raw(Toks& t) {
    RawMat m; m.r = t.nat(); m.c = t.nat();
    for (long i = 0; i < m.r * m.c; i++) {
        std::string s = t.next();
        if (s == ".") m.e.emplace_back(false, Q(0)); else m.e.emplace_back(true, Q::parse(s));
    }
    return m;
}
static DVec parse_vec(Toks& t) { long k = t.nat(); return t.vec(k); }
static Args parse_args(Toks& t) {
    Args a;
    while (!t.empty()) {
        std::string n = t.next();
        if (n == "P") { a.hasP = true; a.P = parse_raw(t); }
        else if (n == "A") { a.hasA = true; a.A = parse_raw(t); }
        else if (n == "G") { a.hasG = true; a.G = parse_raw(t); }
        else if (n == "c") { a.hasc = true; a.c = parse_vec(t); }
        else if (n == "b") { a.hasb = true; a.b = parse_vec(t); }
        else if (n == "h") { a.hash = true; a.h = parse_vec(t); }
        else if (n == "lb") { a.haslb = true; a.lb = parse_vec(t); }
        else if (n == "ub") { a.hasub = true; a.ub = parse_vec(t); }
        else throw std::runtime_error("unknown argument " + n);
    }
    return a;
}
static DMat raw_dense(const RawMat& m) {
    DMat d(m.r, m.c);
    for (long i = 0; i < m.r; i++) for (long j = 0; j < m.c; j++) d(i, j) = m.e[(size_t) (i * m.c + j)].second;
    return d;
}
static SMat raw_sparse(const RawMat& m) {
    std::vector<Eigen::Triplet<Q, int>> trip;
    for (long j = 0; j < m.c; j++) for (long i = 0; i < m.r; i++)
        if (m.e[(size_t) (i * m.c + j)].first) trip.emplace_back((int) i, (int) j, m.e[(size_t) (i * m.c + j)].second);
    SMat s(m.r, m.c);
    s.setFromTriplets(trip.begin(), trip.end(), [](const Q&, const Q& b) { return b; });
    s.makeCompressed();
    return s;
}

// stderr of the library (rejection messages) is captured per call
static std::string g_msg;
static std::string capture_stderr(const std::function<void()>& f) {
    fflush(stderr);
    char path[] = "/dev/shm/hsolq_err_XXXXXX";
    int fd = mkstemp(path);
    int saved = dup(2);
    dup2(fd, 2);
    f();
    fflush(stderr);
    dup2(saved, 2);
    close(saved);
    lseek(fd, 0, SEEK_SET);
    std::string out; char buf[512]; ssize_t k;
    while ((k = read(fd, buf, sizeof buf)) > 0) out.append(buf, (size_t) k);
    close(fd); unlink(path);
    while (!out.empty() && (out.back() == '\n' || out.back() == ' ')) out.pop_back();
    return out;
}

struct Machine {
    virtual ~Machine() {}
    virtual void cmd(const std::string& c, Toks& t) = 0;
};

static void parse_settings(Toks& t, Settings<Q>& s) {
    s.rho_init = t.q(); s.delta_init = t.q(); s.eps_abs = t.q(); s.eps_rel = t.q();
    s.check_duality_gap = t.flag(); s.eps_duality_gap_abs = t.q(); s.eps_duality_gap_rel = t.q();
    s.reg_lower_limit = t.q(); s.reg_finetune_lower_limit = t.q();
    s.reg_finetune_primal_update_threshold = std::stol(t.next()); s.reg_finetune_dual_update_threshold = std::stol(t.next());
    s.max_iter = std::stol(t.next()); s.max_factor_retires = std::stol(t.next());
    s.preconditioner_scale_cost = t.flag(); s.preconditioner_iter = std::stol(t.next());
    s.tau = t.q();
    s.iterative_refinement_always_enabled = t.flag(); s.iterative_refinement_eps_abs = t.q(); s.iterative_refinement_eps_rel = t.q();
    s.iterative_refinement_max_iter = std::stol(t.next()); s.iterative_refinement_min_improvement_rate = t.q();
    s.iterative_refinement_static_regularization_eps = t.q(); s.iterative_refinement_static_regularization_rel = t.q();
    s.verbose = false; s.compute_timings = false;
}

template<typename T> struct pre_is_identity : std::false_type {};
template<> struct pre_is_identity<dense::IdentityPreconditioner<Q>> : std::true_type {};
template<> struct pre_is_identity<sparse::IdentityPreconditioner<Q, int>> : std::true_type {};

template<typename SolverT, bool Dense, int BE, typename PreT>
struct MachineT : Machine {
    SolverT solver;
    static constexpr bool keepY = (BE == 1 || BE == 3);
    static constexpr bool keepZ = (BE == 1 || BE == 2);

    template<bool D = Dense> typename std::enable_if<D, DMat>::type kred() {
        DMat K = solver.m_kkt.kkt_mat;
        isize n = K.rows();
        for (isize i = 0; i < n; i++) for (isize j = i + 1; j < n; j++) K(i, j) = K(j, i);
        return K;
    }
    template<bool D = Dense> typename std::enable_if<!D, DMat>::type kred() {
        auto& kkt = solver.m_kkt;
        isize N = kkt.PKPt.rows();
        DMat K = DMat::Constant(N, N, Q(0));
        for (isize jc = 0; jc < N; jc++)
            for (typename SMat::InnerIterator it(kkt.PKPt, jc); it; ++it) {
                isize oi = kkt.ordering[it.row()], oj = kkt.ordering[jc];
                K(oi, oj) = it.value(); K(oj, oi) = it.value();
            }
        return K;
    }
    template<bool D = Dense> typename std::enable_if<D, DMat>::type dense_of(const DMat& m) { return m; }
    template<bool D = Dense> typename std::enable_if<!D, DMat>::type dense_of(const SMat& m) {
        DMat d = DMat::Constant(m.rows(), m.cols(), Q(0));
        for (isize j = 0; j < m.outerSize(); j++) for (typename SMat::InnerIterator it(m, j); it; ++it) d(it.row(), it.col()) = it.value();
        return d;
    }

    template<bool D = Dense> typename std::enable_if<D>::type do_setup(const Args& a) {
        DMat P = raw_dense(a.P), A, G;
        if (a.hasA) A = raw_dense(a.A);
        if (a.hasG) G = raw_dense(a.G);
        solver.setup(P, a.c,
                     a.hasA ? optional<CMatRef<Q>>(A) : nullopt, a.hasb ? optional<CVecRef<Q>>(a.b) : nullopt,
                     a.hasG ? optional<CMatRef<Q>>(G) : nullopt, a.hash ? optional<CVecRef<Q>>(a.h) : nullopt,
                     a.haslb ? optional<CVecRef<Q>>(a.lb) : nullopt, a.hasub ? optional<CVecRef<Q>>(a.ub) : nullopt);
    }
    template<bool D = Dense> typename std::enable_if<!D>::type do_setup(const Args& a) {
        SMat P = raw_sparse(a.P), A, G;
        if (a.hasA) A = raw_sparse(a.A);
        if (a.hasG) G = raw_sparse(a.G);
        solver.setup(P, a.c,
                     a.hasA ? optional<CSparseMatRef<Q, int>>(A) : nullopt, a.hasb ? optional<CVecRef<Q>>(a.b) : nullopt,
                     a.hasG ? optional<CSparseMatRef<Q, int>>(G) : nullopt, a.hash ? optional<CVecRef<Q>>(a.h) : nullopt,
                     a.haslb ? optional<CVecRef<Q>>(a.lb) : nullopt, a.hasub ? optional<CVecRef<Q>>(a.ub) : nullopt);
    }
    template<bool D = Dense> typename std::enable_if<D>::type do_update(const Args& a, bool reuse) {
        DMat P, A, G;
        if (a.hasP) P = raw_dense(a.P);
        if (a.hasA) A = raw_dense(a.A);
        if (a.hasG) G = raw_dense(a.G);
        solver.update(a.hasP ? optional<CMatRef<Q>>(P) : nullopt, a.hasc ? optional<CVecRef<Q>>(a.c) : nullopt,
                      a.hasA ? optional<CMatRef<Q>>(A) : nullopt, a.hasb ? optional<CVecRef<Q>>(a.b) : nullopt,
                      a.hasG ? optional<CMatRef<Q>>(G) : nullopt, a.hash ? optional<CVecRef<Q>>(a.h) : nullopt,
                      a.haslb ? optional<CVecRef<Q>>(a.lb) : nullopt, a.hasub ? optional<CVecRef<Q>>(a.ub) : nullopt, reuse);
    }
    template<bool D = Dense> typename std::enable_if<!D>::type do_update(const Args& a, bool reuse) {
        SMat P, A, G;
        if (a.hasP) P = raw_sparse(a.P);
        if (a.hasA) A = raw_sparse(a.A);
        if (a.hasG) G = raw_sparse(a.G);
        solver.update(a.hasP ? optional<CSparseMatRef<Q, int>>(P) : nullopt, a.hasc ? optional<CVecRef<Q>>(a.c) : nullopt,
                      a.hasA ? optional<CSparseMatRef<Q, int>>(A) : nullopt, a.hasb ? optional<CVecRef<Q>>(a.b) : nullopt,
                      a.hasG ? optional<CSparseMatRef<Q, int>>(G) : nullopt, a.hash ? optional<CVecRef<Q>>(a.h) : nullopt,
                      a.haslb ? optional<CVecRef<Q>>(a.lb) : nullopt, a.hasub ? optional<CVecRef<Q>>(a.ub) : nullopt, reuse);
    }

    template<typename P_ = PreT> typename std::enable_if<pre_is_identity<P_>::value>::type dump_pre() {}
    template<typename P_ = PreT> typename std::enable_if<!pre_is_identity<P_>::value>::type dump_pre() {
        PreView<PreT> pr{solver.m_preconditioner};
        isize n = pr.n(), p = pr.p(), m = pr.m();
        std::cout << "pre " << pr.n_lb() << " " << pr.n_ub() << " c " << pr.c().str() << " cinv " << pr.c_inv().str() << "\n";
        std::cout << "pre.d " << vstr(pr.delta().head(n)) << " " << vstr(pr.delta().segment(n, p)) << " " << vstr(pr.delta().tail(m)) << "\n";
        std::cout << "pre.dlb " << vstr(pr.delta_lb()) << "\n" << "pre.dub " << vstr(pr.delta_ub()) << "\n";
        std::cout << "pre.dinv " << vstr(pr.delta_inv().head(n)) << " " << vstr(pr.delta_inv().segment(n, p)) << " " << vstr(pr.delta_inv().tail(m)) << "\n";
        std::cout << "pre.dlbinv " << vstr(pr.delta_lb_inv()) << "\n" << "pre.dubinv " << vstr(pr.delta_ub_inv()) << "\n";
    }

    static std::string idxs(const Vec<Eigen::Index>& v, isize cnt) {
        std::string s; for (isize i = 0; i < cnt; i++) { if (i) s += " "; s += std::to_string((long) v(i)); } return s;
    }

    void dump() {
        if (!solver.m_setup_done) { std::cout << "nosolver\n"; return; }
        auto& r = solver.m_result; auto& i = r.info; auto& d = solver.m_data; auto& k = solver.m_kkt;
        std::cout << "info " << (int) i.status << " " << i.iter << " " << i.rho << " " << i.delta << " " << i.mu << " " << i.sigma << " "
                  << i.primal_step << " " << i.dual_step << " " << i.primal_inf << " " << i.primal_rel_inf << " " << i.dual_inf << " "
                  << i.dual_rel_inf << " " << i.primal_obj << " " << i.dual_obj << " " << i.duality_gap << " " << i.duality_gap_rel << " "
                  << i.factor_retires << " " << i.reg_limit << " " << i.no_primal_update << " " << i.no_dual_update << "\n";
        std::cout << "x " << vstr(r.x) << "\ny " << vstr(r.y) << "\nz " << vstr(r.z) << "\nz_lb " << vstr(r.z_lb) << "\nz_ub " << vstr(r.z_ub)
                  << "\ns " << vstr(r.s) << "\ns_lb " << vstr(r.s_lb) << "\ns_ub " << vstr(r.s_ub) << "\nzeta " << vstr(r.zeta)
                  << "\nlambda " << vstr(r.lambda) << "\nnu " << vstr(r.nu) << "\nnu_lb " << vstr(r.nu_lb) << "\nnu_ub " << vstr(r.nu_ub) << "\n";
        DMat P = dense_of(d.P_utri);
        for (isize a = 0; a < P.rows(); a++) for (isize b = 0; b < a; b++) P(a, b) = Q(0);
        std::cout << "data.P " << mstr(P) << "\ndata.AT " << mstr(dense_of(d.AT)) << "\ndata.GT " << mstr(dense_of(d.GT)) << "\n";
        std::cout << "data.c " << vstr(d.c) << "\ndata.b " << vstr(d.b) << "\ndata.h " << vstr(d.h) << "\n";
        std::cout << "data.lb " << d.n_lb << " idx " << idxs(d.x_lb_idx, d.n_lb) << " sc " << vstr(d.x_lb_scaling) << " val " << vstr(d.x_lb_n, d.n_lb) << "\n";
        std::cout << "data.ub " << d.n_ub << " idx " << idxs(d.x_ub_idx, d.n_ub) << " sc " << vstr(d.x_ub_scaling) << " val " << vstr(d.x_ub, d.n_ub) << "\n";
        dump_pre();
        std::cout << "kkt " << k.m_rho << " " << k.m_delta << " s " << vstr(k.m_s) << " s_lb " << vstr(k.m_s_lb, d.n_lb) << " s_ub " << vstr(k.m_s_ub, d.n_ub)
                  << " zinv " << vstr(k.m_z_inv) << " zinv_lb " << vstr(k.m_z_lb_inv, d.n_lb) << " zinv_ub " << vstr(k.m_z_ub_inv, d.n_ub) << "\n";
        DMat K = kred();
        isize n = d.n, p = d.p, m = d.m;
        std::cout << "Kxx " << mstr(K.topLeftCorner(n, n)) << "\n";
        isize off = n;
        if (!Dense && keepY) { std::cout << "Kxy " << mstr(K.block(0, off, n, p)) << "\nKyy " << vstr(K.block(off, off, p, p).diagonal()) << "\n"; off += p; }
        if (!Dense && keepZ) { std::cout << "Kxz " << mstr(K.block(0, off, n, m)) << "\nKzz " << vstr(K.block(off, off, m, m).diagonal()) << "\n"; }
        std::cout << "flags " << (solver.m_kkt_init_state ? 1 : 0) << " " << (solver.m_setup_done ? 1 : 0) << " " << (solver.m_enable_iterative_refinement ? 1 : 0) << "\n";
    }

    template<bool D = Dense> typename std::enable_if<D>::type print_perm() {}
    template<bool D = Dense> typename std::enable_if<!D>::type print_perm() {
        auto& P = solver.m_kkt.ordering.P;
        std::cout << "perm";
        for (isize i = 0; i < P.rows(); i++) std::cout << " " << P[i];
        std::cout << "\n";
    }

    void cmd(const std::string& c, Toks& t) override {
        if (c == "sol.consts") { /* literals live in the C++ source */ }
        else if (c == "sol.check") { /* property predicates are evaluated by the Lean driver on the (compared) results */ }
        else if (c == "sol.settings") { parse_settings(t, solver.settings()); std::cout << "ok\n"; }
        else if (c == "sol.setup") {
            Args a = parse_args(t);
            bool was = solver.m_setup_done;
            isize n0 = solver.m_data.n;
            (void) n0;
            std::string msg = capture_stderr([&] { do_setup(a); });
            (void) was;
            if (!msg.empty() && msg.find("must") != std::string::npos) std::cout << "rejected " << msg << "\n";
            else std::cout << "ok\n";
        }
        else if (c == "sol.update") {
            bool reuse = t.flag();
            Args a = parse_args(t);
            std::string msg = capture_stderr([&] { do_update(a, reuse); });
            // the h-is-infinite notice is informational, not a rejection
            if (!msg.empty() && msg.find("h contains values") == std::string::npos) std::cout << "rejected " << msg << "\n";
            else std::cout << "ok\n";
        }
        else if (c == "sol.solve") {
            Status s;
            std::string msg = capture_stderr([&] { s = solver.solve(); });
            std::cout << "status " << (int) s << "\n";
        }
        else if (c == "sol.perm") { print_perm(); }
        else if (c == "sol.sqrtmode") { Q::sqrt_mode() = (int) std::stol(t.next()); }
        else if (c == "sol.dump") dump();
        else throw std::runtime_error("unknown sol command " + c);
        std::cout << "#ev " << Q::ev().poison_arith << " " << Q::ev().poison_cmp << " " << Q::ev().div0 << " " << Q::ev().inf_arith << " " << Q::ev().sqrt_bad << " " << Q::ev().uninit_arith << " " << Q::ev().uninit_cmp << "\n";
    }
};

template<int BE, bool Ident> Machine* make_sparse() {
    using Pre = typename std::conditional<Ident, sparse::IdentityPreconditioner<Q, int>, sparse::RuizEquilibration<Q, int>>::type;
    constexpr int Mode = BE == 1 ? KKT_FULL : BE == 2 ? KKT_EQ_ELIMINATED : BE == 3 ? KKT_INEQ_ELIMINATED : KKT_ALL_ELIMINATED;
    return new MachineT<SparseSolver<Q, int, Mode, Pre>, false, BE, Pre>();
}
template<bool Ident> Machine* make_dense() {
    using Pre = typename std::conditional<Ident, dense::IdentityPreconditioner<Q>, dense::RuizEquilibration<Q>>::type;
    return new MachineT<DenseSolver<Q, Pre>, true, 0, Pre>();
}

#ifndef HSOLQ_ONLY_BE
#define HSOLQ_ONLY_BE -1
#endif

int main() {
    std::ios::sync_with_stdio(false);
    std::unique_ptr<Machine> mach;
    std::string line;
    while (std::getline(std::cin, line)) {
        Toks t(line);
        if (t.empty()) continue;
        std::string c = t.next();
        if (c[0] == '#') continue;
        try {
            if (c == "case") {
                std::cout << "case";
                while (!t.empty()) std::cout << " " << t.next();
                std::cout << "\n";
                mach.reset();
            } else if (c == "sol.new") {
                long be = t.nat(), pk = t.nat(); long sm = std::stol(t.next());
                Q::sqrt_mode() = (int) sm;
                Q::ev().reset();
                bool id = pk == 1;
                if (HSOLQ_ONLY_BE >= 0 && be != HSOLQ_ONLY_BE) throw std::runtime_error("back end not compiled into this binary");
                switch (be) {
#if HSOLQ_ONLY_BE < 0 || HSOLQ_ONLY_BE == 0
                    case 0: mach.reset(id ? make_dense<true>() : make_dense<false>()); break;
#endif
#if HSOLQ_ONLY_BE < 0 || HSOLQ_ONLY_BE == 1
                    case 1: mach.reset(id ? make_sparse<1, true>() : make_sparse<1, false>()); break;
#endif
#if HSOLQ_ONLY_BE < 0 || HSOLQ_ONLY_BE == 2
                    case 2: mach.reset(id ? make_sparse<2, true>() : make_sparse<2, false>()); break;
#endif
#if HSOLQ_ONLY_BE < 0 || HSOLQ_ONLY_BE == 3
                    case 3: mach.reset(id ? make_sparse<3, true>() : make_sparse<3, false>()); break;
#endif
#if HSOLQ_ONLY_BE < 0 || HSOLQ_ONLY_BE == 4
                    case 4: mach.reset(id ? make_sparse<4, true>() : make_sparse<4, false>()); break;
#endif
                    default: throw std::runtime_error("bad back end");
                }
            } else {
                if (!mach) throw std::runtime_error("no solver machine");
                mach->cmd(c, t);
            }
        } catch (const std::exception& e) {
            std::cout << "error " << e.what() << "\n";
        }
        std::cout.flush();
    }
    return 0;
}
