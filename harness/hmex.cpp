// hmex -- C17 dynamic cross-check: the real interfaces/matlab/piqp_mex.cpp under a mock MEX runtime.
//
// Every core field (list generated from include/piqp/{settings,results}.hpp by translate/tables.py, NOT from
// the mex file) is pushed through the mex entry point in both directions with a value that is distinct per
// field, and compared with the C++ object behind the handle:
//   get_settings            struct[f]  == Settings<double>{}.f                     (defaults, to-struct)
//   update_settings(S1)     solver.settings().f == S1[f]                           (from-struct)
//   get_settings            struct[f]  == solver.settings().f                      (to-struct, non-default)
//   setup + solve           result struct == solver.result() field by field       (dispatcher uses the right object)
//   result_to_mx_struct(R)  with a fabricated R whose every member is distinct    (exact wiring of info/result)
// for the dense and the sparse backend.  Output: `MISMATCH <signature> <text>` lines, then `DONE <checks>`.
#include "mex.h"
#include MEX_SOURCE
#include "hmex_fields.inc"

#include <cstdio>
#include <limits>
#include <map>
#include <sstream>

static long n_checks = 0;
static long n_bad = 0;

static void bad(const std::string& sig, const std::string& text)
{
    n_bad++;
    std::printf("MISMATCH %s %s\n", sig.c_str(), text.c_str());
}

static std::string num(double v) { char b[64]; std::snprintf(b, sizeof b, "%.17g", v); return b; }

static void expect(const std::string& sig, double got, double want)
{
    n_checks++;
    if (!(got == want)) bad(sig, "got " + num(got) + " expected " + num(want));
}

static const mxArray* field(const mxArray* s, const char* name, const std::string& sig)
{
    if (s && s->cls == mxSTRUCT_CLASS)
        for (std::size_t i = 0; i < s->fnames.size(); i++)
            if (s->fnames[i] == name && s->fvals[i]) return s->fvals[i];
    bad(sig, std::string("struct has no (filled) field \"") + name + "\"");
    return nullptr;
}

static double fscalar(const mxArray* s, const char* name, const std::string& sig)
{
    const mxArray* f = field(s, name, sig);
    return (f && !f->pr.empty()) ? f->pr[0] : std::nan("");
}

static mxArray* scalar(double v) { return mxCreateDoubleScalar(v); }

static mxArray* mex(const std::vector<const mxArray*>& in, int nlhs = 1)
{
    mxArray* out[4] = {nullptr, nullptr, nullptr, nullptr};
    mexFunction(nlhs, out, (int) in.size(), const_cast<const mxArray**>(in.data()));
    return out[0];
}

// per-field distinct, valid-looking, non-default values
static double value_T(int idx) { return 0.001953125 * (idx + 3); }          // k/512, exact in double
static double value_isize(int idx) { return 1000 + idx; }

static mxArray* dense_mat(int m, int n, std::initializer_list<double> colmajor)
{
    mxArray* a = mxCreateDoubleMatrix(m, n, mxREAL);
    int i = 0; for (double v : colmajor) a->pr[i++] = v;
    return a;
}

static mxArray* sparse_mat(int m, int n, std::initializer_list<double> colmajor)
{
    mxArray* a = new mxArray; a->cls = mxDOUBLE_CLASS; a->m = m; a->n = n; a->sparse = true;
    std::vector<double> d(colmajor);
    a->jc.push_back(0);
    for (int j = 0; j < n; j++) {
        for (int i = 0; i < m; i++) if (d[j * m + i] != 0) { a->ir.push_back(i); a->pr.push_back(d[j * m + i]); }
        a->jc.push_back(a->ir.size());
    }
    return a;
}

template<typename Solver>
static void compare_result(const std::string& tag, const mxArray* R, const piqp::Result<double>& r)
{
    const mxArray* I = field(R, "info", tag + ":result:info");
    int idx = 0;
#define CHK_INFO_Status(f) { const mxArray* s = field(I, #f, tag + ":info:" #f); n_checks++; \
        if (s && s->str != piqp::status_to_string(r.info.f)) bad(tag + ":info:" #f, "got '" + s->str + "' expected '" + piqp::status_to_string(r.info.f) + "'"); \
        expect(tag + ":info:status_val", fscalar(I, "status_val", tag + ":info:status_val"), (double) r.info.f); }
#define CHK_INFO_isize(f) expect(tag + ":info:" #f, fscalar(I, #f, tag + ":info:" #f), (double) r.info.f);
#define CHK_INFO_T(f) expect(tag + ":info:" #f, fscalar(I, #f, tag + ":info:" #f), (double) r.info.f);
#define CHK_INFO(f, kind) CHK_INFO_##kind(f) idx++;
    HMEX_INFO_FIELDS(CHK_INFO)
#define CHK_VEC(f) { const mxArray* v = field(R, #f, tag + ":result:" #f); n_checks++; \
        if (v) { if ((long) v->pr.size() != (long) r.f.size()) bad(tag + ":result:" #f, "size " + std::to_string(v->pr.size()) + " expected " + std::to_string(r.f.size())); \
                 else for (long k = 0; k < (long) r.f.size(); k++) if (!(v->pr[k] == r.f(k))) { bad(tag + ":result:" #f, "element " + std::to_string(k) + " got " + num(v->pr[k]) + " expected " + num(r.f(k))); break; } } }
    HMEX_RESULT_VEC_FIELDS(CHK_VEC)
    (void) idx;
}

template<typename Solver>
static Solver* solver_of(const mxArray* h);
template<> DenseSolver* solver_of<DenseSolver>(const mxArray* h) { return get_mex_handle(h)->as_dense_ptr(); }
template<> SparseSolver* solver_of<SparseSolver>(const mxArray* h) { return get_mex_handle(h)->as_sparse_ptr(); }

template<typename Solver>
static void run_backend(const char* backend)
{
    const std::string B = std::string("mex:dynamic:") + backend;
    mxArray* h = mex({mxCreateString("new"), mxCreateString(backend)});
    Solver* solver = solver_of<Solver>(h);
    n_checks++;
    if (get_mex_handle(h)->isDense() != (std::string(backend) == "dense")) bad(B + ":handle", "wrong backend behind the handle");

    // 1. defaults through get_settings
    const piqp::Settings<double> def;
    mxArray* S0 = mex({mxCreateString("get_settings"), h});
#define CHK_DEF(f, kind) expect(B + ":get_settings:default:" #f, fscalar(S0, #f, B + ":get_settings:default:" #f), (double) def.f);
    HMEX_SETTINGS_FIELDS(CHK_DEF)
    n_checks++;
    if (S0 && S0->fnames.size() != (std::size_t) HMEX_N_SETTINGS) bad(B + ":get_settings:count", "struct has " + std::to_string(S0->fnames.size()) + " fields, core has " + std::to_string(HMEX_N_SETTINGS));

    // 2. distinct values through update_settings, read back directly from the C++ object
    static const char* names[] = {
#define NAME_OF(f, kind) #f,
        HMEX_SETTINGS_FIELDS(NAME_OF)
    };
    mxArray* S1 = mxCreateStructMatrix(1, 1, HMEX_N_SETTINGS, names);
    std::map<std::string, double> want;
    int idx = 0;
#define VAL_T(f) value_T(idx)
#define VAL_isize(f) value_isize(idx)
#define VAL_bool(f) (def.f ? 0.0 : 1.0)
#define SET_S1(f, kind) { double v = VAL_##kind(f); want[#f] = v; mxSetField(S1, 0, #f, scalar(v)); idx++; }
    HMEX_SETTINGS_FIELDS(SET_S1)
    mex({mxCreateString("update_settings"), h, S1}, 0);
#define CHK_DIRECT(f, kind) expect(B + ":update_settings:" #f, (double) solver->settings().f, want[#f]);
    HMEX_SETTINGS_FIELDS(CHK_DIRECT)

    // 3. and back out through get_settings
    mxArray* S2 = mex({mxCreateString("get_settings"), h});
#define CHK_BACK(f, kind) expect(B + ":get_settings:" #f, fscalar(S2, #f, B + ":get_settings:" #f), (double) solver->settings().f);
    HMEX_SETTINGS_FIELDS(CHK_BACK)

    // 4. setup (restores the defaults through its settings argument) + solve, result struct vs C++ result
    const int n = 2, p = 1, m = 2;
    const bool dense = std::string(backend) == "dense";
    auto mat = [&](int r, int c, std::initializer_list<double> d) { return dense ? dense_mat(r, c, d) : sparse_mat(r, c, d); };
    const double inf = std::numeric_limits<double>::infinity();
    std::vector<const mxArray*> args = {mxCreateString("setup"), h, scalar(n), scalar(p), scalar(m),
        mat(2, 2, {6, 0, 0, 4}), dense_mat(2, 1, {-1, -4}), mat(1, 2, {1, -2}), dense_mat(1, 1, {1}),
        mat(2, 2, {1, -1, 0, 0}), dense_mat(2, 1, {1, 1}), dense_mat(2, 1, {-1, -inf}), dense_mat(2, 1, {1, inf}), S0};
    mex(args, 0);
#define CHK_RESTORED(f, kind) expect(B + ":setup:settings:" #f, (double) solver->settings().f, (double) def.f);
    HMEX_SETTINGS_FIELDS(CHK_RESTORED)
    mxArray* R = mex({mxCreateString("solve"), h});
    n_checks++;
    if (solver->result().info.status != piqp::Status::PIQP_SOLVED) bad(B + ":solve:status", std::string("test problem not solved: ") + piqp::status_to_string(solver->result().info.status));
    compare_result<Solver>(B + ":solve", R, solver->result());

    mex({mxCreateString("delete"), h}, 0);
}

static void direct_calls()
{
    const std::string B = "mex:dynamic:direct";
    // fabricated Result: every member distinct
    piqp::Result<double> r;
    int idx = 0;
#define FAB_Status(f) r.info.f = piqp::Status::PIQP_NUMERICS;
#define FAB_isize(f) r.info.f = 1000 + idx;
#define FAB_T(f) r.info.f = idx + 0.25;
#define FAB(f, kind) FAB_##kind(f) idx++;
    HMEX_INFO_FIELDS(FAB)
    idx = 0;
#define FABV(f) { r.f.resize(3); for (int k = 0; k < 3; k++) r.f(k) = 100 * (idx + 1) + k; idx++; }
    HMEX_RESULT_VEC_FIELDS(FABV)
    mxArray* R = result_to_mx_struct(r);
    compare_result<DenseSolver>(B + ":result_to_mx_struct", R, r);
    n_checks += 2;
    const mxArray* I = field(R, "info", B + ":info");
    if (R->fnames.size() != (std::size_t) HMEX_N_RESULT_VEC + 1) bad(B + ":result:count", "result struct has " + std::to_string(R->fnames.size()) + " fields, core Result has " + std::to_string(HMEX_N_RESULT_VEC + 1));
    if (I && I->fnames.size() != (std::size_t) HMEX_N_INFO + 1) bad(B + ":info:count", "info struct has " + std::to_string(I->fnames.size()) + " fields, core Info has " + std::to_string(HMEX_N_INFO) + " (+ status_val)");

    // fabricated Settings through settings_to_mx_struct and back through copy_mx_struct_to_settings
    piqp::Settings<double> s, def, back;
    idx = 0;
#define FABS_T(f) s.f = value_T(idx);
#define FABS_isize(f) s.f = (piqp::isize) value_isize(idx);
#define FABS_bool(f) s.f = !def.f;
#define FABS(f, kind) FABS_##kind(f) idx++;
    HMEX_SETTINGS_FIELDS(FABS)
    mxArray* S = settings_to_mx_struct(s);
#define CHK_S(f, kind) expect(B + ":settings_to_mx_struct:" #f, fscalar(S, #f, B + ":settings_to_mx_struct:" #f), (double) s.f);
    HMEX_SETTINGS_FIELDS(CHK_S)
    copy_mx_struct_to_settings(S, back);
#define CHK_B(f, kind) expect(B + ":copy_mx_struct_to_settings:" #f, (double) back.f, (double) s.f);
    HMEX_SETTINGS_FIELDS(CHK_B)
}

int main()
{
    try {
        run_backend<DenseSolver>("dense");
        run_backend<SparseSolver>("sparse");
        direct_calls();
    } catch (const mock::MexError& e) {
        bad("mex:dynamic:mexErrMsgTxt", e.what());
    }
    n_checks++;
    for (const auto& e : mock::errors()) bad("mex:dynamic:mock-runtime", e);
    if (mock::lock_count() != 0) bad("mex:dynamic:lock", "mexLock/mexUnlock unbalanced: " + std::to_string(mock::lock_count()));
    std::printf("DONE %ld %ld\n", n_checks, n_bad);
    return 0;
}
