// halias: property C19 "problem data are copied, never aliased or modified".
// Runs a call history (setup; solve; update(subset, reuse); solve; ...) against the real PIQP solvers through one of
// six caller-side interfaces.  Every argument of every setup()/update() call lives in its OWN malloc block:
//   mode A: the blocks stay alive and untouched until the end of the history;
//   mode B: a byte snapshot is taken before the call, compared after the call (bitwise: "unchanged"), then the block
//           is scribbled (NaN / huge doubles, garbage indices), freed, and the allocator is churned with garbage
//           blocks of the same size so that the memory is reused.
// In both modes the snapshot comparison is done.  After every solve the status, all 13 result vectors and all
// Info fields except the *_time fields are printed as hex bit patterns; the driver (vlib/props/c19.py) diffs the
// outputs of mode A and mode B bitwise.  With -fsanitize=address a use of freed caller memory aborts the process.
//
// api: 0 C++ DenseSolver, Eigen column-major Map (no copy at the Ref)       1 C++ DenseSolver, row-major user storage
//      2 C++ DenseSolver, column-major with padding (outer stride > rows)    3 C++ SparseSolver (CSC Map), kkt mode 0..3
//      4 C API dense (row-major arrays, piqp_data_dense)                     5 C API sparse (piqp_csc, piqp_data_sparse)
//
// protocol (stdin):
//   case <name> / mode <A|B|C> / api <k> [kkt] / set <setting> <value>
//   dmat <P|A|G> <r> <c> <row-major values>         smat <P|A|G> <r> <c> <nnz> <colptr> <rowidx> <values>
//   vec <c|b|h|lb|ub> <n> <values>
//   setup <names>    update <reuse> <names>    solve
#include <cstdio>
#include <cstdlib>
#include <cstring>
#include <cstdint>
#include <string>
#include <vector>
#include <memory>
#include <limits>

#include "piqp/piqp.hpp"
#include "piqp.h"

using namespace piqp;
typedef double T;

enum { M_P = 1, M_c = 2, M_A = 4, M_b = 8, M_G = 16, M_h = 32, M_lb = 64, M_ub = 128 };
static const char* ARGN[8] = {"P", "c", "A", "b", "G", "h", "lb", "ub"};

static bool g_modeB = false;
static long g_modified = 0;

// ------------------------------------------------------------------ caller-side buffers
struct Buf {
    void* p = nullptr;
    size_t bytes = 0;
    std::string name;
    int kind = 0;                       // 0 doubles, 1 ints, 2 struct (opaque bytes)
    std::vector<unsigned char> snap;
};
static std::vector<Buf> g_live;          // blocks of the current call
static std::vector<void*> g_keep;        // mode A: kept alive until the end of the case

// mode C: the caller REUSES its buffers: the block handed out for an argument name is the one used for that name in the
// previous call (when the size still fits exactly), overwritten in place with the new content.  A solver that remembers
// caller addresses, or anything derived from what used to be stored there, behaves differently from mode A.
static bool g_modeC = false;
struct Named { void* p; size_t bytes; };
static std::vector<std::pair<std::string, Named>> g_named;
static void* mk(const std::string& name, size_t bytes, int kind)
{
    Buf b;
    b.bytes = bytes;
    b.p = nullptr;
    if (g_modeC) {
        for (auto& kv : g_named) if (kv.first == name && kv.second.bytes == bytes) b.p = kv.second.p;
        if (!b.p) {
            b.p = malloc(bytes ? bytes : 1);
            bool found = false;
            for (auto& kv : g_named) if (kv.first == name) { kv.second = Named{b.p, bytes}; found = true; }   // old block stays allocated (kept)
            if (!found) g_named.push_back({name, Named{b.p, bytes}});
            g_keep.push_back(b.p);
        }
    } else
    b.p = malloc(bytes ? bytes : 1);
    b.name = name;
    b.kind = kind;
    g_live.push_back(b);
    return b.p;
}
static void snapshot_all()
{
    for (Buf& b : g_live) b.snap.assign((unsigned char*) b.p, (unsigned char*) b.p + b.bytes);
}
// after the call: bitwise comparison with the snapshot; mode B: scribble + free + churn
static void after_call(const char* op)
{
    for (Buf& b : g_live) {
        if (b.bytes && memcmp(b.p, b.snap.data(), b.bytes) != 0) {
            size_t k = 0;
            while (k < b.bytes && ((unsigned char*) b.p)[k] == b.snap[k]) k++;
            g_modified++;
            if (b.kind == 0) {
                size_t e = k / sizeof(T);
                uint64_t before, after;
                memcpy(&before, b.snap.data() + e * sizeof(T), 8);
                memcpy(&after, (unsigned char*) b.p + e * sizeof(T), 8);
                printf("modified op=%s arg=%s element=%zu before=%016llx after=%016llx\n", op, b.name.c_str(), e,
                       (unsigned long long) before, (unsigned long long) after);
            } else {
                printf("modified op=%s arg=%s byte=%zu before=%02x after=%02x\n", op, b.name.c_str(), k, b.snap[k], ((unsigned char*) b.p)[k]);
            }
        }
    }
    if (g_modeC) { g_live.clear(); return; }          // blocks stay where they are, to be overwritten by the next call
    if (!g_modeB) {
        for (Buf& b : g_live) g_keep.push_back(b.p);
        g_live.clear();
        return;
    }
    std::vector<size_t> sizes;
    for (Buf& b : g_live) {
        if (b.kind == 0) {
            T* d = (T*) b.p;
            size_t n = b.bytes / sizeof(T);
            for (size_t i = 0; i < n; i++)
                d[i] = (i % 3 == 0) ? std::numeric_limits<T>::quiet_NaN() : (i % 3 == 1) ? T(1.7e308) : T(-3.3e300);
        } else if (b.kind == 1) {
            int* d = (int*) b.p;
            size_t n = b.bytes / sizeof(int);
            for (size_t i = 0; i < n; i++) d[i] = (i % 2) ? 0x7f7f7f7f : -12345;
        } else {
            memset(b.p, 0xEE, b.bytes);
        }
        sizes.push_back(b.bytes);
        free(b.p);
    }
    g_live.clear();
    // churn: hand the same sizes out again, fill them with garbage, give them back
    std::vector<void*> tmp;
    for (size_t s : sizes) { void* q = malloc(s ? s : 1); memset(q, 0xA5, s); tmp.push_back(q); }
    for (void* q : tmp) free(q);
}
static void release_kept()
{
    for (void* q : g_keep) free(q);
    g_keep.clear();
}

// ------------------------------------------------------------------ staged definitions (harness-owned, never passed)
struct DMat { long r = 0, c = 0; std::vector<T> v; };                                 // row-major
struct SMat { long r = 0, c = 0; std::vector<int> p, i; std::vector<T> x; };
struct Stage {
    DMat dP, dA, dG;
    SMat sP, sA, sG;
    std::vector<T> c, b, h, lb, ub;
    const DMat& dm(int k) const { return k == 0 ? dP : k == 2 ? dA : dG; }
    const SMat& sm(int k) const { return k == 0 ? sP : k == 2 ? sA : sG; }
    const std::vector<T>& vec(int k) const { return k == 1 ? c : k == 3 ? b : k == 5 ? h : k == 6 ? lb : ub; }
};

static T* mkvec(const char* nm, const std::vector<T>& v)
{
    T* d = (T*) mk(nm, v.size() * sizeof(T), 0);
    if (!v.empty()) memcpy(d, v.data(), v.size() * sizeof(T));
    return d;
}

// ------------------------------------------------------------------ output
static void hexvec(const char* nm, const T* d, long n)
{
    printf("%s", nm);
    for (long k = 0; k < n; k++) { uint64_t u; memcpy(&u, d + k, 8); printf(" %016llx", (unsigned long long) u); }
    printf("\n");
}
static unsigned long long bits(T v) { uint64_t u; memcpy(&u, &v, 8); return u; }

template<typename S>
static bool apply_setting(S& s, const std::string& k, double v)
{
#define SETT(name) if (k == #name) { s.name = (T) v; return true; }
#define SETI(name) if (k == #name) { s.name = (isize) v; return true; }
#define SETB(name) if (k == #name) { s.name = (v != 0); return true; }
    SETT(rho_init) SETT(delta_init) SETT(eps_abs) SETT(eps_rel) SETB(check_duality_gap) SETT(eps_duality_gap_abs)
    SETT(eps_duality_gap_rel) SETT(reg_lower_limit) SETT(reg_finetune_lower_limit) SETI(reg_finetune_primal_update_threshold)
    SETI(reg_finetune_dual_update_threshold) SETI(max_iter) SETI(max_factor_retires) SETB(preconditioner_scale_cost)
    SETI(preconditioner_iter) SETT(tau) SETB(iterative_refinement_always_enabled) SETT(iterative_refinement_eps_abs)
    SETT(iterative_refinement_eps_rel) SETI(iterative_refinement_max_iter) SETT(iterative_refinement_min_improvement_rate)
    SETT(iterative_refinement_static_regularization_eps) SETT(iterative_refinement_static_regularization_rel)
    return false;
#undef SETT
#undef SETI
#undef SETB
}
static bool apply_setting_c(piqp_settings& s, const std::string& k, double v)
{
#define SETT(name) if (k == #name) { s.name = (piqp_float) v; return true; }
#define SETI(name) if (k == #name) { s.name = (piqp_int) v; return true; }
    SETT(rho_init) SETT(delta_init) SETT(eps_abs) SETT(eps_rel) SETI(check_duality_gap) SETT(eps_duality_gap_abs)
    SETT(eps_duality_gap_rel) SETT(reg_lower_limit) SETT(reg_finetune_lower_limit) SETI(reg_finetune_primal_update_threshold)
    SETI(reg_finetune_dual_update_threshold) SETI(max_iter) SETI(max_factor_retires) SETI(preconditioner_scale_cost)
    SETI(preconditioner_iter) SETT(tau) SETI(iterative_refinement_always_enabled) SETT(iterative_refinement_eps_abs)
    SETT(iterative_refinement_eps_rel) SETI(iterative_refinement_max_iter) SETT(iterative_refinement_min_improvement_rate)
    SETT(iterative_refinement_static_regularization_eps) SETT(iterative_refinement_static_regularization_rel)
    return false;
#undef SETT
#undef SETI
}

template<typename R>
static void print_result_cpp(int status, const R& r, long n, long p, long m)
{
    printf("status %d iter %ld factor_retires %ld no_primal_update %ld no_dual_update %ld\n", status, (long) r.info.iter,
           (long) r.info.factor_retires, (long) r.info.no_primal_update, (long) r.info.no_dual_update);
    printf("info %016llx %016llx %016llx %016llx %016llx %016llx %016llx %016llx %016llx %016llx %016llx %016llx %016llx %016llx %016llx\n",
           bits(r.info.rho), bits(r.info.delta), bits(r.info.mu), bits(r.info.sigma), bits(r.info.primal_step), bits(r.info.dual_step),
           bits(r.info.primal_inf), bits(r.info.primal_rel_inf), bits(r.info.dual_inf), bits(r.info.dual_rel_inf),
           bits(r.info.primal_obj), bits(r.info.dual_obj), bits(r.info.duality_gap), bits(r.info.duality_gap_rel), bits(r.info.reg_limit));
    hexvec("x", r.x.data(), n); hexvec("y", r.y.data(), p); hexvec("z", r.z.data(), m);
    hexvec("z_lb", r.z_lb.data(), n); hexvec("z_ub", r.z_ub.data(), n);
    hexvec("s", r.s.data(), m); hexvec("s_lb", r.s_lb.data(), n); hexvec("s_ub", r.s_ub.data(), n);
    hexvec("zeta", r.zeta.data(), n); hexvec("lambda", r.lambda.data(), p); hexvec("nu", r.nu.data(), m);
    hexvec("nu_lb", r.nu_lb.data(), n); hexvec("nu_ub", r.nu_ub.data(), n);
}
static void print_result_c(int status, const piqp_result* r, long n, long p, long m)
{
    printf("status %d iter %ld factor_retires %ld no_primal_update %ld no_dual_update %ld\n", status, (long) r->info.iter,
           (long) r->info.factor_retires, (long) r->info.no_primal_update, (long) r->info.no_dual_update);
    printf("info %016llx %016llx %016llx %016llx %016llx %016llx %016llx %016llx %016llx %016llx %016llx %016llx %016llx %016llx %016llx\n",
           bits(r->info.rho), bits(r->info.delta), bits(r->info.mu), bits(r->info.sigma), bits(r->info.primal_step), bits(r->info.dual_step),
           bits(r->info.primal_inf), bits(r->info.primal_rel_inf), bits(r->info.dual_inf), bits(r->info.dual_rel_inf),
           bits(r->info.primal_obj), bits(r->info.dual_obj), bits(r->info.duality_gap), bits(r->info.duality_gap_rel), bits(r->info.reg_limit));
    if ((int) r->info.status != status) printf("error: result->info.status %d differs from the returned status %d\n", (int) r->info.status, status);
    hexvec("x", r->x, n); hexvec("y", r->y, p); hexvec("z", r->z, m);
    hexvec("z_lb", r->z_lb, n); hexvec("z_ub", r->z_ub, n);
    hexvec("s", r->s, m); hexvec("s_lb", r->s_lb, n); hexvec("s_ub", r->s_ub, n);
    hexvec("zeta", r->zeta, n); hexvec("lambda", r->lambda, p); hexvec("nu", r->nu, m);
    hexvec("nu_lb", r->nu_lb, n); hexvec("nu_ub", r->nu_ub, n);
}

// ------------------------------------------------------------------ interface runners
struct IRun {
    long n = 0, p = 0, m = 0;
    virtual ~IRun() {}
    virtual bool set(const std::string& k, double v) = 0;
    virtual void setup(const Stage& st, unsigned mask) = 0;
    virtual void update(const Stage& st, unsigned mask, bool reuse) = 0;
    virtual void solve() = 0;
};

typedef Eigen::Matrix<T, Eigen::Dynamic, Eigen::Dynamic, Eigen::RowMajor> RowMat;

// C++ dense; layout 0 column-major, 1 row-major, 2 column-major padded
struct CppDense : IRun {
    DenseSolver<T> solver;
    int layout;
    explicit CppDense(int l) : layout(l) {}
    bool set(const std::string& k, double v) override { return apply_setting(solver.settings(), k, v); }

    // builds the caller block and the optional<CMatRef>; for layout 1 the Ref holds its own column-major copy for the
    // duration of the call (what a user passing row-major storage gets), for 0 and 2 it refers to the caller block.
    void mat_arg(const char* nm, const DMat& d, optional<CMatRef<T>>& out)
    {
        if (layout == 0) {
            T* q = (T*) mk(nm, (size_t) (d.r * d.c) * sizeof(T), 0);
            for (long i = 0; i < d.r; i++) for (long j = 0; j < d.c; j++) q[j * d.r + i] = d.v[i * d.c + j];
            out.emplace(Eigen::Map<const Mat<T>>(q, d.r, d.c));
        } else if (layout == 1) {
            T* q = (T*) mk(nm, (size_t) (d.r * d.c) * sizeof(T), 0);
            if (d.r * d.c) memcpy(q, d.v.data(), (size_t) (d.r * d.c) * sizeof(T));
            out.emplace(Eigen::Map<const RowMat>(q, d.r, d.c));
        } else {
            long ld = d.r + 3;
            T* q = (T*) mk(nm, (size_t) (ld * d.c) * sizeof(T), 0);
            for (long k = 0; k < ld * d.c; k++) q[k] = T(-777.25);
            for (long i = 0; i < d.r; i++) for (long j = 0; j < d.c; j++) q[j * ld + i] = d.v[i * d.c + j];
            out.emplace(Eigen::Map<const Mat<T>, 0, Eigen::OuterStride<>>(q, d.r, d.c, Eigen::OuterStride<>(ld)));
        }
    }
    void vec_arg(const char* nm, const std::vector<T>& v, optional<CVecRef<T>>& out)
    {
        T* q = mkvec(nm, v);
        out.emplace(Eigen::Map<const Vec<T>>(q, (long) v.size()));
    }
    void build(const Stage& st, unsigned mask, optional<CMatRef<T>>& P, optional<CVecRef<T>>& c, optional<CMatRef<T>>& A,
               optional<CVecRef<T>>& b, optional<CMatRef<T>>& G, optional<CVecRef<T>>& h, optional<CVecRef<T>>& lb, optional<CVecRef<T>>& ub)
    {
        if (mask & M_P) mat_arg("P", st.dP, P);
        if (mask & M_c) vec_arg("c", st.c, c);
        if (mask & M_A) mat_arg("A", st.dA, A);
        if (mask & M_b) vec_arg("b", st.b, b);
        if (mask & M_G) mat_arg("G", st.dG, G);
        if (mask & M_h) vec_arg("h", st.h, h);
        if (mask & M_lb) vec_arg("lb", st.lb, lb);
        if (mask & M_ub) vec_arg("ub", st.ub, ub);
    }
    void setup(const Stage& st, unsigned mask) override
    {
        n = st.dP.r; p = (mask & M_A) ? st.dA.r : 0; m = (mask & M_G) ? st.dG.r : 0;
        {
            optional<CMatRef<T>> P, A, G;
            optional<CVecRef<T>> c, b, h, lb, ub;
            build(st, mask, P, c, A, b, G, h, lb, ub);
            snapshot_all();
            solver.setup(*P, *c, A, b, G, h, lb, ub);
        }   // the Ref objects (and, for row-major input, their private copies) die here, before the blocks are released
        after_call("setup");
        printf("setup done\n");
    }
    void update(const Stage& st, unsigned mask, bool reuse) override
    {
        {
            optional<CMatRef<T>> P, A, G;
            optional<CVecRef<T>> c, b, h, lb, ub;
            build(st, mask, P, c, A, b, G, h, lb, ub);
            snapshot_all();
            solver.update(P, c, A, b, G, h, lb, ub, reuse);
        }
        after_call("update");
        printf("update done\n");
    }
    void solve() override
    {
        Status s = solver.solve();
        print_result_cpp((int) s, solver.result(), n, p, m);
    }
};

template<int Mode>
struct CppSparse : IRun {
    SparseSolver<T, int, Mode> solver;
    typedef CSparseMatRef<T, int> R;
    bool set(const std::string& k, double v) override { return apply_setting(solver.settings(), k, v); }
    void mat_arg(const char* nm, const SMat& s, optional<R>& out)
    {
        std::string b(nm);
        int* pp = (int*) mk(b + ".outer", s.p.size() * sizeof(int), 1);
        int* ii = (int*) mk(b + ".inner", s.i.size() * sizeof(int), 1);
        T* xx = (T*) mk(b + ".values", s.x.size() * sizeof(T), 0);
        memcpy(pp, s.p.data(), s.p.size() * sizeof(int));
        if (!s.i.empty()) memcpy(ii, s.i.data(), s.i.size() * sizeof(int));
        if (!s.x.empty()) memcpy(xx, s.x.data(), s.x.size() * sizeof(T));
        out.emplace(Eigen::Map<const SparseMat<T, int>>(s.r, s.c, (long) s.x.size(), pp, ii, xx));
    }
    void vec_arg(const char* nm, const std::vector<T>& v, optional<CVecRef<T>>& out)
    {
        T* q = mkvec(nm, v);
        out.emplace(Eigen::Map<const Vec<T>>(q, (long) v.size()));
    }
    void build(const Stage& st, unsigned mask, optional<R>& P, optional<CVecRef<T>>& c, optional<R>& A, optional<CVecRef<T>>& b,
               optional<R>& G, optional<CVecRef<T>>& h, optional<CVecRef<T>>& lb, optional<CVecRef<T>>& ub)
    {
        if (mask & M_P) mat_arg("P", st.sP, P);
        if (mask & M_c) vec_arg("c", st.c, c);
        if (mask & M_A) mat_arg("A", st.sA, A);
        if (mask & M_b) vec_arg("b", st.b, b);
        if (mask & M_G) mat_arg("G", st.sG, G);
        if (mask & M_h) vec_arg("h", st.h, h);
        if (mask & M_lb) vec_arg("lb", st.lb, lb);
        if (mask & M_ub) vec_arg("ub", st.ub, ub);
    }
    void setup(const Stage& st, unsigned mask) override
    {
        n = st.sP.r; p = (mask & M_A) ? st.sA.r : 0; m = (mask & M_G) ? st.sG.r : 0;
        {
            optional<R> P, A, G;
            optional<CVecRef<T>> c, b, h, lb, ub;
            build(st, mask, P, c, A, b, G, h, lb, ub);
            snapshot_all();
            solver.setup(*P, *c, A, b, G, h, lb, ub);
        }
        after_call("setup");
        printf("setup done\n");
    }
    void update(const Stage& st, unsigned mask, bool reuse) override
    {
        {
            optional<R> P, A, G;
            optional<CVecRef<T>> c, b, h, lb, ub;
            build(st, mask, P, c, A, b, G, h, lb, ub);
            snapshot_all();
            solver.update(P, c, A, b, G, h, lb, ub, reuse);
        }
        after_call("update");
        printf("update done\n");
    }
    void solve() override
    {
        Status s = solver.solve();
        print_result_cpp((int) s, solver.result(), n, p, m);
    }
};

// C API
struct CApi : IRun {
    bool dense;
    piqp_workspace* work = nullptr;
    piqp_settings settings;
    explicit CApi(bool d) : dense(d) { piqp_set_default_settings(&settings); }
    ~CApi() override { if (work) piqp_cleanup(work); }
    bool set(const std::string& k, double v) override
    {
        bool ok = apply_setting_c(settings, k, v);
        // after setup a settings change reaches the solver through piqp_update_settings (the struct is the caller's)
        if (ok && work) piqp_update_settings(work, &settings);
        return ok;
    }

    piqp_float* dmat_arg(const char* nm, const DMat& d)
    {
        piqp_float* q = (piqp_float*) mk(nm, (size_t) (d.r * d.c) * sizeof(piqp_float), 0);
        if (d.r * d.c) memcpy(q, d.v.data(), (size_t) (d.r * d.c) * sizeof(piqp_float));
        return q;
    }
    piqp_csc* smat_arg(const char* nm, const SMat& s)
    {
        std::string b(nm);
        piqp_int* pp = (piqp_int*) mk(b + ".p", s.p.size() * sizeof(piqp_int), 1);
        piqp_int* ii = (piqp_int*) mk(b + ".i", s.i.size() * sizeof(piqp_int), 1);
        piqp_float* xx = (piqp_float*) mk(b + ".x", s.x.size() * sizeof(piqp_float), 0);
        memcpy(pp, s.p.data(), s.p.size() * sizeof(piqp_int));
        if (!s.i.empty()) memcpy(ii, s.i.data(), s.i.size() * sizeof(piqp_int));
        if (!s.x.empty()) memcpy(xx, s.x.data(), s.x.size() * sizeof(piqp_float));
        // the piqp_csc header itself is one more caller block (piqp_csc_matrix would malloc it; we own it the same way)
        piqp_csc* hdr = (piqp_csc*) mk(b + ".csc", sizeof(piqp_csc), 2);
        memset(hdr, 0, sizeof(piqp_csc));
        hdr->m = (piqp_int) s.r; hdr->n = (piqp_int) s.c; hdr->nnz = (piqp_int) s.x.size();
        hdr->p = pp; hdr->i = ii; hdr->x = xx;
        return hdr;
    }
    void setup(const Stage& st, unsigned mask) override
    {
        n = dense ? st.dP.r : st.sP.r;
        p = (mask & M_A) ? (dense ? st.dA.r : st.sA.r) : 0;
        m = (mask & M_G) ? (dense ? st.dG.r : st.sG.r) : 0;
        piqp_settings* sett = (piqp_settings*) mk("settings", sizeof(piqp_settings), 2);
        memcpy(sett, &settings, sizeof(piqp_settings));
        if (dense) {
            piqp_data_dense* d = (piqp_data_dense*) mk("data", sizeof(piqp_data_dense), 2);
            memset(d, 0, sizeof(*d));
            d->n = (piqp_int) n; d->p = (piqp_int) p; d->m = (piqp_int) m;
            d->P = dmat_arg("P", st.dP);
            d->c = mkvec("c", st.c);
            d->A = (mask & M_A) ? dmat_arg("A", st.dA) : nullptr;
            d->b = (mask & M_b) ? mkvec("b", st.b) : nullptr;
            d->G = (mask & M_G) ? dmat_arg("G", st.dG) : nullptr;
            d->h = (mask & M_h) ? mkvec("h", st.h) : nullptr;
            d->x_lb = (mask & M_lb) ? mkvec("lb", st.lb) : nullptr;
            d->x_ub = (mask & M_ub) ? mkvec("ub", st.ub) : nullptr;
            snapshot_all();
            piqp_setup_dense(&work, d, sett);
        } else {
            piqp_data_sparse* d = (piqp_data_sparse*) mk("data", sizeof(piqp_data_sparse), 2);
            memset(d, 0, sizeof(*d));
            d->n = (piqp_int) n; d->p = (piqp_int) p; d->m = (piqp_int) m;
            d->P = smat_arg("P", st.sP);
            d->c = mkvec("c", st.c);
            d->A = (mask & M_A) ? smat_arg("A", st.sA) : nullptr;
            d->b = (mask & M_b) ? mkvec("b", st.b) : nullptr;
            d->G = (mask & M_G) ? smat_arg("G", st.sG) : nullptr;
            d->h = (mask & M_h) ? mkvec("h", st.h) : nullptr;
            d->x_lb = (mask & M_lb) ? mkvec("lb", st.lb) : nullptr;
            d->x_ub = (mask & M_ub) ? mkvec("ub", st.ub) : nullptr;
            snapshot_all();
            piqp_setup_sparse(&work, d, sett);
        }
        after_call("setup");
        printf("setup done\n");
    }
    void update(const Stage& st, unsigned mask, bool) override
    {
        if (dense) {
            piqp_float* P = (mask & M_P) ? dmat_arg("P", st.dP) : nullptr;
            piqp_float* c = (mask & M_c) ? mkvec("c", st.c) : nullptr;
            piqp_float* A = (mask & M_A) ? dmat_arg("A", st.dA) : nullptr;
            piqp_float* b = (mask & M_b) ? mkvec("b", st.b) : nullptr;
            piqp_float* G = (mask & M_G) ? dmat_arg("G", st.dG) : nullptr;
            piqp_float* h = (mask & M_h) ? mkvec("h", st.h) : nullptr;
            piqp_float* lb = (mask & M_lb) ? mkvec("lb", st.lb) : nullptr;
            piqp_float* ub = (mask & M_ub) ? mkvec("ub", st.ub) : nullptr;
            snapshot_all();
            piqp_update_dense(work, P, c, A, b, G, h, lb, ub);
        } else {
            piqp_csc* P = (mask & M_P) ? smat_arg("P", st.sP) : nullptr;
            piqp_float* c = (mask & M_c) ? mkvec("c", st.c) : nullptr;
            piqp_csc* A = (mask & M_A) ? smat_arg("A", st.sA) : nullptr;
            piqp_float* b = (mask & M_b) ? mkvec("b", st.b) : nullptr;
            piqp_csc* G = (mask & M_G) ? smat_arg("G", st.sG) : nullptr;
            piqp_float* h = (mask & M_h) ? mkvec("h", st.h) : nullptr;
            piqp_float* lb = (mask & M_lb) ? mkvec("lb", st.lb) : nullptr;
            piqp_float* ub = (mask & M_ub) ? mkvec("ub", st.ub) : nullptr;
            snapshot_all();
            piqp_update_sparse(work, P, c, A, b, G, h, lb, ub);
        }
        after_call("update");
        printf("update done\n");
    }
    void solve() override
    {
        piqp_status s = piqp_solve(work);
        print_result_c((int) s, work->result, n, p, m);
    }
};

// ------------------------------------------------------------------ parsing
struct Tok {
    char* s;
    explicit Tok(char* line) : s(line) {}
    char* next()
    {
        while (*s == ' ' || *s == '\t') s++;
        if (!*s || *s == '\n') return nullptr;
        char* b = s;
        while (*s && *s != ' ' && *s != '\t' && *s != '\n') s++;
        if (*s) { *s = 0; s++; }
        return b;
    }
    long nat() { char* t = next(); if (!t) { printf("error: missing token\n"); exit(3); } return strtol(t, nullptr, 10); }
    double num() { char* t = next(); if (!t) { printf("error: missing token\n"); exit(3); } return strtod(t, nullptr); }
};
static unsigned parse_mask(Tok& t)
{
    unsigned m = 0;
    while (char* w = t.next()) {
        bool ok = false;
        for (int k = 0; k < 8; k++) if (!strcmp(w, ARGN[k])) { m |= 1u << k; ok = true; }
        if (!ok) printf("error: unknown argument name %s\n", w);
    }
    return m;
}

static IRun* make_runner(int api, int kkt)
{
    switch (api) {
        case 0: return new CppDense(0);
        case 1: return new CppDense(1);
        case 2: return new CppDense(2);
        case 3:
            switch (kkt) {
                case 0: return new CppSparse<KKTMode::KKT_FULL>();
                case 1: return new CppSparse<KKTMode::KKT_EQ_ELIMINATED>();
                case 2: return new CppSparse<KKTMode::KKT_INEQ_ELIMINATED>();
                default: return new CppSparse<KKTMode::KKT_ALL_ELIMINATED>();
            }
        case 4: return new CApi(true);
        default: return new CApi(false);
    }
}

int main()
{
    std::unique_ptr<IRun> run;
    Stage st;
    char* line = nullptr;
    size_t cap = 0;
    while (getline(&line, &cap, stdin) > 0) {
        Tok t(line);
        char* cmd = t.next();
        if (!cmd || cmd[0] == '#') continue;
        std::string c(cmd);
        if (c == "case") {
            run.reset();
            release_kept();
            st = Stage();
            g_modeB = false;
            g_modeC = false;
            g_named.clear();
            char* nm = t.next();
            printf("case %s\n", nm ? nm : "?");
        }
        else if (c == "mode") { char* w = t.next(); g_modeB = (w && w[0] == 'B'); g_modeC = (w && w[0] == 'C'); }
        else if (c == "api") { int a = (int) t.nat(); char* k = t.next(); run.reset(make_runner(a, k ? atoi(k) : 0)); }
        else if (c == "set") { char* k = t.next(); double v = t.num(); if (!run || !run->set(k, v)) printf("error: unknown setting %s\n", k); }
        else if (c == "dmat") {
            char* w = t.next();
            DMat d; d.r = t.nat(); d.c = t.nat(); d.v.resize((size_t) (d.r * d.c));
            for (long k = 0; k < d.r * d.c; k++) d.v[k] = t.num();
            (w[0] == 'P' ? st.dP : w[0] == 'A' ? st.dA : st.dG) = d;
        }
        else if (c == "smat") {
            char* w = t.next();
            SMat s; s.r = t.nat(); s.c = t.nat();
            long nnz = t.nat();
            s.p.resize(s.c + 1); s.i.resize(nnz); s.x.resize(nnz);
            for (long k = 0; k <= s.c; k++) s.p[k] = (int) t.nat();
            for (long k = 0; k < nnz; k++) s.i[k] = (int) t.nat();
            for (long k = 0; k < nnz; k++) s.x[k] = t.num();
            (w[0] == 'P' ? st.sP : w[0] == 'A' ? st.sA : st.sG) = s;
        }
        else if (c == "vec") {
            std::string w(t.next());
            long n = t.nat();
            std::vector<T> v(n);
            for (long k = 0; k < n; k++) v[k] = t.num();
            (w == "c" ? st.c : w == "b" ? st.b : w == "h" ? st.h : w == "lb" ? st.lb : st.ub) = v;
        }
        else if (c == "setup") { if (run) run->setup(st, parse_mask(t)); else printf("error: no api\n"); }
        else if (c == "update") { bool reuse = t.nat() != 0; if (run) run->update(st, parse_mask(t), reuse); else printf("error: no api\n"); }
        else if (c == "solve") { if (run) run->solve(); }
        else printf("error: unknown command %s\n", cmd);
        fflush(stdout);
    }
    run.reset();
    release_kept();
    free(line);
    return 0;
}
