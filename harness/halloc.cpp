// halloc: counts every heap allocation / deallocation that happens INSIDE update() and solve() of the real
// PIQP solvers (property C11).  All allocation entry points of the process are interposed:
//   malloc / free / calloc / realloc / posix_memalign / aligned_alloc / memalign / valloc / pvalloc  (defined here,
//   forwarding to glibc's __libc_* entry points) and every global operator new / delete variant.
// The counters are armed only between the instruction before and the instruction after the call of
// Solver::update(...) / Solver::solve(); every argument object (matrices, vectors, optional<Ref<...>>) exists
// before arming, all I/O happens disarmed.
//
// One binary per back end (-DHBE=0 dense, 1..4 sparse KKT_FULL / EQ_ELIMINATED / INEQ_ELIMINATED / ALL_ELIMINATED),
// each with the Ruiz and the identity preconditioner.  Compile with -DEIGEN_STACK_ALLOCATION_LIMIT=<large>;
// the program raises its own stack limit (re-exec) so that Eigen's alloca scratch fits.
//
// Line protocol (stdin):
//   case <name>
//   pre <0 ruiz|1 identity>
//   set <setting> <value>
//   smat <P|A|G> <rows> <cols> <nnz> <colptr x (cols+1)> <rowidx x nnz> <values x nnz>     (CSC; dense back end densifies)
//   vec  <c|b|h|lb|ub> <n> <values>
//   setup  <names...>            names from {P c A b G h lb ub}: which arguments are passed
//   update <reuse 0|1> <names...>
//   solve
//   fail | fail from <k> | fail at <i...>   factorisation calls of the following solves that are made to fail (hook)
//   probe                        instrument self-test (known allocations inside an armed region)
// stdout: "case <name>", one line per op.  update/solve lines carry the counters of that armed call:
//   malloc= free= calloc= realloc= memalign= new= delete= bytes= bt=<hits>x<return addresses>;...  (up to 8 distinct call stacks of allocating/freeing events)
#include <cstdio>
#include <cstdlib>
#include <cstring>
#include <string>
#include <vector>
#include <memory>
#include <new>
#include <execinfo.h>
#include <sys/resource.h>
#include <unistd.h>
#include <malloc.h>

// ------------------------------------------------------------------ interposition
extern "C" {
void* __libc_malloc(size_t);
void __libc_free(void*);
void* __libc_calloc(size_t, size_t);
void* __libc_realloc(void*, size_t);
void* __libc_memalign(size_t, size_t);
}

enum { MAXSITES = 8, MAXDEPTH = 32 };
struct Counts {
    long n_malloc, n_free, n_calloc, n_realloc, n_memalign, n_new, n_delete;
    unsigned long long bytes;
    // up to MAXSITES distinct call stacks (distinct = different return-address sequences) of allocating/freeing events
    void* bt[MAXSITES][MAXDEPTH];
    int nbt[MAXSITES];
    long hits[MAXSITES];
    int nsites;
    char first[12];
};
static volatile int g_armed = 0;
static volatile int g_in_note = 0;
static Counts g_cnt;

static inline void note(long Counts::*field, size_t bytes, const char* what)
{
    if (!g_armed || g_in_note) return;
    g_in_note = 1;
    g_cnt.*field += 1;
    g_cnt.bytes += bytes;
    if (g_cnt.nsites == 0) strncpy(g_cnt.first, what, sizeof(g_cnt.first) - 1);
    void* cur[MAXDEPTH];
    int n = backtrace(cur, MAXDEPTH);
    int k = 0;
    for (; k < g_cnt.nsites; k++)
        if (g_cnt.nbt[k] == n && memcmp(g_cnt.bt[k], cur, sizeof(void*) * (size_t) n) == 0) break;
    if (k < g_cnt.nsites) g_cnt.hits[k]++;
    else if (g_cnt.nsites < MAXSITES) {
        memcpy(g_cnt.bt[k], cur, sizeof(void*) * (size_t) n);
        g_cnt.nbt[k] = n;
        g_cnt.hits[k] = 1;
        g_cnt.nsites++;
    }
    g_in_note = 0;
}

extern "C" {
void* malloc(size_t n) noexcept { note(&Counts::n_malloc, n, "malloc"); return __libc_malloc(n); }
void free(void* p) noexcept { if (p) note(&Counts::n_free, 0, "free"); __libc_free(p); }
void* calloc(size_t a, size_t b) noexcept { note(&Counts::n_calloc, a * b, "calloc"); return __libc_calloc(a, b); }
void* realloc(void* p, size_t n) noexcept { note(&Counts::n_realloc, n, "realloc"); return __libc_realloc(p, n); }
void* memalign(size_t al, size_t n) noexcept { note(&Counts::n_memalign, n, "memalign"); return __libc_memalign(al, n); }
void* aligned_alloc(size_t al, size_t n) noexcept { note(&Counts::n_memalign, n, "aligned_al"); return __libc_memalign(al, n); }
int posix_memalign(void** out, size_t al, size_t n) noexcept
{
    note(&Counts::n_memalign, n, "posix_mema");
    void* p = __libc_memalign(al, n);
    if (!p) return 12;
    *out = p;
    return 0;
}
void* valloc(size_t n) noexcept { note(&Counts::n_memalign, n, "valloc"); return __libc_memalign(4096, n); }
void* pvalloc(size_t n) noexcept { note(&Counts::n_memalign, n, "pvalloc"); return __libc_memalign(4096, (n + 4095) & ~size_t(4095)); }
}

static void* new_impl(size_t n, size_t al)
{
    note(&Counts::n_new, n, "new");
    if (n == 0) n = 1;
    void* p = al > 16 ? __libc_memalign(al, n) : __libc_malloc(n);
    return p;
}
static void delete_impl(void* p)
{
    if (!p) return;
    note(&Counts::n_delete, 0, "delete");
    __libc_free(p);
}
void* operator new(size_t n) { void* p = new_impl(n, 0); if (!p) throw std::bad_alloc(); return p; }
void* operator new[](size_t n) { void* p = new_impl(n, 0); if (!p) throw std::bad_alloc(); return p; }
void* operator new(size_t n, const std::nothrow_t&) noexcept { return new_impl(n, 0); }
void* operator new[](size_t n, const std::nothrow_t&) noexcept { return new_impl(n, 0); }
void* operator new(size_t n, std::align_val_t a) { void* p = new_impl(n, (size_t) a); if (!p) throw std::bad_alloc(); return p; }
void* operator new[](size_t n, std::align_val_t a) { void* p = new_impl(n, (size_t) a); if (!p) throw std::bad_alloc(); return p; }
void* operator new(size_t n, std::align_val_t a, const std::nothrow_t&) noexcept { return new_impl(n, (size_t) a); }
void* operator new[](size_t n, std::align_val_t a, const std::nothrow_t&) noexcept { return new_impl(n, (size_t) a); }
void operator delete(void* p) noexcept { delete_impl(p); }
void operator delete[](void* p) noexcept { delete_impl(p); }
void operator delete(void* p, size_t) noexcept { delete_impl(p); }
void operator delete[](void* p, size_t) noexcept { delete_impl(p); }
void operator delete(void* p, const std::nothrow_t&) noexcept { delete_impl(p); }
void operator delete[](void* p, const std::nothrow_t&) noexcept { delete_impl(p); }
void operator delete(void* p, std::align_val_t) noexcept { delete_impl(p); }
void operator delete[](void* p, std::align_val_t) noexcept { delete_impl(p); }
void operator delete(void* p, size_t, std::align_val_t) noexcept { delete_impl(p); }
void operator delete[](void* p, size_t, std::align_val_t) noexcept { delete_impl(p); }
void operator delete(void* p, std::align_val_t, const std::nothrow_t&) noexcept { delete_impl(p); }
void operator delete[](void* p, std::align_val_t, const std::nothrow_t&) noexcept { delete_impl(p); }

static inline void arm() { memset(&g_cnt, 0, sizeof(g_cnt)); __sync_synchronize(); g_armed = 1; __sync_synchronize(); }
static inline void disarm() { __sync_synchronize(); g_armed = 0; __sync_synchronize(); }

// ------------------------------------------------------------------ PIQP
#include "piqp/piqp.hpp"

// fault injection (verification hook of /repo, guard PIQP_VERIF): factorisation calls of the next solve() whose index
// (0-based, counted from the start of that solve) is selected report a failure.  No allocation in the predicate.
#if defined(PIQP_VERIF) && __has_include("piqp/verif_hooks.hpp")
#define HAVE_FAIL_HOOK 1
#else
#define HAVE_FAIL_HOOK 0
#endif
static long g_fact_calls = 0;
static long g_fail_from = -1;            // every call with index >= g_fail_from fails (if >= 0)
static unsigned char g_fail_at[512];     // g_fail_at[i] != 0: call i fails
static long g_faults_injected = 0;
static bool fail_pred()
{
    long i = g_fact_calls++;
    bool f = (g_fail_from >= 0 && i >= g_fail_from) || (i < 512 && g_fail_at[i]);
    if (f) g_faults_injected++;
    return f;
}

#ifndef HBE
#define HBE 0
#endif

using namespace piqp;
typedef double T;

struct Csc { long r = 0, c = 0; std::vector<int> p, i; std::vector<T> x; };

static Counts g_copy;
static void print_counts(const char* head)
{
    g_copy = g_cnt;   // copy: printf itself may allocate (disarmed anyway)
    const Counts& c = g_copy;
    printf("%s malloc=%ld free=%ld calloc=%ld realloc=%ld memalign=%ld new=%ld delete=%ld bytes=%llu first=%s bt=",
           head, c.n_malloc, c.n_free, c.n_calloc, c.n_realloc, c.n_memalign, c.n_new, c.n_delete, c.bytes,
           c.nsites ? c.first : "-");
    for (int s = 0; s < c.nsites; s++) {
        printf("%s%ldx", s ? ";" : "", c.hits[s]);
        for (int k = 0; k < c.nbt[s]; k++) printf("%s%p", k ? "," : "", c.bt[s][k]);
    }
    printf("\n");
}

// instrument self-test: a known set of allocations inside an armed region must be seen by the counters
static void* volatile g_sink;
static void __attribute__((noinline)) probe_body()
{
    { Vec<T> v(100); v.setOnes(); g_sink = v.data(); }            // Eigen aligned_malloc + free
    { char* q = new char[10]; g_sink = q; delete[] q; }           // operator new[] / delete[]
    { void* q = nullptr; if (posix_memalign(&q, 64, 100) == 0) { g_sink = q; free(q); } }
    { void* q = calloc(4, 8); g_sink = q; q = realloc(q, 64); g_sink = q; free(q); }
    { SparseMat<T, int> s(3, 3); s.insert(1, 1) = 2.0; g_sink = s.valuePtr(); }
}
static void probe()
{
    fflush(stdout);
    arm();
    probe_body();
    disarm();
    print_counts("probe");
}

struct IRunner {
    virtual ~IRunner() {}
    virtual bool set(const std::string& k, double v) = 0;
    virtual void defmat(char which, const Csc& m) = 0;
    virtual void defvec(const std::string& which, const std::vector<T>& v) = 0;
    virtual void setup(unsigned mask) = 0;
    virtual void update(unsigned mask, bool reuse) = 0;
    virtual void solve() = 0;
};

enum { M_P = 1, M_c = 2, M_A = 4, M_b = 8, M_G = 16, M_h = 32, M_lb = 64, M_ub = 128 };

template<typename S>
static bool apply_setting(S& s, const std::string& k, double v)
{
#define SETT(name) if (k == #name) { s.name = (T) v; return true; }
#define SETI(name) if (k == #name) { s.name = (isize) v; return true; }
#define SETB(name) if (k == #name) { s.name = (v != 0); return true; }
    SETT(rho_init) SETT(delta_init) SETT(eps_abs) SETT(eps_rel) SETB(check_duality_gap) SETT(eps_duality_gap_abs)
    SETT(eps_duality_gap_rel) SETT(reg_lower_limit) SETT(reg_finetune_lower_limit) SETI(reg_finetune_primal_update_threshold)
    SETI(reg_finetune_dual_update_threshold) SETI(max_iter) SETI(max_factor_retires) SETB(preconditioner_scale_cost)
    SETI(preconditioner_iter) SETT(tau) SETB(iterative_refinement_always_enabled) SETT(iterative_refinement_eps_abs)
    SETT(iterative_refinement_eps_rel) SETI(iterative_refinement_max_iter) SETT(iterative_refinement_min_improvement_rate)
    SETT(iterative_refinement_static_regularization_eps) SETT(iterative_refinement_static_regularization_rel)
    SETB(compute_timings)
    return false;   // verbose is deliberately not offered: stdio buffers are not solver-owned memory
}

template<typename Solver, bool Dense> struct Store;
template<typename Solver> struct Store<Solver, true> {
    typedef Mat<T> M;
    typedef CMatRef<T> R;
    static void assign(M& dst, const Csc& m)
    {
        dst.setZero(m.r, m.c);
        for (long j = 0; j < m.c; j++) for (int k = m.p[j]; k < m.p[j + 1]; k++) dst(m.i[k], j) = m.x[k];
    }
};
template<typename Solver> struct Store<Solver, false> {
    typedef SparseMat<T, int> M;
    typedef CSparseMatRef<T, int> R;
    static void assign(M& dst, const Csc& m)
    {
        Eigen::Map<const SparseMat<T, int>> mp(m.r, m.c, (long) m.x.size(), m.p.data(), m.i.data(), m.x.data());
        dst = mp;
        dst.makeCompressed();
    }
};

template<typename Solver, bool Dense>
struct Runner : IRunner {
    typedef Store<Solver, Dense> St;
    typedef typename St::M M;
    typedef typename St::R R;
    Solver solver;
    M P, A, G;
    Vec<T> c, b, h, lb, ub;

    bool set(const std::string& k, double v) override { return apply_setting(solver.settings(), k, v); }
    void defmat(char which, const Csc& m) override { St::assign(which == 'P' ? P : which == 'A' ? A : G, m); }
    void defvec(const std::string& w, const std::vector<T>& v) override
    {
        Vec<T>& d = w == "c" ? c : w == "b" ? b : w == "h" ? h : w == "lb" ? lb : ub;
        d = Eigen::Map<const Vec<T>>(v.data(), (long) v.size());
    }
    void setup(unsigned mask) override
    {
        optional<R> oA, oG;
        optional<CVecRef<T>> ob, oh, olb, oub;
        if (mask & M_A) oA.emplace(A);
        if (mask & M_G) oG.emplace(G);
        if (mask & M_b) ob.emplace(b);
        if (mask & M_h) oh.emplace(h);
        if (mask & M_lb) olb.emplace(lb);
        if (mask & M_ub) oub.emplace(ub);
        solver.setup(R(P), CVecRef<T>(c), oA, ob, oG, oh, olb, oub);
        printf("setup n=%ld p=%ld m=%ld\n", (long) P.rows(), (mask & M_A) ? (long) A.rows() : 0L, (mask & M_G) ? (long) G.rows() : 0L);
    }
    void update(unsigned mask, bool reuse) override
    {
        optional<R> oP, oA, oG;
        optional<CVecRef<T>> oc, ob, oh, olb, oub;
        if (mask & M_P) oP.emplace(P);
        if (mask & M_A) oA.emplace(A);
        if (mask & M_G) oG.emplace(G);
        if (mask & M_c) oc.emplace(c);
        if (mask & M_b) ob.emplace(b);
        if (mask & M_h) oh.emplace(h);
        if (mask & M_lb) olb.emplace(lb);
        if (mask & M_ub) oub.emplace(ub);
        fflush(stdout);
        arm();
        solver.update(oP, oc, oA, ob, oG, oh, olb, oub, reuse);
        disarm();
        char head[64];
        snprintf(head, sizeof head, "update mask=%u reuse=%d", mask, (int) reuse);
        print_counts(head);
    }
    void solve() override
    {
        fflush(stdout);
        g_fact_calls = 0;
        g_faults_injected = 0;
        arm();
        Status st = solver.solve();
        disarm();
        char head[128];
        snprintf(head, sizeof head, "solve status=%d iter=%ld faults=%ld", (int) st, (long) solver.result().info.iter, g_faults_injected);
        print_counts(head);
    }
};

#if HBE == 0
typedef DenseSolver<T, dense::RuizEquilibration<T>> SolverRuiz;
typedef DenseSolver<T, dense::IdentityPreconditioner<T>> SolverId;
static const bool kDense = true;
#else
#if HBE == 1
static const int kMode = KKTMode::KKT_FULL;
#elif HBE == 2
static const int kMode = KKTMode::KKT_EQ_ELIMINATED;
#elif HBE == 3
static const int kMode = KKTMode::KKT_INEQ_ELIMINATED;
#else
static const int kMode = KKTMode::KKT_ALL_ELIMINATED;
#endif
typedef SparseSolver<T, int, kMode, sparse::RuizEquilibration<T, int>> SolverRuiz;
typedef SparseSolver<T, int, kMode, sparse::IdentityPreconditioner<T, int>> SolverId;
static const bool kDense = false;
#endif

// ------------------------------------------------------------------ parsing
struct Tok {
    char* s;
    explicit Tok(char* line) : s(line) {}
    char* next()
    {
        while (*s == ' ' || *s == '\t') s++;
        if (!*s || *s == '\n') return nullptr;
        char* b = s;
        while (*s && *s != ' ' && *s != '\t' && *s != '\n') s++;
        if (*s) { *s = 0; s++; }
        return b;
    }
    long nat() { char* t = next(); if (!t) { printf("error: missing token\n"); exit(3); } return strtol(t, nullptr, 10); }
    double num() { char* t = next(); if (!t) { printf("error: missing token\n"); exit(3); } return strtod(t, nullptr); }
};

static unsigned parse_mask(Tok& t)
{
    unsigned m = 0;
    while (char* w = t.next()) {
        std::string n(w);
        if (n == "P") m |= M_P; else if (n == "c") m |= M_c; else if (n == "A") m |= M_A; else if (n == "b") m |= M_b;
        else if (n == "G") m |= M_G; else if (n == "h") m |= M_h; else if (n == "lb") m |= M_lb; else if (n == "ub") m |= M_ub;
        else { printf("error: unknown argument name %s\n", w); }
    }
    return m;
}

int main(int argc, char** argv)
{
    // Eigen's product kernels take their scratch from the stack up to EIGEN_STACK_ALLOCATION_LIMIT: make room.
    {
        struct rlimit rl;
        const rlim_t want = 1024ul * 1024ul * 1024ul;
        if (getrlimit(RLIMIT_STACK, &rl) == 0 && rl.rlim_cur != RLIM_INFINITY && rl.rlim_cur < want && !getenv("HALLOC_REEXEC")) {
            rl.rlim_cur = (rl.rlim_max == RLIM_INFINITY || rl.rlim_max >= want) ? want : rl.rlim_max;
            if (setrlimit(RLIMIT_STACK, &rl) == 0) {
                setenv("HALLOC_REEXEC", "1", 1);
                execv("/proc/self/exe", argv);
            }
        }
    }
    (void) argc;
    // warm-up: backtrace() loads libgcc lazily (allocates) on its first call
    { void* tmp[4]; backtrace(tmp, 4); }
    printf("#halloc be=%d stack_limit=%ld\n", HBE, (long) EIGEN_STACK_ALLOCATION_LIMIT);

    std::unique_ptr<IRunner> run;
    int pre = 0;
    auto fresh = [&]() {
        if (pre == 0) run.reset(new Runner<SolverRuiz, kDense>());
        else run.reset(new Runner<SolverId, kDense>());
    };
    fresh();
    char* line = nullptr;
    size_t cap = 0;
    while (getline(&line, &cap, stdin) > 0) {
        Tok t(line);
        char* cmd = t.next();
        if (!cmd || cmd[0] == '#') continue;
        std::string c(cmd);
        if (c == "case") {
            char* nm = t.next(); printf("case %s\n", nm ? nm : "?"); pre = 0; fresh();
            memset(g_fail_at, 0, sizeof g_fail_at); g_fail_from = -1;
#if HAVE_FAIL_HOOK
            piqp_verif::fail_hook() = nullptr;
#endif
        }
        else if (c == "pre") { pre = (int) t.nat(); fresh(); }
        else if (c == "set") { char* k = t.next(); double v = t.num(); if (!run->set(k, v)) printf("error: unknown setting %s\n", k); }
        else if (c == "smat") {
            char* w = t.next();
            Csc m;
            m.r = t.nat(); m.c = t.nat();
            long nnz = t.nat();
            m.p.resize(m.c + 1); m.i.resize(nnz); m.x.resize(nnz);
            for (long k = 0; k <= m.c; k++) m.p[k] = (int) t.nat();
            for (long k = 0; k < nnz; k++) m.i[k] = (int) t.nat();
            for (long k = 0; k < nnz; k++) m.x[k] = t.num();
            run->defmat(w[0], m);
        }
        else if (c == "vec") {
            std::string w(t.next());
            long n = t.nat();
            std::vector<T> v(n);
            for (long k = 0; k < n; k++) v[k] = t.num();
            run->defvec(w, v);
        }
        else if (c == "setup") { run->setup(parse_mask(t)); }
        else if (c == "update") { bool reuse = t.nat() != 0; run->update(parse_mask(t), reuse); }
        else if (c == "solve") { run->solve(); }
        else if (c == "probe") { probe(); }
        else if (c == "fail") {
            // fail                -> no injected failures;   fail from <k>   |   fail at <i1> <i2> ...
            memset(g_fail_at, 0, sizeof g_fail_at);
            g_fail_from = -1;
            char* w = t.next();
            if (w && std::string(w) == "from") g_fail_from = t.nat();
            else if (w && std::string(w) == "at") { while (char* q = t.next()) { long i = strtol(q, nullptr, 10); if (i >= 0 && i < 512) g_fail_at[i] = 1; } }
#if HAVE_FAIL_HOOK
            piqp_verif::fail_hook() = (w ? &fail_pred : nullptr);
            printf("fail hook=1\n");
#else
            printf("fail hook=0\n");
#endif
        }
        else printf("error: unknown command %s\n", cmd);
    }
    run.reset();
    fflush(stdout);
    return 0;
}
