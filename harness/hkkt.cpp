// hkkt: drives the real PIQP KKT back ends instantiated with the exact scalar Q through the `kkt.*`
// line protocol (twin of lean/PiqpModel/Driver/KKTCmd.lean).
#include "proto.hpp"
#include "piqp/piqp.hpp"

using namespace piqp;
using DMat = Eigen::Matrix<Q, Eigen::Dynamic, Eigen::Dynamic>;
using DVec = Eigen::Matrix<Q, Eigen::Dynamic, 1>;

// ordering given by the test case (so that every permutation can be exercised, not only AMD's)
static std::vector<int> g_perm;
template<typename I>
class FixedOrdering {
public:
    Vec<I> P, P_inv;
    template<typename T> void init(const SparseMat<T, I>& A) {
        isize n = A.rows();
        P.resize(n); P_inv.resize(n);
        for (isize i = 0; i < n; i++) P[i] = (isize) g_perm.size() == n ? I(g_perm[(size_t) i]) : I(i);
        for (isize i = 0; i < n; i++) P_inv[P[i]] = I(i);
    }
    I operator[](isize idx) const { return P[idx]; }
    I operator()(isize idx) const { return P[idx]; }
    I inv(isize idx) const { return P_inv[idx]; }
    template<typename T> void perm(VecRef<T> x, const CVecRef<T>& b) { for (isize j = 0; j < x.rows(); j++) x[j] = b[P[j]]; }
    template<typename T> void permt(VecRef<T> x, const CVecRef<T>& b) { for (isize j = 0; j < x.rows(); j++) x[P[j]] = b[j]; }
};

struct Machine {
    virtual ~Machine() {}
    virtual void cmd(const std::string& c, Toks& t) = 0;
};

template<typename T> struct is_dense_data : std::false_type {};
template<> struct is_dense_data<dense::Data<Q>> : std::true_type {};

template<typename DataT, typename KKTT, int BE>
struct MachineT : Machine {
    isize n, p, m;
    DataT data;
    Settings<Q> settings;
    KKTT kkt;
    bool inited = false;
    bool fact_ok = false;   // KKT::solve's precondition: the last regularize_and_factorize succeeded
    static constexpr bool keepY = (BE == 1 || BE == 3);
    static constexpr bool keepZ = (BE == 1 || BE == 2);
    static constexpr bool isDense = (BE == 0);

    MachineT(isize n_, isize p_, isize m_) : n(n_), p(p_), m(m_), kkt(data, settings) {
        data.n = n; data.p = p; data.m = m;
        setP(DMat::Constant(n, n, Q(0)));
        setAT(DMat::Constant(p, n, Q(0)));
        setGT(DMat::Constant(m, n, Q(0)));
        data.c.resize(n); data.b.resize(p); data.h.resize(m);
        data.n_lb = 0; data.n_ub = 0;
        data.x_lb_idx.resize(n); data.x_ub_idx.resize(n);
        data.x_lb_idx.setZero(); data.x_ub_idx.setZero();
        data.x_lb_scaling = DVec::Constant(n, Q(1));
        data.x_ub_scaling = DVec::Constant(n, Q(1));
        data.x_lb_n.resize(n); data.x_ub.resize(n);
        settings.iterative_refinement_static_regularization_eps = Q(0);
        settings.iterative_refinement_static_regularization_rel = Q(0);
        settings.iterative_refinement_max_iter = 0;
        settings.iterative_refinement_eps_abs = Q(0);
        settings.iterative_refinement_eps_rel = Q(0);
        settings.iterative_refinement_min_improvement_rate = Q(1);
    }

    // ---- data setters: dense keeps a dense matrix, sparse keeps the pattern of the first assignment
    template<typename D = DataT>
    typename std::enable_if<is_dense_data<D>::value>::type setP(const DMat& P) {
        data.P_utri = P.template triangularView<Eigen::Upper>();
    }
    template<typename D = DataT>
    typename std::enable_if<!is_dense_data<D>::value>::type setP(const DMat& P) {
        if (!inited) data.P_utri = to_sparse<int>(P, true);
        else if (!set_values<int>(data.P_utri, P, true)) throw std::runtime_error("P outside pattern");
    }
    template<typename D = DataT>
    typename std::enable_if<is_dense_data<D>::value>::type setAT(const DMat& A) { data.AT = A.transpose(); }
    template<typename D = DataT>
    typename std::enable_if<!is_dense_data<D>::value>::type setAT(const DMat& A) {
        DMat AT = A.transpose();
        if (!inited) data.AT = to_sparse<int>(AT);
        else if (!set_values<int>(data.AT, AT)) throw std::runtime_error("A outside pattern");
    }
    template<typename D = DataT>
    typename std::enable_if<is_dense_data<D>::value>::type setGT(const DMat& G) { data.GT = G.transpose(); }
    template<typename D = DataT>
    typename std::enable_if<!is_dense_data<D>::value>::type setGT(const DMat& G) {
        DMat GT = G.transpose();
        if (!inited) data.GT = to_sparse<int>(GT);
        else if (!set_values<int>(data.GT, GT)) throw std::runtime_error("G outside pattern");
    }

    // ---- reduced matrix, un-permuted, as a dense symmetric matrix in code numbering
    template<typename D = DataT>
    typename std::enable_if<is_dense_data<D>::value, DMat>::type kred() {
        DMat K = kkt.kkt_mat;
        for (isize i = 0; i < n; i++) for (isize j = i + 1; j < n; j++) K(i, j) = K(j, i);
        return K;
    }
    template<typename D = DataT>
    typename std::enable_if<!is_dense_data<D>::value, DMat>::type kred() {
        isize N = kkt.PKPt.rows();
        DMat K = DMat::Constant(N, N, Q(0));
        for (isize jc = 0; jc < N; jc++)
            for (typename SparseMat<Q, int>::InnerIterator it(kkt.PKPt, jc); it; ++it) {
                isize oi = kkt.ordering[it.row()], oj = kkt.ordering[jc];
                K(oi, oj) = it.value();
                K(oj, oi) = it.value();
            }
        return K;
    }

    DVec headvec(Toks& t, isize cnt) {
        DVec v(n);   // tail stays poison
        for (isize i = 0; i < cnt; i++) v(i) = t.q();
        return v;
    }

    void cmd(const std::string& c, Toks& t) override {
        if (c == "kkt.P") setP(t.mat(n, n));
        else if (c == "kkt.A") setAT(t.mat(p, n));
        else if (c == "kkt.G") setGT(t.mat(m, n));
        else if (c == "kkt.lb" || c == "kkt.ub") {
            bool lb = c == "kkt.lb";
            isize cnt = t.nat();
            auto& idx = lb ? data.x_lb_idx : data.x_ub_idx;
            auto& sc = lb ? data.x_lb_scaling : data.x_ub_scaling;
            idx.setZero();
            sc = DVec::Constant(n, Q(1));
            for (isize i = 0; i < cnt; i++) idx(i) = t.nat();
            for (isize i = 0; i < cnt; i++) sc(i) = t.q();
            (lb ? data.n_lb : data.n_ub) = cnt;
        }
        else if (c == "kkt.set") {
            settings.iterative_refinement_static_regularization_eps = t.q();
            settings.iterative_refinement_static_regularization_rel = t.q();
            settings.iterative_refinement_max_iter = t.nat();
            settings.iterative_refinement_eps_abs = t.q();
            settings.iterative_refinement_eps_rel = t.q();
            settings.iterative_refinement_min_improvement_rate = t.q();
        }
        else if (c == "kkt.perm") {
            isize N = n + (keepY ? p : 0) + (keepZ ? m : 0);
            g_perm.clear();
            for (isize i = 0; i < N; i++) g_perm.push_back((int) t.nat());
        }
        else if (c == "kkt.init") {
            Q rho = t.q(), delta = t.q();
            kkt.init(rho, delta);
            inited = true;
        }
        else if (c == "kkt.scal") {
            Q rho = t.q(), delta = t.q();
            DVec s = t.vec(m), s_lb = headvec(t, data.n_lb), s_ub = headvec(t, data.n_ub);
            DVec z = t.vec(m), z_lb = headvec(t, data.n_lb), z_ub = headvec(t, data.n_ub);
            kkt.update_scalings(rho, delta, s, s_lb, s_ub, z, z_lb, z_ub);
        }
        else if (c == "kkt.upd") {
            int opt = 0;
            if (t.flag()) opt |= KKT_UPDATE_P;
            if (t.flag()) opt |= KKT_UPDATE_A;
            if (t.flag()) opt |= KKT_UPDATE_G;
            kkt.update_data(opt);
        }
        else if (c == "kkt.factor") {
            bool r = t.flag();
            bool ok = kkt.regularize_and_factorize(r);
            fact_ok = ok;
            std::cout << "factor " << (ok ? 1 : 0) << "\n";
        }
        else if (c == "kkt.solve" || c == "kkt.mult") {
            bool solve = c == "kkt.solve";
            bool r = solve ? t.flag() : false;
            DVec x = t.vec(n), y = t.vec(p), z = t.vec(m), z_lb = headvec(t, data.n_lb), z_ub = headvec(t, data.n_ub);
            DVec s = t.vec(m), s_lb = headvec(t, data.n_lb), s_ub = headvec(t, data.n_ub);
            DVec ox(n), oy(p), oz(m), ozl(n), ozu(n), os(m), osl(n), osu(n);
            // the solver never calls solve() after a failed factorisation (it retries or gives up): nothing to compare
            if (solve && !fact_ok) { std::cout << "solve none\n"; return; }
            if (solve) kkt.solve(x, y, z, z_lb, z_ub, s, s_lb, s_ub, ox, oy, oz, ozl, ozu, os, osl, osu, r);
            else kkt.multiply(x, y, z, z_lb, z_ub, s, s_lb, s_ub, ox, oy, oz, ozl, ozu, os, osl, osu);
            const char* pre = solve ? "d" : "r";
            std::cout << pre << "x " << vstr(ox) << "\n" << pre << "y " << vstr(oy) << "\n" << pre << "z " << vstr(oz) << "\n"
                      << pre << "z_lb " << vstr(ozl, data.n_lb) << "\n" << pre << "z_ub " << vstr(ozu, data.n_ub) << "\n"
                      << pre << "s " << vstr(os) << "\n" << pre << "s_lb " << vstr(osl, data.n_lb) << "\n"
                      << pre << "s_ub " << vstr(osu, data.n_ub) << "\n";
        }
        else if (c == "kkt.resid") {
            bool r = t.flag();
            DVec x = t.vec(n), y = t.vec(p), z = t.vec(m), z_lb = headvec(t, data.n_lb), z_ub = headvec(t, data.n_ub);
            DVec s = t.vec(m), s_lb = headvec(t, data.n_lb), s_ub = headvec(t, data.n_ub);
            DVec ox(n), oy(p), oz(m), ozl(n), ozu(n), os(m), osl(n), osu(n);
            DVec bx(n), by(p), bz(m), bzl(n), bzu(n), bs(m), bsl(n), bsu(n);
            if (!fact_ok) { std::cout << "resid none\n"; return; }
            kkt.solve(x, y, z, z_lb, z_ub, s, s_lb, s_ub, ox, oy, oz, ozl, ozu, os, osl, osu, r);
            kkt.multiply(ox, oy, oz, ozl, ozu, os, osl, osu, bx, by, bz, bzl, bzu, bs, bsl, bsu);
            bx -= x; by -= y; bz -= z; bs -= s;
            bzl.head(data.n_lb) -= z_lb.head(data.n_lb); bzu.head(data.n_ub) -= z_ub.head(data.n_ub);
            bsl.head(data.n_lb) -= s_lb.head(data.n_lb); bsu.head(data.n_ub) -= s_ub.head(data.n_ub);
            std::cout << "ex " << vstr(bx) << "\ney " << vstr(by) << "\nez " << vstr(bz) << "\n"
                      << "ez_lb " << vstr(bzl, data.n_lb) << "\nez_ub " << vstr(bzu, data.n_ub) << "\n"
                      << "es " << vstr(bs) << "\nes_lb " << vstr(bsl, data.n_lb) << "\nes_ub " << vstr(bsu, data.n_ub) << "\n";
        }
        else if (c == "kkt.dump") {
            DMat K = kred();
            std::cout << "Kxx " << mstr(K.topLeftCorner(n, n)) << "\n";
            isize off = n;
            if (keepY) {
                std::cout << "Kxy " << mstr(K.block(0, off, n, p)) << "\n";
                std::cout << "Kyy " << vstr(K.block(off, off, p, p).diagonal()) << "\n";
                off += p;
            }
            if (keepZ) {
                std::cout << "Kxz " << mstr(K.block(0, off, n, m)) << "\n";
                std::cout << "Kzz " << vstr(K.block(off, off, m, m).diagonal()) << "\n";
            }
        }
        else throw std::runtime_error("unknown kkt command " + c);
    }
};

int main() {
    std::ios::sync_with_stdio(false);
    std::unique_ptr<Machine> mach;
    std::string line;
    while (std::getline(std::cin, line)) {
        Toks t(line);
        if (t.empty()) continue;
        std::string c = t.next();
        if (c[0] == '#') continue;
        try {
            if (c == "case") {
                std::cout << "case";
                while (!t.empty()) std::cout << " " << t.next();
                std::cout << "\n";
            } else if (c == "kkt.new") {
                long be = t.nat(); long n = t.nat(), p = t.nat(), m = t.nat(); long sm = std::stol(t.next());
                Q::sqrt_mode() = (int) sm;
                g_perm.clear();
                Q::ev().reset();
                switch (be) {
                    case 0: mach.reset(new MachineT<dense::Data<Q>, dense::KKT<Q>, 0>(n, p, m)); break;
                    case 1: mach.reset(new MachineT<sparse::Data<Q, int>, sparse::KKT<Q, int, KKT_FULL, FixedOrdering<int>>, 1>(n, p, m)); break;
                    case 2: mach.reset(new MachineT<sparse::Data<Q, int>, sparse::KKT<Q, int, KKT_EQ_ELIMINATED, FixedOrdering<int>>, 2>(n, p, m)); break;
                    case 3: mach.reset(new MachineT<sparse::Data<Q, int>, sparse::KKT<Q, int, KKT_INEQ_ELIMINATED, FixedOrdering<int>>, 3>(n, p, m)); break;
                    default: mach.reset(new MachineT<sparse::Data<Q, int>, sparse::KKT<Q, int, KKT_ALL_ELIMINATED, FixedOrdering<int>>, 4>(n, p, m)); break;
                }
            } else {
                if (!mach) throw std::runtime_error("no kkt machine");
                mach->cmd(c, t);
            }
        } catch (const std::exception& e) {
            std::cout << "error " << e.what() << "\n";
        }
        std::cout.flush();
    }
    return 0;
}
