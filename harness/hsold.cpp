// hsold: the real PIQP solvers in double precision, driven through a line protocol.
//   * skeleton trace (tie B): at the PIQP_VERIF program points the scalars every control decision depends on are
//     printed as hex doubles (observation lines, upper case) together with the control state (lower case lines);
//   * fault injection in regularize_and_factorize via a 0/1 mask over the factorisation calls of the next solve;
//   * results/info printed bit-exactly (hex) for bitwise comparisons.
#include <algorithm>
#include <cstdint>
#include <cstdio>
#include <cstring>
#include <iostream>
#include <map>
#include <memory>
#include <sstream>
#include <string>
#include <vector>
#include <unistd.h>
#include <Eigen/Dense>
#include <Eigen/Sparse>
#include "piqp/piqp.hpp"

#ifndef PIQP_VERIF
#error "hsold needs the PIQP_VERIF hooks"
#endif

using namespace piqp;
using DMat = Eigen::MatrixXd;
using DVec = Eigen::VectorXd;
using SMat = Eigen::SparseMatrix<double, Eigen::ColMajor, int>;

static std::string hx(double d) { uint64_t u; std::memcpy(&u, &d, 8); char b[20]; std::snprintf(b, sizeof b, "%016llx", (unsigned long long) u); return b; }
static double parse_d(const std::string& s) {
    if (s == "inf") return std::numeric_limits<double>::infinity();
    if (s == "-inf") return -std::numeric_limits<double>::infinity();
    if (s.size() == 17 && s[0] == 'x') { uint64_t u = std::stoull(s.substr(1), nullptr, 16); double d; std::memcpy(&d, &u, 8); return d; }
    return std::stod(s);
}
struct Toks {
    std::vector<std::string> t; size_t pos = 0;
    explicit Toks(const std::string& l) { std::istringstream is(l); std::string w; while (is >> w) t.push_back(w); }
    bool empty() const { return pos >= t.size(); }
    std::string next() { if (pos >= t.size()) throw std::runtime_error("unexpected end of line"); return t[pos++]; }
    long nat() { return std::stol(next()); }
    double d() { return parse_d(next()); }
};
struct RawMat { long r = 0, c = 0; std::vector<std::pair<bool, double>> e; };
struct Args { bool hasP = false, hasc = false, hasA = false, hasb = false, hasG = false, hash = false, haslb = false, hasub = false;
              RawMat P, A, G; DVec c, b, h, lb, ub; };
static RawMat parse_raw(Toks& t) { RawMat m; m.r = t.nat(); m.c = t.nat(); for (long i = 0; i < m.r * m.c; i++) { std::string s = t.next(); if (s == ".") m.e.emplace_back(false, 0.0); else m.e.emplace_back(true, parse_d(s)); } return m; }
static DVec parse_vec(Toks& t) { long k = t.nat(); DVec v(k); for (long i = 0; i < k; i++) v(i) = t.d(); return v; }
static Args parse_args(Toks& t) {
    Args a;
    while (!t.empty()) {
        std::string n = t.next();
        if (n == "P") { a.hasP = true; a.P = parse_raw(t); } else if (n == "A") { a.hasA = true; a.A = parse_raw(t); }
        else if (n == "G") { a.hasG = true; a.G = parse_raw(t); } else if (n == "c") { a.hasc = true; a.c = parse_vec(t); }
        else if (n == "b") { a.hasb = true; a.b = parse_vec(t); } else if (n == "h") { a.hash = true; a.h = parse_vec(t); }
        else if (n == "lb") { a.haslb = true; a.lb = parse_vec(t); } else if (n == "ub") { a.hasub = true; a.ub = parse_vec(t); }
        else throw std::runtime_error("unknown argument " + n);
    }
    return a;
}
static DMat raw_dense(const RawMat& m) { DMat d(m.r, m.c); for (long i = 0; i < m.r; i++) for (long j = 0; j < m.c; j++) d(i, j) = m.e[(size_t) (i * m.c + j)].second; return d; }
static SMat raw_sparse(const RawMat& m) {
    std::vector<Eigen::Triplet<double, int>> trip;
    for (long j = 0; j < m.c; j++) for (long i = 0; i < m.r; i++) if (m.e[(size_t) (i * m.c + j)].first) trip.emplace_back((int) i, (int) j, m.e[(size_t) (i * m.c + j)].second);
    SMat s(m.r, m.c); s.setFromTriplets(trip.begin(), trip.end(), [](const double&, const double& b) { return b; }); s.makeCompressed(); return s;
}

// ---------------- fault injection
static std::string g_mask;      // '1' = fail that factorisation call
static size_t g_calls = 0;      // factorisation calls in the current solve
static bool fail_pred() { size_t k = g_calls++; return k < g_mask.size() && g_mask[k] == '1'; }

// ---------------- trace
static bool g_trace = false;
static std::ostringstream g_out;
static bool g_pendingS = false;
static size_t g_calls_at_loop_entry = 0;
static bool g_seen_entry = false;

struct Machine { virtual ~Machine() {} virtual void cmd(const std::string& c, Toks& t) = 0; };

template<typename SolverT, bool Dense>
struct MachineT : Machine {
    struct Probe : SolverT {
        using SolverT::m_result; using SolverT::m_settings; using SolverT::m_data; using SolverT::m_enable_iterative_refinement;
        using SolverT::m_setup_done; using SolverT::m_kkt_init_state;
        double pprox() { return this->primal_prox_inf(); } double pinfr() { return this->primal_inf_r(); }
        double dprox() { return this->dual_prox_inf(); } double dinfr() { return this->dual_inf_r(); }
        double pinfnr() { return this->primal_inf_nr(); } double dinfnr() { return this->dual_inf_nr(); }
    };
    Probe solver;
    static MachineT* self;

    static std::string state_line(const char* tag, Probe& s) {
        auto& i = s.m_result.info;
        std::ostringstream o;
        // refinement flag only on the entry/return lines; the iteration counter is not meaningful on the `s` line (already incremented)
        bool full = tag[0] == 'i' || tag[0] == 'r';
        o << tag << " ";
        if (tag[0] == 's') o << "-"; else o << i.iter;
        o << " " << i.factor_retires << " " << (full ? (s.m_enable_iterative_refinement ? "1" : "0") : "?") << " " << hx(i.rho) << " " << hx(i.delta)
          << " " << hx(i.reg_limit) << " " << i.no_primal_update << " " << i.no_dual_update;
        return o.str();
    }
    static void at(int point, void* p) {
        if (!g_trace) return;
        using Base = typename std::remove_reference<decltype(*static_cast<SolverT*>(nullptr))>::type;
        (void) p;
        Probe& s = self->solver;
        auto& i = s.m_result.info;
        auto flushF = [&]() { if (g_pendingS) { g_out << "F " << hx(0.0) << "\n"; g_pendingS = false; } };
        switch (point) {
            case 0: {
                g_seen_entry = true;
                for (size_t k = 0; k + 1 < g_calls; k++) g_out << "F " << hx(0.0) << "\n";
                g_out << "F " << hx(1.0) << "\n";
                g_out << "I " << hx(i.mu) << "\n";
                g_out << state_line("i", s) << "\n";
                break;
            }
            case 1:
                flushF();
                g_out << state_line("a", s) << "\n";
                g_out << "A " << hx(i.primal_inf) << " " << hx(i.dual_inf) << " " << hx(i.primal_rel_inf) << " " << hx(i.dual_rel_inf) << " "
                      << hx(i.primal_obj) << " " << hx(i.dual_obj) << " " << hx(i.duality_gap) << " " << hx(i.duality_gap_rel) << "\n";
                break;
            case 2:
                g_out << "B " << hx(s.pprox()) << " " << hx(s.pinfr()) << " " << hx(s.dprox()) << " " << hx(s.dinfr()) << "\n";
                break;
            case 3:
                g_out << "S " << hx(i.mu) << "\n";
                g_out << state_line("s", s) << "\n";
                g_pendingS = true;
                break;
            case 4:
                g_out << "F " << hx(1.0) << "\n";
                g_pendingS = false;
                break;
            case 5:
                g_out << "C " << hx(i.mu) << " " << hx(i.sigma) << " " << hx(i.primal_step) << " " << hx(i.dual_step) << " " << hx(i.primal_rel_inf) << " "
                      << hx(i.dual_rel_inf) << " " << hx(i.primal_obj) << " " << hx(i.dual_obj) << " " << hx(i.duality_gap) << " " << hx(i.duality_gap_rel) << " "
                      << hx(s.dinfnr()) << " " << hx(s.dprox()) << " " << hx(s.pinfnr()) << " " << hx(s.pprox()) << "\n";
                break;
            case 6:
                break;
        }
    }

    MachineT() { self = this; piqp_verif::at_hook() = &MachineT::at; piqp_verif::fail_hook() = &fail_pred; }
    ~MachineT() override { piqp_verif::at_hook() = nullptr; piqp_verif::fail_hook() = nullptr; }

    template<bool D = Dense> typename std::enable_if<D>::type do_setup(const Args& a) {
        DMat P = raw_dense(a.P), A, G; if (a.hasA) A = raw_dense(a.A); if (a.hasG) G = raw_dense(a.G);
        solver.setup(P, a.c, a.hasA ? optional<CMatRef<double>>(A) : nullopt, a.hasb ? optional<CVecRef<double>>(a.b) : nullopt,
                     a.hasG ? optional<CMatRef<double>>(G) : nullopt, a.hash ? optional<CVecRef<double>>(a.h) : nullopt,
                     a.haslb ? optional<CVecRef<double>>(a.lb) : nullopt, a.hasub ? optional<CVecRef<double>>(a.ub) : nullopt);
    }
    template<bool D = Dense> typename std::enable_if<!D>::type do_setup(const Args& a) {
        SMat P = raw_sparse(a.P), A, G; if (a.hasA) A = raw_sparse(a.A); if (a.hasG) G = raw_sparse(a.G);
        solver.setup(P, a.c, a.hasA ? optional<CSparseMatRef<double, int>>(A) : nullopt, a.hasb ? optional<CVecRef<double>>(a.b) : nullopt,
                     a.hasG ? optional<CSparseMatRef<double, int>>(G) : nullopt, a.hash ? optional<CVecRef<double>>(a.h) : nullopt,
                     a.haslb ? optional<CVecRef<double>>(a.lb) : nullopt, a.hasub ? optional<CVecRef<double>>(a.ub) : nullopt);
    }
    template<bool D = Dense> typename std::enable_if<D>::type do_update(const Args& a, bool reuse) {
        DMat P, A, G; if (a.hasP) P = raw_dense(a.P); if (a.hasA) A = raw_dense(a.A); if (a.hasG) G = raw_dense(a.G);
        solver.update(a.hasP ? optional<CMatRef<double>>(P) : nullopt, a.hasc ? optional<CVecRef<double>>(a.c) : nullopt,
                      a.hasA ? optional<CMatRef<double>>(A) : nullopt, a.hasb ? optional<CVecRef<double>>(a.b) : nullopt,
                      a.hasG ? optional<CMatRef<double>>(G) : nullopt, a.hash ? optional<CVecRef<double>>(a.h) : nullopt,
                      a.haslb ? optional<CVecRef<double>>(a.lb) : nullopt, a.hasub ? optional<CVecRef<double>>(a.ub) : nullopt, reuse);
    }
    template<bool D = Dense> typename std::enable_if<!D>::type do_update(const Args& a, bool reuse) {
        SMat P, A, G; if (a.hasP) P = raw_sparse(a.P); if (a.hasA) A = raw_sparse(a.A); if (a.hasG) G = raw_sparse(a.G);
        solver.update(a.hasP ? optional<CSparseMatRef<double, int>>(P) : nullopt, a.hasc ? optional<CVecRef<double>>(a.c) : nullopt,
                      a.hasA ? optional<CSparseMatRef<double, int>>(A) : nullopt, a.hasb ? optional<CVecRef<double>>(a.b) : nullopt,
                      a.hasG ? optional<CSparseMatRef<double, int>>(G) : nullopt, a.hash ? optional<CVecRef<double>>(a.h) : nullopt,
                      a.haslb ? optional<CVecRef<double>>(a.lb) : nullopt, a.hasub ? optional<CVecRef<double>>(a.ub) : nullopt, reuse);
    }

    static std::string vhex(const DVec& v) { std::string s; for (long i = 0; i < v.size(); i++) { if (i) s += " "; s += hx(v(i)); } return s; }

    void set_field(const std::string& f, Toks& t) {
        auto& s = solver.settings();
#define SETD(name) if (f == #name) { s.name = t.d(); return; }
#define SETI(name) if (f == #name) { s.name = (isize) std::stol(t.next()); return; }
#define SETB(name) if (f == #name) { s.name = std::stol(t.next()) != 0; return; }
        SETD(rho_init) SETD(delta_init) SETD(eps_abs) SETD(eps_rel) SETB(check_duality_gap) SETD(eps_duality_gap_abs) SETD(eps_duality_gap_rel)
        SETD(reg_lower_limit) SETD(reg_finetune_lower_limit) SETI(reg_finetune_primal_update_threshold) SETI(reg_finetune_dual_update_threshold)
        SETI(max_iter) SETI(max_factor_retires) SETB(preconditioner_scale_cost) SETI(preconditioner_iter) SETD(tau)
        SETB(iterative_refinement_always_enabled) SETD(iterative_refinement_eps_abs) SETD(iterative_refinement_eps_rel) SETI(iterative_refinement_max_iter)
        SETD(iterative_refinement_min_improvement_rate) SETD(iterative_refinement_static_regularization_eps) SETD(iterative_refinement_static_regularization_rel)
        SETB(verbose) SETB(compute_timings)
        throw std::runtime_error("unknown settings field " + f);
    }

    void cmd(const std::string& c, Toks& t) override {
        if (c == "d.set") { std::string f = t.next(); set_field(f, t); }
        else if (c == "d.setup") { Args a = parse_args(t); do_setup(a); std::cout << "ok\n"; }
        else if (c == "d.update") { bool reuse = t.nat() != 0; Args a = parse_args(t); do_update(a, reuse); std::cout << "ok\n"; }
        else if (c == "d.failmask") { g_mask = t.empty() ? "" : t.next(); }
        else if (c == "d.trace") { g_trace = t.nat() != 0; }
        else if (c == "d.solve") {
            g_calls = 0; g_out.str(""); g_pendingS = false; g_seen_entry = false;
            auto& st = solver.settings();
            bool refine0 = solver.m_enable_iterative_refinement;
            if (g_trace) {
                bool hasIneq = solver.m_data.m + solver.m_data.n_lb + solver.m_data.n_ub > 0;
                std::cout << "H " << (hasIneq ? 1 : 0) << " " << (refine0 ? 1 : 0) << " " << hx(st.rho_init) << " " << hx(st.delta_init) << " " << hx(st.eps_abs) << " " << hx(st.eps_rel) << " "
                          << (st.check_duality_gap ? 1 : 0) << " " << hx(st.eps_duality_gap_abs) << " " << hx(st.eps_duality_gap_rel) << " " << hx(st.reg_lower_limit) << " "
                          << hx(st.reg_finetune_lower_limit) << " " << st.reg_finetune_primal_update_threshold << " " << st.reg_finetune_dual_update_threshold << " "
                          << st.max_iter << " " << st.max_factor_retires << "\n";
            }
            Status s = solver.solve();
            if (g_trace) {
                if (!g_seen_entry && solver.m_setup_done && s == PIQP_NUMERICS) { for (size_t k = 0; k < g_calls; k++) g_out << "F " << hx(0.0) << "\n"; }
                if (g_pendingS) { g_out << "F " << hx(0.0) << "\n"; g_pendingS = false; }
                std::cout << g_out.str();
                std::cout << state_line("r", solver) << " " << (int) s << "\n";
            }
            std::cout << "status " << (int) s << " calls " << g_calls << "\n";
        }
        else if (c == "d.result") {
            auto& r = solver.result(); auto& i = r.info;
            std::cout << "info " << (int) i.status << " " << i.iter << " " << hx(i.rho) << " " << hx(i.delta) << " " << hx(i.mu) << " " << hx(i.sigma) << " " << hx(i.primal_step) << " "
                      << hx(i.dual_step) << " " << hx(i.primal_inf) << " " << hx(i.primal_rel_inf) << " " << hx(i.dual_inf) << " " << hx(i.dual_rel_inf) << " " << hx(i.primal_obj) << " "
                      << hx(i.dual_obj) << " " << hx(i.duality_gap) << " " << hx(i.duality_gap_rel) << " " << i.factor_retires << " " << hx(i.reg_limit) << " " << i.no_primal_update << " "
                      << i.no_dual_update << "\n";
            std::cout << "x " << vhex(r.x) << "\ny " << vhex(r.y) << "\nz " << vhex(r.z) << "\nz_lb " << vhex(r.z_lb) << "\nz_ub " << vhex(r.z_ub) << "\ns " << vhex(r.s)
                      << "\ns_lb " << vhex(r.s_lb) << "\ns_ub " << vhex(r.s_ub) << "\n";
        }
        else throw std::runtime_error("unknown command " + c);
    }
};
template<typename S, bool D> MachineT<S, D>* MachineT<S, D>::self = nullptr;

template<int BE, bool Ident> Machine* make_sparse() {
    using Pre = typename std::conditional<Ident, sparse::IdentityPreconditioner<double, int>, sparse::RuizEquilibration<double, int>>::type;
    constexpr int Mode = BE == 1 ? KKT_FULL : BE == 2 ? KKT_EQ_ELIMINATED : BE == 3 ? KKT_INEQ_ELIMINATED : KKT_ALL_ELIMINATED;
    return new MachineT<SparseSolver<double, int, Mode, Pre>, false>();
}
template<bool Ident> Machine* make_dense() {
    using Pre = typename std::conditional<Ident, dense::IdentityPreconditioner<double>, dense::RuizEquilibration<double>>::type;
    return new MachineT<DenseSolver<double, Pre>, true>();
}

int main() {
    std::ios::sync_with_stdio(false);
    std::unique_ptr<Machine> mach;
    std::string line;
    // the library prints notices on stderr; keep stdout clean
    while (std::getline(std::cin, line)) {
        Toks t(line);
        if (t.empty()) continue;
        std::string c = t.next();
        if (c[0] == '#') continue;
        try {
            if (c == "case") { std::cout << "case"; while (!t.empty()) std::cout << " " << t.next(); std::cout << "\n"; mach.reset(); g_mask.clear(); g_trace = false; }
            else if (c == "d.new") {
                long be = t.nat(), pk = t.nat(); bool id = pk == 1;
                mach.reset();
                switch (be) {
                    case 0: mach.reset(id ? make_dense<true>() : make_dense<false>()); break;
                    case 1: mach.reset(id ? make_sparse<1, true>() : make_sparse<1, false>()); break;
                    case 2: mach.reset(id ? make_sparse<2, true>() : make_sparse<2, false>()); break;
                    case 3: mach.reset(id ? make_sparse<3, true>() : make_sparse<3, false>()); break;
                    default: mach.reset(id ? make_sparse<4, true>() : make_sparse<4, false>()); break;
                }
            } else { if (!mach) throw std::runtime_error("no machine"); mach->cmd(c, t); }
        } catch (const std::exception& e) { std::cout << "error " << e.what() << "\n"; }
        std::cout.flush();
    }
    return 0;
}
