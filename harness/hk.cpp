// hk: sparse LDLt (symbolic + numeric), dense LDLTNoPivot (unblocked / blocked), symmetric permutation with its value map,
// AMD ordering, in-place transpose and diagonal scaling — the real kernels instantiated with the exact scalar Q.
#include "proto.hpp"
#include "piqp/piqp.hpp"
#include "piqp/dense/ldlt_no_pivot.hpp"

using namespace piqp;
using DMat = Eigen::Matrix<Q, Eigen::Dynamic, Eigen::Dynamic>;
using DVec = Eigen::Matrix<Q, Eigen::Dynamic, 1>;
using SMat = Eigen::SparseMatrix<Q, Eigen::ColMajor, int>;

struct FixedOrd {
    Vec<int> P, P_inv;
    void set(const std::vector<int>& p) { isize n = (isize) p.size(); P.resize(n); P_inv.resize(n); for (isize i = 0; i < n; i++) { P[i] = p[(size_t) i]; } for (isize i = 0; i < n; i++) P_inv[P[i]] = (int) i; }
    int operator[](isize i) const { return P[i]; }
    int inv(isize i) const { return P_inv[i]; }
};

struct RawS { long r, c; std::vector<std::pair<bool, Q>> e; };
static RawS raw(Toks& t) { RawS m; m.r = t.nat(); m.c = t.nat(); for (long i = 0; i < m.r * m.c; i++) { std::string s = t.next(); if (s == ".") m.e.emplace_back(false, Q(0)); else m.e.emplace_back(true, Q::parse(s)); } return m; }
static SMat sparse_of(const RawS& m, bool upper_only) {
    std::vector<Eigen::Triplet<Q, int>> trip;
    for (long j = 0; j < m.c; j++) for (long i = 0; i < m.r; i++) { if (upper_only && i > j) continue; if (m.e[(size_t) (i * m.c + j)].first) trip.emplace_back((int) i, (int) j, m.e[(size_t) (i * m.c + j)].second); }
    SMat s(m.r, m.c); s.setFromTriplets(trip.begin(), trip.end(), [](const Q&, const Q& b) { return b; }); s.makeCompressed(); return s;
}
static DMat dense_of(const SMat& m) { DMat d = DMat::Constant(m.rows(), m.cols(), Q(0)); for (isize j = 0; j < m.outerSize(); j++) for (SMat::InnerIterator it(m, j); it; ++it) d(it.row(), it.col()) = it.value(); return d; }

int main() {
    std::ios::sync_with_stdio(false);
    std::string line;
    while (std::getline(std::cin, line)) {
        Toks t(line);
        if (t.empty()) continue;
        std::string c = t.next();
        if (c[0] == '#') continue;
        try {
            if (c == "case") { std::cout << "case"; while (!t.empty()) std::cout << " " << t.next(); std::cout << "\n"; }
            else if (c == "ldl.sparse") {
                long n = t.nat();
                std::vector<int> perm; for (long i = 0; i < n; i++) perm.push_back((int) t.nat());
                RawS a = raw(t);
                DVec b = t.vec(n);
                SMat A = sparse_of(a, true);
                FixedOrd ord; ord.set(perm);
                SMat C;
                Vec<int> map = sparse::permute_sparse_symmetric_matrix(A, C, ord);
                bool mapok = true;
                for (isize k = 0; k < A.nonZeros(); k++) if (!(C.valuePtr()[map(k)] == A.valuePtr()[k])) mapok = false;
                bool upper = true, sorted = true;
                for (isize j = 0; j < C.outerSize(); j++) { int prev = -1; for (SMat::InnerIterator it(C, j); it; ++it) { if (it.row() > j) upper = false; if ((int) it.row() <= prev) sorted = false; prev = (int) it.row(); } }
                std::cout << "C " << mstr(dense_of(C)) << "\n" << "mapok " << (mapok ? 1 : 0) << " upper " << (upper ? 1 : 0) << " sorted " << (sorted ? 1 : 0) << "\n";
                sparse::LDLt<Q, int> ldlt;
                ldlt.factorize_symbolic_upper_triangular(C);
                isize ret = ldlt.factorize_numeric_upper_triangular(C);
                std::cout << "ret " << ret << "\n";
                if (ret == n) {
                    DMat L = DMat::Constant(n, n, Q(0));
                    for (isize j = 0; j < n; j++) { L(j, j) = Q(1); for (isize p = ldlt.L_cols[j]; p < ldlt.L_cols[j] + ldlt.L_nnz[j]; p++) L(ldlt.L_ind[p], j) = ldlt.L_vals[p]; }
                    std::cout << "D " << vstr(ldlt.D) << "\nL " << mstr(L) << "\n";
                    // fill within the symbolic column counts
                    bool within = true;
                    for (isize j = 0; j < n; j++) if (ldlt.L_cols[j] + ldlt.L_nnz[j] > ldlt.L_cols[j + 1]) within = false;
                    std::cout << "fillok " << (within ? 1 : 0) << "\n";
                    DVec bp(n), x(n);
                    for (isize j = 0; j < n; j++) bp[j] = b[perm[(size_t) j]];
                    ldlt.solve_inplace(bp);
                    for (isize j = 0; j < n; j++) x[perm[(size_t) j]] = bp[j];
                    std::cout << "x " << vstr(x) << "\n";
                }
            }
            else if (c == "ldl.dense") {
                long n = t.nat(); long up = t.nat();
                DMat A = t.mat(n, n);
                DVec b = t.vec(n);
                DMat L; DVec D, x; int info;
                if (up == 0) { dense::LDLTNoPivot<DMat, Eigen::Lower> f(A); info = (int) f.info(); L = f.matrixL(); D = f.vectorD(); if (info == 0) x = f.solve(b); }
                else { dense::LDLTNoPivot<DMat, Eigen::Upper> f(A); info = (int) f.info(); L = f.matrixL(); D = f.vectorD(); if (info == 0) x = f.solve(b); }
                std::cout << "info " << (info == 0 ? 0 : 1) << "\n";
                if (info == 0) std::cout << "D " << vstr(D) << "\nL " << mstr(L) << "\nx " << vstr(x) << "\n";
            }
            else if (c == "ldl.denseseq") {
                // one factorisation object, compute() called on a sequence of matrices: each call must report on ITS matrix
                long n = t.nat(); long up = t.nat(); long cnt = t.nat();
                std::vector<DMat> As; for (long q = 0; q < cnt; q++) As.push_back(t.mat(n, n));
                DVec b = t.vec(n);
                dense::LDLTNoPivot<DMat, Eigen::Lower> fl; dense::LDLTNoPivot<DMat, Eigen::Upper> fu;
                for (long q = 0; q < cnt; q++) {
                    int info; DVec D, x;
                    if (up == 0) { fl.compute(As[(size_t) q]); info = (int) fl.info(); if (info == 0) { D = fl.vectorD(); x = fl.solve(b); } }
                    else { fu.compute(As[(size_t) q]); info = (int) fu.info(); if (info == 0) { D = fu.vectorD(); x = fu.solve(b); } }
                    std::cout << "info " << (info == 0 ? 0 : 1) << "\n";
                    if (info == 0) std::cout << "D " << vstr(D) << "\nx " << vstr(x) << "\n";
                }
            }
            else if (c == "ldl.densem") {
                // multi-column right-hand side through the public solve() and solveInPlace()
                long n = t.nat(); long up = t.nat(); long k = t.nat();
                DMat A = t.mat(n, n);
                DMat B = t.mat(n, k);
                DMat X, Y = B; int info;
                if (up == 0) { dense::LDLTNoPivot<DMat, Eigen::Lower> f(A); info = (int) f.info(); if (info == 0) { X = f.solve(B); f.solveInPlace(Y); } }
                else { dense::LDLTNoPivot<DMat, Eigen::Upper> f(A); info = (int) f.info(); if (info == 0) { X = f.solve(B); f.solveInPlace(Y); } }
                std::cout << "info " << (info == 0 ? 0 : 1) << "\n";
                if (info == 0) std::cout << "X " << mstr(X) << "\nXin " << mstr(Y) << "\n";
            }
            else if (c == "util.transpose") {
                RawS a = raw(t);
                SMat A = sparse_of(a, false);
                SMat C = A.transpose();
                for (isize k = 0; k < C.nonZeros(); k++) C.valuePtr()[k] = Q(7);   // stale values, right pattern
                sparse::transpose_no_allocation<Q, int>(A, C);
                bool outer_ok = C.outerIndexPtr()[0] == 0 && C.outerIndexPtr()[C.outerSize()] == A.nonZeros();
                std::cout << "CT " << mstr(dense_of(C)) << "\nouter " << (outer_ok ? 1 : 0) << "\n";
            }
            else if (c == "util.scale") {
                RawS a = raw(t);
                SMat A = sparse_of(a, false);
                DVec dl = t.vec(a.r), dr = t.vec(a.c);
                sparse::pre_mult_diagonal<Q, int>(A, dl);
                std::cout << "pre " << mstr(dense_of(A)) << "\n";
                sparse::post_mult_diagonal<Q, int>(A, dr);
                std::cout << "post " << mstr(dense_of(A)) << "\n";
            }
            else if (c == "csc.scale") {
                // storage level: outer/inner arrays and the value array after pre_mult_diagonal, then after post_mult_diagonal
                RawS a = raw(t);
                SMat A = sparse_of(a, false);
                DVec dl = t.vec(a.r), dr = t.vec(a.c);
                sparse::pre_mult_diagonal<Q, int>(A, dl);
                std::ostringstream pre; for (isize k = 0; k < A.nonZeros(); k++) pre << (k ? " " : "") << A.valuePtr()[k].str();
                sparse::post_mult_diagonal<Q, int>(A, dr);
                std::cout << "cscouter"; for (isize j = 0; j <= A.outerSize(); j++) std::cout << " " << A.outerIndexPtr()[j];
                std::cout << "\ncscinner"; for (isize k = 0; k < A.nonZeros(); k++) std::cout << " " << A.innerIndexPtr()[k];
                std::cout << "\ncscpre " << pre.str() << "\ncscpost";
                for (isize k = 0; k < A.nonZeros(); k++) std::cout << " " << A.valuePtr()[k].str();
                std::cout << "\n";
            }
            else if (c == "csc.transpose") {
                RawS a = raw(t);
                SMat A = sparse_of(a, false);
                SMat C = A.transpose();
                for (isize k = 0; k < C.nonZeros(); k++) C.valuePtr()[k] = Q(7);   // stale values, right pattern
                sparse::transpose_no_allocation<Q, int>(A, C);
                std::cout << "cscouter"; for (isize j = 0; j <= C.outerSize(); j++) std::cout << " " << C.outerIndexPtr()[j];
                std::cout << "\ncscinner"; for (isize k = 0; k < C.nonZeros(); k++) std::cout << " " << C.innerIndexPtr()[k];
                std::cout << "\ncscvals"; for (isize k = 0; k < C.nonZeros(); k++) std::cout << " " << C.valuePtr()[k].str();
                std::cout << "\n";
            }
            else if (c == "csc.istp") {
                RawS a = raw(t);
                RawS b = raw(t);
                SMat A = sparse_of(a, false);
                SMat C = sparse_of(b, false);
                bool ok = sparse::is_transpose_pattern<Q, int>(A, C);
                std::cout << "istp " << (ok ? 1 : 0) << "\n";
            }
            else if (c == "csc.ldl") {
                // storage level: every array of the sparse LDLt object after the symbolic and numeric phases, and one solve
                RawS a = raw(t);
                long n = a.r;
                DVec b = t.vec(n);
                SMat A = sparse_of(a, true);
                sparse::LDLt<Q, int> f;
                f.factorize_symbolic_upper_triangular(A);
                std::cout << "etree"; for (long i = 0; i < n; i++) std::cout << " " << f.etree[i];
                std::cout << "\nlcols"; for (long i = 0; i <= n; i++) std::cout << " " << f.L_cols[i];
                std::cout << "\nlnnz0"; for (long i = 0; i < n; i++) std::cout << " " << f.L_nnz[i];
                isize ret = f.factorize_numeric_upper_triangular(A);
                std::cout << "\nret " << ret;
                if (ret == n) {
                    std::cout << "\nlnnz"; for (long i = 0; i < n; i++) std::cout << " " << f.L_nnz[i];
                    std::cout << "\nlfill";
                    for (long j = 0; j < n; j++) { std::ostringstream col; for (isize p = f.L_cols[j]; p < f.L_cols[j] + f.L_nnz[j]; p++) { col << (p > f.L_cols[j] ? " " : "") << f.L_ind[p] << ":" << f.L_vals[p].str(); } std::cout << " " << col.str(); }
                }
                std::cout << "\ndd"; for (long i = 0; i < (ret < n ? ret + 1 : n); i++) std::cout << " " << f.D[i].str();
                std::cout << "\n";
                if (ret == n) {
                    DVec x = b; f.solve_inplace(x); std::cout << "xs " << vstr(x) << "\n";
                    // certificate for ldlt_unique, computed from the C++ arrays: unit lower L, zero-free D, L D L' == A exactly
                    DMat Ld = DMat::Constant(n, n, Q(0)); bool lower = true, dnz = true;
                    for (long j = 0; j < n; j++) { Ld(j, j) = Q(1); for (isize p = f.L_cols[j]; p < f.L_cols[j] + f.L_nnz[j]; p++) { if (f.L_ind[p] <= j) lower = false; Ld(f.L_ind[p], j) = f.L_vals[p]; } }
                    for (long k = 0; k < n; k++) if (f.D[k] == Q(0)) dnz = false;
                    DMat Ad = dense_of(A); bool prod = true;
                    for (long i = 0; i < n; i++) for (long j = 0; j < n; j++) { Q acc(0); for (long k = 0; k < n; k++) acc = acc + Ld(i, k) * f.D[k] * Ld(j, k); Q aij = (i <= j) ? Ad(i, j) : Ad(j, i); if (!(acc == aij)) prod = false; }
                    std::cout << "ldlcert " << ((prod && lower && dnz) ? 1 : 0) << "\n";
                }
            }
            else if (c == "csc.permute") {
                long n = t.nat();
                std::vector<int> perm; for (long i = 0; i < n; i++) perm.push_back((int) t.nat());
                RawS a = raw(t);
                SMat A = sparse_of(a, true);
                FixedOrd ord; ord.set(perm);
                SMat C;
                Vec<int> map = sparse::permute_sparse_symmetric_matrix(A, C, ord);
                std::cout << "cscouter"; for (isize j = 0; j <= C.outerSize(); j++) std::cout << " " << C.outerIndexPtr()[j];
                std::cout << "\ncscinner"; for (isize k = 0; k < C.nonZeros(); k++) std::cout << " " << C.innerIndexPtr()[k];
                std::cout << "\ncscvals"; for (isize k = 0; k < C.nonZeros(); k++) std::cout << " " << C.valuePtr()[k].str();
                std::cout << "\ncscmap"; for (isize k = 0; k < map.rows(); k++) std::cout << " " << map(k);
                std::cout << "\n";
            }
            else if (c == "csc.istpraw") {
                // A handed over as raw compressed arrays through Eigen::Map (what the C interface does): duplicates and unsorted rows possible
                long r = t.nat(), cc = t.nat(), nnz = t.nat();
                std::vector<int> outer, inner; std::vector<Q> vals((size_t) nnz, Q(1));
                for (long i = 0; i <= cc; i++) outer.push_back((int) t.nat());
                for (long i = 0; i < nnz; i++) inner.push_back((int) t.nat());
                if (inner.empty()) inner.push_back(0);
                if (vals.empty()) vals.push_back(Q(0));
                RawS b = raw(t);
                SMat C = sparse_of(b, false);
                Eigen::Map<const SMat> A(r, cc, nnz, outer.data(), inner.data(), vals.data());
                bool ok = sparse::is_transpose_pattern<Q, int>(A, C);
                std::cout << "istp " << (ok ? 1 : 0) << "\n";
            }
            else if (c == "ord.amd") {
                RawS a = raw(t);
                SMat A = sparse_of(a, true);
                DVec b = t.vec(a.r);
                sparse::AMDOrdering<int> ord;
                ord.init(A);
                isize n = a.r;
                std::vector<int> seen((size_t) n, 0); bool isperm = ord.P.rows() == n;
                for (isize i = 0; isperm && i < n; i++) { if (ord.P[i] < 0 || ord.P[i] >= n || seen[(size_t) ord.P[i]]++) isperm = false; }
                bool inv = isperm; for (isize i = 0; inv && i < n; i++) if (ord.inv(ord[i]) != i) inv = false;
                DVec x(n), y(n);
                bool rt = isperm;
                if (isperm) { ord.perm<Q>(x, b); ord.permt<Q>(y, x); for (isize i = 0; i < n; i++) if (!(y[i] == b[i])) rt = false; for (isize i = 0; i < n; i++) if (!(x[i] == b[ord[i]])) rt = false; }
                std::cout << "isperm " << (isperm ? 1 : 0) << " inv " << (inv ? 1 : 0) << " roundtrip " << (rt ? 1 : 0) << "\n";
            }
            else throw std::runtime_error("unknown command " + c);
        } catch (const std::exception& e) { std::cout << "error " << e.what() << "\n"; }
        std::cout.flush();
    }
    return 0;
}
