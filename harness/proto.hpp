// Line protocol helpers shared by the harness programs (see DESIGN.md §2.3).
#ifndef VERIF_PROTO_HPP
#define VERIF_PROTO_HPP
#include <sstream>
#include <memory>
#include <string>
#include <vector>
#include <stdexcept>
#include <iostream>
#include "qscalar.hpp"
#include <Eigen/Dense>
#include <Eigen/Sparse>

struct Toks {
    std::vector<std::string> t;
    size_t pos = 0;
    explicit Toks(const std::string& line) {
        std::istringstream is(line);
        std::string w;
        while (is >> w) t.push_back(w);
    }
    bool empty() const { return pos >= t.size(); }
    std::string next() {
        if (pos >= t.size()) throw std::runtime_error("unexpected end of line");
        return t[pos++];
    }
    long nat() { return std::stol(next()); }
    bool flag() { return nat() != 0; }
    Q q() { return Q::parse(next()); }
    Eigen::Matrix<Q, Eigen::Dynamic, 1> vec(long n) {
        Eigen::Matrix<Q, Eigen::Dynamic, 1> v(n);
        for (long i = 0; i < n; i++) v(i) = q();
        return v;
    }
    // row-major r x c
    Eigen::Matrix<Q, Eigen::Dynamic, Eigen::Dynamic> mat(long r, long c) {
        Eigen::Matrix<Q, Eigen::Dynamic, Eigen::Dynamic> m(r, c);
        for (long i = 0; i < r; i++) for (long j = 0; j < c; j++) m(i, j) = q();
        return m;
    }
};

template<typename V>
inline std::string vstr(const V& v, long cnt = -1) {
    std::string s;
    long n = (cnt < 0) ? (long) v.size() : cnt;
    for (long i = 0; i < n; i++) { if (i) s += " "; s += v(i).str(); }
    return s;
}
template<typename M>
inline std::string mstr(const M& m) {
    std::string s;
    bool first = true;
    for (long i = 0; i < m.rows(); i++) for (long j = 0; j < m.cols(); j++) {
        if (!first) s += " ";
        first = false;
        s += m(i, j).str();
    }
    return s;
}

// sparse matrix from a dense one; pattern = entries that are not exactly zero (poison counts as stored)
template<typename I>
inline Eigen::SparseMatrix<Q, Eigen::ColMajor, I> to_sparse(const Eigen::Matrix<Q, Eigen::Dynamic, Eigen::Dynamic>& d, bool upper_only = false) {
    std::vector<Eigen::Triplet<Q, I>> trip;
    for (long j = 0; j < d.cols(); j++) for (long i = 0; i < d.rows(); i++) {
        if (upper_only && i > j) continue;
        const Q& v = d(i, j);
        if (v.tag == Q::FIN && sgn(v.v) == 0) continue;
        trip.emplace_back((I) i, (I) j, v);
    }
    Eigen::SparseMatrix<Q, Eigen::ColMajor, I> s(d.rows(), d.cols());
    s.setFromTriplets(trip.begin(), trip.end(), [](const Q&, const Q& b) { return b; });
    s.makeCompressed();
    return s;
}

// overwrite the values of `s` (pattern kept) from dense `d`; returns false if d has a nonzero outside the pattern
template<typename I>
inline bool set_values(Eigen::SparseMatrix<Q, Eigen::ColMajor, I>& s, const Eigen::Matrix<Q, Eigen::Dynamic, Eigen::Dynamic>& d, bool upper_only = false) {
    Eigen::Matrix<int, Eigen::Dynamic, Eigen::Dynamic> seen = Eigen::Matrix<int, Eigen::Dynamic, Eigen::Dynamic>::Zero(d.rows(), d.cols());
    for (long j = 0; j < s.outerSize(); j++)
        for (typename Eigen::SparseMatrix<Q, Eigen::ColMajor, I>::InnerIterator it(s, j); it; ++it) {
            it.valueRef() = d(it.row(), it.col());
            seen(it.row(), it.col()) = 1;
        }
    for (long j = 0; j < d.cols(); j++) for (long i = 0; i < d.rows(); i++) {
        if (upper_only && i > j) continue;
        const Q& v = d(i, j);
        if (!seen(i, j) && !(v.tag == Q::FIN && sgn(v.v) == 0)) return false;
    }
    return true;
}

#endif
