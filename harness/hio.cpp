// hio — C20 harness: the REAL save_dense_model / save_sparse_model / load_dense_model / load_sparse_model
// (include/piqp/utils/io_utils.hpp + eigen_matio.hpp of the current /repo tree) through the real libmatio,
// driven by the same line protocol as the Lean driver /verif/lean/IODriver.lean.
//
// protocol (stdin), one case = `case NAME` followed by ops, values are 16-digit hex bit patterns of doubles:
//   dmat F rows cols v*            define dense matrix field F (column-major)            F in {P,A,G}
//   dvec F n v*                    define vector field F                                 F in {c,b,h,x_lb,x_ub}
//   smat F rows cols nnz jc* ir* v*  define sparse CSC field F (cols+1 jc, nnz ir, nnz v)
//   unc F                          store sparse field F in Eigen's UNCOMPRESSED mode before saving (same logical matrix)
//   save dense|sparse              real save_*_model of the current fields into the case's .mat file
//   del F                          Mat_VarDelete(F) on the file (raw matio)  -> exercises the reader's missing-variable branch
//   raw3 F                         replace F by a rank-3 double variable (raw matio) -> exercises the reader's rank check
//   load dense|sparse              real load_*_model; prints every field of the returned model bitwise
//   layout                         raw matio scan of the file: names in file order, class/rank/dims, nir/njc/ndata, contents
// output (protocol fd = original stdout; everything the libraries print to stdout goes to stderr, the library's
// std::cout diagnostics are captured and echoed as `cout ...` lines because the model predicts them):
//   saved K / loaded K / cout TEXT / dmat F r c v* / dvec F n v* / smat F r c nnz jc* ir* v* / layout N / var ...
#include <cstdio>
#include <cstdint>
#include <cstring>
#include <iostream>
#include <sstream>
#include <string>
#include <vector>
#include <map>
#include <set>
#include <unistd.h>
#include <sys/stat.h>

#include "piqp/typedefs.hpp"
#include "piqp/dense/model.hpp"
#include "piqp/sparse/model.hpp"
#include "piqp/utils/io_utils.hpp"

using T = double;
using I = int;
using Mat = piqp::Mat<T>;
using Vec = piqp::Vec<T>;
using SMat = piqp::SparseMat<T, I>;

static FILE* po = nullptr;

static uint64_t bits(double d) { uint64_t u; std::memcpy(&u, &d, 8); return u; }
static double frombits(uint64_t u) { double d; std::memcpy(&d, &u, 8); return d; }
static uint64_t parse_hex(const std::string& s) { return std::stoull(s, nullptr, 16); }

static void put_hex(double d) { std::fprintf(po, " %016llx", (unsigned long long) bits(d)); }

static void print_dmat(const char* f, const Mat& M)
{
    std::fprintf(po, "dmat %s %ld %ld", f, (long) M.rows(), (long) M.cols());
    for (Eigen::Index j = 0; j < M.cols(); j++) for (Eigen::Index i = 0; i < M.rows(); i++) put_hex(M(i, j));
    std::fprintf(po, "\n");
}
static void print_dvec(const char* f, const Vec& v)
{
    std::fprintf(po, "dvec %s %ld", f, (long) v.size());
    for (Eigen::Index i = 0; i < v.size(); i++) put_hex(v(i));
    std::fprintf(po, "\n");
}
// representation independent: walks the columns with InnerIterator (works for compressed and uncompressed storage)
static void print_smat(const char* f, const SMat& M)
{
    std::vector<long> jc, ir; std::vector<double> val;
    jc.push_back(0);
    for (Eigen::Index j = 0; j < M.outerSize(); j++) {
        for (SMat::InnerIterator it(M, j); it; ++it) { ir.push_back((long) it.index()); val.push_back(it.value()); }
        jc.push_back((long) ir.size());
    }
    std::fprintf(po, "smat %s %ld %ld %ld", f, (long) M.rows(), (long) M.cols(), (long) ir.size());
    for (long x : jc) std::fprintf(po, " %ld", x);
    for (long x : ir) std::fprintf(po, " %ld", x);
    for (double x : val) put_hex(x);
    std::fprintf(po, "\n");
}

struct Fields {
    std::map<std::string, Mat> dm;
    std::map<std::string, Vec> dv;
    std::map<std::string, SMat> sm;
    std::set<std::string> unc;      // sparse fields whose copy inside the Model is put into uncompressed mode before saving
};

struct CoutCapture {
    std::ostringstream ss; std::streambuf* old;
    CoutCapture() { old = std::cout.rdbuf(ss.rdbuf()); }
    ~CoutCapture() { std::cout.rdbuf(old); }
    void emit()
    {
        std::cout.rdbuf(old);
        std::istringstream is(ss.str());
        std::string line;
        while (std::getline(is, line)) {
            size_t a = line.find_first_not_of(" \t\r"), b = line.find_last_not_of(" \t\r");
            if (a == std::string::npos) continue;
            std::fprintf(po, "cout %s\n", line.substr(a, b - a + 1).c_str());
        }
        std::cerr << ss.str();
    }
};

static void do_layout(const std::string& path)
{
    struct stat st;
    if (stat(path.c_str(), &st) != 0) { std::fprintf(po, "layout 0\n"); return; }
    mat_t* mf = Mat_Open(path.c_str(), MAT_ACC_RDONLY);
    if (!mf) { std::fprintf(po, "layout unreadable\n"); return; }
    std::vector<std::string> lines;
    matvar_t* v;
    while ((v = Mat_VarReadNext(mf)) != nullptr) {
        std::ostringstream o;
        char buf[32];
        o << "var " << (v->name ? v->name : "?");
        if (v->rank == 2 && !v->isComplex && v->class_type == MAT_C_DOUBLE && v->data_type == MAT_T_DOUBLE) {
            size_t r = v->dims[0], c = v->dims[1];
            o << " dense " << r << " " << c;
            const double* d = (const double*) v->data;
            for (size_t k = 0; k < r * c; k++) { std::snprintf(buf, sizeof buf, " %016llx", (unsigned long long) bits(d[k])); o << buf; }
        } else if (v->rank == 2 && !v->isComplex && v->class_type == MAT_C_SPARSE && v->data_type == MAT_T_DOUBLE) {
            mat_sparse_t* s = (mat_sparse_t*) v->data;
            o << " sparse " << v->dims[0] << " " << v->dims[1] << " njc " << s->njc << " nir " << s->nir << " ndata " << s->ndata;
            for (mat_uint32_t k = 0; k < s->njc; k++) o << " " << s->jc[k];
            for (mat_uint32_t k = 0; k < s->nir; k++) o << " " << s->ir[k];
            const double* d = (const double*) s->data;
            for (mat_uint32_t k = 0; k < s->ndata; k++) { std::snprintf(buf, sizeof buf, " %016llx", (unsigned long long) bits(d[k])); o << buf; }
        } else {
            o << " other";
        }
        lines.push_back(o.str());
        Mat_VarFree(v);
    }
    Mat_Close(mf);
    std::fprintf(po, "layout %zu\n", lines.size());
    for (auto& l : lines) std::fprintf(po, "%s\n", l.c_str());
}

static std::vector<std::string> split(const std::string& s)
{
    std::vector<std::string> t; std::istringstream is(s); std::string w;
    while (is >> w) t.push_back(w);
    return t;
}

int main(int argc, char** argv)
{
    // protocol output on the original stdout; anything the libraries print to fd 1 (Mat_VarPrint, printf) goes to stderr
    int outfd = dup(1);
    std::fflush(stdout);
    dup2(2, 1);
    po = fdopen(outfd, "w");
    std::string dir = argc > 1 ? argv[1] : "/verif/build/hio_tmp";
    mkdir(dir.c_str(), 0755);   // parent must exist
    std::string path;
    Fields F;
    std::string line;
    long caseno = 0;
    auto need = [&](bool ok, const char* what) { if (!ok) std::fprintf(po, "error %s\n", what); return ok; };
    while (std::getline(std::cin, line)) {
        std::vector<std::string> t = split(line);
        if (t.empty() || t[0][0] == '#') continue;
        const std::string& cmd = t[0];
        if (cmd == "case") {
            if (!path.empty()) unlink(path.c_str());
            F = Fields();
            path = dir + "/hio_" + std::to_string((long) getpid()) + "_" + std::to_string(caseno++) + ".mat";
            unlink(path.c_str());
            std::fprintf(po, "case %s\n", t.size() > 1 ? t[1].c_str() : "");
        } else if (cmd == "dmat") {
            if (!need(t.size() >= 4, "dmat args")) continue;
            long r = std::stol(t[2]), c = std::stol(t[3]);
            if (!need((long) t.size() == 4 + r * c, "dmat count")) continue;
            Mat M(r, c);
            for (long k = 0; k < r * c; k++) M.data()[k] = frombits(parse_hex(t[4 + k]));
            F.dm[t[1]] = M;
        } else if (cmd == "dvec") {
            if (!need(t.size() >= 3, "dvec args")) continue;
            long n = std::stol(t[2]);
            if (!need((long) t.size() == 3 + n, "dvec count")) continue;
            Vec v(n);
            for (long k = 0; k < n; k++) v(k) = frombits(parse_hex(t[3 + k]));
            F.dv[t[1]] = v;
        } else if (cmd == "smat") {
            if (!need(t.size() >= 5, "smat args")) continue;
            long r = std::stol(t[2]), c = std::stol(t[3]), nnz = std::stol(t[4]);
            if (!need((long) t.size() == 5 + (c + 1) + 2 * nnz, "smat count")) continue;
            std::vector<int> jc(c + 1), ir(nnz); std::vector<double> val(nnz);
            for (long k = 0; k <= c; k++) jc[k] = (int) std::stol(t[5 + k]);
            for (long k = 0; k < nnz; k++) ir[k] = (int) std::stol(t[5 + c + 1 + k]);
            for (long k = 0; k < nnz; k++) val[k] = frombits(parse_hex(t[5 + c + 1 + nnz + k]));
            Eigen::Map<const SMat> mp(r, c, nnz, jc.data(), ir.data(), val.data());
            SMat M = mp;
            F.sm[t[1]] = M;
        } else if (cmd == "unc") {
            if (!need(t.size() == 2 && F.sm.count(t[1]), "unc field")) continue;
            F.sm[t[1]].uncompress();
            F.unc.insert(t[1]);
        } else if (cmd == "save") {
            if (!need(t.size() == 2, "save args")) continue;
            bool vecs = F.dv.count("c") && F.dv.count("b") && F.dv.count("h") && F.dv.count("x_lb") && F.dv.count("x_ub");
            if (t[1] == "dense") {
                if (!need(vecs && F.dm.count("P") && F.dm.count("A") && F.dm.count("G"), "save dense: fields missing")) continue;
                piqp::dense::Model<T> m(F.dm["P"], F.dv["c"], F.dm["A"], F.dv["b"], F.dm["G"], F.dv["h"], F.dv["x_lb"], F.dv["x_ub"]);
                CoutCapture cap;
                piqp::save_dense_model(m, path);
                std::fprintf(po, "saved dense\n");
                cap.emit();
            } else {
                if (!need(vecs && F.sm.count("P") && F.sm.count("A") && F.sm.count("G"), "save sparse: fields missing")) continue;
                piqp::sparse::Model<T, I> m(F.sm["P"], F.dv["c"], F.sm["A"], F.dv["b"], F.sm["G"], F.dv["h"], F.dv["x_lb"], F.dv["x_ub"]);
                // the Model constructor stores compressed copies: put the *model's* matrices into Eigen's uncompressed mode with
                // free slots in every column (what an in-place edit such as coeffRef on a new entry leaves behind)
                if (F.unc.count("P")) m.P.reserve(Eigen::Matrix<I, Eigen::Dynamic, 1>::Constant(m.P.cols(), 1));
                if (F.unc.count("A")) m.A.reserve(Eigen::Matrix<I, Eigen::Dynamic, 1>::Constant(m.A.cols(), 1));
                if (F.unc.count("G")) m.G.reserve(Eigen::Matrix<I, Eigen::Dynamic, 1>::Constant(m.G.cols(), 1));
                CoutCapture cap;
                piqp::save_sparse_model(m, path);
                std::fprintf(po, "saved sparse\n");
                cap.emit();
            }
        } else if (cmd == "del" || cmd == "raw3") {
            if (!need(t.size() == 2, "del/raw3 args")) continue;
            mat_t* mf = Mat_Open(path.c_str(), MAT_ACC_RDWR);
            if (!mf) mf = Mat_CreateVer(path.c_str(), "hio", MAT_FT_DEFAULT);
            if (!need(mf != nullptr, "cannot open file")) continue;
            Mat_VarDelete(mf, t[1].c_str());
            if (cmd == "raw3") {
                size_t dims[3] = {1, 1, 2};
                double d[2] = {1.0, 2.0};
                matvar_t* v = Mat_VarCreate(t[1].c_str(), MAT_C_DOUBLE, MAT_T_DOUBLE, 3, dims, d, 0);
                Mat_VarWrite(mf, v, MAT_COMPRESSION_NONE);
                Mat_VarFree(v);
            }
            Mat_Close(mf);
        } else if (cmd == "load") {
            if (!need(t.size() == 2, "load args")) continue;
            if (t[1] == "dense") {
                CoutCapture cap;
                piqp::dense::Model<T> m = piqp::load_dense_model<T>(path);
                std::fprintf(po, "loaded dense\n");
                cap.emit();
                print_dmat("P", m.P); print_dvec("c", m.c); print_dmat("A", m.A); print_dvec("b", m.b);
                print_dmat("G", m.G); print_dvec("h", m.h); print_dvec("x_lb", m.x_lb); print_dvec("x_ub", m.x_ub);
            } else {
                CoutCapture cap;
                piqp::sparse::Model<T, I> m = piqp::load_sparse_model<T, I>(path);
                std::fprintf(po, "loaded sparse\n");
                cap.emit();
                print_smat("P", m.P); print_dvec("c", m.c); print_smat("A", m.A); print_dvec("b", m.b);
                print_smat("G", m.G); print_dvec("h", m.h); print_dvec("x_lb", m.x_lb); print_dvec("x_ub", m.x_ub);
            }
        } else if (cmd == "layout") {
            do_layout(path);
        } else {
            std::fprintf(po, "error unknown command %s\n", cmd.c_str());
        }
        std::fflush(po);
    }
    if (!path.empty()) unlink(path.c_str());
    std::fflush(po);
    return 0;
}
