// hinst: one instantiation of the PIQP solver templates per translation unit (property C18).
//   -DHT=0 float | 1 double | 2 long double | 3 boost::multiprecision cpp_bin_float<100> (100 decimal digits, binary)
//   -DHI=0 int | 1 long long                      (sparse storage index; the dense solver ignores it)
//   -DHBE=0 dense | 1 KKT_FULL | 2 KKT_EQ_ELIMINATED | 3 KKT_INEQ_ELIMINATED | 4 KKT_ALL_ELIMINATED
//   -DHPRE=0 Ruiz equilibration | 1 identity preconditioner
// The program reads well-posed problems (all data dyadic rationals, exactly representable in every scalar type),
// solves each with tolerances appropriate to the type and prints status and solution as decimal strings with more
// digits than the type carries.  The driver (vlib/props/c18.py) recomputes the certificate in exact arithmetic.
//
// stdin:  prob <name> <n> <p> <m> / P <n*n row-major> / c <n> / A <p*n> / b <p> / G <m*n> / h <m> / lb <n> / ub <n> / end
// stdout: prob <name> / settings ... / status <s> iter <k> / x ... / y ... / z ... / z_lb / z_ub / s / s_lb / s_ub / info ...
#include <cstdio>
#include <cstdlib>
#include <cstring>
#include <string>
#include <memory>
#include <vector>
#include <limits>

#ifndef HT
#define HT 1
#endif
#ifndef HI
#define HI 0
#endif
#ifndef HBE
#define HBE 0
#endif
#ifndef HPRE
#define HPRE 0
#endif

#if HT == 3
#include <boost/multiprecision/cpp_bin_float.hpp>
#include <boost/multiprecision/eigen.hpp>
#endif

#include "piqp/piqp.hpp"

using namespace piqp;

#if HT == 0
typedef float T;
static const char* T_NAME = "float";
#elif HT == 1
typedef double T;
static const char* T_NAME = "double";
#elif HT == 2
typedef long double T;
static const char* T_NAME = "long double";
#else
typedef boost::multiprecision::number<boost::multiprecision::cpp_bin_float<100>, boost::multiprecision::et_off> T;
static const char* T_NAME = "cpp_bin_float<100>";
#endif

#if HI == 0
typedef int I;
#else
typedef long long I;
#endif

#if HBE == 0
#if HPRE == 0
typedef DenseSolver<T, dense::RuizEquilibration<T>> Solver;
#else
typedef DenseSolver<T, dense::IdentityPreconditioner<T>> Solver;
#endif
static const bool kDense = true;
#else
#if HBE == 1
static const int kMode = KKTMode::KKT_FULL;
#elif HBE == 2
static const int kMode = KKTMode::KKT_EQ_ELIMINATED;
#elif HBE == 3
static const int kMode = KKTMode::KKT_INEQ_ELIMINATED;
#else
static const int kMode = KKTMode::KKT_ALL_ELIMINATED;
#endif
#if HPRE == 0
typedef SparseSolver<T, I, kMode, sparse::RuizEquilibration<T, I>> Solver;
#else
typedef SparseSolver<T, I, kMode, sparse::IdentityPreconditioner<T, I>> Solver;
#endif
static const bool kDense = false;
#endif

// ------------------------------------------------------------------ scalar <-> text
static T parse_scalar(const char* s)
{
    if (!strcmp(s, "inf")) return std::numeric_limits<T>::infinity();
    if (!strcmp(s, "-inf")) return -std::numeric_limits<T>::infinity();
#if HT == 3
    return T(std::string(s));
#else
    return (T) strtold(s, nullptr);      // the driver sends dyadic rationals only: exact in every type
#endif
}
static std::string to_text(const T& v)
{
#if HT == 3
    if (boost::multiprecision::isinf(v)) return v < 0 ? "-inf" : "inf";
    if (boost::multiprecision::isnan(v)) return "nan";
    return v.str(115, std::ios_base::scientific);
#else
    char buf[96];
    long double w = (long double) v;
    if (w != w) return "nan";
    if (w == std::numeric_limits<long double>::infinity()) return "inf";
    if (w == -std::numeric_limits<long double>::infinity()) return "-inf";
    snprintf(buf, sizeof buf, "%.24Le", w);     // more digits than any built-in type carries: exact to the printed decimals
    return buf;
#endif
}
template<typename V>
static void print_vec(const char* nm, const V& v)
{
    printf("%s", nm);
    for (long k = 0; k < (long) v.size(); k++) printf(" %s", to_text(v(k)).c_str());
    printf("\n");
}

// ------------------------------------------------------------------ settings per scalar type
static void configure(Settings<T>& s)
{
#if HT == 0
    // float: unit roundoff 6e-8
    s.eps_abs = T(1e-4); s.eps_rel = T(1e-5);
    s.eps_duality_gap_abs = T(1e-4); s.eps_duality_gap_rel = T(1e-5);
    s.rho_init = T(1e-3); s.delta_init = T(1e-2);
    s.reg_lower_limit = T(1e-5); s.reg_finetune_lower_limit = T(1e-6);
    s.iterative_refinement_eps_abs = T(1e-6); s.iterative_refinement_eps_rel = T(1e-6);
    s.iterative_refinement_static_regularization_eps = T(1e-4);
#elif HT == 1
    // double: library defaults (eps_abs 1e-8, eps_rel 1e-9, rho 1e-6, delta 1e-4, reg limits 1e-10 / 1e-13)
#elif HT == 2
    // long double (x87 extended, unit roundoff 5e-20)
    s.eps_abs = T(1e-10L); s.eps_rel = T(1e-11L);
    s.eps_duality_gap_abs = T(1e-10L); s.eps_duality_gap_rel = T(1e-11L);
    s.rho_init = T(1e-7L); s.delta_init = T(1e-5L);
    s.reg_lower_limit = T(1e-13L); s.reg_finetune_lower_limit = T(1e-16L);
    s.iterative_refinement_eps_abs = T(1e-15L); s.iterative_refinement_eps_rel = T(1e-15L);
    s.iterative_refinement_static_regularization_eps = T(1e-9L);
#else
    // 100 decimal digits
    s.eps_abs = T("1e-20"); s.eps_rel = T("1e-21");
    s.eps_duality_gap_abs = T("1e-20"); s.eps_duality_gap_rel = T("1e-21");
    s.rho_init = T("1e-10"); s.delta_init = T("1e-8");
    s.reg_lower_limit = T("1e-25"); s.reg_finetune_lower_limit = T("1e-30");
    s.iterative_refinement_eps_abs = T("1e-30"); s.iterative_refinement_eps_rel = T("1e-30");
    s.iterative_refinement_static_regularization_eps = T("1e-15");
#endif
}

// ------------------------------------------------------------------ problems
struct Prob {
    std::string name;
    long n = 0, p = 0, m = 0;
    Mat<T> P, A, G;
    Vec<T> c, b, h, lb, ub;
};

template<bool Dense> struct Call;
template<> struct Call<true> {
    template<typename S>
    static void setup(S& s, const Prob& q)
    {
        optional<CMatRef<T>> A, G;
        optional<CVecRef<T>> b, h;
        if (q.p > 0) { A.emplace(q.A); b.emplace(q.b); }
        if (q.m > 0) { G.emplace(q.G); h.emplace(q.h); }
        s.setup(q.P, q.c, A, b, G, h, optional<CVecRef<T>>(q.lb), optional<CVecRef<T>>(q.ub));
    }
};
template<> struct Call<false> {
    template<typename S>
    static void setup(S& s, const Prob& q)
    {
        SparseMat<T, I> P = q.P.sparseView();
        SparseMat<T, I> A = q.A.sparseView();
        SparseMat<T, I> G = q.G.sparseView();
        P.makeCompressed(); A.makeCompressed(); G.makeCompressed();
        optional<CSparseMatRef<T, I>> oA, oG;
        optional<CVecRef<T>> b, h;
        if (q.p > 0) { oA.emplace(A); b.emplace(q.b); }
        if (q.m > 0) { oG.emplace(G); h.emplace(q.h); }
        s.setup(P, q.c, oA, b, oG, h, optional<CVecRef<T>>(q.lb), optional<CVecRef<T>>(q.ub));
    }
};

template<bool Dense> struct CallU;
template<> struct CallU<true> {
    template<typename S>
    static void update(S& s, const Prob& q)
    {
        optional<CMatRef<T>> A, G;
        optional<CVecRef<T>> b, h;
        if (q.p > 0) { A.emplace(q.A); b.emplace(q.b); }
        if (q.m > 0) { G.emplace(q.G); h.emplace(q.h); }
        s.update(nullopt, optional<CVecRef<T>>(q.c), A, b, G, h, nullopt, nullopt);
    }
};
template<> struct CallU<false> {
    template<typename S>
    static void update(S& s, const Prob& q)
    {
        SparseMat<T, I> A = q.A.sparseView();
        SparseMat<T, I> G = q.G.sparseView();
        A.makeCompressed(); G.makeCompressed();
        optional<CSparseMatRef<T, I>> oA, oG;
        optional<CVecRef<T>> b, h;
        if (q.p > 0) { oA.emplace(A); b.emplace(q.b); }
        if (q.m > 0) { oG.emplace(G); h.emplace(q.h); }
        s.update(nullopt, optional<CVecRef<T>>(q.c), oA, b, oG, h, nullopt, nullopt);
    }
};

// the solver of the last `end` stays alive so that a following `upd_end` problem (same sizes and patterns, new values of
// c, A, b, G, h) can be applied to it through update(): the instantiation's update path is exercised as well
static std::unique_ptr<Solver> g_solver;

static void run(const Prob& q, bool as_update)
{
    if (!as_update || !g_solver) {
        g_solver.reset(new Solver());
        configure(g_solver->settings());
        Call<kDense>::setup(*g_solver, q);
    } else {
        CallU<kDense>::update(*g_solver, q);
    }
    Solver& solver = *g_solver;
    Status st = solver.solve();
    const Result<T>& r = solver.result();
    printf("prob %s\n", q.name.c_str());
    printf("settings eps_abs %s eps_rel %s eps_duality_gap_abs %s eps_duality_gap_rel %s check_duality_gap %d\n",
           to_text(solver.settings().eps_abs).c_str(), to_text(solver.settings().eps_rel).c_str(),
           to_text(solver.settings().eps_duality_gap_abs).c_str(), to_text(solver.settings().eps_duality_gap_rel).c_str(),
           (int) solver.settings().check_duality_gap);
    printf("status %d iter %ld\n", (int) st, (long) r.info.iter);
    print_vec("x", r.x); print_vec("y", r.y); print_vec("z", r.z); print_vec("z_lb", r.z_lb); print_vec("z_ub", r.z_ub);
    print_vec("s", r.s); print_vec("s_lb", r.s_lb); print_vec("s_ub", r.s_ub);
    printf("info primal_inf %s dual_inf %s duality_gap %s primal_obj %s\n", to_text(r.info.primal_inf).c_str(),
           to_text(r.info.dual_inf).c_str(), to_text(r.info.duality_gap).c_str(), to_text(r.info.primal_obj).c_str());
    fflush(stdout);
}

int main()
{
    printf("#hinst T=%s digits10=%d epsilon=%s I=%s be=%d pre=%d sizeof(T)=%zu\n", T_NAME, (int) std::numeric_limits<T>::digits10,
           to_text(std::numeric_limits<T>::epsilon()).c_str(), HI == 0 ? "int" : "long long", HBE, HPRE, sizeof(T));
    char* line = nullptr;
    size_t cap = 0;
    Prob q;
    while (getline(&line, &cap, stdin) > 0) {
        std::vector<char*> tok;
        for (char* t = strtok(line, " \t\n"); t; t = strtok(nullptr, " \t\n")) tok.push_back(t);
        if (tok.empty() || tok[0][0] == '#') continue;
        std::string c(tok[0]);
        auto fill_vec = [&](Vec<T>& v, long n) {
            v.resize(n);
            if ((long) tok.size() != n + 1) { printf("error: %s expects %ld values\n", tok[0], n); exit(3); }
            for (long k = 0; k < n; k++) v(k) = parse_scalar(tok[1 + k]);
        };
        auto fill_mat = [&](Mat<T>& M, long r, long cc) {
            M.resize(r, cc);
            if ((long) tok.size() != r * cc + 1) { printf("error: %s expects %ld values\n", tok[0], r * cc); exit(3); }
            for (long i = 0; i < r; i++) for (long j = 0; j < cc; j++) M(i, j) = parse_scalar(tok[1 + i * cc + j]);
        };
        if (c == "prob") { q = Prob(); q.name = tok[1]; q.n = atol(tok[2]); q.p = atol(tok[3]); q.m = atol(tok[4]); }
        else if (c == "P") fill_mat(q.P, q.n, q.n);
        else if (c == "A") fill_mat(q.A, q.p, q.n);
        else if (c == "G") fill_mat(q.G, q.m, q.n);
        else if (c == "c") fill_vec(q.c, q.n);
        else if (c == "b") fill_vec(q.b, q.p);
        else if (c == "h") fill_vec(q.h, q.m);
        else if (c == "lb") fill_vec(q.lb, q.n);
        else if (c == "ub") fill_vec(q.ub, q.n);
        else if (c == "end") run(q, false);
        else if (c == "upd_end") run(q, true);
        else printf("error: unknown command %s\n", tok[0]);
    }
    free(line);
    return 0;
}
