// Reproducers for the defects found while modelling PIQP (DESIGN.md §7).  Each case prints
//   Fk: DEFECT <what was observed>      when the defect is present
//   Fk: ok                              when the behaviour is the one the property asks for
// Build: g++ -std=c++17 -O1 -I<repo>/include -I/usr/include/eigen3 repro.cpp -o repro   (F9: add -fsanitize=address)
#include <cstdio>
#include <cstring>
#include <cstdlib>
#include <cmath>
#include <iostream>
#include <limits>
#include "piqp/piqp.hpp"

using namespace piqp;
using V = Vec<double>;
using M = Mat<double>;
static const double INF = std::numeric_limits<double>::infinity();

struct Prob {
    M P, A, G; V c, b, h, lb, ub;
    Prob() {
        P.resize(3, 3); P << 4, 1, 0, 1, 3, 0.5, 0, 0.5, 2;
        A.resize(1, 3); A << 1, 1, 1;
        G.resize(2, 3); G << 1, -1, 0, 0, 1, 2;
        c.resize(3); c << 1, -2, 0.5;
        b.resize(1); b << 1;
        h.resize(2); h << 2, 3;
        lb.resize(3); lb << -1, -INF, -INF;
        ub.resize(3); ub << INF, INF, INF;
    }
    SparseMat<double, int> Ps() const { return P.sparseView(); }
    SparseMat<double, int> As() const { return A.sparseView(); }
    SparseMat<double, int> Gs() const { return G.sparseView(); }
};

static bool same(const V& a, const V& b) { return a.size() == b.size() && (a.size() == 0 || std::memcmp(a.data(), b.data(), sizeof(double) * a.size()) == 0); }

int main(int argc, char** argv) {
    std::string which = argc > 1 ? argv[1] : "all";
    Prob q;
    if (which == "F1" || which == "all") {
        // setup; solve; update(P of wrong size) [rejected]; solve  -- vs twin without the rejected call
        DenseSolver<double> a, t;
        a.setup(q.P, q.c, q.A, q.b, q.G, q.h, q.lb, q.ub); t.setup(q.P, q.c, q.A, q.b, q.G, q.h, q.lb, q.ub);
        a.solve(); t.solve();
        M bad = M::Identity(2, 2);
        a.update(bad);
        Status sa = a.solve(), st = t.solve();
        if (sa != st || !same(a.result().x, t.result().x))
            std::printf("F1: DEFECT rejected update(P 2x2) changed later results: status %d vs twin %d, x0 %.6g vs %.6g\n", sa, st, a.result().x(0), t.result().x(0));
        else std::printf("F1: ok\n");
    }
    if (which == "F2" || which == "all") {
        DenseSolver<double> a;
        a.setup(q.P, q.c, q.A, q.b, q.G, q.h, q.lb, q.ub);
        a.solve();
        V x0 = a.result().x;
        a.settings().tau = 2.0;
        Status s = a.solve();
        if (s != PIQP_INVALID_SETTINGS) std::printf("F2: unexpected status %d\n", s);
        else if (!same(x0, a.result().x)) std::printf("F2: DEFECT solve() rejected with INVALID_SETTINGS changed result.x: %.6g -> %.6g\n", x0(0), a.result().x(0));
        else std::printf("F2: ok\n");
    }
    if (which == "F3" || which == "F4" || which == "all") {
        for (int variant = 0; variant < 2; variant++) {
            if (which == "F3" && variant == 1) continue;
            if (which == "F4" && variant == 0) continue;
            V lb3(3); lb3 << -1, -2, -3;
            V sref, sgot;
            Status s1, s2;
            if (variant == 0) {
                DenseSolver<double> a, f;
                a.settings().preconditioner_iter = 0; f.settings().preconditioner_iter = 0;
                a.setup(q.P, q.c, q.A, q.b, q.G, q.h, q.lb, q.ub); a.solve();
                a.update(nullopt, nullopt, nullopt, nullopt, nullopt, nullopt, lb3); s1 = a.solve(); sgot = a.result().s_lb;
                f.setup(q.P, q.c, q.A, q.b, q.G, q.h, lb3, q.ub); s2 = f.solve(); sref = f.result().s_lb;
            } else {
                SparseSolver<double, int> a, f;
                a.settings().preconditioner_scale_cost = true; f.settings().preconditioner_scale_cost = true;
                a.setup(q.Ps(), q.c, q.As(), q.b, q.Gs(), q.h, q.lb, q.ub); a.solve();
                a.update(nullopt, nullopt, nullopt, nullopt, nullopt, nullopt, lb3); s1 = a.solve(); sgot = a.result().s_lb;
                f.setup(q.Ps(), q.c, q.As(), q.b, q.Gs(), q.h, lb3, q.ub); s2 = f.solve(); sref = f.result().s_lb;
            }
            double err = (sgot - sref).cwiseAbs().maxCoeff();
            const char* nm = variant == 0 ? "F3" : "F4";
            if (s1 != s2 || !(err < 1e-6))
                std::printf("%s: DEFECT after update(x_lb: 1 -> 3 finite bounds) s_lb = (%.4g %.4g %.4g), fresh solver (%.4g %.4g %.4g), status %d vs %d\n",
                            nm, sgot(0), sgot(1), sgot(2), sref(0), sref(1), sref(2), s1, s2);
            else std::printf("%s: ok\n", nm);
        }
    }
    if (which == "F5" || which == "all") {
        // solve() on a never-set-up solver: must report and touch nothing. Data dimensions are read by restore_box_dual.
        void* mem = std::malloc(sizeof(DenseSolver<double>));
        std::memset(mem, 0x5a, sizeof(DenseSolver<double>));   // dirty memory where the object will live
        DenseSolver<double>* a = new (mem) DenseSolver<double>;   // default-initialisation: scalars keep the memory content
        struct Peek : DenseSolver<double> { static long n(const DenseSolver<double>& s) { return (long) static_cast<const Peek&>(s).m_data.n; } };
        long n_seen = Peek::n(*a);
        if (n_seen != 0) std::printf("F5: DEFECT Data::n of a never-set-up solver is indeterminate (%ld); solve() would run restore_box_dual with it\n", n_seen);
        else { Status s = a->solve(); std::printf(s == PIQP_UNSOLVED ? "F5: ok\n" : "F5: unexpected status\n"); }
        // (the object is deliberately not destroyed: its Eigen members were constructed over dirty memory only for scalars)
    }
    if (which == "F11" || which == "all") {
        // info.sigma is never written for a problem without inequalities/bounds: depends on memory content
        double sig[2];
        for (int k = 0; k < 2; k++) {
            void* mem = std::malloc(sizeof(DenseSolver<double>));
            std::memset(mem, k == 0 ? 0x11 : 0x77, sizeof(DenseSolver<double>));
            DenseSolver<double>* a = new (mem) DenseSolver<double>;
            a->setup(q.P, q.c, q.A, q.b);
            a->solve();
            sig[k] = a->result().info.sigma;
        }
        if (std::memcmp(&sig[0], &sig[1], sizeof(double)) != 0) std::printf("F11: DEFECT info.sigma of an equality-only problem depends on previous memory content: %g vs %g\n", sig[0], sig[1]);
        else std::printf("F11: ok\n");
    }
    if (which == "F12" || which == "all") {
        // rejected setup() on a set-up solver: c of wrong size for a 2x2 problem
        DenseSolver<double> a, t;
        a.setup(q.P, q.c, q.A, q.b, q.G, q.h, q.lb, q.ub); t.setup(q.P, q.c, q.A, q.b, q.G, q.h, q.lb, q.ub);
        M P2 = M::Identity(2, 2);
        a.setup(P2, q.c);   // rejected: c has 3 entries
        Status sa = a.solve(), st = t.solve();
        if (sa != st || !same(a.result().x, t.result().x))
            std::printf("F12: DEFECT rejected setup(P 2x2, c of size 3) changed later results: status %d vs twin %d, x size %ld vs %ld\n", sa, st, (long) a.result().x.size(), (long) t.result().x.size());
        else std::printf("F12: ok\n");
    }
    if (which == "F13" || which == "all") {
        // update(c, reuse_preconditioner=false) re-equilibrates P, A, G, but the KKT caches are only refreshed for the
        // blocks that were passed: the factorised matrix no longer belongs to the scaled data.
        // A fresh solver on the same data uses the same scaling, so it must take the same number of iterations.
        V c2(3); c2 << -3, 0.25, 2;
        int it_upd[2], it_fresh[2];
        {
            SparseSolver<double, int> a, f;
            M P1 = q.P; P1(0, 0) = 400;   // make the first equilibration differ clearly from the second
            SparseMat<double, int> P1s = P1.sparseView();
            a.setup(P1s, q.c, q.As(), q.b, q.Gs(), q.h, q.lb, q.ub); a.solve();
            a.update(q.Ps(), c2, nullopt, nullopt, nullopt, nullopt, nullopt, nullopt, false);
            Status s1 = a.solve(); it_upd[0] = (int) a.result().info.iter;
            f.setup(q.Ps(), c2, q.As(), q.b, q.Gs(), q.h, q.lb, q.ub); Status s2 = f.solve(); it_fresh[0] = (int) f.result().info.iter;
            (void) s1; (void) s2;
        }
        {
            DenseSolver<double> a, f;
            M P1 = q.P; P1(0, 0) = 400;
            a.setup(P1, q.c, q.A, q.b, q.G, q.h, q.lb, q.ub); a.solve();
            a.update(q.P, c2, nullopt, nullopt, nullopt, nullopt, nullopt, nullopt, false);
            a.solve(); it_upd[1] = (int) a.result().info.iter;
            f.setup(q.P, c2, q.A, q.b, q.G, q.h, q.lb, q.ub); f.solve(); it_fresh[1] = (int) f.result().info.iter;
        }
        if (it_upd[0] != it_fresh[0] || it_upd[1] != it_fresh[1])
            std::printf("F13: DEFECT after update(P, c, reuse=false) the solver needs %d (sparse) / %d (dense) iterations, a fresh solver with the same scaling %d / %d: stale KKT caches (A'A, G copies) are factorised\n", it_upd[0], it_upd[1], it_fresh[0], it_fresh[1]);
        else std::printf("F13: ok\n");
    }
    if (which == "F16" || which == "all") {
        // rows of G whose h is infinite are zeroed when h is passed; afterwards
        //  (a) update(G) alone re-activates the row with the placeholder h = 1 (a constraint the user never posed)
        //  (b) update(h finite) alone leaves the row zero (the constraint the user now poses is ignored)
        M G2(2, 3); G2 << 1, 0, 0, 0, 1, 2;
        V hinf(2); hinf << INF, 3;
        V cc(3); cc << -10, -2, 0.5;    // pushes x0 up: x0 <= 1 would be active if the row were (wrongly) enabled with h = 1
        {
            DenseSolver<double> a, f;
            a.setup(q.P, cc, nullopt, nullopt, G2, hinf); a.solve();
            M G3 = G2; G3(0, 0) = 2;     // new values, same shape; h[0] is still +inf
            a.update(nullopt, nullopt, nullopt, nullopt, G3); a.solve();
            f.setup(q.P, cc, nullopt, nullopt, G3, hinf); f.solve();
            double d = (a.result().x - f.result().x).cwiseAbs().maxCoeff();
            if (d > 1e-6) std::printf("F16a: DEFECT update(G) while h[0] = +inf activates row 0 with h = 1: x0 = %.6f, fresh solver on the same data x0 = %.6f\n", a.result().x(0), f.result().x(0));
            else std::printf("F16a: ok\n");
        }
        {
            DenseSolver<double> a, f;
            a.setup(q.P, cc, nullopt, nullopt, G2, hinf); a.solve();
            V hfin(2); hfin << 0.5, 3;   // row 0 now means x0 <= 0.5
            a.update(nullopt, nullopt, nullopt, nullopt, nullopt, hfin); a.solve();
            f.setup(q.P, cc, nullopt, nullopt, G2, hfin); f.solve();
            if (a.result().x(0) > 0.5 + 1e-6) std::printf("F16b: DEFECT update(h finite again) leaves row 0 of G zeroed: x0 = %.6f violates x0 <= 0.5 (fresh solver: %.6f), status %d\n", a.result().x(0), f.result().x(0), (int) a.result().info.status);
            else std::printf("F16b: ok\n");
        }
    }
    if (which == "F17" || which == "all") {
        // update(h) with an infinite entry zeroes a row of G in the data but does not tell the KKT back end that G changed:
        // KKT_FULL keeps factorising with the old row. A fresh solver on the same data needs far fewer iterations.
        M G2(2, 3); G2 << 1, 0, 0, 0, 1, 2;
        V h0(2); h0 << 0.5, 3;
        V cc(3); cc << -10, -2, 0.5;
        V hinf(2); hinf << INF, 3;
        SparseSolver<double, int, KKTMode::KKT_FULL> a, f;
        SparseMat<double, int> G2s = G2.sparseView();
        a.setup(q.Ps(), cc, nullopt, nullopt, G2s, h0); a.solve();
        a.update(nullopt, nullopt, nullopt, nullopt, nullopt, hinf); Status sa = a.solve();
        f.setup(q.Ps(), cc, nullopt, nullopt, G2s, hinf); Status sf = f.solve();
        long ia = (long) a.result().info.iter, i_f = (long) f.result().info.iter;
        if (sa != sf || ia > 2 * i_f + 2)
            std::printf("F17: DEFECT after update(h with h[0]=+inf) KKT_FULL keeps the old row of G in its KKT matrix: status %d after %ld iterations, fresh solver status %d after %ld\n", (int) sa, ia, (int) sf, i_f);
        else std::printf("F17: ok (%ld vs %ld iterations)\n", ia, i_f);
    }
    if (which == "F18" || which == "all") {
        // check_duality_gap = false: SOLVED on an infeasible LP (x0 fixed to 0 by its bounds, row 0 demands x0 >= 1)
        M P0 = M::Zero(2, 2); V c0(2); c0 << -1, 0;
        M G0(2, 2); G0 << -1, 0, 0, 1;
        V h0(2); h0 << -1, 1;
        V lb0(2); lb0 << 0, -INF;
        V ub0(2); ub0 << 0, INF;
        DenseSolver<double> a;
        a.settings().check_duality_gap = false;
        a.setup(P0, c0, nullopt, nullopt, G0, h0, lb0, ub0);
        Status s = a.solve();
        double viol = -a.result().x(0) + 1;     // row 0: -x0 <= -1
        if (s == PIQP_SOLVED && viol > 0.1)
            std::printf("F18: DEFECT check_duality_gap=false: PIQP_SOLVED on an infeasible LP, row 0 violated by %.3f, primal_inf %.3e primal_rel_inf %.3e\n",
                        viol, a.result().info.primal_inf, a.result().info.primal_rel_inf);
        else std::printf("F18: ok (status %d)\n", (int) s);
    }
    if (which == "F20" || which == "all") {
        // badly column-scaled singular unbounded QP, IdentityPreconditioner: SOLVED at |x| ~ 1e13 because P x + c evaluates to 0 by cancellation
        M P0(2, 2); P0 << 10000, -6400, -6400, 4096;      // D [[1,-1],[-1,1]] D, D = diag(100, 64)
        V c0(2); c0 << 0, 64;                               // unbounded below along -(64, 100)
        SparseMat<double, int> P0s = P0.sparseView();
        SparseSolver<double, int, KKT_FULL, sparse::IdentityPreconditioner<double, int>> a;
        a.setup(P0s, c0, nullopt, nullopt, nullopt, nullopt, nullopt, nullopt);
        Status s = a.solve();
        V x = a.result().x;
        // exact residual at the returned point, in long double with the products split to avoid the same cancellation
        long double r0 = 10000.0L * x(0) - 6400.0L * x(1), r1 = -6400.0L * x(0) + 4096.0L * x(1) + 64.0L;
        if (s == PIQP_SOLVED)
            std::printf("F20: DEFECT PIQP_SOLVED on an unbounded problem after %ld iterations: x = (%.3e, %.3e), reported dual_inf %.3e, residual in extended precision (%.3Lf, %.3Lf)\n",
                        (long) a.result().info.iter, x(0), x(1), a.result().info.dual_inf, r0, r1);
        else std::printf("F20: ok (status %d)\n", (int) s);
    }
    if (which == "F19") {
        // dense::LDLTNoPivot::solve / solveInPlace with a multi-column right-hand side: `dst.array() /= vectorD().array()` divides an
        // n x k array by an n x 1 one.  Build with -DNDEBUG (with assertions on, Eigen aborts on the size mismatch instead).
        M K(3, 3); K << 4, 1, 2, 1, 3, 0, 2, 0, -5;
        M B(3, 3); B << 1, 2, 3, 4, 5, 6, 7, 8, 10;
        dense::LDLTNoPivot<M, Eigen::Lower> f(K);
        M X = f.solve(B);
        double r = (K * X - B).cwiseAbs().maxCoeff();
        double r1 = (K * f.solve(B.col(2)) - B.col(2)).cwiseAbs().maxCoeff();
        if (!(r < 1e-9)) std::printf("F19: DEFECT LDLTNoPivot::solve(3x3 right-hand side): |K X - B|_inf = %g (column by column: %g)\n", r, r1);
        else std::printf("F19: ok (%g)\n", r);
    }
    if (which == "F9") {
        // sparse: update(A') with the same nnz but a different pattern is accepted; run under ASan
        SparseSolver<double, int> a;
        M A2(2, 3); A2 << 1, 0, 0, 0, 1, 0;
        V b2(2); b2 << 1, 1;
        SparseMat<double, int> A2s = A2.sparseView();
        a.setup(q.Ps(), q.c, A2s, b2, q.Gs(), q.h, q.lb, q.ub);
        M A3(2, 3); A3 << 0, 0, 0, 1, 1, 0;     // both entries in row 1
        SparseMat<double, int> A3s = A3.sparseView();
        a.update(nullopt, nullopt, A3s);
        Status s = a.solve();
        std::printf("F9: update with non-matching pattern returned, status %d (under ASan a heap-buffer-overflow is reported before this line if the defect is present)\n", s);
    }
    return 0;
}
