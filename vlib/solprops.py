"""Exact evaluation of the solver-level properties on the *implementation's* outputs (hsolq dumps are exact
rationals in hex, so every check here is an exact comparison, no tolerance slack)."""
from fractions import Fraction as F

INF = "inf"
PIQP_INF = F(1e30)


def hx(t):
    if t in ("poison",):
        return None
    if t == "inf":
        return "inf"
    if t == "-inf":
        return "-inf"
    a, _, b = t.partition("/")
    return F(int(a, 16), int(b, 16) if b else 1)


def vec(toks):
    return [hx(t) for t in toks]


INFO_FIELDS = ["status", "iter", "rho", "delta", "mu", "sigma", "primal_step", "dual_step", "primal_inf", "primal_rel_inf",
               "dual_inf", "dual_rel_inf", "primal_obj", "dual_obj", "duality_gap", "duality_gap_rel", "factor_retires",
               "reg_limit", "no_primal_update", "no_dual_update"]
VEC_KEYS = ["x", "y", "z", "z_lb", "z_ub", "s", "s_lb", "s_ub", "zeta", "lambda", "nu", "nu_lb", "nu_ub"]


def parse_output(lines):
    """-> list of events in order: ('ok',), ('rejected', msg), ('status', code), ('dump', dict), ('perm', ...), ('nosolver',)"""
    ev = []
    cur = None
    for l in lines:
        if l.startswith("#"):
            continue
        t = l.split()
        if not t:
            continue
        k = t[0]
        if k == "info":
            # numbers stay unparsed hex tokens (converting 10^5-digit rationals is expensive); use hx()/vec() on demand
            cur = {"info": {}}
            cur["info"]["status"] = int(t[1])
            cur["info"]["iter"] = int(t[2])
            for name, tok in zip(INFO_FIELDS[2:], t[3:]):
                cur["info"][name] = tok
            ev.append(("dump", cur))
        elif k in VEC_KEYS and cur is not None:
            cur[k] = t[1:]
        elif k.startswith("data.") or k.startswith("pre") or k.startswith("K") or k == "kkt":
            if cur is not None:
                cur.setdefault("raw", {})[k] = t[1:]
        elif k == "flags":
            if cur is not None:
                cur["flags"] = [int(x) for x in t[1:]]
                cur = None
        elif k == "ok":
            ev.append(("ok",))
        elif k == "rejected":
            ev.append(("rejected", " ".join(t[1:])))
        elif k == "status":
            ev.append(("status", int(t[1])))
        elif k == "nosolver":
            ev.append(("nosolver",))
        elif k == "error":
            ev.append(("error", " ".join(t[1:])))
    return ev


def norm_inf(v):
    return max([abs(x) for x in v], default=F(0))


def is_fin(b):
    return not isinstance(b, str)


class Eff:
    """effective problem as the property defines it: current data; rows of G with |h| beyond 1e30 disabled
    (0^T x <= 1); bounds beyond +-1e30 absent"""

    def __init__(self, P, c, A, b, G, h, lb, ub):
        n = len(c)
        self.n, self.p, self.m = n, len(b), len(h)
        self.P = [[P[min(i, j)][max(i, j)] for j in range(n)] for i in range(n)]   # symmetrised from the upper triangle
        self.c, self.A, self.b = c, A, b
        self.G, self.h = [], []
        for row, hv in zip(G, h):
            if isinstance(hv, str) or hv > PIQP_INF or hv < -PIQP_INF:
                self.G.append([F(0)] * n); self.h.append(F(1))
            else:
                self.G.append(list(row)); self.h.append(hv)
        self.lb = [(v if (is_fin(v) and v > -PIQP_INF) else None) for v in lb] if lb is not None else [None] * n
        self.ub = [(v if (is_fin(v) and v < PIQP_INF) else None) for v in ub] if ub is not None else [None] * n


def mv(M, x):
    return [sum(a * b for a, b in zip(row, x)) for row in M]


def mtv(M, y, n):
    return [sum(M[i][j] * y[i] for i in range(len(M))) for j in range(n)]


def dot(a, b):
    return sum(x * y for x, y in zip(a, b))


def quantities(e, d):
    """all quantities the properties talk about, from the user's data and the returned point (exact)"""
    x, y, z, zl, zu, s, sl, su = (d[k] for k in ("x", "y", "z", "z_lb", "z_ub", "s", "s_lb", "s_ub"))
    if any(v is None or isinstance(v, str) for v in x + y + z + s):
        return None
    n = e.n
    Px = mv(e.P, x)
    ATy = mtv(e.A, y, n)
    GTz = mtv(e.G, z, n)
    zlf = [(zl[j] if e.lb[j] is not None else F(0)) for j in range(n)]
    zuf = [(zu[j] if e.ub[j] is not None else F(0)) for j in range(n)]
    if any(v is None or isinstance(v, str) for v in zlf + zuf):
        return None
    dual_other = [ATy[j] + GTz[j] - zlf[j] + zuf[j] for j in range(n)]
    rd = [Px[j] + e.c[j] + dual_other[j] for j in range(n)]
    Ax = mv(e.A, x)
    Gx = mv(e.G, x)
    rp_eq = [Ax[i] - e.b[i] for i in range(e.p)]
    rp_in = [Gx[i] + s[i] - e.h[i] for i in range(e.m)]
    lbs = [j for j in range(n) if e.lb[j] is not None]
    ubs = [j for j in range(n) if e.ub[j] is not None]
    if any(sl[j] is None or isinstance(sl[j], str) for j in lbs) or any(su[j] is None or isinstance(su[j], str) for j in ubs):
        return None
    rp_lb = [x[j] - sl[j] - e.lb[j] for j in lbs]
    rp_ub = [x[j] + su[j] - e.ub[j] for j in ubs]
    xPx = dot(x, Px)
    cx = dot(e.c, x)
    by = dot(e.b, y)
    hz = dot(e.h, z)
    lz = sum(e.lb[j] * zl[j] for j in lbs)
    uz = sum(e.ub[j] * zu[j] for j in ubs)
    pobj = xPx / 2 + cx
    dobj = -xPx / 2 - by - hz + lz - uz
    q = {
        "dual_inf": norm_inf(rd),
        "dual_rel_inf": max(norm_inf(Px), norm_inf(e.c), norm_inf(dual_other)),
        "primal_inf": max(norm_inf(rp_eq), norm_inf(rp_in), norm_inf(rp_lb), norm_inf(rp_ub)),
        "primal_rel_inf": max([norm_inf(Ax), norm_inf(e.b), norm_inf(Gx), norm_inf(e.h), norm_inf(s),
                               norm_inf([x[j] for j in lbs]), norm_inf([e.lb[j] for j in lbs]), norm_inf([sl[j] for j in lbs]),
                               norm_inf([x[j] for j in ubs]), norm_inf([e.ub[j] for j in ubs]), norm_inf([su[j] for j in ubs])]),
        "primal_obj": pobj, "dual_obj": dobj, "duality_gap": abs(pobj - dobj),
        "duality_gap_rel": max(abs(xPx), abs(cx), abs(by), abs(hz), abs(lz), abs(uz)),
        "lbs": lbs, "ubs": ubs,
    }
    return q


def cert_failures(e, st, d):
    """C01: clauses of the optimality certificate that fail for a SOLVED result (exact)."""
    q = quantities(e, d)
    if q is None:
        return ["result contains poison/non-finite entries"]
    fails = []
    if not q["dual_inf"] < st["eps_abs"] + st["eps_rel"] * q["dual_rel_inf"]:
        fails.append(f"stationarity: ||Px+c+A'y+G'z-z_lb+z_ub||inf = {float(q['dual_inf']):.3e} not < tol {float(st['eps_abs'] + st['eps_rel'] * q['dual_rel_inf']):.3e}")
    if not q["primal_inf"] < st["eps_abs"] + st["eps_rel"] * q["primal_rel_inf"]:
        fails.append(f"primal feasibility: residual {float(q['primal_inf']):.3e} not < tol {float(st['eps_abs'] + st['eps_rel'] * q['primal_rel_inf']):.3e}")
    if st["check_duality_gap"] and not q["duality_gap"] < st["eps_duality_gap_abs"] + st["eps_duality_gap_rel"] * q["duality_gap_rel"]:
        fails.append(f"duality gap {float(q['duality_gap']):.3e} not < tol")
    for nm in ("z", "s"):
        if any(v < 0 for v in d[nm]):
            fails.append(f"{nm} has a negative entry")
    for nm, idx in (("z_lb", q["lbs"]), ("s_lb", q["lbs"]), ("z_ub", q["ubs"]), ("s_ub", q["ubs"])):
        if any(d[nm][j] < 0 for j in idx):
            fails.append(f"{nm} has a negative entry on a finite bound")
    return fails


def wellformed_failures(e, d, solvable=True):
    """C08: sizes, finiteness, signs, exact 0 / +inf at infinite bounds, original indexing."""
    fails = []
    n, p, m = e.n, e.p, e.m
    for k, want in (("x", n), ("y", p), ("z", m), ("z_lb", n), ("z_ub", n), ("s", m), ("s_lb", n), ("s_ub", n)):
        if len(d[k]) != want:
            fails.append(f"{k} has size {len(d[k])}, expected {want}")
    if fails:
        return fails
    for j in range(n):
        for zk, sk, bnd in (("z_lb", "s_lb", e.lb), ("z_ub", "s_ub", e.ub)):
            if bnd[j] is None:
                if d[zk][j] != 0:
                    fails.append(f"{zk}[{j}] = {d[zk][j]} but the bound is infinite (must be exactly 0)")
                if d[sk][j] != "inf":
                    fails.append(f"{sk}[{j}] = {d[sk][j]} but the bound is infinite (must be +inf)")
            else:
                if d[zk][j] is None or isinstance(d[zk][j], str) or d[sk][j] is None or isinstance(d[sk][j], str):
                    fails.append(f"{zk}/{sk}[{j}] not finite on a finite bound")
                elif solvable:
                    if d[zk][j] < 0:
                        fails.append(f"{zk}[{j}] negative")
                    if not d[sk][j] > 0:
                        fails.append(f"{sk}[{j}] not positive")
    for k in ("x", "y", "z", "s"):
        if any(v is None or isinstance(v, str) for v in d[k]):
            fails.append(f"{k} contains a non-finite entry")
    if solvable and not fails:
        if any(v < 0 for v in d["z"]):
            fails.append("z negative")
        if any(not v > 0 for v in d["s"]):
            fails.append("s not positive")
    return fails


def diagnostics_failures(e, st, d, status):
    """C09: info fields vs the returned point (exact equality in exact arithmetic)."""
    q = quantities(e, d)
    if q is None:
        return []
    i = d["info"]
    fails = []
    if i["status"] != status:
        fails.append(f"info.status {i['status']} != returned status {status}")
    if i["iter"] > st["max_iter"]:
        fails.append(f"info.iter {i['iter']} > max_iter {st['max_iter']}")
    if i["iter"] >= 1 or status == 1:
        for k in ("primal_obj", "dual_obj", "duality_gap"):
            if i[k] != q[k]:
                fails.append(f"info.{k} = {float(i[k]) if i[k] is not None else None} != value at the returned point {float(q[k])}")
    if status in (1, -2, -3):
        for k in ("primal_inf", "dual_inf"):
            if i[k] != q[k]:
                fails.append(f"info.{k} = {float(i[k]) if i[k] is not None else None} != residual norm of the returned point {float(q[k])}")
    return fails
