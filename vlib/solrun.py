"""Whole-solver exact correspondence (tie A): hsolq (real templates, T = Q) vs the Lean driver (model at QQ)."""
import os
from concurrent.futures import ThreadPoolExecutor

from .common import HARNESS, build_cpp
from .diffrun import DRIVER, run_chunks, compare, case_text


def build_hsolq(backends=(0, 1, 2, 3, 4)):
    """one binary per back end (compiled in parallel); returns {be: exe} or raises with the compiler log"""
    src = [os.path.join(HARNESS, "hsolq.cpp")]

    def one(be):
        return be, build_cpp(f"hsolq{be}", src, flags=["-O1", f"-DHSOLQ_ONLY_BE={be}"], libs=["-lgmpxx", "-lgmp"])

    exes = {}
    with ThreadPoolExecutor(max_workers=5) as ex:
        for be, (ok, exe, log) in ex.map(one, backends):
            if not ok:
                raise RuntimeError(f"hsolq (back end {be}) does not compile against the current /repo tree:\n" + log[-4000:])
            exes[be] = exe
    return exes


def strip_comments(out):
    return {k: [l for l in v if not l.startswith("#")] for k, v in out.items()}


def events(lines):
    """last '#ev a b c d e' line -> tuple"""
    ev = None
    for l in lines:
        if l.startswith("#ev "):
            ev = tuple(int(x) for x in l.split()[1:])
    return ev


def exact_prefix(raw):
    """Lines of an implementation run up to (excluding) the first command during which a numeric trap occurred
    (division by zero, sqrt of a negative number, arithmetic/comparison on a value derived from those).
    From there on the run has left exact field arithmetic: 0 * NaN is 0 for a structurally absent sparse entry and
    NaN for a stored one, so the dense-denotation model no longer applies.  Returns (lines, trapped)."""
    keep, cur = [], []
    for l in raw:
        if l.startswith("#ev "):
            ev = [int(x) for x in l.split()[1:]]
            if any(ev[:5]):
                return keep, True
            keep += cur
            cur = []
        elif not l.startswith("#"):
            cur.append(l)
    return keep + cur, False


def run_sol_cases(cases, exes, nproc=14, timeout=12):
    """cases: list of {name, lines, meta{be}}.  Two passes: the implementation first (it reports the AMD
    permutation it chose), then the model with that permutation as an input.
    -> (impl_raw, impl, model, mismatches, errors)"""
    impl_raw, errs = {}, []
    by_be = {}
    for c in cases:
        by_be.setdefault(c["meta"]["be"], []).append(c)
    per = max(1, nproc // max(1, len(by_be)))
    with ThreadPoolExecutor(max_workers=len(by_be) or 1) as ex:
        futs = [ex.submit(run_chunks, [exes[be]], cs, per, timeout) for be, cs in by_be.items()]
        for f in futs:
            o, e = f.result()
            impl_raw.update(o)
            errs += [("impl", x) for x in e]
    # fill in permutations
    mcases = []
    implost = {x["name"] for _, x in errs}
    for c in cases:
        if c["name"] in implost:
            continue
        out = impl_raw.get(c["name"]) or []
        perms = [l for l in out if l.startswith("perm")]
        it = iter(perms)
        lines = []
        for l in c["lines"]:
            if l.strip() == "sol.perm":
                pl = next(it, "perm")
                lines.append("sol.perm" + pl[4:])
            else:
                lines.append(l)
        mcases.append({"name": c["name"], "lines": lines, "meta": c["meta"]})
    model, e2 = run_chunks([DRIVER], mcases, nproc, 3 * timeout)
    errs += [("model", x) for x in e2]
    impl, trapped = {}, set()
    for k, v in impl_raw.items():
        impl[k], tr = exact_prefix(v)
        if tr:
            trapped.add(k)
    # a case lost to a timeout on either side is not compared (it is reported in the evidence, never as a violation)
    lostnames = {x["name"] for _, x in errs if "timeout" in x.get("why", "")}
    live = [c for c in cases if c["name"] not in lostnames]
    mod = strip_comments(model)
    for k in trapped:
        if k in mod:
            mod[k] = mod[k][:len(impl[k])]
    bad = compare(live, impl, mod)
    run_sol_cases.last_trapped = trapped
    return impl_raw, impl, model, bad, errs
