"""Tie B: bit-exact replay of the control skeleton (Lean `loopG` at Float) on traces of real double-precision solves."""
import os

from .common import HARNESS, build_cpp
from .diffrun import DRIVER, run_chunks


def build_hsold():
    ok, exe, log = build_cpp("hsold", [os.path.join(HARNESS, "hsold.cpp")], flags=["-O2"], libs=[])
    if not ok:
        raise RuntimeError("hsold does not compile against the current /repo tree:\n" + log[-4000:])
    return exe


def split_solves(lines):
    """-> list of dicts {header, obs (list of lines), states (list), status, calls} for each traced solve in a case output"""
    out, cur = [], None
    for l in lines:
        t = l.split()
        if not t:
            continue
        if t[0] == "H":
            cur = {"header": t[1:], "obs": [], "states": [], "status": None}
        elif cur is not None and t[0] in ("A", "B", "S", "F", "C", "I"):
            cur["obs"].append(l)
        elif cur is not None and t[0] in ("a", "s", "i", "r"):
            cur["states"].append(l)
        elif t[0] == "status":
            if cur is not None:
                cur["status"] = int(t[1])
                cur["calls"] = int(t[3]) if len(t) > 3 else None
                out.append(cur)
            cur = None
    return out


def replay_cases(impl_by_case):
    """build one Lean case per traced solve (statuses -9/-10 have no loop and are skipped)"""
    cases, index = [], {}
    for name, lines in impl_by_case.items():
        for k, sv in enumerate(split_solves(lines)):
            if sv["status"] in (-9, -10):
                continue
            L = ["skel.begin " + " ".join(sv["header"])]
            L += ["skel.o " + o for o in sv["obs"]]
            L.append("skel.end")
            cn = f"{name}#{k}"
            cases.append({"name": cn, "lines": L})
            index[cn] = sv
    return cases, index


def run_tie_b(cases, exe, nproc=14, timeout=30):
    """cases: d.* cases. -> (impl outputs, list of mismatches {case, solve, line, impl, model}, stats)"""
    impl, lost = run_chunks([exe], cases, nproc, timeout)
    rcases, index = replay_cases(impl)
    model, lost2 = run_chunks([DRIVER], rcases, nproc, timeout)
    bad = []
    nsolves = 0
    for rc in rcases:
        sv = index[rc["name"]]
        want = sv["states"]
        got = model.get(rc["name"])
        nsolves += 1
        if got is None:
            bad.append({"case": rc["name"], "line": -1, "impl": "<present>", "model": "<missing>"})
            continue
        if got != want:
            for i in range(max(len(got), len(want))):
                x = want[i] if i < len(want) else "<eof>"
                y = got[i] if i < len(got) else "<eof>"
                if x != y:
                    bad.append({"case": rc["name"], "line": i, "impl": x, "model": y})
                    break
    return impl, bad, {"solves_replayed": nsolves, "lost_impl": lost, "lost_model": lost2}
