"""Generator of `sol.*` histories for the whole-solver exact correspondence (tie A) and of the
valid/invalid call histories used by C01, C04, C05, C07, C08, C09, C10."""
import random
from fractions import Fraction as F

from .gen_kkt import fs, vs, psd_matrix, rnd_val, rnd_mat, rnd_mask

# numeric literals of the C++ source as the exact values of the doubles the compiler produces
CONSTS = [F(1e-4), F(1e4), F(1e-3), F(1e30), F(2.220446049250313e-16), F(0.95), F(0.666), F(1e12), F(1e2), F(1.5), F(0.5),
          F(0.1), F(1e-4)]
CONSTS_LINE = "sol.consts " + " ".join(fs(c) for c in CONSTS)

SET_FIELDS = ["rho_init", "delta_init", "eps_abs", "eps_rel", "check_duality_gap", "eps_duality_gap_abs", "eps_duality_gap_rel",
              "reg_lower_limit", "reg_finetune_lower_limit", "reg_finetune_primal_update_threshold",
              "reg_finetune_dual_update_threshold", "max_iter", "max_factor_retires", "preconditioner_scale_cost",
              "preconditioner_iter", "tau", "iterative_refinement_always_enabled", "iterative_refinement_eps_abs",
              "iterative_refinement_eps_rel", "iterative_refinement_max_iter", "iterative_refinement_min_improvement_rate",
              "iterative_refinement_static_regularization_eps", "iterative_refinement_static_regularization_rel"]


def dyadic_settings(rng, max_iter=1, **over):
    s = {
        "rho_init": F(1, 2 ** 10), "delta_init": F(1, 2 ** 6), "eps_abs": F(1, 2 ** 20), "eps_rel": F(1, 2 ** 24),
        "check_duality_gap": 1, "eps_duality_gap_abs": F(1, 2 ** 20), "eps_duality_gap_rel": F(1, 2 ** 24),
        "reg_lower_limit": F(1, 2 ** 30), "reg_finetune_lower_limit": F(1, 2 ** 40),
        "reg_finetune_primal_update_threshold": 7, "reg_finetune_dual_update_threshold": 5,
        "max_iter": max_iter, "max_factor_retires": 10, "preconditioner_scale_cost": 0, "preconditioner_iter": 10,
        "tau": F(3, 4), "iterative_refinement_always_enabled": 0, "iterative_refinement_eps_abs": F(1, 2 ** 40),
        "iterative_refinement_eps_rel": F(1, 2 ** 40), "iterative_refinement_max_iter": 2,
        "iterative_refinement_min_improvement_rate": 5, "iterative_refinement_static_regularization_eps": F(1, 2 ** 20),
        "iterative_refinement_static_regularization_rel": F(1, 2 ** 50),
    }
    s.update(over)
    return s


def settings_line(s):
    return "sol.settings " + " ".join(fs(s[k]) if isinstance(s[k], F) else str(s[k]) for k in SET_FIELDS)


def rand_settings(rng, max_iter=1):
    return dyadic_settings(
        rng, max_iter=max_iter,
        preconditioner_iter=rng.choice([0, 1, 2, 10]), preconditioner_scale_cost=rng.choice([0, 0, 1]),
        check_duality_gap=rng.choice([0, 1]), tau=rng.choice([F(3, 4), F(1, 2), F(7, 8), F(1)]),
        iterative_refinement_always_enabled=rng.choice([0, 0, 1]), iterative_refinement_max_iter=rng.choice([0, 1, 2]),
        iterative_refinement_min_improvement_rate=rng.choice([1, 2, 5]),
        rho_init=F(1, 2 ** rng.choice([6, 10, 14])), delta_init=F(1, 2 ** rng.choice([4, 6, 10])))


class Problem:
    """A QP with exact rational data; sparse back ends get a stored pattern (mask)."""

    def __init__(self, rng, n=None, p=None, m=None, sparse=True, bounds=None):
        self.n = n if n is not None else rng.randint(1, 4)
        self.p = p if p is not None else rng.choice([0, 0, 1, 2])
        self.p = min(self.p, self.n)
        self.m = m if m is not None else rng.choice([0, 1, 2, 3])
        n, p, m = self.n, self.p, self.m
        self.P = psd_matrix(rng, n) if rng.random() < 0.85 else [[F(0)] * n for _ in range(n)]
        self.maskP = [[self.P[i][j] != 0 or (i == j and rng.random() < 0.5) for j in range(n)] for i in range(n)]
        self.maskA = rnd_mask(rng, p, n, rng.choice([0.5, 1.0]))
        self.maskG = rnd_mask(rng, m, n, rng.choice([0.5, 1.0]))
        self.A = rnd_mat(rng, p, n, self.maskA)
        self.G = rnd_mat(rng, m, n, self.maskG)
        self.c = [rnd_val(rng, True) for _ in range(n)]
        x0 = [F(rng.randint(-2, 2), rng.choice([1, 2])) for _ in range(n)]
        self.b = [sum(self.A[i][j] * x0[j] for j in range(n)) for i in range(p)]
        self.h = [sum(self.G[i][j] * x0[j] for j in range(n)) + F(rng.randint(1, 4), 2) for i in range(m)]
        self.x0 = x0
        self.lb, self.ub = self.rand_bounds(rng, bounds)
        self.has_lb = rng.random() < 0.8
        self.has_ub = rng.random() < 0.8
        if m and rng.random() < 0.1:
            self.h[rng.randrange(m)] = "inf"

    def rand_bounds(self, rng, pattern=None):
        n = self.n
        lb, ub = [], []
        for j in range(n):
            kind = pattern[j] if pattern else rng.choice(["free", "lb", "ub", "both", "both", "eq"])
            lo = self.x0[j] - F(rng.randint(1, 3), 2) if hasattr(self, "x0") else F(-1)
            hi = self.x0[j] + F(rng.randint(1, 3), 2) if hasattr(self, "x0") else F(1)
            if kind == "free":
                lb.append("-inf"); ub.append("inf")
            elif kind == "lb":
                lb.append(lo); ub.append("inf" if rng.random() < 0.8 else F(2 * 10 ** 30))
            elif kind == "ub":
                lb.append("-inf" if rng.random() < 0.8 else F(-2 * 10 ** 30)); ub.append(hi)
            elif kind == "both":
                lb.append(lo); ub.append(hi)
            else:
                lb.append(self.x0[j] if hasattr(self, "x0") else F(0)); ub.append(lb[-1])
        return lb, ub

    def snapshot(self):
        """the data as the user last passed them (the property's effective problem is derived from this)"""
        import copy
        return {"P": copy.deepcopy(self.P), "c": list(self.c), "A": copy.deepcopy(self.A), "b": list(self.b),
                "G": copy.deepcopy(self.G), "h": list(self.h), "lb": list(self.lb) if self.has_lb else None,
                "ub": list(self.ub) if self.has_ub else None}

    def mat_arg(self, name, M, mask, r, c, sparse):
        toks = []
        for i in range(r):
            for j in range(c):
                if sparse and not mask[i][j]:
                    toks.append(".")
                else:
                    toks.append(fs(M[i][j]))
        return f"{name} {r} {c} " + " ".join(toks)

    def vec_arg(self, name, v):
        return f"{name} {len(v)} " + " ".join(fs(x) for x in v)

    def setup_line(self, sparse):
        n, p, m = self.n, self.p, self.m
        parts = ["sol.setup", self.mat_arg("P", self.P, self.maskP, n, n, sparse), self.vec_arg("c", self.c)]
        if p:
            parts += [self.mat_arg("A", self.A, self.maskA, p, n, sparse), self.vec_arg("b", self.b)]
        if m:
            parts += [self.mat_arg("G", self.G, self.maskG, m, n, sparse), self.vec_arg("h", self.h)]
        if self.has_lb:
            parts.append(self.vec_arg("lb", self.lb))
        if self.has_ub:
            parts.append(self.vec_arg("ub", self.ub))
        return " ".join(parts)

    def update_line(self, rng, sparse, subset, reuse):
        """mutate the blocks in `subset` (same pattern) and return the update line.
        Rows of G whose h is infinite are zeroed by PIQP when h is passed. Making such an h finite again without passing G
        leaves the row zero (known finding F16b, owned by the C04 check): unless `self.allow_hrow` is set the generator keeps
        a disabled row disabled when h is passed without G."""
        n, p, m = self.n, self.p, self.m
        subset = list(subset)
        parts = ["sol.update", str(int(reuse))]
        if "P" in subset:
            newP = psd_matrix(rng, n)
            for i in range(n):
                for j in range(n):
                    if not self.maskP[i][j] and not self.maskP[j][i]:
                        newP[i][j] = F(0)
            # keep symmetry and the stored pattern
            for i in range(n):
                for j in range(n):
                    if i <= j and not self.maskP[i][j]:
                        newP[i][j] = F(0); newP[j][i] = F(0)
            self.P = newP
            parts.append(self.mat_arg("P", self.P, self.maskP, n, n, sparse))
        if "c" in subset:
            self.c = [rnd_val(rng, True) for _ in range(n)]
            parts.append(self.vec_arg("c", self.c))
        if "A" in subset and p:
            self.A = rnd_mat(rng, p, n, self.maskA)
            parts.append(self.mat_arg("A", self.A, self.maskA, p, n, sparse))
        if "b" in subset and p:
            self.b = [sum(self.A[i][j] * self.x0[j] for j in range(n)) for i in range(p)]
            parts.append(self.vec_arg("b", self.b))
        if "G" in subset and m:
            self.G = rnd_mat(rng, m, n, self.maskG)
            parts.append(self.mat_arg("G", self.G, self.maskG, m, n, sparse))
        if "h" in subset and m:
            keep_inf = [i for i in range(m) if isinstance(self.h[i], str)] if ("G" not in subset and not getattr(self, "allow_hrow", False)) else []
            self.h = [sum(self.G[i][j] * self.x0[j] for j in range(n)) + F(rng.randint(1, 4), 2) for i in range(m)]
            if rng.random() < 0.15:
                self.h[rng.randrange(m)] = rng.choice(["inf", "-inf"])
            for i in keep_inf:
                self.h[i] = "inf"
            parts.append(self.vec_arg("h", self.h))
        if "lb" in subset:
            self.has_lb = True
            self.lb, ub2 = self.rand_bounds(rng)
            if "ub" in subset:
                self.has_ub = True
                self.ub = ub2
            else:
                # keep lb <= ub where both finite
                for j in range(n):
                    if not isinstance(self.lb[j], str) and not isinstance(self.ub[j], str) and self.lb[j] > self.ub[j]:
                        self.lb[j] = self.ub[j]
            parts.append(self.vec_arg("lb", self.lb))
        if "ub" in subset:
            self.has_ub = True
            if "lb" not in subset:
                _, self.ub = self.rand_bounds(rng)
                for j in range(n):
                    if not isinstance(self.lb[j], str) and not isinstance(self.ub[j], str) and self.lb[j] > self.ub[j]:
                        self.ub[j] = self.lb[j]
            parts.append(self.vec_arg("ub", self.ub))
        return " ".join(parts)


PIQP_INF = F(1e30)   # the double literal, exactly


def check_line(snap):
    """`sol.check` with the effective problem the properties talk about: latest data; rows of G whose h is beyond
    +-1e30 disabled (0'x <= 1); bounds beyond +-1e30 absent"""
    n, p, m = len(snap["c"]), len(snap["b"]), len(snap["h"])
    P = snap["P"]
    Ps = [[P[min(i, j)][max(i, j)] for j in range(n)] for i in range(n)]
    G, h = [], []
    for row, hv in zip(snap["G"], snap["h"]):
        if isinstance(hv, str) or hv > PIQP_INF or hv < -PIQP_INF:
            G.append([F(0)] * n); h.append(F(1))
        else:
            G.append(row); h.append(hv)
    lb = snap["lb"] if snap["lb"] is not None else ["-inf"] * n
    ub = snap["ub"] if snap["ub"] is not None else ["inf"] * n
    lb = [("-inf" if (isinstance(v, str) or v <= -PIQP_INF) else v) for v in lb]
    ub = [("inf" if (isinstance(v, str) or v >= PIQP_INF) else v) for v in ub]

    def mat(name, M, r, c):
        return f"{name} {r} {c} " + " ".join(fs(x) for row in M for x in row)

    def vec(name, v):
        return f"{name} {len(v)} " + " ".join(fs(x) for x in v)

    parts = ["sol.check", mat("P", Ps, n, n), vec("c", snap["c"])]
    if p:
        parts += [mat("A", snap["A"], p, n), vec("b", snap["b"])]
    if m:
        parts += [mat("G", G, m, n), vec("h", h)]
    parts += [vec("lb", lb), vec("ub", ub)]
    return " ".join(parts)


BLOCKS = ["P", "c", "A", "b", "G", "h", "lb", "ub"]


def subset_of(mask):
    return [BLOCKS[i] for i in range(8) if mask >> i & 1]


def gen_history(rng, name, be=None, pk=None, max_iter=1, nupd=None, dims=None, settings=None, solve_between=None, bounds=None):
    be = rng.randrange(5) if be is None else be
    pk = rng.choice([0, 0, 1]) if pk is None else pk
    sparse = be != 0
    prob = Problem(rng, *(dims or (None, None, None)), bounds=bounds)
    if bounds is not None:
        prob.has_lb = prob.has_ub = True
    st = settings or rand_settings(rng, max_iter=max_iter)
    L = [f"sol.new {be} {pk} -1", CONSTS_LINE, settings_line(st)]
    ops = []
    snaps = []
    dense_sqrt = -1   # set below once the dimensions are known

    def pre_struct():
        L.append("sol.sqrtmode -1")

    def pre_solve():
        L.append(f"sol.sqrtmode {dense_sqrt}" if be == 0 else "sol.sqrtmode -1")

    dense_sqrt = rng.choice([-1, 4]) if prob.n <= 2 else -1
    pre_struct()
    L.append(prob.setup_line(sparse))
    if sparse:
        L.append("sol.perm")
    L.append("sol.dump")
    ops.append("setup")
    nupd = rng.choice([0, 1, 1, 2]) if nupd is None else nupd
    first = True
    for k in range(nupd + 1):
        do_solve = True if k == nupd else (rng.random() < 0.6 if solve_between is None else solve_between)
        if k > 0 or (first and rng.random() < 0.25 and nupd > 0):
            pass
        if k > 0:
            mask = rng.randrange(256)
            reuse = rng.random() < 0.5
            pre_struct()
            L.append(prob.update_line(rng, sparse, subset_of(mask), reuse))
            L.append("sol.dump")
            ops.append(f"update({mask},{int(reuse)})")
        if do_solve:
            pre_solve()
            L.append("sol.solve")
            L.append("sol.dump")
            L.append(check_line(prob.snapshot()))
            ops.append("solve")
            snaps.append(prob.snapshot())
        first = False
    meta = {"be": be, "pk": pk, "n": prob.n, "p": prob.p, "m": prob.m, "ops": ops, "max_iter": st["max_iter"],
            "prec_iter": st["preconditioner_iter"], "scale_cost": st["preconditioner_scale_cost"],
            "refine": st["iterative_refinement_always_enabled"]}
    return {"name": name, "lines": L, "meta": meta, "snaps": snaps, "settings": st}


class Hist:
    """Composable builder of `sol.*` histories."""

    def __init__(self, rng, name, be, pk, settings, prob=None, dims=None, bounds=None):
        self.rng, self.name, self.be, self.pk, self.st = rng, name, be, pk, dict(settings)
        self.sparse = be != 0
        self.prob = prob or Problem(rng, *(dims or (None, None, None)), bounds=bounds)
        if bounds is not None:
            self.prob.has_lb = self.prob.has_ub = True
        self.L = [f"sol.new {be} {pk} -1", CONSTS_LINE, settings_line(self.st)]
        self.ops = []
        self.snaps = []
        self.dense_sqrt = rng.choice([-1, 4]) if self.prob.n <= 2 else -1
        self.is_setup = False

    def settings(self, **over):
        self.st.update(over)
        self.L.append(settings_line(self.st))
        self.ops.append("settings")
        return self

    def setup(self, dump=True):
        self.L.append("sol.sqrtmode -1")
        self.L.append(self.prob.setup_line(self.sparse))
        if self.sparse:
            self.L.append("sol.perm")
        if dump:
            self.L.append("sol.dump")
        self.ops.append("setup")
        self.is_setup = True
        return self

    def update(self, mask, reuse, dump=True):
        self.L.append("sol.sqrtmode -1")
        self.L.append(self.prob.update_line(self.rng, self.sparse, subset_of(mask), reuse))
        if dump:
            self.L.append("sol.dump")
        self.ops.append(f"update({mask},{int(reuse)})")
        return self

    def solve(self, dump=True, check=True):
        self.L.append(f"sol.sqrtmode {self.dense_sqrt}" if self.be == 0 else "sol.sqrtmode -1")
        self.L.append("sol.solve")
        if dump:
            self.L.append("sol.dump")
        if check and self.is_setup:
            self.L.append(check_line(self.prob.snapshot()))
        self.ops.append("solve")
        self.snaps.append(self.prob.snapshot())
        return self

    def precheck(self):
        """evaluate the property predicates (incl. the preconditioner predicate of C15) on the current state"""
        self.L.append(check_line(self.prob.snapshot()))
        return self

    def raw(self, line, op):
        self.L.append(line)
        self.ops.append(op)
        return self

    def dump(self):
        self.L.append("sol.dump")
        return self

    def case(self, **meta):
        m = {"be": self.be, "pk": self.pk, "n": self.prob.n, "p": self.prob.p, "m": self.prob.m, "ops": list(self.ops),
             "max_iter": self.st["max_iter"], "prec_iter": self.st["preconditioner_iter"],
             "scale_cost": self.st["preconditioner_scale_cost"], "refine": self.st["iterative_refinement_always_enabled"]}
        m.update(meta)
        return {"name": self.name, "lines": list(self.L), "meta": m, "snaps": list(self.snaps), "settings": dict(self.st)}
