"""Shared driver for the solver-level properties (C01, C04, C05, C07, C08, C09, C10): proof stage, exact
correspondence of the whole-solver model with the real templates at T = Q, and the property evaluated
exactly on the implementation's outputs."""
import collections

from ..common import lake_build
from ..diffrun import case_text
from ..solrun import build_hsolq, run_sol_cases, events
from ..solprops import parse_output


def prepare(chk, leancheck=False):
    """proof stage + driver build. Returns proof_ok (False if the driver itself is broken -> violation recorded)."""
    proof_ok = chk.proof_stage(leancheck=leancheck)
    ok, out, _ = lake_build(["driver"])
    if not ok:
        chk.violation("build:driver", "lean driver does not build:\n" + out[-3000:], True)
        return None
    return proof_ok


def run_cases(chk, cases, timeout=12):
    """-> dict name -> {impl: lines, events: parsed, raw: raw lines} ; records correspondence violations"""
    bes = sorted({c["meta"]["be"] for c in cases})
    try:
        exes = build_hsolq(bes)
    except RuntimeError as e:
        chk.violation("build:hsolq", str(e), True)
        return None
    raw, impl, model, bad, errs = run_sol_cases(cases, exes, timeout=timeout)
    byname = {c["name"]: c for c in cases}
    chk.add("evaluations", len(cases))
    chk.add("traces_validated_against_impl", len(cases) - len({x["name"] for _, x in errs}))
    touts = [x for _, x in errs if "timeout" in x.get("why", "")]
    crashes = [(w, x) for w, x in errs if "timeout" not in x.get("why", "")]
    chk.add("cases_dropped_for_timeout", len(touts))
    chk.add("runs_truncated_at_numeric_trap", len(getattr(run_sol_cases, "last_trapped", ())))
    for w, x in crashes[:3]:
        c = byname.get(x["name"])
        chk.violation(f"crash:{w}:be{c['meta']['be'] if c else '?'}",
                      f"{w} side crashed on case {x['name']}: {x['why']}\n\ninput:\n" + (case_text(c) if c else ""), False)
    nerr = 0
    for c in cases:
        for l in impl.get(c["name"]) or []:
            if l.startswith("error"):
                nerr += 1
                if nerr <= 2:
                    chk.violation("harness:error-line", f"harness reported '{l}' on case {c['name']}\n" + case_text(c), True)
    for b in bad[:4]:
        c = byname[b["name"]]
        key = (b["impl"].split() or ["?"])[0]
        chk.violation(f"corr:sol:be{c['meta']['be']}:pk{c['meta']['pk']}:{key}",
                      "whole-solver model/implementation disagreement (tie A, exact rationals, white box)\n"
                      f"case {b['name']} meta={c['meta']} output line {b['line']}\nimpl : {b['impl']}\nmodel: {b['model']}\n\n"
                      "input:\n" + case_text(c))
    chk.add("correspondence_mismatches", len(bad))
    res = {}
    stat = collections.Counter()
    for c in cases:
        lines = impl.get(c["name"])
        if lines is None:
            continue
        evs = parse_output(lines)
        for e in evs:
            if e[0] == "status":
                stat[e[1]] += 1
            elif e[0] == "rejected":
                stat["rejected"] += 1
        # verdicts of the Lean property predicates (evaluated on the model's results, which were just compared
        # exactly with the implementation's): one triple per `sol.check`
        checks, cur = [], {}
        for l in model.get(c["name"]) or []:
            if l.startswith("#check "):
                t = l.split()
                cur[t[1]] = t[2:]
                if t[1] == "diag":
                    checks.append(cur)
                    cur = {}
        trapped = c["name"] in getattr(run_sol_cases, "last_trapped", ())
        res[c["name"]] = {"impl": lines, "events": evs, "raw": raw.get(c["name"]) or [], "ev": events(raw.get(c["name"]) or []),
                          "checks": checks, "trapped": trapped,
                          "corr_ok": c["name"] not in {b["name"] for b in bad}}
    d = chk.cov.setdefault("statuses_seen", {})
    for k, v in stat.items():
        d[str(k)] = d.get(str(k), 0) + v
    dist = chk.cov.setdefault("distribution", {})
    for c in cases:
        k = f"be{c['meta']['be']}/pk{c['meta']['pk']}"
        dist[k] = dist.get(k, 0) + 1
    return res


def solve_events(evs):
    """pairs (status, dump-after) for every solve in an event list"""
    out = []
    for i, e in enumerate(evs):
        if e[0] == "status":
            d = None
            for f in evs[i + 1:]:
                if f[0] == "dump":
                    d = f[1]
                    break
                if f[0] in ("status", "ok", "rejected"):
                    break
            out.append((e[1], d))
    return out


def finish(chk, proof_ok, pid, rule, cases):
    chk.cov["distinct_nontrivial"] = len({"\n".join(c["lines"]) for c in cases})
    chk.cov["rule"] = rule
    for c in cases[:2]:
        chk.sample({"case": c["name"], "meta": c["meta"], "ops": c["lines"][3:7]})
    if proof_ok is False and not chk.violations:
        chk.violation(f"proof:{pid}", f"Lean proof obligations of {pid} no longer check:\n" + getattr(chk, "proof_log", "")[-4000:], True)
    elif proof_ok is False:
        chk.notes.append("proof stage failed: " + getattr(chk, "proof_log", "")[-1500:])
    chk.assumptions = ["exact arithmetic: IEEE rounding, overflow and NaN are not modelled",
                       "sparse matrices by their dense denotation; Eigen's AMD permutation is an input of the model",
                       "exact whole-solver runs cover setup, the initial point and 1-2 interior-point iterations on n<=4"]
    return chk.finish()
