"""C06 — any finite input terminates safely."""
import os
import random

from .. import gen_dbl, skelrun
from ..common import Check, HARNESS, build_cpp, lake_build
from ..diffrun import case_text, run_chunks

PID = "C06"


def run(replay=None):
    chk = Check(PID, "proof")
    rng = random.Random(chk.seed * 211 + 6)
    proof_ok = chk.proof_stage(leancheck=chk.thorough())
    ok, out, _ = lake_build(["driver"])
    if not ok:
        chk.violation("build:driver", "lean driver does not build:\n" + out[-3000:], True)
        return chk.finish()
    try:
        exe = skelrun.build_hsold()
    except RuntimeError as e:
        chk.violation("build:hsold", str(e), True)
        return chk.finish()
    thorough = chk.thorough()
    cases = []
    kinds = {}
    for i in range(12000 if thorough else 700):
        be, pk = rng.randrange(5), rng.choice([0, 0, 1])
        pr = gen_dbl.adversarial(rng)
        kinds[pr.kind] = kinds.get(pr.kind, 0) + 1
        st = {"max_iter": rng.choice([250, 250, 40, 3]), "iterative_refinement_always_enabled": rng.choice([0, 0, 1])}
        body = ["d.setup " + pr.args(be != 0), "d.trace 1", "d.solve", "d.result"]
        if rng.random() < 0.4:
            pr2 = gen_dbl.adversarial(random.Random(rng.randrange(10 ** 9)))
            # update with the blocks of another adversarial problem of the same shape (same pattern is required for sparse)
            which = rng.sample(["c", "b", "h", "lb", "ub"], rng.randint(1, 4))
            if pr2.n == pr.n:
                src = pr2
            else:
                src = pr
            parts = []
            if "c" in which:
                parts.append(pr.vec("c", [v * rng.choice([1, -1, 1e10]) for v in pr.c]))
            if "b" in which and pr.p:
                parts.append(pr.vec("b", [v * rng.choice([1, -1, 0]) for v in pr.b]))
            if "h" in which and pr.m:
                parts.append(pr.vec("h", [rng.choice([v, float("inf"), -1.0, 2e30]) for v in pr.h]))
            if "lb" in which:
                parts.append(pr.vec("lb", [rng.choice([-1.0, float("-inf"), 0.5, -3e30]) for _ in range(pr.n)]))
            if "ub" in which:
                parts.append(pr.vec("ub", [rng.choice([1.0, float("inf"), -0.5, 3e30]) for _ in range(pr.n)]))
            if parts:
                body += [f"d.update {rng.choice([0, 1])} " + " ".join(parts), "d.solve", "d.result"]
        L = gen_dbl.case_lines(be, pk, st, body)
        cases.append({"name": f"a{i}", "lines": L, "meta": {"be": be, "pk": pk, "kind": pr.kind, "n": pr.n, "p": pr.p, "m": pr.m, "st": st}})
    # setup() called again on the same object with a problem of the same dimensions and the same number of stored entries but
    # another sparsity pattern (variables renumbered): everything sized or analysed by the first setup must be redone; the
    # second problem's results must be bit-for-bit those of a fresh solver (twin case)
    resetup = []
    for i in range(400 if thorough else 40):
        be, pk = rng.randrange(5), rng.choice([0, 1])
        pr = gen_dbl.wellposed(rng, n=rng.randint(3, 7), dens=rng.choice([0.3, 0.5]))
        perm = list(range(pr.n))
        rng.shuffle(perm)
        pr2 = gen_dbl.permuted(pr, perm)
        st = {"max_iter": 60}
        a = gen_dbl.case_lines(be, pk, st, ["d.setup " + pr.args(be != 0), "d.solve", "d.setup " + pr2.args(be != 0), "d.solve", "d.result"])
        b = gen_dbl.case_lines(be, pk, st, ["d.setup " + pr2.args(be != 0), "d.solve", "d.result"])
        meta = {"be": be, "pk": pk, "kind": "resetup", "n": pr.n, "p": pr.p, "m": pr.m, "st": st}
        resetup.append(({"name": f"rs{i}", "lines": a, "meta": meta}, {"name": f"rs{i}_fresh", "lines": b, "meta": meta}))
    rs_out, rs_lost = run_chunks([exe], [c for pair in resetup for c in pair], 12, 60)
    nrs = 0
    for x in rs_lost[:3]:
        c = next((c for pair in resetup for c in pair if c["name"] == x["name"]), None)
        chk.violation(f"impl:{'hang' if 'timeout' in x['why'] else 'crash'}:resetup:be{c['meta']['be'] if c else '?'}",
                      f"setup; solve; setup(another pattern, same sizes); solve did not terminate normally: {x['why']}\n\ninput:\n" + (case_text(c) if c else ""))
    for a, b in resetup:
        oa, ob = rs_out.get(a["name"]), rs_out.get(b["name"])
        if oa is None or ob is None:
            continue
        nrs += 1
        ra = [l for l in oa if l.split(" ")[0] in ("info", "x", "y", "z", "z_lb", "z_ub", "s", "s_lb", "s_ub")][-9:]
        rb = [l for l in ob if l.split(" ")[0] in ("info", "x", "y", "z", "z_lb", "z_ub", "s", "s_lb", "s_ub")][-9:]
        if ra != rb:
            k = next((i for i in range(min(len(ra), len(rb))) if ra[i] != rb[i]), 0)
            chk.violation(f"impl:resetup-differs:be{a['meta']['be']}:{(ra[k].split() or ['?'])[0] if ra else '?'}",
                          "a second setup() on the same solver object (same dimensions and entry counts, another sparsity pattern) does not "
                          "behave like a fresh solver: results differ bit-for-bit from the twin that was set up once\n"
                          f"first differing line:\n  re-setup: {ra[k][:200] if ra else '<none>'}\n  fresh   : {rb[k][:200] if rb else '<none>'}\n\ninput:\n" + case_text(a))
            break
    chk.cov["resetup_twin_pairs"] = nrs
    impl, bad, stats = skelrun.run_tie_b(cases, exe, timeout=60)
    byname = {c["name"]: c for c in cases}
    chk.cov["evaluations"] = len(cases)
    chk.cov["traces_validated_against_impl"] = stats["solves_replayed"]
    chk.cov["adversarial_kinds"] = kinds
    # termination: a run lost to the timeout or a crash IS the violation here
    for x in stats["lost_impl"][:3]:
        c = byname.get(x["name"])
        chk.violation(f"impl:{'hang' if 'timeout' in x['why'] else 'crash'}:be{c['meta']['be'] if c else '?'}",
                      f"setup/update/solve did not terminate normally on a finite, dimensionally consistent input: {x['why']}\n\ninput:\n" + (case_text(c) if c else ""))
    for b in bad[:4]:
        nm, si = b["case"].split("#")
        c = byname[nm]
        chk.violation(f"corr:skeleton:be{c['meta']['be']}:{(b['impl'].split() or ['?'])[0]}",
                      "control skeleton (Lean loopG at Float) does not reproduce the real solver's control state on an adversarial input (tie B)\n"
                      f"case {nm} solve #{si} meta={c['meta']} state line {b['line']}\nimpl : {b['impl']}\nmodel: {b['model']}\n\ninput:\n" + case_text(c))
    stat, nviol = {}, 0
    for c in cases:
        out = impl.get(c["name"])
        if out is None:
            continue
        for sv in skelrun.split_solves(out):
            status = sv["status"]
            stat[str(status)] = stat.get(str(status), 0) + 1
            rline = sv["states"][-1].split() if sv["states"] else None
            probs = []
            if status not in (1, -1, -2, -3, -8, -9, -10):
                probs.append(f"undocumented status {status}")
            if rline and int(rline[1]) > c["meta"]["st"]["max_iter"]:
                probs.append(f"iter {rline[1]} > max_iter {c['meta']['st']['max_iter']}")
            if probs:
                nviol += 1
                if nviol <= 4:
                    chk.violation(f"impl:status:be{c['meta']['be']}", "; ".join(probs) + f"\ncase {c['name']}\n\ninput:\n" + case_text(c))
    chk.cov["statuses_seen"] = stat
    if thorough:
        # supporting evidence for the memory clause: the same stream under ASan + UBSan (-fno-sanitize=enum: Eigen::LLT copies an
        # uninitialised ComputationInfo it never reads; that is Eigen's object, not PIQP's)
        oks, exes, logs = build_cpp("hsold_san", [os.path.join(HARNESS, "hsold.cpp")],
                                    flags=["-O1", "-g", "-fsanitize=address,undefined", "-fno-sanitize=enum", "-fno-sanitize-recover=all", "-D_GLIBCXX_ASSERTIONS"], libs=[])
        if oks:
            sub = cases[:1500]
            out2, lost2 = run_chunks([exes], [{"name": c["name"], "lines": [l for l in c["lines"] if not l.startswith("d.trace")]} for c in sub], 12, 120)
            chk.cov["sanitizer_runs"] = len(sub)
            for x in lost2[:3]:
                c = byname.get(x["name"])
                chk.violation(f"impl:sanitizer:be{c['meta']['be'] if c else '?'}", f"ASan/UBSan run aborted: {x['why']}\n\ninput:\n" + (case_text(c) if c else ""))
    chk.cov["distinct_nontrivial"] = len(cases)
    chk.cov["rule"] = ("adversarial finite inputs (non-convex/zero/negative-definite P, P without diagonal, empty/duplicated rows, p>n, fixed and "
                       "crossing bounds, magnitudes 1e+-150, +-inf in h and bounds), with and without updates, 5 back ends x {Ruiz, identity}: "
                       "every run must return within the time limit with a documented status and iter <= max_iter; each solve's control "
                       "trace is replayed bit-exactly by the Lean skeleton; thorough: same stream under ASan+UBSan")
    for c in cases[:2]:
        chk.sample({"case": c["name"], "meta": c["meta"]})
    if proof_ok is False and not chk.violations:
        chk.violation("proof:C06", "Lean proof obligations of C06 no longer check:\n" + getattr(chk, "proof_log", "")[-4000:], True)
    chk.assumptions = ["memory safety / absence of UB inside Eigen and libstdc++ is outside the model (sanitizer runs are supporting evidence)",
                       "termination is proved for the control skeleton under arbitrary numeric observations; the numeric kernels are loops over fixed index ranges"]
    return chk.finish()
