"""C02 — well-posed problems are solved by every back end (monitored; mechanism theorems are C13/C12/C08)."""
import random

from .. import gen_dbl, skelrun
from ..common import Check
from ..diffrun import case_text, run_chunks
from ..dblprops import parse_result, cert_failures_dbl, DEFAULT_SETTINGS

PID = "C02"


def run(replay=None):
    chk = Check(PID, "other")
    rng = random.Random(chk.seed * 307 + 2)
    proof_ok = chk.proof_stage(leancheck=False)
    try:
        exe = skelrun.build_hsold()
    except RuntimeError as e:
        chk.violation("build:hsold", str(e), True)
        return chk.finish()
    thorough = chk.thorough()
    cases, probs = [], {}
    nprob = 2500 if thorough else 160
    for k in range(nprob):
        n = rng.choice([1, 2, 3, 5, 8, 13, 20, 30, 45, 60])
        if not thorough:
            n = min(n, 30)
        pr = gen_dbl.wellposed(rng, n=n, p=rng.randint(0, min(n, 8)), m=rng.choice([0, 0, 1, 3, 8, 20, 40, 80][:6 if not thorough else 8]),
                               dens=rng.choice([0.2, 0.6, 1.0]))
        for be in range(5):
            st = {"preconditioner_scale_cost": rng.choice([0, 1]), "iterative_refinement_always_enabled": rng.choice([0, 0, 1]),
                  "preconditioner_iter": rng.choice([10, 10, 0])}
            pk = rng.choice([0, 0, 1])
            name = f"w{k}_{be}"
            L = gen_dbl.case_lines(be, pk, st, ["d.setup " + pr.args(be != 0), "d.solve", "d.result"])
            cases.append({"name": name, "lines": L, "meta": {"be": be, "pk": pk, "n": pr.n, "p": pr.p, "m": pr.m, "st": st}})
            probs[name] = pr
    impl, lost = run_chunks([exe], cases, 12, 60)
    stat, nviol = {}, 0
    for c in cases:
        out = impl.get(c["name"])
        if out is None:
            continue
        status = next((int(l.split()[1]) for l in out if l.startswith("status")), None)
        stat[str(status)] = stat.get(str(status), 0) + 1
        res = parse_result(out)
        probs_found = []
        if status != 1:
            probs_found.append(f"well-posed problem (class W) not solved: status {status} after {res.get('info', {}).get('iter')} iterations")
        else:
            st = dict(DEFAULT_SETTINGS)
            cf = cert_failures_dbl(probs[c["name"]], st, res)
            if cf:
                probs_found.append("SOLVED without a valid certificate: " + "; ".join(cf[:3]))
        if probs_found:
            nviol += 1
            if nviol <= 5:
                chk.violation(f"impl:W-not-solved:be{c['meta']['be']}:pk{c['meta']['pk']}:status{status}",
                              "; ".join(probs_found) + f"\ncase {c['name']} meta={c['meta']}\n\ninput:\n" + case_text(c)[:20000])
    for x in lost[:2]:
        chk.violation("impl:hang-or-crash", f"solver run lost on {x['name']}: {x['why']}", False)
    chk.cov.update({"evaluations": len(cases), "distinct_nontrivial": nprob, "statuses_seen": stat,
                    "rule": "class W generator (P >= mu I, mu in {1e-2,0.1,1}, Slater point with margin >= 0.1, rank A = p, O(1) entries, n<=60, "
                            "m<=80, every mix of absent blocks and bound kinds) x 5 back ends x {Ruiz, identity} x scale_cost x forced refinement x "
                            "preconditioner_iter in {0,10}; any non-SOLVED outcome is a violation; SOLVED outcomes are certified from the user's data",
                    "explanation": "global convergence of the heuristic interior-point method is not provable by an invariant; this check samples the "
                                   "documented well-posed class on every back end/setting (testing, labelled as such). The mechanism the convergence "
                                   "relies on is proved elsewhere: exact Newton step in every back end (C13), bounded retries/termination (C12/C06), "
                                   "coherent state after updates (C04), exact change of variables (C15)."})
    for c in cases[:2]:
        chk.sample({"case": c["name"], "meta": c["meta"]})
    chk.assumptions = ["sampled, not proved"]
    return chk.finish()
