"""C08 — result vectors are well-formed at every stopping point."""
import itertools
import random
from fractions import Fraction as F

from .. import gen_sol
from ..common import Check
from ..diffrun import case_text
from . import solcommon

PID = "C08"
KINDS = ["free", "lb", "ub", "both"]


def make_cases(chk, rng):
    cases = []
    k = 0
    # exhaustive: all 4^n finite/infinite patterns, n = 2 on every back end and preconditioner, n = 3 on a rotating one
    def one(n, pat, be, pk, max_iter):
        nonlocal k
        st = gen_sol.rand_settings(rng, max_iter=max_iter)
        st["tau"] = rng.choice([F(3, 4), F(1, 2), F(7, 8)])
        h = gen_sol.Hist(rng, f"w{k}", be, pk, st, dims=(n, rng.choice([0, 1]), rng.choice([0, 1, 2])), bounds=list(pat))
        h.setup(dump=False).solve()
        k += 1
        return h.case(kind="pattern", pattern="".join(x[0] for x in pat))
    for pat in itertools.product(KINDS, repeat=2):
        for be in range(5):
            for pk in (0, 1):
                cases.append(one(2, pat, be, pk, rng.choice([1, 1, 2]) if be != 0 else 1))
    pats3 = list(itertools.product(KINDS, repeat=3))
    for i, pat in enumerate(pats3):
        reps = range(5) if chk.thorough() else [i % 5]
        for be in reps:
            cases.append(one(3, pat, be, rng.choice([0, 1]), 1))
    if chk.thorough():
        for i, pat in enumerate(itertools.product(KINDS, repeat=4)):
            cases.append(one(4, pat, i % 5, rng.choice([0, 1]), 1))
    # every budget 1..K on the same problem (K = 2 exactly; longer budgets are covered in double precision elsewhere)
    for i in range(600 if chk.thorough() else 60):
        be = rng.choice([1, 2, 3, 4])
        seed = rng.randrange(10 ** 9)
        for budget in (1, 2):
            r2 = random.Random(seed)
            st = gen_sol.rand_settings(r2, max_iter=budget)
            st["tau"] = F(3, 4)
            h = gen_sol.Hist(r2, f"b{i}_{budget}", be, 1, st, dims=(r2.choice([1, 2]), r2.choice([0, 1]), r2.choice([0, 1, 2])))
            h.setup(dump=False).solve()
            cases.append(h.case(kind="budget"))
    # re-solves on the same object after a bound-pattern change (left-over multipliers / slacks of the previous pattern)
    for i in range(400 if chk.thorough() else 50):
        be = rng.randrange(5)
        n = rng.choice([2, 3])
        st = gen_sol.rand_settings(rng, max_iter=1)
        st["tau"] = F(3, 4)
        h = gen_sol.Hist(rng, f"q{i}", be, rng.choice([0, 1]), st, dims=(n, rng.choice([0, 1]), rng.choice([0, 1, 2])),
                         bounds=[rng.choice(KINDS) for _ in range(n)])
        h.setup(dump=False).solve()
        pr = h.prob
        lb, ub = pr.rand_bounds(rng, [rng.choice(KINDS) for _ in range(n)])
        pr.lb, pr.ub = lb, ub
        h.raw("sol.sqrtmode -1", "").raw(f"sol.update {rng.choice([0, 1])} " + pr.vec_arg("lb", lb) + " " + pr.vec_arg("ub", ub), "update(bounds)")
        h.solve()
        cases.append(h.case(kind="resolve"))
    return cases


def run(replay=None):
    chk = Check(PID, "proof")
    rng = random.Random(chk.seed * 6007 + 8)
    proof_ok = solcommon.prepare(chk, leancheck=chk.thorough())
    if proof_ok is None:
        return chk.finish()
    cases = make_cases(chk, rng)
    res = solcommon.run_cases(chk, cases)
    if res is None:
        return chk.finish()
    nchk, nfail = 0, 0
    pats = set()
    for c in cases:
        r = res.get(c["name"])
        if not r or not r["corr_ok"] or r["trapped"]:
            continue
        if "pattern" in c["meta"]:
            pats.add((c["meta"]["n"], c["meta"]["pattern"]))
        solves = solcommon.solve_events(r["events"])
        for (status, dump), chkres in zip(solves, r["checks"]):
            nchk += 1
            fails = chkres.get("wf", [])
            if fails:
                nfail += 1
                if nfail <= 4:
                    chk.violation(f"impl:wf:be{c['meta']['be']}:pk{c['meta']['pk']}:{fails[0]}",
                                  "returned vectors are not well-formed (Lean predicate wellFormedFails on results equal to the "
                                  "implementation's): " + ", ".join(fails)
                                  + f"\ncase {c['name']} status {status} meta={c['meta']}\n\ninput:\n" + case_text(c)
                                  + "\nimplementation output:\n" + "\n".join(x[:300] for x in r["impl"]))
    chk.cov["returns_checked"] = nchk
    chk.cov["bound_patterns_enumerated"] = len(pats)
    chk.cov["wellformedness_failures"] = nfail
    chk.cov["exhaustive"] = True
    return solcommon.finish(chk, proof_ok, PID,
                            "all 16 finite/infinite bound patterns at n=2 on 5 back ends x 2 preconditioners, all 64 at n=3 (quick: one "
                            "back end each), budgets max_iter=1,2 on the same problem; solvable problems (interior point by construction), tau<1",
                            cases)
