"""C07 — results are a function of the inputs only.

Exact part: the real templates run with the exact scalar whose default-constructed (never written) values are
tagged; any arithmetic or comparison on such a value is an event, and the set of never-written slots that reach
an output is compared with the model.  (Real threads / heap states: double-precision harness, see evidence.)"""
import random
from fractions import Fraction as F

import json
import os
import subprocess
import sys

from .. import gen_sol
from ..common import Check, ROOT
from ..diffrun import case_text, run_prog, split_cases
from ..solrun import build_hsolq
from . import solcommon

PID = "C07"


def make_cases(chk, rng):
    cases = []
    thorough = chk.thorough()
    k = 0
    # all histories of length <= 3 over {solve, update growing the bound pattern, update shrinking it} after setup, n <= 3
    import itertools
    alphabet = ["solve", "grow", "shrink", "upd"]
    for L in (1, 2, 3):
        for word in itertools.product(alphabet, repeat=L):
            bes = range(5) if thorough else [k % 5]
            for be in bes:
                st = gen_sol.rand_settings(rng, max_iter=1)
                n = rng.choice([2, 3])
                h = gen_sol.Hist(rng, f"m{k}", be, rng.choice([0, 0, 1]), st, dims=(n, rng.choice([0, 1]), rng.choice([0, 1, 2])),
                                 bounds=[rng.choice(["free", "lb", "ub"]) for _ in range(n)])
                h.setup()
                for w in word:
                    if w == "solve":
                        h.solve()
                    elif w == "grow":
                        pr = h.prob
                        # make every bound finite
                        pr.lb = [pr.x0[j] - 1 for j in range(pr.n)]; pr.ub = [pr.x0[j] + 1 for j in range(pr.n)]
                        h.raw("sol.sqrtmode -1", "").raw(f"sol.update {rng.choice([0, 1])} " + pr.vec_arg("lb", pr.lb) + " " + pr.vec_arg("ub", pr.ub), "update(grow)").dump()
                    elif w == "shrink":
                        pr = h.prob
                        pr.lb = ["-inf"] * pr.n; pr.ub = ["inf"] * (pr.n - 1) + [pr.x0[-1] + 1]
                        h.raw("sol.sqrtmode -1", "").raw(f"sol.update {rng.choice([0, 1])} " + pr.vec_arg("lb", pr.lb) + " " + pr.vec_arg("ub", pr.ub), "update(shrink)").dump()
                    else:
                        h.update(rng.randrange(256), rng.random() < 0.5)
                h.solve()
                cases.append(h.case(kind="word", word="".join(x[0] for x in word)))
                k += 1
    for i in range(1200 if thorough else 150):
        c = gen_sol.gen_history(rng, f"r{i}", nupd=rng.choice([0, 1, 2, 3]))
        c["meta"]["kind"] = "rand"
        cases.append(c)
    return cases


def static_storage_scan(chk):
    """tie C: regenerate Generated/Statics.lean from the current sources (before the proof stage, whose theorem
    `no_hidden_static_state` is about that table) and report every mutable static outside the hook header with its location"""
    p = subprocess.run([sys.executable, os.path.join(ROOT, "translate", "statics.py")], capture_output=True, text=True)
    chk.cov["statics_translator_cmd"] = "python3 translate/statics.py --repo " + os.environ.get("VERIF_REPO", "/repo")
    if p.returncode != 0:
        chk.violation("translator:statics", "the static-storage scanner failed:\n" + (p.stdout + p.stderr)[-3000:], True)
        return
    with open(os.path.join(ROOT, "build", "statics.json")) as f:
        tj = json.load(f)
    chk.cov["static_storage_files_scanned"] = tj["files"]
    chk.cov["static_storage_excluded"] = tj["excluded"]
    chk.cov["mutable_statics"] = tj["entries"]
    for e in tj["entries"]:
        if e["file"] != tj["hooks"]:
            name = (e["decl"].split("=")[0].split() or ["?"])[-1]
            chk.violation(f"static:{e['file']}:{name}",
                          f"mutable variable with static storage duration at {e['file']}:{e['line']}: `{e['decl']}`\n"
                          "It is shared by every solver object of the instantiation (and by all threads, unsynchronised): results can "
                          "depend on what other instances did before or are doing concurrently.  Theorem C07.no_hidden_static_state "
                          "(decide over the regenerated table Generated/Statics.lean) no longer holds; the hidden-state probe of this "
                          "check searches for a history on which it shows.", True)


def primer(rng, name, be, pk, scale):
    """a history that exercises everything once on data of a different magnitude (refinement forced, an update, two solves)"""
    st = gen_sol.dyadic_settings(rng, max_iter=1, iterative_refinement_always_enabled=1, preconditioner_iter=rng.choice([0, 1]),
                                 iterative_refinement_max_iter=1, iterative_refinement_static_regularization_rel=F(1, 2 ** 10))
    h = gen_sol.Hist(rng, name, be, pk, st, dims=(2, rng.choice([0, 1]), 1))
    pr = h.prob
    for i in range(pr.n):
        pr.P[i][i] = pr.P[i][i] + scale
        pr.maskP[i][i] = True
    h.setup(dump=False).solve(dump=False, check=False)
    return h.case(kind="primer")


def target(rng, name, be, pk):
    st = gen_sol.dyadic_settings(rng, max_iter=1, iterative_refinement_always_enabled=1, iterative_refinement_max_iter=1,
                                 preconditioner_iter=rng.choice([0, 1]), iterative_refinement_static_regularization_rel=F(1, 2 ** 10))
    h = gen_sol.Hist(rng, name, be, pk, st, dims=(2, rng.choice([0, 1]), rng.choice([0, 1])))
    h.setup().solve(check=False)
    if rng.random() < 0.5:
        h.update(rng.randrange(256), rng.random() < 0.5, dump=False).solve(check=False)
    return h.case(kind="target")


def text_of(cases):
    return "".join("case %s\n%s\n" % (c["name"], "\n".join(c["lines"])) for c in cases)


def hidden_state_probe(chk, rng):
    """the same history, alone in a fresh process / after other solver instances (other data magnitudes, both preconditioner
    types) in the same process / twice in a row: the implementation's exact output (white-box dumps included) must be the
    same string.  Detects any process-level state: statics, globals, caches keyed on addresses."""
    try:
        exes = build_hsolq(range(5))
    except RuntimeError as e:
        chk.violation("build:hsolq", str(e), True)
        return
    reps = 5 if chk.thorough() else 2
    ncmp = nbad = nlost = 0
    jobs = []
    for be in range(5):
        for pk in (0, 1):
            for r in range(reps):
                t = target(rng, f"t{be}{pk}{r}", be, pk)
                t2 = dict(t, name=t["name"] + "again")
                prim = [primer(rng, f"p{be}{pk}{r}a", be, 1, F(37)), primer(rng, f"p{be}{pk}{r}b", be, 0, F(5, 8))]
                jobs.append((be, pk, t, t2, {"alone": [t], "after-other-instances": prim + [t], "twice": [t, t2]}))
    from concurrent.futures import ThreadPoolExecutor

    def one(args):
        be, k, cs = args
        rc, out, err = run_prog([exes[be]], text_of(cs), 40)
        return rc, split_cases(out)[0]
    flat = [(be, k, runs[k]) for be, pk, t, t2, runs in jobs for k in ("alone", "after-other-instances", "twice")]
    with ThreadPoolExecutor(max_workers=14) as ex:
        results = list(ex.map(one, flat))
    for ji, (be, pk, t, t2, runs) in enumerate(jobs):
                outs = {k: results[3 * ji + i] for i, k in enumerate(("alone", "after-other-instances", "twice"))}
                if True:
                    pass
                ref = outs["alone"][1].get(t["name"])
                if outs["alone"][0] != 0 or ref is None:
                    nlost += 1
                    continue    # harness trouble on the target alone is the business of the correspondence part
                for k, nm in (("after-other-instances", t["name"]), ("twice", t2["name"])):
                    rc, got = outs[k]
                    cur = got.get(nm)
                    if rc != 0 or cur is None:
                        nlost += 1
                        continue
                    ncmp += 1
                    if cur != ref:
                        nbad += 1
                        d = next((i for i in range(max(len(cur), len(ref))) if i >= len(cur) or i >= len(ref) or cur[i] != ref[i]), 0)
                        if nbad <= 3:
                            chk.violation(f"impl:hidden-state:be{be}:{k}",
                                          f"the same call history gives different exact results when run {k} in one process than when run "
                                          f"alone in a fresh process (back end {be}, preconditioner {'identity' if pk else 'ruiz'})\n"
                                          f"first differing output line {d}:\n  alone: {ref[d][:300] if d < len(ref) else '<missing>'}\n"
                                          f"  {k}: {cur[d][:300] if d < len(cur) else '<missing>'}\n\n"
                                          "input (all cases of the process, in order; compare with the last case run alone):\n" + text_of(runs[k]))
    chk.cov["hidden_state_comparisons"] = ncmp
    chk.cov["hidden_state_differences"] = nbad
    chk.cov["hidden_state_runs_lost_to_timeout"] = nlost
    chk.add("evaluations", 3 * 10 * reps)


def run(replay=None):
    chk = Check(PID, "proof")
    rng = random.Random(chk.seed * 2003 + 7)
    static_storage_scan(chk)
    proof_ok = solcommon.prepare(chk, leancheck=chk.thorough())
    if proof_ok is None:
        return chk.finish()
    cases = make_cases(chk, rng)
    res = solcommon.run_cases(chk, cases)
    if res is None:
        return chk.finish()
    nuninit, npoison, nops = 0, 0, 0
    for c in cases:
        r = res.get(c["name"])
        if not r:
            continue
        # (a) never-written memory used as an operand: uninit_arith / uninit_cmp counters after each op
        first = None
        opi = 0
        for l in r["raw"]:
            if l.startswith("#ev "):
                ev = [int(x) for x in l.split()[1:]]
                nops += 1
                if len(ev) >= 7 and (ev[5] or ev[6]) and first is None:
                    first = (opi, ev)
                opi += 1
        if first is not None:
            nuninit += 1
            if nuninit <= 4:
                cmds = [l for l in c["lines"] if l.startswith("sol.") and not l.startswith("sol.new")]
                op = cmds[first[0]].split()[0] if first[0] < len(cmds) else "?"
                chk.violation(f"impl:uninit-use:be{c['meta']['be']}:pk{c['meta']['pk']}:{op}",
                              f"a never-written (default-constructed) value was used as an operand during command #{first[0]} ({op}): "
                              f"event counters {first[1]} (…, uninit_arith, uninit_cmp)\ncase {c['name']} meta={c['meta']}\n\ninput:\n" + case_text(c))
        # (b) no never-written / poisoned value reaches an output of a solve in runs without numeric traps
        if not r["trapped"]:
            for e in r["events"]:
                if e[0] == "dump" and e[1]["info"]["status"] != -9:
                    d = e[1]
                    outs = [d.get(k, []) for k in ("x", "y", "z", "z_lb", "z_ub", "s", "s_lb", "s_ub")]
                    if e[1]["info"]["iter"] >= 0 and any("poison" in v for v in outs):
                        npoison += 1
                        if npoison <= 3:
                            chk.violation(f"impl:poison-output:be{c['meta']['be']}:pk{c['meta']['pk']}",
                                          "a result vector contains a never-written value after a call in a run without numeric traps\n"
                                          f"case {c['name']} meta={c['meta']}\n\ninput:\n" + case_text(c))
                        break
    hidden_state_probe(chk, random.Random(chk.seed * 7919 + 77))
    chk.cov["ops_monitored"] = nops
    chk.cov["histories_with_uninitialised_operand"] = nuninit
    chk.cov["histories_with_indeterminate_output"] = npoison
    chk.cov["exhaustive"] = True
    return solcommon.finish(chk, proof_ok, PID,
                            "all words of length <=3 over {solve, update growing the bound pattern, update shrinking it, random update} "
                            "after setup (quick: rotating back end), random histories; the exact scalar tags never-written values: use as "
                            "operand is counted per op, indeterminate outputs are compared with the model's poison set", cases)
