"""C07 — results are a function of the inputs only.

Exact part: the real templates run with the exact scalar whose default-constructed (never written) values are
tagged; any arithmetic or comparison on such a value is an event, and the set of never-written slots that reach
an output is compared with the model.  (Real threads / heap states: double-precision harness, see evidence.)"""
import random
from fractions import Fraction as F

from .. import gen_sol
from ..common import Check
from ..diffrun import case_text
from . import solcommon

PID = "C07"


def make_cases(chk, rng):
    cases = []
    thorough = chk.thorough()
    k = 0
    # all histories of length <= 3 over {solve, update growing the bound pattern, update shrinking it} after setup, n <= 3
    import itertools
    alphabet = ["solve", "grow", "shrink", "upd"]
    for L in (1, 2, 3):
        for word in itertools.product(alphabet, repeat=L):
            bes = range(5) if thorough else [k % 5]
            for be in bes:
                st = gen_sol.rand_settings(rng, max_iter=1)
                n = rng.choice([2, 3])
                h = gen_sol.Hist(rng, f"m{k}", be, rng.choice([0, 0, 1]), st, dims=(n, rng.choice([0, 1]), rng.choice([0, 1, 2])),
                                 bounds=[rng.choice(["free", "lb", "ub"]) for _ in range(n)])
                h.setup()
                for w in word:
                    if w == "solve":
                        h.solve()
                    elif w == "grow":
                        pr = h.prob
                        # make every bound finite
                        pr.lb = [pr.x0[j] - 1 for j in range(pr.n)]; pr.ub = [pr.x0[j] + 1 for j in range(pr.n)]
                        h.raw("sol.sqrtmode -1", "").raw(f"sol.update {rng.choice([0, 1])} " + pr.vec_arg("lb", pr.lb) + " " + pr.vec_arg("ub", pr.ub), "update(grow)").dump()
                    elif w == "shrink":
                        pr = h.prob
                        pr.lb = ["-inf"] * pr.n; pr.ub = ["inf"] * (pr.n - 1) + [pr.x0[-1] + 1]
                        h.raw("sol.sqrtmode -1", "").raw(f"sol.update {rng.choice([0, 1])} " + pr.vec_arg("lb", pr.lb) + " " + pr.vec_arg("ub", pr.ub), "update(shrink)").dump()
                    else:
                        h.update(rng.randrange(256), rng.random() < 0.5)
                h.solve()
                cases.append(h.case(kind="word", word="".join(x[0] for x in word)))
                k += 1
    for i in range(1200 if thorough else 150):
        c = gen_sol.gen_history(rng, f"r{i}", nupd=rng.choice([0, 1, 2, 3]))
        c["meta"]["kind"] = "rand"
        cases.append(c)
    return cases


def run(replay=None):
    chk = Check(PID, "proof")
    rng = random.Random(chk.seed * 2003 + 7)
    proof_ok = solcommon.prepare(chk, leancheck=chk.thorough())
    if proof_ok is None:
        return chk.finish()
    cases = make_cases(chk, rng)
    res = solcommon.run_cases(chk, cases)
    if res is None:
        return chk.finish()
    nuninit, npoison, nops = 0, 0, 0
    for c in cases:
        r = res.get(c["name"])
        if not r:
            continue
        # (a) never-written memory used as an operand: uninit_arith / uninit_cmp counters after each op
        first = None
        opi = 0
        for l in r["raw"]:
            if l.startswith("#ev "):
                ev = [int(x) for x in l.split()[1:]]
                nops += 1
                if len(ev) >= 7 and (ev[5] or ev[6]) and first is None:
                    first = (opi, ev)
                opi += 1
        if first is not None:
            nuninit += 1
            if nuninit <= 4:
                cmds = [l for l in c["lines"] if l.startswith("sol.") and not l.startswith("sol.new")]
                op = cmds[first[0]].split()[0] if first[0] < len(cmds) else "?"
                chk.violation(f"impl:uninit-use:be{c['meta']['be']}:pk{c['meta']['pk']}:{op}",
                              f"a never-written (default-constructed) value was used as an operand during command #{first[0]} ({op}): "
                              f"event counters {first[1]} (…, uninit_arith, uninit_cmp)\ncase {c['name']} meta={c['meta']}\n\ninput:\n" + case_text(c))
        # (b) no never-written / poisoned value reaches an output of a solve in runs without numeric traps
        if not r["trapped"]:
            for e in r["events"]:
                if e[0] == "dump" and e[1]["info"]["status"] != -9:
                    d = e[1]
                    outs = [d.get(k, []) for k in ("x", "y", "z", "z_lb", "z_ub", "s", "s_lb", "s_ub")]
                    if e[1]["info"]["iter"] >= 0 and any("poison" in v for v in outs):
                        npoison += 1
                        if npoison <= 3:
                            chk.violation(f"impl:poison-output:be{c['meta']['be']}:pk{c['meta']['pk']}",
                                          "a result vector contains a never-written value after a call in a run without numeric traps\n"
                                          f"case {c['name']} meta={c['meta']}\n\ninput:\n" + case_text(c))
                        break
    chk.cov["ops_monitored"] = nops
    chk.cov["histories_with_uninitialised_operand"] = nuninit
    chk.cov["histories_with_indeterminate_output"] = npoison
    chk.cov["exhaustive"] = True
    return solcommon.finish(chk, proof_ok, PID,
                            "all words of length <=3 over {solve, update growing the bound pattern, update shrinking it, random update} "
                            "after setup (quick: rotating back end), random histories; the exact scalar tags never-written values: use as "
                            "operand is counted per op, indeterminate outputs are compared with the model's poison set", cases)
