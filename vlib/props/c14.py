"""C14 — factorisation and sparse kernels are exact on every pattern."""
import itertools
import os
import random
from fractions import Fraction as F

from ..common import Check, HARNESS, build_cpp, lake_build
from ..diffrun import DRIVER, run_chunks, compare, case_text
from ..gen_kkt import fs

PID = "C14"


def qd_values(rng, n, mask, zero_pivot=False, zero_at=None):
    """symmetric quasi-definite-ish values on an upper pattern with full diagonal (dyadic, small)"""
    A = [[F(0)] * n for _ in range(n)]
    for i in range(n):
        for j in range(i + 1, n):
            if mask[i][j]:
                A[i][j] = F(rng.randint(-4, 4) or 1, rng.choice([1, 2]))
    sign = [rng.choice([1, 1, -1]) for _ in range(n)]
    for i in range(n):
        A[i][i] = sign[i] * F(rng.randint(3 * n, 5 * n), 1)     # diagonally dominant with mixed signs: every leading minor != 0
    if zero_pivot:
        # make the k-th pivot vanish: set A[k][k] so that the Schur complement is 0 (computed exactly)
        k = rng.randrange(n) if zero_at is None else zero_at
        S = [[A[min(i, j)][max(i, j)] for j in range(n)] for i in range(n)]
        for t in range(k):
            d = S[t][t]
            for i in range(t + 1, n):
                for j in range(t + 1, n):
                    S[i][j] -= S[i][t] * S[t][j] / d
        A[k][k] -= S[k][k]
    return A


def entries(A, mask, n, upper_only=True):
    toks = []
    for i in range(n):
        for j in range(n):
            if (i <= j or not upper_only) and (mask[min(i, j)][max(i, j)] or i == j):
                toks.append(fs(A[min(i, j)][max(i, j)]))
            else:
                toks.append(".")
    return " ".join(toks)



def guard_raw_cases(rng, thorough):
    """is_transpose_pattern(A, C) with A given by raw arrays: a valid pattern M (C = M'), then A = M with one row index replaced so that an
    entry is stored twice / the column is no longer sorted / the entry moved to another row (same nnz each time), plus the valid pair."""
    L = []
    def arrays(cols):
        outer = [0]; inner = []
        for col in cols:
            inner += col; outer.append(len(inner))
        return outer, inner
    def line(r, c, cols, maskT):
        outer, inner = arrays(cols)
        patT = " ".join(("1" if maskT[a][b] else ".") for a in range(c) for b in range(r))
        return f"csc.istpraw {r} {c} {len(inner)} {' '.join(map(str, outer))} {' '.join(map(str, inner))} {c} {r} {patT}".replace("  ", " ")
    shapes = [(r, c) for r in range(1, 4) for c in range(1, 4)]
    for (r, c) in shapes:
        for bits in itertools.product([False, True], repeat=r * c):
            M = [[bits[a * c + b] for b in range(c)] for a in range(r)]
            cols = [[a for a in range(r) if M[a][b]] for b in range(c)]
            MT = [[M[a][b] for a in range(r)] for b in range(c)]
            L.append(line(r, c, cols, MT))
            for b in range(c):
                for t in range(len(cols[b])):
                    for newrow in range(r):
                        if newrow == cols[b][t]:
                            continue
                        c2 = [col[:] for col in cols]
                        c2[b][t] = newrow          # duplicate, unsorted or moved entry; nnz unchanged
                        L.append(line(r, c, c2, MT))
    if not thorough:
        keep = L[:400] + rng.sample(L[400:], min(len(L) - 400, 2600)) if len(L) > 3000 else L
        L = keep
    return L

def make_cases(chk, rng):
    cases = []
    thorough = chk.thorough()
    k = 0
    # exhaustive: all upper-triangular patterns with full diagonal for n <= 5, value sets incl. zero-pivot-inducing ones;
    # all permutations for n <= 4
    for n in range(1, 6):
        pairs = [(i, j) for i in range(n) for j in range(i + 1, n)]
        for bits in itertools.product([False, True], repeat=len(pairs)):
            mask = [[False] * n for _ in range(n)]
            for (i, j), b in zip(pairs, bits):
                mask[i][j] = b
            perms = list(itertools.permutations(range(n))) if n <= 4 else [tuple(range(n)), tuple(rng.sample(range(n), n))]
            if not thorough and n == 4:
                perms = rng.sample(perms, 4)
            if not thorough and n == 5:
                perms = perms[:1] if rng.random() < 0.5 else perms[1:]
            L = []
            for pm in perms:
                for zp in ([False, True] if (thorough or rng.random() < 0.3) else [False]):
                    A = qd_values(rng, n, mask, zero_pivot=zp)
                    b = [F(rng.randint(-3, 3)) for _ in range(n)]
                    L.append(f"ldl.sparse {n} {' '.join(map(str, pm))} {n} {n} {entries(A, mask, n)} {' '.join(fs(x) for x in b)}")
                    if not zp:
                        L.append(f"csc.permute {n} {' '.join(map(str, pm))} {n} {n} {entries(A, mask, n)}")
            # storage level: the arrays of the sparse LDLt object itself (etree, column starts and counts, filled row indices and
            # values, D, one solve) against the loop-level model PiqpModel/SparseLdl.lean, with and without a zero pivot
            for zp in (False, True):
                A = qd_values(rng, n, mask, zero_pivot=zp)
                b = [F(rng.randint(-3, 3)) for _ in range(n)]
                L.append(f"csc.ldl {n} {n} {entries(A, mask, n)} {' '.join(fs(x) for x in b)}")
            cases.append({"name": f"p{k}", "lines": L, "meta": {"kind": "pattern", "n": n}})
            k += 1
    # random larger sparse
    for i in range(400 if thorough else 40):
        n = rng.randint(6, 40 if thorough else 16)
        dens = rng.choice([0.1, 0.3, 0.6])
        mask = [[(rng.random() < dens) for _ in range(n)] for _ in range(n)]
        A = qd_values(rng, n, mask)
        pm = rng.sample(range(n), n)
        b = [F(rng.randint(-3, 3)) for _ in range(n)]
        cases.append({"name": f"r{i}", "lines": [f"ldl.sparse {n} {' '.join(map(str, pm))} {n} {n} {entries(A, mask, n)} {' '.join(fs(x) for x in b)}",
                                                 f"csc.ldl {n} {n} {entries(A, mask, n)} {' '.join(fs(x) for x in b)}"],
                      "meta": {"kind": "random-sparse", "n": n}})
    # dense LDLTNoPivot: small sizes + sizes across the blocking threshold (32)
    sizes = [1, 2, 3, 5, 8, 31, 32, 33] + ([64, 127, 128, 129, 130, 257] if thorough else [])
    for n in sizes:
        for up in (0, 1):
            for zp in ([False, True] if n <= 8 else [False]):
                full = [[True] * n for _ in range(n)]
                A = qd_values(rng, n, full, zero_pivot=zp)
                b = [F(rng.randint(-3, 3)) for _ in range(n)]
                toks = " ".join(fs(A[min(i, j)][max(i, j)]) for i in range(n) for j in range(n))
                cases.append({"name": f"d{n}_{up}_{int(zp)}", "lines": [f"ldl.dense {n} {up} {toks} {' '.join(fs(x) for x in b)}"],
                              "meta": {"kind": "dense", "n": n}})
    # one factorisation object reused: compute(good); compute(zero pivot at k); compute(good) -- every call reports on its own matrix
    for n in [2, 3, 5, 8, 33]:
        for up in (0, 1):
            full = [[True] * n for _ in range(n)]
            good1, good2 = qd_values(rng, n, full), qd_values(rng, n, full)
            bad = qd_values(rng, n, full, zero_pivot=True, zero_at=rng.randrange(n))
            b = [F(rng.randint(-3, 3)) for _ in range(n)]
            mats = " ".join(" ".join(fs(A[min(i, j)][max(i, j)]) for i in range(n) for j in range(n)) for A in (good1, bad, good2, bad))
            cases.append({"name": f"dq{n}_{up}", "lines": [f"ldl.denseseq {n} {up} 4 {mats} {' '.join(fs(x) for x in b)}"],
                          "meta": {"kind": "dense-reused-object", "n": n}})
    # multi-column right-hand sides through solve() and solveInPlace() (F19)
    for n in [1, 2, 3, 5, 8, 33]:
        for k in ([1, 2, 3, 4] if n <= 8 else [3]):
            for up in (0, 1):
                full = [[True] * n for _ in range(n)]
                A = qd_values(rng, n, full)
                B = [[F(rng.randint(-3, 3)) for _ in range(k)] for _ in range(n)]
                toks = " ".join(fs(A[min(i, j)][max(i, j)]) for i in range(n) for j in range(n))
                cases.append({"name": f"dm{n}_{k}_{up}", "lines": [f"ldl.densem {n} {up} {k} {toks} " + " ".join(fs(B[i][j]) for i in range(n) for j in range(k))],
                              "meta": {"kind": "dense-multi-rhs", "n": n, "k": k}})
    # blocked path (n >= 32): an exactly vanishing pivot at the first/last position of a diagonal block and inside one
    # (block size 8 below 128, 16 below 256): the failure must be reported with the right index, never divided by
    for n in ([32, 33] + ([130, 257] if thorough else [])):
        bs = 8 if n < 128 else (16 if n < 256 else 32)
        kzs = {0, bs - 1, bs, bs + 1, 2 * bs, 3 * bs, n - 1} if n < 128 else ({0, bs - 1, bs, bs + 1, 2 * bs} if n < 256 else {0, bs})
        for kz in sorted(kzs):
            if kz >= n:
                continue
            for up in (0, 1):
                full = [[True] * n for _ in range(n)]
                A = qd_values(rng, n, full, zero_pivot=True, zero_at=kz)
                b = [F(rng.randint(-3, 3)) for _ in range(n)]
                toks = " ".join(fs(A[min(i, j)][max(i, j)]) for i in range(n) for j in range(n))
                cases.append({"name": f"dz{n}_{up}_{kz}", "lines": [f"ldl.dense {n} {up} {toks} {' '.join(fs(x) for x in b)}"],
                              "meta": {"kind": "dense-zero-pivot", "n": n, "zero_at": kz}})
    # transpose / diagonal scaling / AMD on random rectangular patterns incl. empty rows and columns
    for i in range(300 if thorough else 60):
        r, c = rng.randint(1, 7), rng.randint(1, 7)
        mask = [[rng.random() < rng.choice([0.2, 0.6, 1.0]) for _ in range(c)] for _ in range(r)]
        if rng.random() < 0.3:
            mask[rng.randrange(r)] = [False] * c
        ent = " ".join((fs(F(rng.randint(-5, 5) or 2, rng.choice([1, 2]))) if mask[a][b] else ".") for a in range(r) for b in range(c))
        dl = " ".join(fs(F(rng.randint(1, 9), rng.choice([1, 4]))) for _ in range(r))
        dr = " ".join(fs(F(rng.randint(1, 9), rng.choice([1, 4]))) for _ in range(c))
        L = [f"util.transpose {r} {c} {ent}", f"util.scale {r} {c} {ent} {dl} {dr}",
             f"csc.transpose {r} {c} {ent}", f"csc.scale {r} {c} {ent} {dl} {dr}"]
        n = r
        sm = [[(rng.random() < 0.4) for _ in range(n)] for _ in range(n)]
        A = qd_values(rng, n, sm)
        L.append(f"ord.amd {n} {n} {entries(A, sm, n)} {' '.join(fs(F(rng.randint(-3, 3))) for _ in range(n))}")
        cases.append({"name": f"u{i}", "lines": L, "meta": {"kind": "utils", "n": n}})
    # storage level (CSC arrays compared, not the dense view): every pattern of every shape up to 3 x 3
    k = 0
    for r in range(1, 4):
        for c in range(1, 4):
            for bits in itertools.product([False, True], repeat=r * c):
                ent = " ".join((fs(F(rng.randint(1, 9), rng.choice([1, 2, 3]))) if bits[a * c + b] else ".") for a in range(r) for b in range(c))
                dl = " ".join(fs(F(rng.randint(1, 9), rng.choice([1, 4]))) for _ in range(r))
                dr = " ".join(fs(F(rng.randint(1, 9), rng.choice([1, 4]))) for _ in range(c))
                cases.append({"name": f"csc{k}", "lines": [f"csc.transpose {r} {c} {ent}", f"csc.scale {r} {c} {ent} {dl} {dr}"],
                              "meta": {"kind": "csc-storage", "n": r}})
                k += 1
    # is_transpose_pattern (the guard of sparse update): every pair of patterns (A r x c, C c x r) for r*c <= 4, all 2x3 / 3x2 pairs
    # in the thorough tier, random pairs with near-miss mutations otherwise (same nnz, one entry moved; wrong dimensions)
    def pat(bits, r, c):
        return " ".join(("1" if bits[a * c + b] else ".") for a in range(r) for b in range(c))
    k = 0
    shapes = [(1, 1), (1, 2), (2, 1), (2, 2), (1, 3), (3, 1), (1, 4), (4, 1)] + ([(2, 3), (3, 2)] if thorough else [])
    for (r, c) in shapes:
        L = []
        for ba in itertools.product([False, True], repeat=r * c):
            for bc in itertools.product([False, True], repeat=r * c):
                L.append(f"csc.istp {r} {c} {pat(ba, r, c)} {c} {r} {pat(bc, c, r)}")
        for q in range(0, len(L), 256):
            cases.append({"name": f"istp{k}", "lines": L[q:q + 256], "meta": {"kind": "csc-istp", "n": r}})
            k += 1
    L = []
    for _ in range(2000 if thorough else 300):
        r, c = rng.randint(1, 5), rng.randint(1, 5)
        ba = [rng.random() < 0.5 for _ in range(r * c)]
        bt = [ba[(t % r) * c + (t // r)] for t in range(c * r)]     # exact transpose pattern, row-major c x r
        mode = rng.randrange(4)
        r2, c2 = c, r
        if mode == 1 and any(bt) and not all(bt):                   # move one entry: same nnz, different pattern
            on = [t for t in range(c * r) if bt[t]]; off = [t for t in range(c * r) if not bt[t]]
            bt[rng.choice(on)] = False; bt[rng.choice(off)] = True
        elif mode == 2:                                             # wrong dimensions
            r2, c2 = r, c
            bt = [rng.random() < 0.5 for _ in range(r2 * c2)]
        elif mode == 3:                                             # random
            bt = [rng.random() < 0.5 for _ in range(c * r)]
        L.append(f"csc.istp {r} {c} {pat(ba, r, c)} {r2} {c2} {pat(bt, r2, c2)}")
    cases.append({"name": "istp_rand", "lines": L, "meta": {"kind": "csc-istp", "n": 5}})
    G = guard_raw_cases(rng, thorough)
    for q in range(0, len(G), 256):
        cases.append({"name": f"istpraw{q // 256}", "lines": G[q:q + 256], "meta": {"kind": "csc-istp-raw", "n": 3}})
    return cases


def run(replay=None):
    chk = Check(PID, "proof")
    rng = random.Random(chk.seed * 101 + 14)
    proof_ok = chk.proof_stage(leancheck=chk.thorough())
    ok, out, _ = lake_build(["driver"])
    if not ok:
        chk.violation("build:driver", "lean driver does not build:\n" + out[-3000:], True)
        return chk.finish()
    okb, exe, log = build_cpp("hk", [os.path.join(HARNESS, "hk.cpp")], flags=["-O1"], libs=["-lgmpxx", "-lgmp"])
    if not okb:
        chk.violation("build:hk", "harness hk does not compile against the current /repo tree:\n" + log[-4000:], True)
        return chk.finish()
    cases = make_cases(chk, rng)
    impl, e1 = run_chunks([exe], cases, 14, 120)
    model, e2 = run_chunks([DRIVER], cases, 14, 240)
    lost = {x["name"] for x in e1 + e2 if "timeout" in x["why"]}
    for x in [x for x in e1 + e2 if "timeout" not in x["why"]][:3]:
        chk.violation("crash:" + x["why"][:40], f"harness/driver crashed on {x['name']}: {x['why']}", True)
    bad = compare([c for c in cases if c["name"] not in lost], impl, model)
    byname = {c["name"]: c for c in cases}
    nops = sum(len(c["lines"]) for c in cases)
    chk.cov["evaluations"] = nops
    chk.cov["traces_validated_against_impl"] = nops
    chk.cov["cases_dropped_for_timeout"] = len(lost)
    kinds = {}
    for c in cases:
        kinds[c["meta"]["kind"]] = kinds.get(c["meta"]["kind"], 0) + len(c["lines"])
    chk.cov["operations_by_kind"] = kinds
    chk.cov["exhaustive"] = True
    # implementation-level facts printed by the harness
    flags = {"mapok": 0, "upper": 0, "sorted": 0, "fillok": 0, "outer": 0, "isperm": 0, "inv": 0, "roundtrip": 0, "ldlcert": 0}
    nflag = 0
    zero_pivots = 0
    for c in cases:
        for l in impl.get(c["name"]) or []:
            t = l.split()
            if t and t[0] == "ret" and int(t[1]) < c["meta"]["n"]:
                zero_pivots += 1
            if t and t[0] == "info" and t[1] == "1":
                zero_pivots += 1
            for i in range(0, len(t) - 1):
                if t[i] in flags and t[i + 1] in ("0", "1"):
                    if t[i + 1] == "0":
                        nflag += 1
                        if nflag <= 3:
                            chk.violation(f"impl:kernel:{t[i]}", f"kernel invariant '{t[i]}' violated (value-index map / upper-sorted output / fill within "
                                          f"symbolic counts / restored outer pointers / permutation consistency / L D L' = A certificate of ldlt_unique)\ncase {c['name']}\n\ninput:\n" + case_text(c)[:6000])
                    else:
                        flags[t[i]] += 1
            if t and t[0] == "error":
                chk.violation("harness:error-line", f"harness reported '{l}' on {c['name']}", True)
    chk.cov["kernel_invariants_checked"] = flags
    chk.cov["zero_pivot_cases_reported_not_divided"] = zero_pivots
    for b in bad[:4]:
        c = byname[b["name"]]
        key = (b["impl"].split() or ["?"])[0]
        chk.violation(f"corr:kernel:{c['meta']['kind']}:{key}",
                      "kernel output differs from its mathematical definition (model at exact rationals)\n"
                      f"case {b['name']} output line {b['line']}\nimpl : {b['impl'][:400]}\nmodel: {b['model'][:400]}\n\ninput:\n" + case_text(c)[:6000])
    chk.cov["distinct_nontrivial"] = len({l for c in cases for l in c["lines"]})
    chk.cov["rule"] = ("all upper-triangular patterns with full diagonal for n<=5 (1+2+8+64+1024) with quasi-definite value sets incl. exact "
                       "zero-pivot-inducing ones, all permutations for n<=4 (quick: sampled for n=4), random sparse n<=16 (40 thorough); dense "
                       "LDLTNoPivot Lower/Upper at sizes across the blocking threshold (31,32,33; thorough also 64..257); transpose, diagonal "
                       "scaling, AMD consistency on random rectangular patterns incl. empty rows/columns; storage level (the three CSC arrays, "
                       "not the dense view) for transpose_no_allocation / pre_mult_diagonal / post_mult_diagonal against the loop-level "
                       "Csc model: every pattern of every shape up to 3x3 and the random rectangular ones; is_transpose_pattern against its loop-level model "
                       "(binary search included) on every pair of patterns with at most 4 cells (thorough: 2x3 too), random near-miss pairs up to 5x5 and raw-array "
                       "arguments (one row index of a valid pattern replaced: duplicate, unsorted or moved entry, same nnz) for every pattern up to 3x3; "
                       "the sparse LDLt object array by array (etree, L_cols, L_nnz, filled L_ind/L_vals, D, return value, solve_inplace) against the "
                       "loop-level model SparseLdl on every upper pattern n<=5 (with and without zero pivot) and the random sparse ones; "
                       "permute_sparse_symmetric_matrix array by array incl. the returned slot map (Csc.permuteSym) on the same patterns x permutations")
    for c in cases[:2]:
        chk.sample({"case": c["name"], "line": c["lines"][0][:200]})
    if proof_ok is False and not chk.violations:
        chk.violation("proof:C14", "Lean proof obligations of C14 no longer check:\n" + getattr(chk, "proof_log", "")[-4000:], True)
    chk.assumptions = ["spec-level theorems (dense recursion); the refinement of the sparse symbolic/numeric code to it is carried by the exhaustive "
                       "exact correspondence, not by a theorem", "Eigen's AMD ordering is only checked to return a consistent permutation"]
    return chk.finish()
