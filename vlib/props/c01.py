"""C01 — SOLVED implies a valid optimality certificate for the user's problem."""
import itertools
import random
from fractions import Fraction as F

from .. import gen_sol
from ..common import Check
from ..diffrun import case_text
from . import solcommon

PID = "C01"


def make_cases(chk, rng):
    cases = []
    thorough = chk.thorough()
    # exhaustive: 5 back ends x 2 preconditioners x all 16 finite/infinite bound patterns at n = 2
    kinds = ["free", "lb", "ub", "both"]
    k = 0
    for be in range(5):
        for pk in (0, 1):
            for pat in itertools.product(kinds, repeat=2):
                st = gen_sol.rand_settings(rng, max_iter=(rng.choice([1, 2]) if be != 0 else 1))
                st["eps_abs"] = rng.choice([F(1, 2 ** 20), F(1, 4), F(8), F(2 ** 10)])
                st["eps_duality_gap_abs"] = rng.choice([F(1, 2 ** 20), F(8), F(2 ** 12)])
                c = gen_sol.gen_history(rng, f"e{k}", be=be, pk=pk, nupd=0, dims=(2, rng.choice([0, 1]), rng.choice([0, 1, 2])),
                                        settings=st, bounds=list(pat))
                c["meta"]["kind"] = "pattern"
                cases.append(c)
                k += 1
    nrand = 2500 if thorough else 220
    for i in range(nrand):
        n = rng.choice([1, 2, 2, 3, 3, 4])
        be = rng.randrange(5)
        st = gen_sol.rand_settings(rng, max_iter=(rng.choice([1, 2]) if (n <= 2 and be != 0) else 1))
        st["eps_abs"] = rng.choice([F(1, 2 ** 20), F(1, 2 ** 6), F(1, 4), F(8), F(2 ** 10)])
        st["eps_rel"] = rng.choice([F(0), F(1, 2 ** 24), F(1, 16)])
        st["eps_duality_gap_abs"] = rng.choice([F(1, 2 ** 20), F(1, 4), F(8), F(2 ** 12)])
        c = gen_sol.gen_history(rng, f"r{i}", be=be, nupd=0, dims=(n, None, None), settings=st)
        c["meta"]["kind"] = "rand"
        cases.append(c)
    # "current data": the certificate must be for the data after updates (reuse on/off, scale_cost, both preconditioners)
    for i in range(800 if thorough else 100):
        be = rng.randrange(5)
        n = rng.choice([1, 2, 3])
        st = gen_sol.rand_settings(rng, max_iter=1)
        st["eps_abs"] = rng.choice([F(1, 4), F(8), F(2 ** 10)])
        st["eps_duality_gap_abs"] = rng.choice([F(1, 4), F(8), F(2 ** 12)])
        st["preconditioner_scale_cost"] = rng.choice([0, 1, 1])
        h = gen_sol.Hist(rng, f"u{i}", be, rng.choice([0, 0, 1]), st, dims=(n, None, None))
        h.setup(dump=False)
        if rng.random() < 0.7:
            h.solve()
        for _ in range(rng.choice([1, 2])):
            h.update(rng.randrange(256), rng.random() < 0.6, dump=False)
            h.solve()
        cases.append(h.case(kind="updated"))
    # rows of G disabled by an infinite h, re-enabled together with G, then G passed alone: the certificate must be for the
    # problem the user now poses (all rows active)
    for i in range(100 if thorough else 15):
        be = rng.randrange(5)
        st = gen_sol.rand_settings(rng, max_iter=1)
        st["eps_abs"] = rng.choice([F(1, 4), F(8), F(2 ** 10)])
        h = gen_sol.Hist(rng, f"hr{i}", be, rng.choice([0, 1]), st, dims=(rng.choice([2, 3]), rng.choice([0, 1]), 2))
        pr = h.prob
        keep = [x if not isinstance(x, str) else F(1) for x in pr.h]
        pr.h = ["inf"] + keep[1:]
        h.setup(dump=False)
        if rng.random() < 0.5:
            h.solve()
        pr.h = list(keep)
        pr.G = gen_sol.rnd_mat(rng, pr.m, pr.n, pr.maskG)
        h.raw("sol.sqrtmode -1", "").raw("sol.update 1 " + pr.mat_arg("G", pr.G, pr.maskG, pr.m, pr.n, h.sparse) + " " + pr.vec_arg("h", pr.h),
                                       "update(G,h->finite)")
        pr.G = gen_sol.rnd_mat(rng, pr.m, pr.n, pr.maskG)
        h.raw("sol.sqrtmode -1", "").raw("sol.update 1 " + pr.mat_arg("G", pr.G, pr.maskG, pr.m, pr.n, h.sparse), "update(G)")
        h.solve()
        cases.append(h.case(kind="h-row-reenabled"))
    return cases


def run(replay=None):
    chk = Check(PID, "proof")
    rng = random.Random(chk.seed * 104729 + 1)
    proof_ok = solcommon.prepare(chk, leancheck=chk.thorough())
    if proof_ok is None:
        return chk.finish()
    cases = make_cases(chk, rng)
    res = solcommon.run_cases(chk, cases)
    if res is None:
        return chk.finish()
    nsolved = 0
    nfail = 0
    for c in cases:
        r = res.get(c["name"])
        if not r or not r["corr_ok"]:
            continue
        solves = solcommon.solve_events(r["events"])
        for (status, dump), chkres in zip(solves, r["checks"]):
            if status != 1:
                continue
            nsolved += 1
            fails = chkres.get("cert", [])
            if fails:
                nfail += 1
                if nfail <= 4:
                    chk.violation(f"impl:cert:be{c['meta']['be']}:pk{c['meta']['pk']}:{fails[0]}",
                                  "solve() returned PIQP_SOLVED but the returned point is not a valid certificate for the user's problem "
                                  "(evaluated exactly by the Lean predicate certFails on results that equal the implementation's): "
                                  + ", ".join(fails) + f"\ncase {c['name']} meta={c['meta']}\n\ninput:\n" + case_text(c)
                                  + "\nimplementation output:\n" + "\n".join(x[:300] for x in r["impl"]))
    chk.cov["solved_results_certified_exactly"] = nsolved
    chk.cov["certificate_failures"] = nfail
    return solcommon.finish(chk, proof_ok, PID,
                            "setup;solve histories at T=Q: 5 back ends x {Ruiz, identity} x all 16 bound patterns at n=2 (exhaustive) + random "
                            "n<=4 problems/settings (eps, tau, preconditioner_iter, scale_cost, refinement, duality-gap check); every SOLVED result is "
                            "checked exactly against the certificate of the user's data", cases)
