"""C15 — preconditioning is an exact change of variables."""
import random
from fractions import Fraction as F

from .. import gen_sol
from ..common import Check
from ..diffrun import case_text
from . import solcommon

PID = "C15"


def make_cases(chk, rng):
    cases = []
    thorough = chk.thorough()
    k = 0
    kinds = ["free", "lb", "ub", "both"]
    # iterations {0,1,2,3,10} x scale_cost x dense/sparse x all bound-pattern transitions at n = 2 under reuse / no reuse
    import itertools
    pats = list(itertools.product(kinds, repeat=2))
    for it in (0, 1, 2, 3, 10):
        for sc in (0, 1):
            for be in ((0, 1, 4) if not thorough else range(5)):
                trans = [(a, b) for a in pats for b in pats]
                rng.shuffle(trans)
                for (pa, pb) in (trans if thorough else trans[:10]):
                    st = gen_sol.rand_settings(rng, max_iter=1)
                    st["preconditioner_iter"] = it
                    st["preconditioner_scale_cost"] = sc
                    h = gen_sol.Hist(rng, f"t{k}", be, 0, st, dims=(2, rng.choice([0, 1]), rng.choice([0, 1, 2])), bounds=list(pa))
                    h.setup().precheck()
                    if rng.random() < 0.5:
                        h.solve()
                    # change the bound pattern to `pb`
                    pr = h.prob
                    lb, ub = pr.rand_bounds(rng, list(pb))
                    pr.lb, pr.ub = lb, ub
                    reuse = rng.choice([0, 1, 1])
                    h.raw("sol.sqrtmode -1", "").raw(f"sol.update {reuse} " + pr.vec_arg("lb", lb) + " " + pr.vec_arg("ub", ub), f"update(bounds,{reuse})").dump().precheck()
                    h.update(rng.randrange(256), rng.random() < 0.5).precheck()
                    h.solve()
                    cases.append(h.case(kind="transition", it=it, sc=sc))
                    k += 1
    for i in range(1500 if thorough else 150):
        be = rng.randrange(5)
        n = rng.choice([1, 2, 3, 4])
        st = gen_sol.rand_settings(rng, max_iter=1)
        st["preconditioner_iter"] = rng.choice([0, 1, 2, 3, 5, 10])
        h = gen_sol.Hist(rng, f"r{i}", be, 0, st, dims=(n, None, None))
        h.setup().precheck()
        for _ in range(rng.choice([1, 2, 3])):
            if rng.random() < 0.5:
                # the preconditioner settings may change between re-scalings (a cached inverse must not survive that)
                h.settings(preconditioner_scale_cost=rng.choice([0, 1]), preconditioner_iter=rng.choice([0, 1, 2, 10]))
            h.update(rng.randrange(256), rng.random() < 0.5).precheck()
        if rng.random() < 0.5:
            h.solve()
        cases.append(h.case(kind="random"))
    return cases


def run(replay=None):
    chk = Check(PID, "proof")
    rng = random.Random(chk.seed * 601 + 15)
    proof_ok = solcommon.prepare(chk, leancheck=chk.thorough())
    if proof_ok is None:
        return chk.finish()
    cases = make_cases(chk, rng)
    res = solcommon.run_cases(chk, cases)
    if res is None:
        return chk.finish()
    nchk, nfail = 0, 0
    for c in cases:
        r = res.get(c["name"])
        if not r or not r["corr_ok"] or r["trapped"]:
            continue
        for k, chkres in enumerate(r["checks"]):
            if "pre" not in chkres:
                continue
            nchk += 1
            fails = chkres["pre"]
            if fails:
                nfail += 1
                if nfail <= 4:
                    chk.violation(f"impl:precond:be{c['meta']['be']}:it{c['meta']['prec_iter']}:sc{c['meta']['scale_cost']}:{fails[0]}",
                                  "the scaled data / scalings held by the solver are not an exact change of variables of the user's data "
                                  "(Lean predicate precondFails on a state equal to the implementation's): " + ", ".join(fails)
                                  + f"\ncase {c['name']} check #{k} meta={c['meta']}\n\ninput:\n" + case_text(c)
                                  + "\nimplementation output:\n" + "\n".join(x[:300] for x in r["impl"]))
    chk.cov["states_checked"] = nchk
    chk.cov["failures"] = nfail
    chk.cov["exhaustive"] = True
    return solcommon.finish(chk, proof_ok, PID,
                            "preconditioner_iter in {0,1,2,3,10} x scale_cost x dense/sparse x transitions between the 16 bound patterns at n=2 "
                            "(reuse and no reuse), random update histories n<=4: after setup and after every update the scaled data must equal the "
                            "user's data transformed by the reported scalings and every inverse scaling must be the inverse on the active indices", cases)
