"""C10 — the answer does not depend on back end, KKT formulation or storage of P."""
import random
from fractions import Fraction as F

from .. import gen_sol
from ..gen_sol import fs
from ..common import Check
from ..diffrun import case_text
from . import solcommon

PID = "C10"


def result_lines(lines):
    keep = ("x ", "y ", "z ", "z_lb ", "z_ub ", "s ", "s_lb ", "s_ub ", "status ")
    out = [l for l in lines if l.startswith(keep)]
    # info without rho/delta bookkeeping differences: status, iter, objectives, residual norms
    for l in lines:
        if l.startswith("info "):
            t = l.split()
            out.append("info " + " ".join(t[1:3] + t[9:17]))
    return out


def make_cases(chk, rng):
    cases, groups, storage = [], [], []
    thorough = chk.thorough()
    # (a) the four sparse formulations on the same problem/settings (exact inner solves, no refinement): identical results
    for i in range(600 if thorough else 70):
        seed = rng.randrange(10 ** 9)
        pk = rng.choice([0, 1])
        grp = []
        for be in (1, 2, 3, 4):
            r2 = random.Random(seed)
            st = gen_sol.rand_settings(r2, max_iter=1)
            st["iterative_refinement_always_enabled"] = 0
            st["eps_abs"] = r2.choice([F(1, 2 ** 20), F(8)])
            n = r2.choice([1, 2, 3])
            h = gen_sol.Hist(r2, f"g{i}_{be}", be, pk, st, dims=(n, None, None))
            h.setup(dump=False)
            if r2.random() < 0.5:
                h.update(r2.randrange(256), r2.random() < 0.5, dump=False)
            h.solve(check=False)
            c = h.case(kind="formulations")
            cases.append(c)
            grp.append(c)
        groups.append(grp)
    # (b) storage of P: upper only / full symmetric / upper + garbage in the lower triangle / explicit zeros; setup and update
    for i in range(400 if thorough else 60):
        be = rng.randrange(5)
        seed = rng.randrange(10 ** 9)
        variants = []
        for var in ("upper", "full", "garbage", "zeros"):
            r2 = random.Random(seed)
            st = gen_sol.rand_settings(r2, max_iter=1)
            n = r2.choice([2, 3])
            h = gen_sol.Hist(r2, f"s{i}_{var}", be, r2.choice([0, 1]), st, dims=(n, None, None))
            pr = h.prob
            g = random.Random(seed + 7)

            def p_arg(P, mask):
                toks = []
                for a in range(n):
                    for b in range(n):
                        up = a <= b
                        stored = mask[a][b] or mask[b][a]
                        if var == "upper":
                            toks.append(fs(P[a][b]) if (up and (stored or be == 0)) else ("0" if be == 0 else "."))
                        elif var == "full":
                            toks.append(fs(P[a][b]) if (stored or be == 0) else ".")
                        elif var == "garbage":
                            toks.append(fs(P[a][b]) if (up and (stored or be == 0)) else (fs(F(g.randint(-9, 9))) if (stored or be == 0) else "."))
                        else:
                            toks.append(fs(P[a][b]) if (stored or be == 0) else ("0" if up and be != 0 and False else "."))
                return f"P {n} {n} " + " ".join(toks)

            base = pr.setup_line(h.sparse)
            # replace the P argument of the setup line
            rest = base.split(" c ", 1)[1]
            h.L.append("sol.sqrtmode -1")
            h.L.append("sol.setup " + p_arg(pr.P, pr.maskP) + " c " + rest)
            if h.sparse:
                h.L.append("sol.perm")
            h.ops.append("setup"); h.is_setup = True
            h.solve(check=False)
            # update with a new P in the same storage variant
            newP = gen_sol.psd_matrix(r2, n)
            for a in range(n):
                for b in range(n):
                    if not (pr.maskP[a][b] or pr.maskP[b][a]) and be != 0:
                        newP[a][b] = F(0)
            h.L.append("sol.sqrtmode -1")
            h.L.append("sol.update 1 " + p_arg(newP, pr.maskP))
            h.ops.append("update(P)")
            pr.P = newP
            h.solve(check=False)
            c = h.case(kind="storage", variant=var)
            cases.append(c)
            variants.append(c)
        storage.append(variants)
    return cases, groups, storage


def run(replay=None):
    chk = Check(PID, "proof")
    rng = random.Random(chk.seed * 1009 + 10)
    proof_ok = solcommon.prepare(chk, leancheck=chk.thorough())
    if proof_ok is None:
        return chk.finish()
    cases, groups, storage = make_cases(chk, rng)
    res = solcommon.run_cases(chk, cases)
    if res is None:
        return chk.finish()
    ng, nbad = 0, 0
    for grp in groups:
        rs = [res.get(c["name"]) for c in grp]
        if any(r is None or r["trapped"] for r in rs):
            continue
        ng += 1
        outs = [result_lines(r["impl"]) for r in rs]
        for c, o in zip(grp[1:], outs[1:]):
            if o != outs[0]:
                nbad += 1
                d = next(((x, y) for x, y in zip(outs[0], o) if x != y), ("<len>", "<len>"))
                if nbad <= 3:
                    chk.violation(f"impl:formulations:be{c['meta']['be']}-vs-be{grp[0]['meta']['be']}:{d[0].split()[0]}",
                                  "the same problem solved through two sparse KKT formulations (exact arithmetic, refinement off) gives "
                                  f"different results: {d[0][:200]}  vs  {d[1][:200]}\ncases {grp[0]['name']} / {c['name']} meta={c['meta']}\n\n"
                                  "input A:\n" + case_text(grp[0]) + "\ninput B:\n" + case_text(c))
    ns, nsbad = 0, 0
    for variants in storage:
        rs = [res.get(c["name"]) for c in variants]
        if any(r is None for r in rs):
            continue
        ns += 1
        outs = [[l for l in r["raw"] if not l.startswith("#")] for r in rs]
        for c, o in zip(variants[1:], outs[1:]):
            if o != outs[0]:
                nsbad += 1
                d = next(((x, y) for x, y in zip(outs[0], o) if x != y), ("<len>", "<len>"))
                if nsbad <= 3:
                    chk.violation(f"impl:P-storage:{c['meta']['variant']}:be{c['meta']['be']}:{d[0].split()[0]}",
                                  f"supplying P as '{c['meta']['variant']}' instead of upper-triangular changes the outcome: "
                                  f"{d[0][:200]}  vs  {d[1][:200]}\ncases {variants[0]['name']} / {c['name']}\n\ninput A:\n"
                                  + case_text(variants[0]) + "\ninput B:\n" + case_text(c))
    chk.cov["formulation_groups_compared"] = ng
    chk.cov["storage_groups_compared"] = ns
    chk.cov["disagreements"] = nbad + nsbad
    return solcommon.finish(chk, proof_ok, PID,
                            "(a) the same problem/settings through KKT_FULL / EQ / INEQ / ALL_ELIMINATED at T=Q (refinement off): results must be "
                            "identical rationals; (b) P supplied upper-only / full symmetric / upper+garbage lower / explicit zeros in setup() and "
                            "update(), all five back ends: the complete output must be identical", cases)
