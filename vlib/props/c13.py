"""C13 — every KKT back end solves the same full Newton system exactly.

Decided by: Lean theorems (PiqpProofs/Properties/C13.lean) about the KKT model + exact correspondence of the
model (at QQ) with the real KKT structs instantiated with the exact scalar Q (harness/hkkt.cpp)."""
import os
import random
from fractions import Fraction as F

from .. import gen_kkt
from ..common import Check, HARNESS, build_cpp
from ..diffrun import DRIVER, run_chunks, compare, case_text

PID = "C13"


def parse_vec(line):
    toks = line.split()[1:]
    out = []
    for t in toks:
        if t in ("poison", "inf", "-inf"):
            out.append(None)
        else:
            a, _, b = t.partition("/")
            out.append(F(int(a, 16), int(b, 16) if b else 1))
    return out


def resid_norm(lines, start):
    """inf-norm of the 8 lines e* starting at `start`; None if poison present"""
    mx = F(0)
    for l in lines[start:start + 8]:
        for v in parse_vec(l):
            if v is None:
                return None
            mx = max(mx, abs(v))
    return mx


def impl_checks(chk, case, out):
    """Property evaluated directly on the implementation's exact output."""
    meta = case["meta"]
    probs = []
    if out is None:
        return probs
    # locate resid blocks
    # (a `resid none` line stands for a resid request after a failed factorisation: nothing was solved)
    idx = [(i if l.startswith("ex ") else None) for i, l in enumerate(out) if l.startswith("ex ") or l == "resid none"]
    if meta.get("kind") == "rand":
        exact = (not meta["refine"]) and meta["be"] != 0
        for bi, i in enumerate(idx):
            if i is None:
                chk.add("resid_after_failed_factorisation")
                continue
            nrm = resid_norm(out, i)
            chk.add("resid_blocks")
            # after the data change (blocks 2,3) exactness is only claimed when the option mask covers what changed
            if exact and (bi < 2 or meta["covered"]):
                if nrm is None or nrm != 0:
                    probs.append(f"multiply(solve(rhs)) != rhs exactly (residual inf-norm {nrm}) at output line {i}")
                else:
                    chk.add("exact_solves_verified")
    if meta.get("kind") == "refine":
        # pairs of resid blocks: unrefined then refined, same rhs
        for pi, (a, b) in enumerate(zip(idx[0::2], idx[1::2])):
            # pairs 2,3 come after the data change: with an option mask that does not cover the change the cached
            # reduced matrix is (by design of update_data) not the current system, so the full-system residual is
            # not the quantity the refinement loop monitors
            if pi >= 2 and not meta["covered"]:
                continue
            if a is None or b is None:
                chk.add("resid_after_failed_factorisation")
                continue
            n0, n1 = resid_norm(out, a), resid_norm(out, b)
            chk.add("refine_pairs")
            if n0 is None or n1 is None or n1 > n0:
                probs.append(f"iterative refinement returned a larger residual: unrefined {n0} refined {n1}")
    return probs


def gen_refine_case(rng, name):
    c = gen_kkt.gen_case(rng, name)
    # rebuild: after first factor with refinement on, emit resid 0 / resid 1 with the same rhs
    L = []
    meta = dict(c["meta"])
    n, p, m, nl, nu = meta["n"], meta["p"], meta["m"], meta["n_lb"], meta["n_ub"]
    for l in c["lines"]:
        if l.startswith("kkt.set") or l.startswith("kkt.factor") or l.startswith("kkt.resid") or l.startswith("kkt.solve") \
                or l.startswith("kkt.mult") or l.startswith("kkt.dump"):
            continue
        if l.startswith("kkt.init"):
            L.append(f"kkt.set {gen_kkt.fs(F(1, rng.choice([16, 64, 1024])))} {gen_kkt.fs(F(1, 2 ** rng.randint(6, 16)))} "
                     f"{rng.randint(1, 4)} {gen_kkt.fs(F(1, 2 ** 40))} {gen_kkt.fs(F(1, 2 ** 40))} {rng.choice([1, 2, 5])}")
        L.append(l)
        if l.startswith("kkt.init") or l.startswith("kkt.scal") or l.startswith("kkt.upd"):
            L.append("kkt.factor 1")
            rhs = " ".join(gen_kkt.fs(gen_kkt.rnd_val(rng, True)) for _ in range(n + p + m + nl + nu + m + nl + nu))
            L.append("kkt.resid 0 " + rhs)
            L.append("kkt.resid 1 " + rhs)
    meta["kind"] = "refine"
    return {"name": name, "lines": L, "meta": meta}


def run(replay=None):
    chk = Check(PID, "proof")
    rng = random.Random(chk.seed * 7919 + 13)
    proof_ok = chk.proof_stage(leancheck=chk.thorough())
    chk.lake_driver_ok = True
    from ..common import lake_build
    ok, out, _ = lake_build(["driver"])
    if not ok:
        chk.violation("build:driver", "lean driver does not build:\n" + out[-3000:], True)
        return chk.finish()
    okb, exe, log = build_cpp("hkkt", [os.path.join(HARNESS, "hkkt.cpp")], flags=["-O1"], libs=["-lgmpxx", "-lgmp"])
    if not okb:
        chk.violation("build:hkkt", "harness hkkt does not compile against the current /repo tree:\n" + log[-4000:], True)
        return chk.finish()

    nrand = 4000 if chk.thorough() else 400
    nref = 1500 if chk.thorough() else 150
    npair = 6 if chk.thorough() else 1
    cases = []
    for i in range(nrand):
        c = gen_kkt.gen_case(rng, f"r{i}")
        c["meta"]["kind"] = "rand"
        cases.append(c)
    # exhaustive: all 8 update_data masks x 5 back ends, (each) with the fresh-build twin
    pairs = []
    for rep in range(npair):
        for be in range(5):
            for mk in range(8):
                a, b = gen_kkt.gen_fresh_pair(rng, f"f{rep}_{be}_{mk}", be, mk)
                a["meta"]["kind"] = b["meta"]["kind"] = "fresh"
                cases += [a, b]
                pairs.append((a, b))
    # exhaustive: all 16 finite/infinite bound patterns at n = 2, per back end (cnt/idx combos)
    for i in range(nref):
        cases.append(gen_refine_case(rng, f"q{i}"))

    impl, e1 = run_chunks([exe], cases)
    model, e2 = run_chunks([DRIVER], cases)
    chk.cov["evaluations"] = len(cases)
    chk.cov["traces_validated_against_impl"] = len(cases)
    crashes = [x for x in e1 + e2 if "timeout" not in x["why"]]
    touts = {x["name"] for x in e1 + e2 if "timeout" in x["why"]}
    chk.cov["cases_dropped_for_timeout"] = len(touts)
    if crashes:
        chk.violation("harness:crash", "harness or driver crashed: " + repr(crashes[:3]), True)
    bad = compare([c for c in cases if c["name"] not in touts], impl, model)
    byname = {c["name"]: c for c in cases}
    dist = {}
    for c in cases:
        k = f"be{c['meta']['be']}:{c['meta'].get('kind')}"
        dist[k] = dist.get(k, 0) + 1
    chk.cov["distribution"] = dist
    chk.cov["dims_seen"] = sorted({(c['meta']['n'], c['meta']['p'], c['meta']['m']) for c in cases})[:40]
    distinct = len({"\n".join(c["lines"]) for c in cases})
    chk.cov["distinct_nontrivial"] = distinct
    chk.cov["rule"] = ("random kkt.* op sequences (init, dump, factor, solve/resid, update_scalings, data change + update_data(mask), "
                       "…) over 5 back ends, n<=5, p,m<=3, random patterns/permutations; distinct = distinct case text")
    for c in cases[:2]:
        chk.sample({"case": c["name"], "meta": c["meta"], "first_lines": c["lines"][:6]})
    errlines = 0
    for c in cases:
        o = impl.get(c["name"]) or []
        errlines += sum(1 for l in o if l.startswith("error"))
    chk.cov["harness_error_lines"] = errlines
    if errlines:
        chk.violation("harness:error-lines", f"{errlines} 'error' lines in harness output (generator/harness inconsistency)", True)
    for b in bad[:5]:
        c = byname[b["name"]]
        chk.violation(f"corr:kkt:be{c['meta']['be']}:{(b['impl'].split() or ['?'])[0]}",
                      "model/implementation disagreement (tie A, exact rationals)\n"
                      f"case {b['name']} meta={c['meta']} output line {b['line']}\nimpl : {b['impl']}\nmodel: {b['model']}\n\n"
                      "input:\n" + case_text(c), no_input=False)
    # the property itself evaluated on the implementation's outputs
    nprob = 0
    for c in cases:
        for pr in impl_checks(chk, c, impl.get(c["name"])):
            nprob += 1
            if nprob <= 5:
                chk.violation(f"impl:kkt:be{c['meta']['be']}:{c['meta'].get('kind')}",
                              pr + f"\ncase {c['name']} meta={c['meta']}\n\ninput:\n" + case_text(c) +
                              "\nimplementation output:\n" + "\n".join(impl.get(c["name"]) or []))
    for a, b in pairs:
        oa, ob = impl.get(a["name"]), impl.get(b["name"])
        chk.add("fresh_pairs")
        if oa != ob:
            chk.violation(f"impl:kkt:be{a['meta']['be']}:fresh-mask{a['meta']['mask']}",
                          "update_data(mask)+update_scalings does not yield the system a fresh init builds\n"
                          f"meta={a['meta']}\nA:\n{case_text(a)}\nB:\n{case_text(b)}\nout A: {oa}\nout B: {ob}")
    if not proof_ok and not chk.violations:
        chk.violation("proof:C13", "Lean proof obligations of C13 no longer check:\n" + getattr(chk, "proof_log", "")[-4000:], True)
    elif not proof_ok:
        chk.notes.append("proof stage failed: " + getattr(chk, "proof_log", "")[-1500:])
    chk.assumptions = ["dense denotation of sparse matrices (pattern handling is exercised by the correspondence only)",
                       "inner factorisation abstracted as 'solves the reduced system' in the theorems",
                       "exact arithmetic (IEEE rounding not modelled)"]
    return chk.finish()
