"""C16 -- the C API is a faithful projection of the C++ solver.

static half (this file, `static_part`): tie C.  translate/tables.py extracts, from the CURRENT
interfaces/c/src/piqp.cpp, interfaces/c/include/piqp_typedef.h, include/piqp/settings.hpp and results.hpp,
every `lhs = rhs` pair of piqp_update_result, piqp_set_default_settings and piqp_update_settings (dense and
sparse branch separately) and the two status enums; PiqpProofs/Properties/C16.lean proves by `decide` that

  c_result_wired / c_result_complete            every Vec member of Result<T>  -> like-named C member, once
  c_result_info_wired / c_result_info_complete  every member of Info<T>        -> like-named C member, once
  c_defaults_wired / _complete / _source        defaults copied member-for-member from a default-constructed
                                                piqp::Settings<piqp_float>
  c_settings_wired_{dense,sparse} / c_settings_complete_{dense,sparse} / c_settings_branch_solvers
                                                piqp_update_settings transfers every member in both branches
  c_status_values_equal                         piqp_status = piqp::Status (names and values)

The obligation list, the failing-input search and the Lean/Python consistency guards are shared with C17
(vlib/props/c17.py: `c_wiring`, `static_tables_check`).

dynamic half (`dynamic_part`): the same call history (setup; solve; update(subset); settings changes; solve; …) is run
through the C interface and through the C++ class it wraps, from the same caller arrays (harness/halias.cpp:
api 4 = piqp_setup_dense/piqp_update_dense vs api 1 = DenseSolver on the same row-major arrays; api 5 = piqp_*_sparse vs
api 3 = SparseSolver<KKT_FULL> on the same CSC arrays); after every solve the status, all 13 result vectors and all
non-timing info fields must be bit-for-bit equal.  P is stored full, upper-only or upper+garbage; A and G are non-square;
every optional block is present or absent (NULL); settings are changed before setup (struct passed to piqp_setup_*) and
between solves (piqp_update_settings), every field at a non-default value; caller arrays are checksummed around each call.
"""
import json
import os
import random

from vlib import common
from vlib.common import Check, HARNESS, build_cpp
from vlib.props import c17, c19

ALL_FIELDS = [("rho_init", 1e-5), ("delta_init", 1e-3), ("eps_abs", 1e-7), ("eps_rel", 1e-8), ("check_duality_gap", 1),
              ("eps_duality_gap_abs", 1e-6), ("eps_duality_gap_rel", 1e-7), ("reg_lower_limit", 1e-9), ("reg_finetune_lower_limit", 1e-12),
              ("reg_finetune_primal_update_threshold", 6), ("reg_finetune_dual_update_threshold", 4), ("max_iter", 120),
              ("max_factor_retires", 8), ("preconditioner_scale_cost", 1), ("preconditioner_iter", 6), ("tau", 0.98),
              ("iterative_refinement_always_enabled", 1), ("iterative_refinement_eps_abs", 1e-11), ("iterative_refinement_eps_rel", 1e-11),
              ("iterative_refinement_max_iter", 7), ("iterative_refinement_min_improvement_rate", 2.5),
              ("iterative_refinement_static_regularization_eps", 1e-6), ("iterative_refinement_static_regularization_rel", 1e-30)]


def static_part(chk):
    """Tables + proof + failing-input search.  Returns True when every static obligation held."""
    ok = c17.static_tables_check(chk)
    try:
        with open(c17.TABLES_JSON) as f:
            L = json.load(f)["lean"]
        for tab, i in (("cUpdateSettingsDensePairs", 9), ("cUpdateSettingsSparsePairs", 22), ("cDefaultsPairs", 4),
                       ("cUpdateResultInfoPairs", 0), ("cUpdateResultPairs", 9), ("cStatus", 6)):
            if tab in L and len(L[tab]) > i:
                chk.sample({"table": tab, "row": i, "pair": list(L[tab][i])})
    except (OSError, ValueError, KeyError):
        pass
    chk.cov["trusted_base"] = chk.cov["trusted_base"][:2] + [
        "translate/tables.py (regex/brace-matching extractor; fails closed on unparsed statements inside the blocks it reads)",
        "PiqpProofs/TableLogic.lean predicates (Wired, Covers, SameTable) over the generated tables",
    ] + chk.cov["trusted_base"][2:]
    chk.assumptions.append("static half: a copy statement is 'wired' when the member names on both sides coincide; "
                           "that the copied values are bit-identical is the dynamic half's business")
    return ok


def gen_pair(rng, capi, idx):
    """one history, twice: through the C interface (api 4 / 5) and through the C++ class it wraps (api 1 / 3:KKT_FULL)"""
    n = rng.choice([1, 2, 3, 4, 5, 6, 8, 12])
    p = rng.choice([0, 1, max(1, n // 2)])
    m = rng.choice([0, 1, n + 1, max(1, n // 2)])
    pr = c19.Prob(rng, n, min(p, n), m, capi == 5)
    st = rng.choice(c19.SETTING_VARIANTS + [ALL_FIELDS, [("check_duality_gap", 1), ("eps_abs", 1e-3), ("eps_rel", 1e-3),
                                                          ("eps_duality_gap_abs", 1e-9), ("eps_duality_gap_rel", 0.0)]])
    case = c19.new_case(f"cvs_{capi}_{idx}", capi, 0, st, {"kind": "c-vs-cpp", "n": n, "p": pr.p, "m": pr.m})
    c19.op_setup(case, pr, rng)
    c19.op_solve(case)
    al = c19.allowed(pr)
    for _ in range(rng.randint(1, 4)):
        r = rng.random()
        names = list(al) if r < 0.2 else [rng.choice(al)] if r < 0.5 else [a for a in al if rng.random() < 0.4]
        if names:
            c19.op_update(case, pr, names, 1)
        if rng.random() < 0.5:
            # a settings change between solves: piqp_update_settings on the C side, settings() on the C++ side
            for k, v in rng.sample(ALL_FIELDS, rng.randint(1, 5)):
                if k not in ("preconditioner_iter", "preconditioner_scale_cost"):
                    case["lines"].append(f"set {k} {c19.fnum(v * rng.choice([1, 1, 2]) if isinstance(v, float) else v)}")
        c19.op_solve(case)
    twin = dict(case, name=case["name"] + "_cpp", api={4: 1, 5: 3}[capi], kkt=0,
                lines=[f"api { {4: 1, 5: 3}[capi] } 0"] + case["lines"][1:], meta=dict(case["meta"], api=c19.cfg_name({4: 1, 5: 3}[capi], 0)))
    return case, twin


def dynamic_part(chk):
    """bitwise differential runs: C interface vs the C++ class it wraps"""
    rng = random.Random(chk.seed * 7907 + 16)
    src = [os.path.join(HARNESS, "halias.cpp"), os.path.join(common.REPO, "interfaces", "c", "src", "piqp.cpp")]
    inc = ["-I", os.path.join(common.REPO, "interfaces", "c", "include")]
    okb, exe, log = build_cpp("halias", src, flags=["-O1"] + inc)
    if not okb:
        chk.violation("build:halias", "harness halias (+ interfaces/c/src/piqp.cpp) does not compile against the current /repo tree:\n"
                      + log[-4000:], True)
        return False
    npair = 400 if chk.thorough() else 60
    pairs = [gen_pair(rng, capi, k) for capi in (4, 5) for k in range(npair)]
    items = [(c, "A") for pr in pairs for c in pr]
    outs, crashes = c19.run_all(exe, items)
    ncmp = nsolves = nbad = 0
    statuses = {}
    ok = True
    for cc, tw in pairs:
        a, b = outs.get(cc["name"] + "#A"), outs.get(tw["name"] + "#A")
        if cc["name"] + "#A" in crashes or tw["name"] + "#A" in crashes or a is None or b is None:
            nbad += 1
            ok = False
            if nbad <= 2:
                chk.violation(f"impl:c-vs-cpp:crash:api{cc['api']}", "harness run lost (crash/timeout) in the C-vs-C++ differential:\n"
                              + repr(crashes.get(cc["name"] + "#A") or crashes.get(tw["name"] + "#A"))[:2000] + "\n\ninput:\n" + c19.case_text(cc, "A"))
            continue
        ncmp += 1
        la = [l for l in a if not l.startswith("case")]
        lb = [l for l in b if not l.startswith("case")]
        for l in la:
            if l.startswith("status"):
                nsolves += 1
                statuses[l.split()[1]] = statuses.get(l.split()[1], 0) + 1
        err = [l for l in la if l.startswith("error") or l.startswith("modified")]
        diff = next((i for i in range(max(len(la), len(lb))) if i >= len(la) or i >= len(lb) or la[i] != lb[i]), None)
        if diff is not None or err:
            nbad += 1
            ok = False
            if nbad <= 4:
                what = (f"first differing output line {diff}:\n  C   : {la[diff] if diff < len(la) else '<missing>'}\n  C++ : {lb[diff] if diff < len(lb) else '<missing>'}"
                        if diff is not None else "C interface reported: " + err[0])
                field = (la[diff].split()[0] if diff is not None and diff < len(la) else "err")
                chk.violation(f"impl:c-vs-cpp:api{cc['api']}:{field}",
                              "the C interface and the C++ solver it wraps disagree bit-for-bit on the same call history and caller arrays\n"
                              + what + f"\nsettings {cc['meta']['settings']}\n\ninput (C side; the twin replaces the first line by 'api {tw['api']} 0'):\n"
                              + c19.case_text(cc, "A"))
    chk.cov["c_vs_cpp_pairs_compared"] = ncmp
    chk.cov["c_vs_cpp_solves_compared"] = nsolves
    chk.cov["c_vs_cpp_status_distribution"] = statuses
    chk.cov["evaluations"] = chk.cov.get("evaluations", 0) + 2 * len(pairs)
    chk.cov["c_vs_cpp_rule"] = ("same history through piqp_* (dense row-major / sparse CSC, optional blocks NULL, settings by struct and by "
                                "piqp_update_settings, every field non-default in some cases, P full / upper-only / upper+garbage) and through "
                                "DenseSolver / SparseSolver<KKT_FULL>; status, 13 result vectors and all non-timing info fields compared bitwise "
                                "after every solve; caller arrays checksummed around every call")
    chk.assumptions.append("dynamic half: differential testing on generated histories (n<=12), labelled as testing; the wiring theorems are the proof part")
    return ok


def run(replay=None):
    chk = Check("C16", "proof")
    if replay:
        chk.log(f"replay {replay}: the static half is a pure function of the working tree; re-running it in full")
    static_part(chk)
    dynamic_part(chk)
    return chk.finish()
