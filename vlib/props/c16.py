"""C16 -- the C API is a faithful projection of the C++ solver.

static half (this file, `static_part`): tie C.  translate/tables.py extracts, from the CURRENT
interfaces/c/src/piqp.cpp, interfaces/c/include/piqp_typedef.h, include/piqp/settings.hpp and results.hpp,
every `lhs = rhs` pair of piqp_update_result, piqp_set_default_settings and piqp_update_settings (dense and
sparse branch separately) and the two status enums; PiqpProofs/Properties/C16.lean proves by `decide` that

  c_result_wired / c_result_complete            every Vec member of Result<T>  -> like-named C member, once
  c_result_info_wired / c_result_info_complete  every member of Info<T>        -> like-named C member, once
  c_defaults_wired / _complete / _source        defaults copied member-for-member from a default-constructed
                                                piqp::Settings<piqp_float>
  c_settings_wired_{dense,sparse} / c_settings_complete_{dense,sparse} / c_settings_branch_solvers
                                                piqp_update_settings transfers every member in both branches
  c_status_values_equal                         piqp_status = piqp::Status (names and values)

The obligation list, the failing-input search and the Lean/Python consistency guards are shared with C17
(vlib/props/c17.py: `c_wiring`, `static_tables_check`).

dynamic half: to be added in `dynamic_part` (bitwise C-vs-C++ differential runs).
"""
import json

from vlib.common import Check
from vlib.props import c17


def static_part(chk):
    """Tables + proof + failing-input search.  Returns True when every static obligation held."""
    ok = c17.static_tables_check(chk)
    try:
        with open(c17.TABLES_JSON) as f:
            L = json.load(f)["lean"]
        for tab, i in (("cUpdateSettingsDensePairs", 9), ("cUpdateSettingsSparsePairs", 22), ("cDefaultsPairs", 4),
                       ("cUpdateResultInfoPairs", 0), ("cUpdateResultPairs", 9), ("cStatus", 6)):
            if tab in L and len(L[tab]) > i:
                chk.sample({"table": tab, "row": i, "pair": list(L[tab][i])})
    except (OSError, ValueError, KeyError):
        pass
    chk.cov["trusted_base"] = chk.cov["trusted_base"][:2] + [
        "translate/tables.py (regex/brace-matching extractor; fails closed on unparsed statements inside the blocks it reads)",
        "PiqpProofs/TableLogic.lean predicates (Wired, Covers, SameTable) over the generated tables",
    ] + chk.cov["trusted_base"][2:]
    chk.assumptions.append("static half: a copy statement is 'wired' when the member names on both sides coincide; "
                           "that the copied values are bit-identical is the dynamic half's business")
    return ok


def dynamic_part(chk):
    """Placeholder for the differential half (hcapi harness); nothing is claimed for it yet."""
    chk.notes.append("dynamic half (C-vs-C++ differential) not part of this run")
    return True


def run(replay=None):
    chk = Check("C16", "proof")
    if replay:
        chk.log(f"replay {replay}: the static half is a pure function of the working tree; re-running it in full")
    static_part(chk)
    dynamic_part(chk)
    return chk.finish()
