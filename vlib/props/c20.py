"""C20 -- saved problem files load back identically.

Decided by
  * Lean theorems (lean/PiqpProofs/Properties/C20.lean) about the model lean/PiqpModel/IO.lean of io_utils.hpp /
    eigen_matio.hpp over an abstract MAT store: load_save_dense, load_save_sparse (any well-formed model, any store
    the file already held), field_lists_agree, sparse_guard_holds_for_saved;
  * a checked correspondence: harness/hio.cpp runs the REAL save_*_model / load_*_model through the real libmatio and
    independently scans the written .mat file with raw matio calls; lean/IODriver.lean executes the model on the same
    case; loaded model, std::cout diagnostics and file layout are compared as strings, per case;
  * the property itself evaluated on the implementation: loaded fields == saved fields, bit for bit;
  * a source-text tie: the four literal name sequences in io_utils.hpp == the model's four `FieldNames` records.
"""
import os
import random
import re
import struct
import subprocess
from concurrent.futures import ThreadPoolExecutor

from ..common import Check, HARNESS, BUILD, LEAN, REPO, build_cpp
from ..diffrun import split_cases, compare, case_text

PID = "C20"
FIELDS = ["P", "c", "A", "b", "G", "h", "x_lb", "x_ub"]

SPECIAL = {
    "+0": 0x0000000000000000, "-0": 0x8000000000000000,
    "+inf": 0x7ff0000000000000, "-inf": 0xfff0000000000000,
    "denorm_min": 0x0000000000000001, "-denorm_min": 0x8000000000000001, "denorm_max": 0x000fffffffffffff,
    "norm_min": 0x0010000000000000, "max": 0x7fefffffffffffff, "-max": 0xffefffffffffffff,
    "qnan": 0x7ff8000000000000, "qnan_payload": 0x7ff8000000000123, "-qnan_payload": 0xfff800dead00beef,
    "snan": 0x7ff0000000000001, "huge": 0x7e37e43c8800759c, "tiny": 0x01a56e1fc2f8f359, "one": 0x3ff0000000000000,
}


def hx(u):
    return "%016x" % u


def is_special(u):
    e = (u >> 52) & 0x7ff
    return e == 0x7ff or e == 0


def val(rng, mode):
    if mode == "special":
        return rng.choice(list(SPECIAL.values()))
    if mode == "bits":
        return rng.getrandbits(64)
    if mode == "zeros":
        return rng.choice([SPECIAL["+0"], SPECIAL["-0"]])
    if mode == "mixed":
        return val(rng, rng.choice(["special", "bits", "nice", "nice"]))
    if isinstance(mode, int):
        return mode
    return struct.unpack("<Q", struct.pack("<d", rng.uniform(-100, 100) * 10.0 ** rng.randint(-3, 3)))[0]


def bound(rng, mode, lower):
    r = rng.random()
    if isinstance(mode, int):
        return mode
    if r < 0.45:
        return SPECIAL["-inf"] if lower else SPECIAL["+inf"]
    if r < 0.55:
        return SPECIAL["+inf"] if lower else SPECIAL["-inf"]   # the "wrong" infinity is a legal bit pattern too
    return val(rng, mode)


def dmat_line(rng, f, r, c, mode):
    return " ".join(["dmat", f, str(r), str(c)] + [hx(val(rng, mode)) for _ in range(r * c)])


def dvec_line(rng, f, n, mode, bnd=None):
    vs = [hx(bound(rng, mode, bnd == "lb")) if bnd else hx(val(rng, mode)) for _ in range(n)]
    return " ".join(["dvec", f, str(n)] + vs)


def smat_line(rng, f, r, c, pat, mode):
    """valid CSC (sorted row indices); pat in nnz0 | full | emptycols | random | one"""
    jc, ir = [0], []
    for j in range(c):
        if pat == "nnz0" or r == 0:
            rows = []
        elif pat == "full":
            rows = list(range(r))
        elif pat == "emptycols":
            rows = [] if j % 2 == 0 else sorted(rng.sample(range(r), rng.randint(1, r)))
        elif pat == "one":
            rows = [rng.randrange(r)] if j == c - 1 else []
        else:
            rows = sorted(rng.sample(range(r), rng.randint(0, r)))
        ir += rows
        jc.append(len(ir))
    vs = [hx(val(rng, mode)) for _ in ir]
    return " ".join(["smat", f, str(r), str(c), str(len(ir))] + [str(x) for x in jc] + [str(x) for x in ir] + vs)


def model_lines(rng, kind, n, p, m, mode, pat="random"):
    """the eight field definitions, in field order; these lines are also the expected `load` output"""
    if kind == "dense":
        P, A, G = dmat_line(rng, "P", n, n, mode), dmat_line(rng, "A", p, n, mode), dmat_line(rng, "G", m, n, mode)
    else:
        pats = [pat] * 3 if pat != "mix" else [rng.choice(["nnz0", "full", "emptycols", "random", "one"]) for _ in range(3)]
        P, A, G = (smat_line(rng, "P", n, n, pats[0], mode), smat_line(rng, "A", p, n, pats[1], mode),
                   smat_line(rng, "G", m, n, pats[2], mode))
    return [P, dvec_line(rng, "c", n, mode), A, dvec_line(rng, "b", p, mode), G, dvec_line(rng, "h", m, mode),
            dvec_line(rng, "x_lb", n, mode, "lb"), dvec_line(rng, "x_ub", n, mode, "ub")]


def rt_case(name, kind, defs, meta, pre=(), unc=()):
    lines = list(pre) + list(defs) + [f"unc {f}" for f in unc] + [f"save {kind}", "layout", f"load {kind}"]
    meta = dict(meta, kind=kind, roundtrip=True, expect=list(defs))
    return {"name": name, "lines": lines, "meta": meta}


def gen_cases(chk, rng):
    cases = []
    k = [0]

    def nm(tag):
        k[0] += 1
        return f"{tag}{k[0]}"

    # (1) every shape class x value class x (sparse) pattern class
    for kind in ("dense", "sparse"):
        for n in (1, 2, 4):
            for p in (0, 1, 3):
                for m in (0, 1, 3):
                    meta = {"n": n, "p": p, "m": m, "scenario": "shape"}
                    if kind == "dense":
                        for mode in ("special", "bits", "nice"):
                            cases.append(rt_case(nm("sd"), kind, model_lines(rng, kind, n, p, m, mode), dict(meta, values=mode)))
                    else:
                        for pat in ("nnz0", "full", "emptycols", "random", "one"):
                            for mode in ("special", "zeros", "nice"):
                                defs = model_lines(rng, kind, n, p, m, mode, pat)
                                cases.append(rt_case(nm("ss"), kind, defs, dict(meta, values=mode, pattern=pat)))
                        # Eigen uncompressed storage of the same logical matrices
                        defs = model_lines(rng, kind, n, p, m, "mixed", "random")
                        cases.append(rt_case(nm("su"), kind, defs, dict(meta, values="mixed", pattern="random", unc=True),
                                             unc=("P", "A", "G")))
    # (2) every special value in every position class
    for sname, bitsv in SPECIAL.items():
        for kind in ("dense", "sparse"):
            for (n, p, m) in ((2, 1, 1), (1, 0, 3)):
                defs = model_lines(rng, kind, n, p, m, bitsv, "full")
                cases.append(rt_case(nm("sv"), kind, defs, {"n": n, "p": p, "m": m, "scenario": "special:" + sname, "values": sname}))
    # (3) random models
    nrand = 3000 if chk.thorough() else 300
    for _ in range(nrand):
        kind = rng.choice(["dense", "sparse"])
        n, p, m = rng.randint(1, 7), rng.choice([0, 0, 1, 2, 3, 5]), rng.choice([0, 0, 1, 2, 4, 6])
        mode = rng.choice(["mixed", "mixed", "special", "bits", "nice"])
        defs = model_lines(rng, kind, n, p, m, mode, "mix")
        unc = tuple(f for f in ("P", "A", "G") if kind == "sparse" and rng.random() < 0.2)
        cases.append(rt_case(nm("r"), kind, defs, {"n": n, "p": p, "m": m, "scenario": "random", "values": mode, "unc": bool(unc)}, unc=unc))
    # (4) saving over an existing file (other shape, possibly the other kind): write replaces
    nover = 300 if chk.thorough() else 40
    for _ in range(nover):
        k1, k2 = rng.choice(["dense", "sparse"]), rng.choice(["dense", "sparse"])
        d1 = model_lines(rng, k1, rng.randint(1, 4), rng.choice([0, 1, 3]), rng.choice([0, 1, 3]), "mixed", "mix")
        n, p, m = rng.randint(1, 4), rng.choice([0, 1, 3]), rng.choice([0, 1, 3])
        d2 = model_lines(rng, k2, n, p, m, "mixed", "mix")
        cases.append(rt_case(nm("o"), k2, d2, {"n": n, "p": p, "m": m, "scenario": f"overwrite:{k1}->{k2}", "values": "mixed"},
                             pre=d1 + [f"save {k1}"]))
    # (5) the reader's error branches (correspondence only): missing variable, rank-3 variable, fresh file
    nneg = 200 if chk.thorough() else 40
    for _ in range(nneg):
        kind = rng.choice(["dense", "sparse"])
        n, p, m = rng.randint(1, 3), rng.choice([0, 1, 2]), rng.choice([0, 1, 2])
        defs = model_lines(rng, kind, n, p, m, "mixed", "mix")
        ops = []
        for f in rng.sample(FIELDS, rng.randint(1, 3)):
            ops.append(rng.choice(["del", "raw3"]) + " " + f)
        cases.append({"name": nm("e"), "lines": defs + [f"save {kind}"] + ops + ["layout", f"load {kind}"],
                      "meta": {"kind": kind, "n": n, "p": p, "m": m, "scenario": "reader-error-branch", "roundtrip": False}})
    for kind in ("dense", "sparse"):
        cases.append({"name": nm("e"), "lines": [f"load {kind}", "layout"],
                      "meta": {"kind": kind, "n": 0, "p": 0, "m": 0, "scenario": "fresh-file", "roundtrip": False}})
    return cases


# ----------------------------------------------------------------------------- running

def run_text(cmd, text, cwd, timeout):
    try:
        p = subprocess.run(cmd, input=text, stdout=subprocess.PIPE, stderr=subprocess.PIPE, text=True, timeout=timeout, cwd=cwd)
        return p.returncode, p.stdout, p.stderr
    except subprocess.TimeoutExpired as e:
        out = e.stdout.decode() if isinstance(e.stdout, bytes) else (e.stdout or "")
        return -9, out, "timeout"


def run_chunk_tolerant(cmd, chunk, cwd, timeout, max_restarts=30):
    """Run the cases of a chunk in one process; if the process dies, the last case it started is recorded as the
    crasher (its partial output is kept, followed by a `crashed rc=..` line) and the rest is run in a new process."""
    outs, crashes = {}, []
    rest = list(chunk)
    restarts = 0
    while rest:
        text = "".join(case_text(c) for c in rest)
        rc, out, err = run_text(cmd, text, cwd, timeout)
        got, order = split_cases(out)
        if rc == 0:
            outs.update(got)
            break
        names = [c["name"] for c in rest]
        if not order:
            crashes.append({"case": names[0], "rc": rc, "stderr": err[-1500:]})
            outs[names[0]] = [f"crashed rc={rc}"]
            rest = rest[1:]
        else:
            last = order[-1]
            for nme in order[:-1]:
                outs[nme] = got[nme]
            outs[last] = got[last] + [f"crashed rc={rc}"]
            crashes.append({"case": last, "rc": rc, "stderr": err[-1500:]})
            rest = rest[names.index(last) + 1:]
        restarts += 1
        if restarts > max_restarts:
            crashes.append({"case": "<gave up after %d restarts; %d cases not run>" % (restarts, len(rest)), "rc": rc, "stderr": ""})
            break
    return outs, crashes


def run_all(cmd, cases, cwd=None, nproc=12, timeout=900):
    if not cases:
        return {}, []
    nch = min(nproc, len(cases))
    chunks = [cases[i::nch] for i in range(nch)]
    outs, crashes = {}, []
    with ThreadPoolExecutor(max_workers=nch) as ex:
        for o, cr in ex.map(lambda ch: run_chunk_tolerant(cmd, ch, cwd, timeout), chunks):
            outs.update(o)
            crashes += cr
    return outs, crashes


LEAN_CMD = ["lake", "env", "lean", "--run", "IODriver.lean"]


# ----------------------------------------------------------------------------- source-text tie of the field names

def source_field_names():
    """(names per function, problems) from the CURRENT io_utils.hpp: the literal sequences
    file.write_mat("NAME", model.MEMBER) / file.read_mat("NAME", VAR) and the constructor call."""
    path = os.path.join(REPO, "include", "piqp", "utils", "io_utils.hpp")
    src = open(path).read()
    src = re.sub(r"//[^\n]*", "", src)
    res, problems = {}, []
    for fn in ("save_dense_model", "save_sparse_model", "load_dense_model", "load_sparse_model"):
        m = re.search(r"\b" + fn + r"\s*\(", src)
        if not m:
            problems.append(f"{fn}: not found")
            continue
        i = src.index("{", m.end())
        depth, j = 0, i
        while True:
            if src[j] == "{":
                depth += 1
            elif src[j] == "}":
                depth -= 1
                if depth == 0:
                    break
            j += 1
        body = src[i:j]
        if fn.startswith("save"):
            pairs = re.findall(r"write_mat\s*\(\s*\"([^\"]*)\"\s*,\s*model\.(\w+)\s*\)", body)
            if len(pairs) != len(re.findall(r"write_mat\s*\(", body)):
                problems.append(f"{fn}: unparsed write_mat call")
            if [mem for _, mem in pairs] != FIELDS:
                problems.append(f"{fn}: members written in order {[mem for _, mem in pairs]} (model assumes {FIELDS})")
            res[fn] = [nme for nme, _ in pairs]
        else:
            pairs = re.findall(r"read_mat\s*\(\s*\"([^\"]*)\"\s*,\s*(\w+)\s*\)", body)
            if len(pairs) != len(re.findall(r"read_mat\s*\(", body)):
                problems.append(f"{fn}: unparsed read_mat call")
            ctor = re.search(r"\bmodel\s*\(([^)]*)\)", body)
            args = [a.strip() for a in ctor.group(1).split(",")] if ctor else []
            if [v for _, v in pairs] != FIELDS or args != FIELDS:
                problems.append(f"{fn}: targets read in order {[v for _, v in pairs]}, constructor arguments {args} (model assumes {FIELDS})")
            res[fn] = [nme for nme, _ in pairs]
    return res, problems


# ----------------------------------------------------------------------------- the check

def field_tag(line):
    t = line.split()
    if t[0] == "dmat":
        return "0rows" if t[2] == "0" else ""
    if t[0] == "dvec":
        return "empty" if t[2] == "0" else ""
    if t[0] == "smat":
        r, c, nnz = int(t[2]), int(t[3]), int(t[4])
        jc = [int(x) for x in t[5:5 + c + 1]]
        if r == 0:
            return "0rows"
        if nnz == 0:
            return "nnz0"
        if any(jc[j] == jc[j + 1] for j in range(c)):
            return "emptycol"
    return ""


def impl_property(case, out):
    """C20 evaluated directly on the implementation's output of a round-trip case.
    -> list of (signature suffix, message)"""
    meta = case["meta"]
    kind = meta["kind"]
    if out is None:
        return [("crash", "no output for this case (harness died before it)")]
    if any(l.startswith("crashed") for l in out):
        return [("crash", "the real save/load aborted or crashed on this model: " + [l for l in out if l.startswith("crashed")][0])]
    try:
        i = max(k for k, l in enumerate(out) if l == f"loaded {kind}")
    except ValueError:
        return [("noload", "no `loaded` block in the harness output")]
    rest = out[i + 1:]
    probs = []
    couts = [l for l in rest if l.startswith("cout ")] + [l for l in out[:i] if l.startswith("cout ")]
    if couts:
        probs.append(("diagnostic", "save/load of a well-formed model printed a diagnostic: " + couts[0]))
    loaded = [l for l in rest if not l.startswith("cout ")][:8]
    for exp, got in zip(meta["expect"], loaded + ["<missing>"] * 8):
        if exp != got:
            f = exp.split()[1]
            tag = field_tag(exp)
            probs.append((f + (":" + tag if tag else ""), f"field {f}: loaded != saved\n  saved : {exp}\n  loaded: {got}"))
    return probs


def run(replay=None):
    chk = Check(PID, "proof")
    rng = random.Random(chk.seed * 104729 + 20)
    proof_ok = chk.proof_stage(leancheck=chk.thorough())
    okb, exe, log = build_cpp("hio", [os.path.join(HARNESS, "hio.cpp")], flags=["-O1"], libs=["-lmatio"])
    if not okb:
        chk.violation("build:hio", "harness hio does not compile against the current /repo tree:\n" + log[-4000:], True)
        return chk.finish()
    tmpdir = os.path.join(BUILD, "hio_tmp", str(os.getpid()))   # per run: concurrent checks do not share files
    os.makedirs(tmpdir, exist_ok=True)

    if replay:
        txt = open(replay).read()
        mm = re.search(r"^input:\n(case .*?)\n(?:implementation output|$)", txt, re.S | re.M)
        cases = []
        if mm:
            ls = mm.group(1).splitlines()
            kind = "sparse" if any(l.startswith("smat") for l in ls) else "dense"
            defs = [l for l in ls if l.split()[0] in ("dmat", "dvec", "smat")][-8:]
            rt = not any(l.split()[0] in ("del", "raw3") for l in ls) and len(defs) == 8
            cases = [{"name": ls[0].split()[1], "lines": ls[1:],
                      "meta": {"kind": kind, "n": 0, "p": 1, "m": 1, "scenario": "replay", "roundtrip": rt, "expect": defs}}]
        chk.log(f"replay {replay}: {len(cases)} case(s)")
    else:
        cases = gen_cases(chk, rng)

    impl, crashes = run_all([exe, tmpdir], cases, nproc=12)
    model, mcrashes = run_all(LEAN_CMD, cases + [{"name": "__names", "lines": ["names"], "meta": {}}], cwd=LEAN, nproc=6)
    chk.cov["evaluations"] = len(cases)
    chk.cov["traces_validated_against_impl"] = sum(1 for c in cases if impl.get(c["name"]) is not None and model.get(c["name"]) is not None)
    chk.cov["harness_crashes"] = len(crashes)
    if mcrashes:
        chk.violation("driver:crash", "lean IODriver crashed or timed out: " + repr(mcrashes[:2]), True)
    for outs, who in ((impl, "harness"), (model, "driver")):
        nerr = sum(1 for c in cases for l in (outs.get(c["name"]) or []) if l.startswith("error"))
        if nerr:
            chk.violation(f"{who}:error-lines", f"{nerr} 'error' lines in the {who} output (generator/protocol inconsistency)", True)

    byname = {c["name"]: c for c in cases}
    nviol = 0
    # (a) the property on the implementation
    rts = [c for c in cases if c["meta"].get("roundtrip")]
    ok_rt = 0
    for c in rts:
        probs = impl_property(c, impl.get(c["name"]))
        if not probs:
            ok_rt += 1
            continue
        for suffix, msg in probs[:2]:
            nviol += 1
            if nviol <= 8:
                chk.violation(f"impl:io:{c['meta']['kind']}:{suffix}",
                              f"{msg}\ncase {c['name']} meta={ {k: v for k, v in c['meta'].items() if k != 'expect'} }\n\ninput:\n"
                              + case_text(c) + "\nimplementation output:\n" + "\n".join(impl.get(c["name"]) or []) +
                              "\n\nmodel output:\n" + "\n".join(model.get(c["name"]) or []))
    chk.cov["roundtrips_bitwise_identical"] = ok_rt
    chk.cov["roundtrips"] = len(rts)
    # (b) model <-> implementation
    bad = compare(cases, impl, model)
    chk.cov["model_impl_disagreements"] = len(bad)
    for b in bad[:6]:
        c = byname[b["name"]]
        t = (b["impl"].split() + ["?", "?"])
        where = {"var": "layout:" + t[1], "dmat": "load:" + t[1], "dvec": "load:" + t[1], "smat": "load:" + t[1],
                 "cout": "cout", "layout": "layout:count", "crashed": "crash"}.get(t[0], t[0])
        chk.violation(f"corr:io:{c['meta']['kind']}:{where}",
                      "model/implementation disagreement (real libmatio file vs abstract store, compared as strings)\n"
                      f"case {b['name']} meta={ {k: v for k, v in c['meta'].items() if k != 'expect'} } output line {b['line']}\n"
                      f"impl : {b['impl']}\nmodel: {b['model']}\n\ninput:\n" + case_text(c) +
                      "\nimplementation output:\n" + "\n".join(impl.get(b["name"]) or []) +
                      "\n\nmodel output:\n" + "\n".join(model.get(b["name"]) or []))
    # (c) literal name sequences: source text vs model
    try:
        src_names, problems = source_field_names()
    except (OSError, ValueError) as e:
        src_names, problems = {}, [f"io_utils.hpp could not be parsed: {e}"]
    mod_names = {}
    for l in model.get("__names") or []:
        t = l.split()
        if t and t[0] == "names":
            mod_names[t[1] + "_model"] = t[2:]
    chk.cov["field_names_source"] = src_names
    chk.cov["field_names_model"] = mod_names
    if problems:
        chk.notes.append("source-text tie of the field names not conclusive: " + "; ".join(problems))
    for fn, names in src_names.items():
        if not any(p.startswith(fn) for p in problems) and mod_names and mod_names.get(fn) != names:
            chk.violation(f"corr:io:names:{fn}",
                          f"io_utils.hpp {fn} uses the names {names} but the Lean model (PiqpModel/IO.lean) has {mod_names.get(fn)}; "
                          "the theorems are about a different file layout than the code's", True)

    # coverage
    def nontrivial(c):
        if c["meta"].get("p", 0) > 0 or c["meta"].get("m", 0) > 0:
            return True
        return any(len(t) == 16 and is_special(int(t, 16)) for l in c["lines"] for t in l.split()[3:] if re.fullmatch(r"[0-9a-f]{16}", t))
    chk.cov["distinct_nontrivial"] = len({"\n".join(c["lines"]) for c in cases if nontrivial(c)})
    shapes = sorted({(c["meta"]["kind"], c["meta"]["n"], c["meta"]["p"], c["meta"]["m"]) for c in cases if c["meta"].get("roundtrip")})
    chk.cov["shape_classes"] = len(shapes)
    chk.cov["shape_classes_exhaustive_grid"] = "kind in {dense,sparse} x n in {1,2,4} x p in {0,1,3} x m in {0,1,3}: " + \
        str(sum(1 for s in shapes if s[1] in (1, 2, 4) and s[2] in (0, 1, 3) and s[3] in (0, 1, 3))) + " of 54 present"
    scen = {}
    for c in cases:
        s = c["meta"].get("scenario", "?").split(":")[0]
        scen[s] = scen.get(s, 0) + 1
    chk.cov["scenarios"] = scen
    chk.cov["special_values"] = sorted(SPECIAL)
    chk.cov["sparse_pattern_classes"] = ["nnz0", "full", "emptycols", "random", "one", "uncompressed-storage"]
    chk.cov["rule"] = ("cases = (shape grid x value class x sparsity pattern) + every special bit pattern in every field + random models "
                       "(n<=7, p<=5, m<=6) + save-over-existing-file + reader error branches (del/raw3/fresh file); each case: define 8 fields, "
                       "real save, raw-matio layout scan, real load. distinct = distinct case text; non-trivial = p>0 or m>0 or some "
                       "value with exponent 0 or 0x7ff (signed zero, denormal, inf, NaN)")
    for c in (cases[:1] + [c for c in cases if c["meta"].get("kind") == "sparse"][:1] + [c for c in cases if not c["meta"].get("roundtrip")][:1]):
        chk.sample({"case": c["name"], "meta": {k: v for k, v in c["meta"].items() if k != "expect"}, "lines": c["lines"],
                    "impl_output": (impl.get(c["name"]) or [])[:12]})
    chk.cov["trusted_base"] = chk.cov["trusted_base"][:3] + [
        "libmatio 1.5.23 as a name -> variable store (MAT5 file on disk): not proved, compared bit for bit on every case "
        "(loaded model, std::cout diagnostics, raw-matio scan of the file) with the model's abstract store",
        "harness/hio.cpp (calls the real save_*/load_* templates at T=double, I=int; g++ 12, Eigen 3.4, assertions enabled)",
    ]
    if not proof_ok and not chk.violations:
        chk.violation("proof:C20", "Lean proof obligations of C20 no longer check:\n" + getattr(chk, "proof_log", "")[-4000:], True)
    elif not proof_ok:
        chk.notes.append("proof stage failed: " + getattr(chk, "proof_log", "")[-1500:])
    chk.assumptions = [
        "libmatio behaves as a finite map name -> variable (Mat_VarDelete+Mat_VarWrite replaces, Mat_VarRead returns what was written); "
        "validated on this run's cases only",
        "doubles are opaque 64-bit tokens: copies and cast<double>() of a double preserve the bit pattern (observed, incl. signalling NaN)",
        "an Eigen sparse matrix is identified with the CSC content its InnerIterator enumerates (uncompressed storage is exercised by the harness only)",
        "environment failures (file cannot be created/opened, Mat_VarWrite failing) are outside the model",
        "T = double, I = int instantiation; debug assertions of Eigen enabled in the harness",
    ]
    try:
        for f in os.listdir(tmpdir):
            if f.startswith("hio_") and f.endswith(".mat"):
                os.unlink(os.path.join(tmpdir, f))
        os.rmdir(tmpdir)
    except OSError:
        pass
    return chk.finish()
