"""C11 — update() and solve() do not allocate.

Observation half: harness/halloc.cpp interposes every allocation entry point of the process (malloc family +
all operator new/delete variants) and arms the counters only inside Solver::update(...) / Solver::solve().
This driver generates problems and call histories, runs them through the five back ends x {Ruiz, identity} and
requires all counters of every armed call to be zero.  (The Lean side — a shape ledger — is registered in
PiqpProofs/Properties/C11.lean; this file does not depend on its content.)"""
import math
import os
import random
import re
import resource
import subprocess
from concurrent.futures import ThreadPoolExecutor

from ..common import Check, HARNESS, LEAN, build_cpp, sh

PID = "C11"
STACK_LIMIT = 16 * 1024 * 1024          # EIGEN_STACK_ALLOCATION_LIMIT the property lets us configure
FLAGS = ["-O2", "-g1", "-DNDEBUG", "-no-pie", f"-DEIGEN_STACK_ALLOCATION_LIMIT={STACK_LIMIT}"]
BE_NAME = {0: "dense", 1: "sparse/KKT_FULL", 2: "sparse/KKT_EQ_ELIMINATED", 3: "sparse/KKT_INEQ_ELIMINATED",
           4: "sparse/KKT_ALL_ELIMINATED"}
PRE_NAME = {0: "ruiz", 1: "identity"}
ARGS = ["P", "c", "A", "b", "G", "h", "lb", "ub"]
COUNTERS = ["malloc", "free", "calloc", "realloc", "memalign", "new", "delete"]
INF = float("inf")


# ----------------------------------------------------------------------------- data generation

def fnum(x):
    if x != x:
        return "nan"
    if x == INF:
        return "inf"
    if x == -INF:
        return "-inf"
    return repr(float(x))


def rv(rng, lo=-2.0, hi=2.0):
    return round(rng.uniform(lo, hi), 3)


class Csc:
    """CSC matrix: cols = list (per column) of sorted [(row, value)]"""

    def __init__(self, r, c, cols):
        self.r, self.c, self.cols = r, c, cols

    def nnz(self):
        return sum(len(x) for x in self.cols)

    def line(self, name):
        ptr, idx, val = [0], [], []
        for col in self.cols:
            for i, v in col:
                idx.append(str(i))
                val.append(fnum(v))
            ptr.append(len(idx))
        return f"smat {name} {self.r} {self.c} {len(idx)} " + " ".join(map(str, ptr)) + (" " if idx else "") + \
            " ".join(idx) + (" " if idx else "") + " ".join(val)

    def mulvec(self, x):
        y = [0.0] * self.r
        for j, col in enumerate(self.cols):
            xj = x[j]
            for i, v in col:
                y[i] += v * xj
        return y

    def revalue(self, f):
        return Csc(self.r, self.c, [[(i, f(i, j, v)) for i, v in col] for j, col in enumerate(self.cols)])


def rand_pattern(rng, r, c, per_col, full=False):
    cols = []
    for _ in range(c):
        if r == 0:
            cols.append([])
            continue
        if full:
            rows = range(r)
        else:
            k = min(r, max(0, int(rng.expovariate(1.0 / per_col) + 0.5))) if per_col > 0 else 0
            rows = sorted(rng.sample(range(r), k))
        cols.append([(i, rv(rng)) for i in rows])
    return Csc(r, c, cols)


def ensure_row_coverage(rng, m):
    """every row gets at least one entry (an all-zero constraint row is legal but uninteresting)"""
    seen = {i for col in m.cols for i, _ in col}
    for i in range(m.r):
        if i not in seen and m.c:
            j = rng.randrange(m.c)
            m.cols[j] = sorted(m.cols[j] + [(i, rv(rng) or 1.0)])
    return m


def make_P(rng, n, style, upper):
    """P = M'M + diag(d) (positive semidefinite), symmetric; style: 'sparse' | 'dense' | 'rank1' | 'diag' | 'zero'"""
    ent = {}
    if style == "dense":
        k = n
        M = [[rv(rng) for _ in range(n)] for _ in range(k)]
        for i in range(n):
            for j in range(i, n):
                s = sum(M[t][i] * M[t][j] for t in range(k))
                ent[(i, j)] = s
                ent[(j, i)] = s
    elif style == "rank1":
        v = [rv(rng) for _ in range(n)]
        for i in range(n):
            for j in range(n):
                ent[(i, j)] = v[i] * v[j]
    elif style == "sparse":
        for _ in range(max(1, n // 2)):
            k = rng.randint(1, 3)
            idx = rng.sample(range(n), min(k, n))
            w = [rv(rng) for _ in idx]
            for a, wa in zip(idx, w):
                for b, wb in zip(idx, w):
                    ent[(a, b)] = ent.get((a, b), 0.0) + wa * wb
    for i in range(n):
        d = 0.0 if style == "zero" else round(rng.uniform(0.1, 2.0), 3)
        if style != "zero" and rng.random() < 0.1:
            d = 0.0          # semidefinite directions, entry stays in the pattern
        ent[(i, i)] = ent.get((i, i), 0.0) + d
    cols = [[] for _ in range(n)]
    for (i, j), v in ent.items():
        if upper and i > j:
            continue
        cols[j].append((i, v))
    for col in cols:
        col.sort()
    return Csc(n, n, cols)


def bounds(rng, n, x0, frac_lb, frac_ub, infeasible=False):
    lb, ub = [], []
    for i in range(n):
        lb.append(x0[i] - round(rng.uniform(0.0, 2.0), 3) if rng.random() < frac_lb else rng.choice([-INF, -1e30, -2e30, -INF]))
        ub.append(x0[i] + round(rng.uniform(0.0, 2.0), 3) if rng.random() < frac_ub else rng.choice([INF, 1e30, 3e30, INF]))
    if infeasible and n:
        i = rng.randrange(n)
        lb[i], ub[i] = 1.0, -1.0
    return lb, ub


class Problem:
    """current caller-side data of one history; emits protocol lines"""

    def __init__(self, rng, n, p, m, pstyle, structure, upper):
        self.rng, self.n, self.p, self.m = rng, n, p, m
        self.P = make_P(rng, n, pstyle, upper)
        full = structure == "dense"
        per = {"sparse": 1.5, "dense": 0, "band": 2.5}[structure]
        self.A = ensure_row_coverage(rng, rand_pattern(rng, p, n, per * p / max(n, 1) + 0.4, full)) if p else None
        self.G = ensure_row_coverage(rng, rand_pattern(rng, m, n, per * m / max(n, 1) + 0.4, full)) if m else None
        self.x0 = [rv(rng) for _ in range(n)]
        self.c = [rv(rng) for _ in range(n)]
        self.b = self.A.mulvec(self.x0) if p else []
        self.h = [v + round(rng.uniform(0.0, 1.0), 3) for v in self.G.mulvec(self.x0)] if m else []
        self.lb, self.ub = bounds(rng, n, self.x0, rng.choice([0.0, 0.3, 1.0]), rng.choice([0.0, 0.3, 1.0]))
        self.nfin = (self.count_fin(self.lb, -1), self.count_fin(self.ub, 1))

    @staticmethod
    def count_fin(v, sgn):
        return sum(1 for x in v if (x > -1e30 if sgn < 0 else x < 1e30))

    def lines_for(self, names):
        out = []
        for a in names:
            if a in "PAG":
                out.append(getattr(self, a).line(a))
            else:
                v = getattr(self, a)
                out.append(f"vec {a} {len(v)} " + " ".join(fnum(x) for x in v))
        return out

    def perturb(self, names, mode="feasible"):
        """new values (same sparsity pattern) for the named arguments"""
        rng = self.rng
        for a in names:
            if a == "P":
                s = round(rng.uniform(0.5, 2.0), 3)
                e = round(rng.uniform(0.0, 0.5), 3)
                self.P = self.P.revalue(lambda i, j, v: s * v + (e if i == j else 0.0))
            elif a == "A":
                self.A = self.A.revalue(lambda i, j, v: rv(rng))
            elif a == "G":
                self.G = self.G.revalue(lambda i, j, v: rv(rng))
            elif a == "c":
                self.c = [rv(rng) for _ in range(self.n)]
            elif a == "b":
                self.b = self.A.mulvec(self.x0) if mode == "feasible" else [rv(rng) for _ in range(self.p)]
            elif a == "h":
                base = self.G.mulvec(self.x0)
                self.h = [v + round(rng.uniform(0.0, 1.0), 3) for v in base]
                if mode == "hinf" and self.m:
                    for i in rng.sample(range(self.m), max(1, self.m // 3)):
                        self.h[i] = rng.choice([INF, 1e31, -1e31])       # rows switched off by disable_inf_constraints
            elif a in ("lb", "ub"):
                fl = rng.choice([0.0, 0.2, 0.5, 1.0])
                lb, ub = bounds(rng, self.n, self.x0, fl, fl, infeasible=(mode == "boxinf"))
                if a == "lb":
                    self.lb = lb
                else:
                    self.ub = ub


def setup_names(pr, rng, force_box=None):
    names = ["P", "c"]
    if pr.p:
        names += ["A", "b"]
    if pr.m:
        names += ["G", "h"]
    box = force_box if force_box is not None else rng.choice([(0, 0), (1, 0), (0, 1), (1, 1), (1, 1)])
    if box[0]:
        names.append("lb")
    if box[1]:
        names.append("ub")
    return names


def allowed_update_args(pr):
    """arguments update() accepts for this problem (A/b need p>0 in the sparse pattern check; passing an empty
    matrix is legal too but carries no information)"""
    return [a for a in ARGS if not ((a in "Ab" and pr.p == 0) or (a in "Gh" and pr.m == 0))]


SETTING_VARIANTS = [
    [],
    [("preconditioner_scale_cost", 1)],
    [("preconditioner_iter", 0)],
    [("iterative_refinement_always_enabled", 1)],
    [("compute_timings", 1)],
    [("check_duality_gap", 0), ("eps_abs", 1e-5), ("eps_rel", 1e-6)],
    [("max_iter", 1)],
    [("max_iter", 2)],
    [("max_iter", 3)],
    [("reg_finetune_primal_update_threshold", 0), ("reg_finetune_dual_update_threshold", 0)],
    [("rho_init", 1e-2), ("delta_init", 1e-1)],
    [("max_factor_retires", 1), ("iterative_refinement_max_iter", 0)],
]


def new_case(name, be, pre, settings, meta):
    return {"name": name, "be": be, "lines": [f"pre {pre}"] + [f"set {k} {fnum(v)}" for k, v in settings],
            "meta": dict(meta, be=be, pre=pre, settings=[f"{k}={v}" for k, v in settings]), "ops": []}


def op_setup(case, pr, names):
    case["lines"] += pr.lines_for(names) + ["setup " + " ".join(names)]
    case["ops"].append(("setup", tuple(names)))
    # number of finite lower / upper bounds the solver holds
    case["fin"] = (pr.count_fin(pr.lb, -1) if "lb" in names else 0, pr.count_fin(pr.ub, 1) if "ub" in names else 0)


def op_update(case, pr, names, reuse, mode="feasible"):
    before = case.get("fin", (0, 0))
    pr.perturb(names, mode)
    after = (pr.count_fin(pr.lb, -1) if "lb" in names else before[0], pr.count_fin(pr.ub, 1) if "ub" in names else before[1])
    case["fin"] = after
    case["lines"] += pr.lines_for(names) + [f"update {int(reuse)} " + " ".join(names)]
    case["ops"].append(("update", tuple(names), int(reuse), before, after))


def op_solve(case):
    case["lines"].append("solve")
    case["ops"].append(("solve",))


def op_fail(case, line):
    case["lines"].append(line)
    case["ops"].append(("fail", line))


def dims(rng, size):
    if size == "tiny":
        n = rng.randint(2, 8)
    elif size == "small":
        n = rng.randint(9, 40)
    elif size == "mid":
        n = rng.randint(41, 150)
    else:
        n = rng.randint(151, 400)
    p = rng.choice([0, 1, max(1, n // 4), max(1, n // 2)])
    m = rng.choice([0, 1, max(1, n // 3), n, n + n // 4])
    return n, min(p, n), m


def gen_mask_enum(rng, be, pre, idx):
    """all 2^8 argument subsets x both reuse values, each followed by a solve, on one tiny problem"""
    n = rng.randint(3, 6)
    pr = Problem(rng, n, rng.randint(1, 2), rng.randint(1, 3), rng.choice(["sparse", "dense"]), rng.choice(["sparse", "dense"]), rng.random() < 0.5)
    case = new_case(f"enum_{be}_{pre}_{idx}", be, pre, [], {"kind": "mask-enum", "n": pr.n, "p": pr.p, "m": pr.m})
    op_setup(case, pr, setup_names(pr, rng, force_box=rng.choice([(1, 1), (0, 0), (1, 0)])))
    op_solve(case)
    combos = [(mk, ru) for mk in range(256) for ru in (0, 1)]
    rng.shuffle(combos)
    for mk, ru in combos:
        names = [a for k, a in enumerate(ARGS) if mk >> k & 1]
        op_update(case, pr, names, ru)
        op_solve(case)
    return case


def gen_random(rng, be, pre, idx, size):
    n, p, m = dims(rng, size)
    big = size in ("mid", "large")
    pstyle = rng.choice(["sparse", "rank1", "diag"] if big else ["sparse", "dense", "rank1", "diag"])
    if be == 0 and size == "large" and rng.random() < 0.5:
        pstyle = "rank1"                                   # a fully populated P
    structure = rng.choice(["sparse", "band"]) if (big and not (be == 0 and n <= 200 and rng.random() < 0.3)) else rng.choice(["sparse", "dense"])
    if structure == "dense" and n > 200:
        structure = "band"
    pr = Problem(rng, n, p, m, pstyle, structure, rng.random() < 0.5)
    st = rng.choice(SETTING_VARIANTS)
    case = new_case(f"rand_{be}_{pre}_{idx}", be, pre, st,
                    {"kind": "random:" + size, "n": n, "p": p, "m": m, "P": pstyle, "structure": structure,
                     "nnz": [pr.P.nnz(), pr.A.nnz() if pr.A else 0, pr.G.nnz() if pr.G else 0]})
    op_setup(case, pr, setup_names(pr, rng))
    if rng.random() < 0.8:
        op_solve(case)
    allowed = allowed_update_args(pr)
    cycles = rng.randint(2, 5) if not big else rng.randint(2, 3)
    for _ in range(cycles):
        for _ in range(rng.choice([1, 1, 1, 2, 3])):
            r = rng.random()
            if r < 0.25:
                names = [a for a in allowed if a in ("lb", "ub") and rng.random() < 0.8] or ["lb"]
            elif r < 0.4:
                names = list(allowed)
            else:
                names = [a for a in allowed if rng.random() < 0.35]
            mode = rng.choice(["feasible"] * 6 + ["hinf", "boxinf", "random"])
            op_update(case, pr, names, rng.random() < 0.5, mode)
        for _ in range(rng.choice([1, 1, 1, 2])):
            op_solve(case)
    return case


def gen_outcome(rng, be, pre, idx, what):
    """histories aimed at the non-SOLVED exits"""
    n = rng.randint(3, 30)
    p = rng.choice([0, 1, 2])
    m = rng.choice([1, 2, n])
    st = []
    if what == "dual_infeasible":
        pr = Problem(rng, n, 0, 0, "zero", "sparse", False)
        pr.lb = [-INF] * n
        pr.ub = [INF] * n
        pr.c = [rv(rng) or 1.0 for _ in range(n)]
        names = ["P", "c"] + (["lb", "ub"] if rng.random() < 0.5 else [])
    else:
        pr = Problem(rng, n, p, m, rng.choice(["sparse", "diag"]), rng.choice(["sparse", "dense"]), rng.random() < 0.5)
        names = setup_names(pr, rng, force_box=(1, 1))
    if what == "primal_infeasible":
        i = rng.randrange(n)
        pr.lb[i], pr.ub[i] = 2.0, -2.0
    if what == "max_iter":
        st = [("max_iter", rng.randint(1, 4))]
    if what == "nan":
        pr.c[rng.randrange(n)] = float("nan")
    if what == "huge":
        pr.c = [v * 1e200 for v in pr.c]
        pr.P = pr.P.revalue(lambda i, j, v: v * 1e150)
    if what == "tiny_reg":
        st = [("rho_init", 1e-300), ("delta_init", 1e-300), ("reg_lower_limit", 1e-300), ("max_factor_retires", 2)]
        pr.P = pr.P.revalue(lambda i, j, v: 0.0)
    case = new_case(f"out_{what}_{be}_{pre}_{idx}", be, pre, st, {"kind": "outcome:" + what, "n": pr.n, "p": pr.p, "m": pr.m})
    op_setup(case, pr, names)
    op_solve(case)
    op_solve(case)
    allowed = allowed_update_args(pr)
    # back to a regular problem through update, then into the special regime again
    op_update(case, pr, [a for a in allowed if a not in "PAG"], rng.random() < 0.5)
    op_solve(case)
    if what == "primal_infeasible":
        op_update(case, pr, ["lb", "ub"], rng.random() < 0.5, "boxinf")
        op_solve(case)
    elif what == "nan":
        pr.perturb(["c"])
        pr.c[0] = float("nan")
        case["lines"] += pr.lines_for(["c"]) + ["update 1 c"]
        case["ops"].append(("update", ("c",), 1, (0, 0), (0, 0)))
        op_solve(case)
    else:
        op_update(case, pr, list(allowed), False)
        op_solve(case)
    return case


def gen_fault(rng, be, pre, idx, what):
    """factorisation failures injected through the PIQP_VERIF hook of regularize_and_factorize: retry with iterative
    refinement, regularisation bumps, NUMERICS exits — at the initial factorisation and inside the main loop"""
    n, p, m = dims(rng, rng.choice(["tiny", "small", "small", "mid"]))
    pr = Problem(rng, n, p, m, rng.choice(["sparse", "diag", "rank1"]), rng.choice(["sparse", "band"]), rng.random() < 0.5)
    st = rng.choice([[], [("max_factor_retires", rng.randint(1, 4))], [("iterative_refinement_max_iter", rng.choice([0, 1, 3]))],
                     [("iterative_refinement_eps_abs", 1e-30), ("iterative_refinement_eps_rel", 0.0),
                      ("iterative_refinement_min_improvement_rate", 1.0)]])
    case = new_case(f"fault_{what}_{be}_{pre}_{idx}", be, pre, st, {"kind": "fault:" + what, "n": n, "p": p, "m": m})
    op_setup(case, pr, setup_names(pr, rng))

    def fail_line():
        if what == "first":
            return "fail at 0"
        if what == "burst":
            return "fail at " + " ".join(str(i) for i in range(rng.randint(2, 6)))
        if what == "all":
            return "fail from 0"
        if what == "late":
            return f"fail from {rng.randint(1, 6)}"
        return "fail at " + " ".join(str(i) for i in sorted(rng.sample(range(1, 12), rng.randint(1, 5))))
    allowed = allowed_update_args(pr)
    for _ in range(rng.randint(2, 3)):
        op_fail(case, fail_line())
        op_solve(case)
        if rng.random() < 0.5:
            op_fail(case, "fail")
            op_solve(case)          # refinement stays enabled from the failed run on
        op_update(case, pr, [a for a in allowed if rng.random() < 0.4], rng.random() < 0.5)
    op_fail(case, "fail")
    op_solve(case)
    return case


FAULTS = ["first", "burst", "all", "late", "mid"]
OUTCOMES = ["primal_infeasible", "dual_infeasible", "max_iter", "nan", "huge", "tiny_reg"]


def gen_cases(chk, rng):
    cases = []
    mult = 12 if chk.thorough() else 1
    for be in range(5):
        for pre in (0, 1):
            for k in range(mult):
                cases.append(gen_mask_enum(rng, be, pre, k))
            sizes = (["tiny"] * 5 + ["small"] * 5 + ["mid"] * 3 + ["large"] * 2) * mult
            for k, sz in enumerate(sizes):
                cases.append(gen_random(rng, be, pre, k, sz))
            for k in range(mult):
                for w in OUTCOMES:
                    cases.append(gen_outcome(rng, be, pre, k, w))
                for w in FAULTS:
                    cases.append(gen_fault(rng, be, pre, k, w))
    return cases


# ----------------------------------------------------------------------------- running

def case_text(c):
    return f"case {c['name']}\n" + "\n".join(c["lines"]) + "\n"


def _limits():
    try:
        soft, hard = resource.getrlimit(resource.RLIMIT_STACK)
        want = 1 << 30
        if hard != resource.RLIM_INFINITY:
            want = min(want, hard)
        resource.setrlimit(resource.RLIMIT_STACK, (want, hard))
    except (ValueError, OSError):
        pass


def run_chunk(exe, cases, timeout):
    text = "".join(case_text(c) for c in cases)
    try:
        p = subprocess.run([exe], input=text, stdout=subprocess.PIPE, stderr=subprocess.PIPE, text=True, timeout=timeout,
                           preexec_fn=_limits)
        rc, out, err = p.returncode, p.stdout, p.stderr
    except subprocess.TimeoutExpired as e:
        out = e.stdout.decode() if isinstance(e.stdout, bytes) else (e.stdout or "")
        rc, err = -9, "timeout"
    res, cur, order = {}, None, []
    for l in out.splitlines():
        if l.startswith("case "):
            cur = l[5:].strip()
            res[cur] = []
            order.append(cur)
        elif cur is not None:
            res[cur].append(l)
    return rc, res, order, err


def run_all(exes, cases, nproc=6, timeout=900):
    """-> outputs {name: lines}, problems [(name, why)]"""
    jobs = []
    for be, exe in exes.items():
        mine = [c for c in cases if c["be"] == be]
        # balance: heavy (large) cases spread over the chunks
        mine.sort(key=lambda c: -len(c["lines"]) * c["meta"].get("n", 1))
        k = max(1, min(len(mine), 3))
        for i in range(k):
            if mine[i::k]:
                jobs.append((exe, mine[i::k]))
    outs, probs = {}, []

    def one(job):
        exe, cs = job
        pending = list(cs)
        got_all, bad = {}, []
        while pending:
            rc, res, order, err = run_chunk(exe, pending, timeout)
            if rc == 0:
                got_all.update(res)
                break
            done = order[:-1] if order else []
            for nme in done:
                got_all[nme] = res[nme]
            culprit = order[-1] if order else pending[0]["name"]
            got_all[culprit] = res.get(culprit, [])
            bad.append((culprit, "timeout" if rc == -9 else f"rc={rc} {err[-300:]}"))
            dn = set(done) | {culprit}
            pending = [c for c in pending if c["name"] not in dn]
        return got_all, bad

    with ThreadPoolExecutor(max_workers=nproc) as ex:
        for got, bad in ex.map(one, jobs):
            outs.update(got)
            probs += bad
    return outs, probs


LINE = re.compile(r"^(update|solve|probe)\b(.*?)\bmalloc=(\d+) free=(\d+) calloc=(\d+) realloc=(\d+) memalign=(\d+) new=(\d+) "
                  r"delete=(\d+) bytes=(\d+) first=(\S+) bt=(\S*)$")


def parse_line(l):
    m = LINE.match(l)
    if not m:
        return None
    d = {"op": m.group(1), "head": m.group(2).strip(), "bytes": int(m.group(10)), "first": m.group(11), "sites": []}
    for part in m.group(12).split(";"):
        if "x" in part:
            hits, _, addrs = part.partition("x")
            d["sites"].append((int(hits), tuple(a for a in addrs.split(",") if a)))
    for k, name in enumerate(COUNTERS):
        d[name] = int(m.group(3 + k))
    d["total"] = sum(d[n] for n in COUNTERS)
    return d


_sym_cache = {}


def symbolize(exe, addrs):
    """[(function, file:line)] innermost first, via addr2line on return addresses (minus one to land in the call)"""
    key = (exe, tuple(addrs))
    if key in _sym_cache:
        return _sym_cache[key]
    pcs = []
    for a in addrs:
        try:
            v = int(a, 16)
        except ValueError:
            continue
        if v < 0x10000000:                # the executable (non-PIE); shared-library frames cannot be resolved this way
            pcs.append(hex(v - 1))
    res = []
    if pcs:
        rc, out = sh(["addr2line", "-f", "-C", "-i", "-e", exe] + pcs, timeout=120)
        ls = out.splitlines()
        res = [(ls[i].strip(), ls[i + 1].strip() if i + 1 < len(ls) else "?") for i in range(0, len(ls), 2)]
    _sym_cache[key] = res
    return res


def _short(fn):
    base = re.sub(r"\(.*$", "", fn)
    for _ in range(6):
        base = re.sub(r"<[^<>]*>", "", base)
    return re.sub(r"[^A-Za-z0-9_=+*/-]", "", base.split("::")[-1]) or "anon"


def call_site(frames):
    """(stable name, file:line) of the innermost frame in PIQP's sources; the name also carries the Eigen entry point
    PIQP called there (operator name + hash of its full type), so that two different expressions in one function differ"""
    import hashlib
    for k, (fn, loc) in enumerate(frames):
        if "/piqp/" in loc and "halloc.cpp" not in loc:
            f = re.sub(r".*/piqp/", "", loc).split(":")[0]
            tag = "direct"
            if k > 0 and "halloc.cpp" not in frames[k - 1][1]:
                tag = _short(frames[k - 1][0]) + "-" + hashlib.sha256(frames[k - 1][0].encode()).hexdigest()[:6]
            return re.sub(r"[^A-Za-z0-9_./=+*-]", "", f"{f}/{_short(fn)}/{tag}"), re.sub(r".*/piqp/", "piqp/", loc)
    return "unresolved", "?"


# ----------------------------------------------------------------------------- the check

def parse_replay(path):
    txt = open(path).read()
    m = re.search(r"^input \(back end (\d)\):\n(case .*?)\n(?:end of input)", txt, re.S | re.M)
    if not m:
        return []
    ls = m.group(2).splitlines()
    c = {"name": ls[0].split()[1], "be": int(m.group(1)), "lines": ls[1:], "meta": {"kind": "replay", "be": int(m.group(1)), "pre": -1, "n": 1},
         "ops": []}
    for l in ls[1:]:
        t = l.split()
        if t[0] == "setup":
            c["ops"].append(("setup", tuple(t[1:])))
        elif t[0] == "update":
            c["ops"].append(("update", tuple(t[2:]), int(t[1]), (0, 0), (0, 0)))
        elif t[0] == "solve":
            c["ops"].append(("solve",))
        elif t[0] == "fail":
            c["ops"].append(("fail", l))
        elif t[0] == "pre":
            c["meta"]["pre"] = int(t[1])
    return [c]


def run(replay=None):
    chk = Check(PID, "other")
    rng = random.Random(chk.seed * 15485863 + 11)
    lean_file = os.path.join(LEAN, "PiqpProofs", "Properties", PID + ".lean")
    have_lean = os.path.exists(lean_file)
    proof_ok = chk.proof_stage() if have_lean else None

    src = [os.path.join(HARNESS, "halloc.cpp")]

    def build(be):
        return be, build_cpp(f"halloc{be}", src, flags=FLAGS + [f"-DHBE={be}"])      # -DPIQP_VERIF: fault-injection hook

    exes = {}
    with ThreadPoolExecutor(max_workers=5) as ex:
        for be, (ok, exe, log) in ex.map(build, range(5)):
            if not ok:
                chk.violation(f"build:halloc:be{be}", f"harness halloc (back end {BE_NAME[be]}) does not compile against the current "
                              "/repo tree:\n" + log[-4000:], True)
            else:
                exes[be] = exe
    if len(exes) < 5:
        chk.cov.update({"evaluations": 0, "distinct_nontrivial": 0, "explanation": "harness did not build"})
        return chk.finish()

    cases = parse_replay(replay) if replay else gen_cases(chk, rng)
    if replay:
        chk.log(f"replay {replay}: {len(cases)} case(s)")
    probe = [{"name": f"__probe{be}", "be": be, "lines": ["probe"], "meta": {"kind": "probe", "n": 1}, "ops": []} for be in range(5)]
    outs, crashes = run_all(exes, cases + probe)

    # (0) the instrument is alive in every binary: known allocations inside an armed region are counted
    probes_ok = 0
    for c in probe:
        d = None
        for l in outs.get(c["name"]) or []:
            d = parse_line(l) or d
        if d and all(d[k] >= 1 for k in COUNTERS) and d["sites"]:
            probes_ok += 1
        else:
            chk.violation(f"harness:probe:be{c['be']}", "instrument self-test failed: known allocations inside an armed region were "
                          f"not counted by {exes[c['be']]}: {outs.get(c['name'])}", True)
    chk.cov["instrument_selftests_passed"] = probes_ok
    for l in (outs.get("__probe0") or [])[:1]:
        chk.cov["instrument_selftest_sample"] = l

    byname = {c["name"]: c for c in cases}
    for nme, why in crashes:
        c = byname.get(nme)
        if c is None:
            chk.violation("harness:crash:probe", f"harness crashed in self-test {nme}: {why}", True)
            continue
        chk.violation(f"harness:crash:be{c['be']}:{c['meta']['kind'].split(':')[0]}",
                      f"harness crashed or timed out ({why}) on case {nme} meta={c['meta']}\n\n"
                      f"input (back end {c['be']}):\n{case_text(c)}end of input\n", False)

    # (1) the property: every armed call shows zero on all counters
    n_upd = n_sol = 0
    statuses, masks, sizes, per_cfg = {}, set(), [], {}
    grow = shrink = same = 0
    errlines = hook_lines = nohook_lines = n_faults = 0
    found = {}          # sig -> (size, text)
    sites_seen = {}
    solves_with_faults = {}
    n_bad_calls = 0
    for c in cases:
        lines = outs.get(c["name"])
        if lines is None:
            continue
        errlines += sum(1 for l in lines if l.startswith("error"))
        hook_lines += sum(1 for l in lines if l.startswith("fail hook=1"))
        nohook_lines += sum(1 for l in lines if l.startswith("fail hook=0"))
        recs = [parse_line(l) for l in lines]
        recs = [r for r in recs if r]
        armed_ops = [o for o in c["ops"] if o[0] in ("update", "solve")]
        if len(recs) != len(armed_ops) and not any(n == c["name"] for n, _ in crashes):
            chk.violation("harness:protocol", f"case {c['name']}: {len(armed_ops)} armed ops sent, {len(recs)} counter lines received", True)
            continue
        cfg = f"{BE_NAME[c['be']]}/{PRE_NAME.get(c['meta']['pre'], '?')}"
        for k, (o, r) in enumerate(zip(armed_ops, recs)):
            per_cfg[cfg] = per_cfg.get(cfg, 0) + 1
            if o[0] == "update":
                n_upd += 1
                masks.add((o[1], o[2]))
                if o[4][0] > o[3][0] or o[4][1] > o[3][1]:
                    grow += 1
                if o[4][0] < o[3][0] or o[4][1] < o[3][1]:
                    shrink += 1
            else:
                n_sol += 1
                m = re.search(r"status=(-?\d+)", r["head"])
                st = m.group(1) if m else "?"
                statuses[st] = statuses.get(st, 0) + 1
                m = re.search(r"faults=(\d+)", r["head"])
                if m and int(m.group(1)):
                    n_faults += int(m.group(1))
                    solves_with_faults[st] = solves_with_faults.get(st, 0) + 1
            if r["total"] == 0:
                continue
            n_bad_calls += 1
            size = len(case_text(c))
            for hits, addrs in (r["sites"] or [(0, ())]):
                frames = symbolize(exes[c["be"]], addrs)
                site, where = call_site(frames)
                sites_seen[f"{BE_NAME[c['be']]}: {where} [{site}]"] = sites_seen.get(f"{BE_NAME[c['be']]}: {where} [{site}]", 0) + 1
                sig = f"impl:alloc:{o[0]}:be{c['be']}:{PRE_NAME.get(c['meta']['pre'], '?')}:{site}"
                if sig in found and found[sig][0] <= size:
                    continue
                hist = []
                ai = 0
                for oo in c["ops"]:
                    mark = ""
                    if oo[0] in ("update", "solve"):
                        mark = "   <-- allocates" if ai == k else ""
                        ai += 1
                    hist.append("  " + (f"[hook] {oo[1]}" if oo[0] == "fail" else f"setup({', '.join(oo[1])})" if oo[0] == "setup" else
                                        f"update({', '.join(oo[1])}; reuse_preconditioner={bool(oo[2])})" if oo[0] == "update" else "solve()") + mark)
                    if mark:
                        break
                text = (f"{o[0]}() allocated / freed heap memory: armed call #{k + 1} of the history ({r['op']} {r['head']})\n"
                        f"observed in that call: " + " ".join(f"{n}={r[n]}" for n in COUNTERS) + f" bytes_requested={r['bytes']} "
                        f"(first event: {r['first']}; {len(r['sites'])} distinct call stacks, this one hit {hits} times)\n"
                        "expected: all counters 0\n"
                        f"allocation site: {where}\n"
                        f"configuration: back end {BE_NAME[c['be']]}, preconditioner {PRE_NAME.get(c['meta']['pre'], '?')}, "
                        f"EIGEN_STACK_ALLOCATION_LIMIT={STACK_LIMIT}, meta={c['meta']}\n"
                        "history up to the allocating call:\n" + "\n".join(hist) + "\n"
                        "call stack (innermost first, inlined frames expanded):\n" +
                        "\n".join(f"  {fn[:200]}  at {loc}" for fn, loc in frames[:40]) + "\n\n"
                        f"reproduce: {exes[c['be']]} < (the input below)    [harness/halloc.cpp, flags {' '.join(FLAGS)} -DHBE={c['be']}]\n"
                        f"input (back end {c['be']}):\n{case_text(c)}end of input\n")
                found[sig] = (size, text)
    for sig, (_, text) in sorted(found.items())[:12]:
        chk.violation(sig, text)
    if errlines:
        chk.violation("harness:error-lines", f"{errlines} 'error' lines in the harness output (generator/protocol inconsistency)", True)

    # coverage
    chk.cov["evaluations"] = n_upd + n_sol
    chk.cov["armed_update_calls"] = n_upd
    chk.cov["armed_solve_calls"] = n_sol
    chk.cov["armed_calls_with_nonzero_counters"] = n_bad_calls
    chk.cov["histories"] = len(cases)
    chk.cov["allocation_sites_observed"] = sites_seen
    nontrivial = [c for c in cases if any(o[0] == "update" for o in c["ops"]) and any(o[0] == "solve" for o in c["ops"]) and outs.get(c["name"])]
    chk.cov["distinct_nontrivial"] = len({(c["be"], "\n".join(c["lines"])) for c in nontrivial})
    chk.cov["rule"] = ("histories = setup; (update(subset, reuse)*; solve+)* on generated problems; per back end x preconditioner: one "
                       "enumeration of all 256 argument subsets x both reuse values, random histories in four size classes "
                       "(n 2-8, 9-40, 41-150, 151-400) with settings variants, and six outcome-directed histories (box/primal "
                       "infeasible, dual infeasible, max_iter 1-4, NaN, huge values, vanishing regularisation) and five fault-injection histories "
                       "(factorisation failures forced through the PIQP_VERIF hook: first call, bursts, all, late, scattered). evaluations = armed "
                       "update()/solve() calls; distinct_nontrivial = distinct (back end, history text) with at least one update and one "
                       "solve that ran to the end")
    chk.cov["statuses_seen"] = statuses
    chk.cov["fault_hook"] = {"fail_commands_with_hook": hook_lines, "fail_commands_without_hook": nohook_lines,
                             "factorisation_failures_injected": n_faults, "solves_with_injected_failures_by_status": solves_with_faults}
    if nohook_lines:
        chk.notes.append("the PIQP_VERIF fault hook is not present in this tree: the fault histories ran without injected failures")
    chk.cov["distinct_update_argsets_x_reuse"] = len(masks)
    chk.cov["updates_growing_finite_bound_set"] = grow
    chk.cov["updates_shrinking_finite_bound_set"] = shrink
    chk.cov["armed_calls_per_configuration"] = per_cfg
    ns = sorted(c["meta"].get("n", 0) for c in cases)
    chk.cov["n_max"] = ns[-1] if ns else 0
    chk.cov["n_histogram"] = {"2-8": sum(1 for x in ns if x <= 8), "9-40": sum(1 for x in ns if 9 <= x <= 40),
                              "41-150": sum(1 for x in ns if 41 <= x <= 150), "151-400": sum(1 for x in ns if x > 150)}
    chk.cov["eigen_stack_allocation_limit"] = STACK_LIMIT
    for c in ([c for c in cases if c["meta"]["kind"].startswith("random:small")][:1] + [c for c in cases if c["meta"]["kind"].startswith("outcome")][:1]):
        chk.sample({"case": c["name"], "meta": c["meta"],
                    "ops": [(o[1] if o[0] == "fail" else o[0] + ("(" + ",".join(o[1]) + (f";reuse={o[2]}" if o[0] == "update" else "") + ")" if len(o) > 1 else "()")) for o in c["ops"]][:14],
                    "harness_output": (outs.get(c["name"]) or [])[:6]})
    lean_txt = ("the Lean module PiqpProofs/Properties/C11.lean (shape ledger) was built and axiom-audited: "
                f"{chk.cov.get('discharged', 0)} of {chk.cov.get('obligations', 0)} obligations" if have_lean else
                "no Lean module for C11 exists yet: this run is the runtime observation only")
    chk.cov["explanation"] = (
        "Runtime observation, not a proof about the C++ code: every allocation entry point of the process (malloc, free, calloc, "
        "realloc, posix_memalign, aligned_alloc, memalign, valloc, pvalloc, all global operator new/delete variants) is replaced in "
        "the harness binary and counted only while the program counter is inside Solver::update(...) or Solver::solve(); a built-in "
        "probe shows in every binary that the counters see Eigen, operator new and C allocations. The property is evaluated exactly "
        "as stated: all counters must be 0 for every armed call (arguments and optional<Ref> objects are built before arming; "
        "verbose output is off because stdio buffers are not solver memory). Compiled -O2 -DNDEBUG with "
        f"EIGEN_STACK_ALLOCATION_LIMIT={STACK_LIMIT} and a 1 GiB stack, as the statement permits. " + lean_txt + ".")
    chk.cov["trusted_base"] = [
        "glibc symbol interposition: a definition of malloc/free/... in the executable pre-empts libc's for every caller in the process",
        "harness/halloc.cpp (arming discipline: counters armed immediately before and disarmed immediately after the call)",
        "g++ 12 -O2, Eigen 3.4; T = double, I = int",
    ] + (chk.cov["trusted_base"][:2] if have_lean else [])
    chk.assumptions = [
        f"EIGEN_STACK_ALLOCATION_LIMIT configured to {STACK_LIMIT} bytes (the statement excludes Eigen kernel scratch above the limit)",
        "T = double, I = int only; verbose = false",
        "allocation behaviour is observed on the generated histories only (n <= 400); it is not proved for all inputs",
        "memory obtained by mmap/brk directly (not through the malloc family or operator new) would not be seen; PIQP and Eigen contain no such calls",
    ]
    if proof_ok is False and not chk.violations:
        chk.violation("proof:C11", "Lean proof obligations of C11 no longer check:\n" + getattr(chk, "proof_log", "")[-4000:], True)
    elif proof_ok is False:
        chk.notes.append("proof stage failed: " + getattr(chk, "proof_log", "")[-1500:])
    return chk.finish()
