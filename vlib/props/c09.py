"""C09 — reported diagnostics describe the returned point."""
import random
from fractions import Fraction as F

from .. import gen_sol
from ..common import Check
from ..diffrun import case_text
from . import solcommon

PID = "C09"


def make_cases(chk, rng):
    cases = []
    n_cases = 2500 if chk.thorough() else 300
    for i in range(n_cases):
        be = rng.randrange(5)
        n = rng.choice([1, 2, 2, 3, 3, 4])
        st = gen_sol.rand_settings(rng, max_iter=(rng.choice([1, 2]) if (n <= 2 and be != 0) else 1))
        st["eps_abs"] = rng.choice([F(1, 2 ** 20), F(1, 2 ** 6), F(8), F(2 ** 10)])
        st["eps_duality_gap_abs"] = rng.choice([F(1, 2 ** 20), F(8), F(2 ** 12)])
        st["preconditioner_scale_cost"] = rng.choice([0, 1])
        h = gen_sol.Hist(rng, f"d{i}", be, rng.choice([0, 0, 1]), st, dims=(n, None, None))
        h.setup(dump=False)
        if rng.random() < 0.4:
            h.update(rng.randrange(256), rng.random() < 0.5, dump=False)
        h.solve()
        if rng.random() < 0.3:
            h.update(rng.randrange(256), rng.random() < 0.5, dump=False)
            h.solve()
        cases.append(h.case(kind="diag"))
    return cases


def run(replay=None):
    chk = Check(PID, "proof")
    rng = random.Random(chk.seed * 7817 + 9)
    proof_ok = solcommon.prepare(chk, leancheck=chk.thorough())
    if proof_ok is None:
        return chk.finish()
    cases = make_cases(chk, rng)
    res = solcommon.run_cases(chk, cases)
    if res is None:
        return chk.finish()
    nchk, nfail = 0, 0
    per_status = {}
    for c in cases:
        r = res.get(c["name"])
        if not r or not r["corr_ok"]:
            continue
        solves = solcommon.solve_events(r["events"])
        for (status, dump), chkres in zip(solves, r["checks"]):
            nchk += 1
            per_status[str(status)] = per_status.get(str(status), 0) + 1
            fails = chkres.get("diag", [])
            if fails:
                nfail += 1
                if nfail <= 4:
                    chk.violation(f"impl:diag:be{c['meta']['be']}:pk{c['meta']['pk']}:{fails[0]}",
                                  "diagnostics in info do not describe the returned point (exact comparison with the quantities "
                                  "recomputed from the user's data by the Lean predicate diagFails): " + ", ".join(fails)
                                  + f"\ncase {c['name']} status {status} meta={c['meta']}\n\ninput:\n" + case_text(c)
                                  + "\nimplementation output:\n" + "\n".join(x[:300] for x in r["impl"]))
    chk.cov["returns_checked"] = nchk
    chk.cov["returns_checked_by_status"] = per_status
    chk.cov["diagnostic_failures"] = nfail
    return solcommon.finish(chk, proof_ok, PID,
                            "setup;(update);solve histories at T=Q over 5 back ends x {Ruiz(+scale_cost), identity}; after every solve "
                            "info.{status,iter,primal_obj,dual_obj,duality_gap,primal_inf,dual_inf} are compared exactly with the values "
                            "recomputed from the user's data at the returned point", cases)
