"""C19 — problem data are copied, never aliased or modified.

Observation half: harness/halias.cpp drives the real solvers through six caller-side interfaces (C++ dense with
column-major / row-major / padded storage, C++ sparse in the four KKT modes, C API dense and sparse).  Every
argument of every setup()/update() call is its own malloc block.  Each generated history is run twice:
  A  blocks kept alive and untouched,
  B  blocks compared bitwise with a snapshot after the call, then scribbled (NaN, huge values, garbage indices),
     freed and the allocator churned,
and status, all 13 result vectors and all Info fields but the *_time ones are compared BITWISE between A and B.
Thorough tier: the same under AddressSanitizer (a read of released caller memory aborts)."""
import os
import random
import re
import subprocess
from concurrent.futures import ThreadPoolExecutor

from .. import common
from ..common import Check, HARNESS, LEAN, build_cpp

PID = "C19"
ARGS = ["P", "c", "A", "b", "G", "h", "lb", "ub"]
INF = float("inf")
API_NAME = {0: "cpp-dense-colmajor", 1: "cpp-dense-rowmajor", 2: "cpp-dense-colmajor-padded", 3: "cpp-sparse",
            4: "c-dense", 5: "c-sparse"}
KKT_NAME = {0: "KKT_FULL", 1: "KKT_EQ_ELIMINATED", 2: "KKT_INEQ_ELIMINATED", 3: "KKT_ALL_ELIMINATED"}
CONFIGS = [(0, 0), (1, 0), (2, 0), (3, 0), (3, 1), (3, 2), (3, 3), (4, 0), (5, 0)]


def cfg_name(api, kkt):
    return API_NAME[api] + (":" + KKT_NAME[kkt] if api == 3 else "")


def fnum(x):
    if x == INF:
        return "inf"
    if x == -INF:
        return "-inf"
    return repr(float(x))


def rv(rng, lo=-2.0, hi=2.0):
    return round(rng.uniform(lo, hi), 3)


class Prob:
    """caller-side data (dense, with a sparsity pattern for the sparse interfaces)"""

    def __init__(self, rng, n, p, m, sparse):
        self.rng, self.n, self.p, self.m, self.sparse = rng, n, p, m, sparse
        dens = rng.choice([0.3, 0.6, 1.0]) if sparse else 1.0
        self.patA = [[rng.random() < dens for _ in range(n)] for _ in range(p)]
        self.patG = [[rng.random() < dens for _ in range(n)] for _ in range(m)]
        for pat in (self.patA, self.patG):
            for row in pat:
                if not any(row):
                    row[rng.randrange(n)] = True
        k = max(1, n)
        self.patM = [[rng.random() < dens for _ in range(n)] for _ in range(k)]
        self.upper = rng.random() < 0.5
        self.lower_fill = rng.choice([0.0, 0.0, 7.5])
        self.x0 = [rv(rng) for _ in range(n)]
        self.A = self.G = None
        self.new_P()
        self.new_A()
        self.new_G()
        self.c = [rv(rng) for _ in range(n)]
        self.new_b()
        self.new_h()
        self.new_bounds("lb", rng.choice([0.0, 0.4, 1.0]))
        self.new_bounds("ub", rng.choice([0.0, 0.4, 1.0]))

    def new_P(self):
        rng, n = self.rng, self.n
        M = [[rv(rng) if self.patM[i][j] else 0.0 for j in range(n)] for i in range(len(self.patM))]
        self.P = [[sum(M[t][i] * M[t][j] for t in range(len(M))) + (0.1 + round(rng.uniform(0, 1), 3) if i == j else 0.0)
                   for j in range(n)] for i in range(n)]
        # the sparse pattern of P is fixed at the first call: structural non-zeros of M'M plus the diagonal
        if not hasattr(self, "patP"):
            self.patP = [[i == j or any(self.patM[t][i] and self.patM[t][j] for t in range(len(self.patM))) for j in range(n)] for i in range(n)]

    def new_A(self):
        self.A = [[rv(self.rng) if self.patA[i][j] else 0.0 for j in range(self.n)] for i in range(self.p)]

    def new_G(self):
        self.G = [[rv(self.rng) if self.patG[i][j] else 0.0 for j in range(self.n)] for i in range(self.m)]

    def new_b(self, feasible=True):
        self.b = [sum(a * x for a, x in zip(row, self.x0)) for row in self.A] if feasible else [rv(self.rng) for _ in range(self.p)]

    def new_h(self, feasible=True):
        self.h = [sum(a * x for a, x in zip(row, self.x0)) + (round(self.rng.uniform(0, 1), 3) if feasible else -5.0) for row in self.G]
        if self.m and self.rng.random() < 0.1:
            self.h[self.rng.randrange(self.m)] = self.rng.choice([INF, 1e31])

    def new_bounds(self, which, frac):
        rng = self.rng
        if which == "lb":
            self.lb = [x - round(rng.uniform(0, 2), 3) if rng.random() < frac else rng.choice([-INF, -1e30, -5e30]) for x in self.x0]
        else:
            self.ub = [x + round(rng.uniform(0, 2), 3) if rng.random() < frac else rng.choice([INF, 1e30, 5e30]) for x in self.x0]

    def perturb(self, names):
        rng = self.rng
        for a in names:
            if a == "P":
                self.new_P()
            elif a == "A":
                self.new_A()
            elif a == "G":
                self.new_G()
            elif a == "c":
                self.c = [rv(rng) for _ in range(self.n)]
            elif a == "b":
                self.new_b(rng.random() < 0.9)
            elif a == "h":
                self.new_h(rng.random() < 0.9)
            else:
                self.new_bounds(a, rng.choice([0.0, 0.3, 0.7, 1.0]))

    # -- protocol lines
    def mat_line(self, a):
        M = getattr(self, a)
        r = len(M)
        c = self.n
        if not self.sparse:
            if a == "P" and self.upper:
                # row-major storage with only the upper triangle filled (or garbage below): only the upper part may be read
                return f"dmat {a} {r} {c} " + " ".join(fnum(M[i][j] if i <= j else self.lower_fill) for i in range(r) for j in range(c))
            return f"dmat {a} {r} {c} " + " ".join(fnum(v) for row in M for v in row)
        pat = {"P": self.patP, "A": self.patA, "G": self.patG}[a]
        ptr, idx, val = [0], [], []
        for j in range(c):
            for i in range(r):
                if pat[i][j] and not (a == "P" and self.upper and i > j):
                    idx.append(str(i))
                    val.append(fnum(M[i][j]))
            ptr.append(len(idx))
        return f"smat {a} {r} {c} {len(idx)} " + " ".join(map(str, ptr)) + (" " + " ".join(idx) + " " + " ".join(val) if idx else "")

    def bad_pattern_line(self, a):
        """CSC matrix `a` (A or G) with the same dimensions and the same number of stored entries but one entry moved to another
        row of its column: update() must reject it (pattern mismatch). None if the pattern leaves no room."""
        pat = {"A": self.patA, "G": self.patG}[a]
        M = getattr(self, a)
        r, c = len(M), self.n
        for j in range(c):
            rows = [i for i in range(r) if pat[i][j]]
            free = [i for i in range(r) if not pat[i][j]]
            if rows and free:
                pat2 = [list(row) for row in pat]
                pat2[rows[0]][j] = False
                pat2[free[0]][j] = True
                ptr, idx, val = [0], [], []
                for jj in range(c):
                    for i in range(r):
                        if pat2[i][jj]:
                            idx.append(str(i))
                            val.append(fnum(M[i][jj] if pat[i][jj] else 1.25))
                    ptr.append(len(idx))
                return f"smat {a} {r} {c} {len(idx)} " + " ".join(map(str, ptr)) + " " + " ".join(idx) + " " + " ".join(val)
        return None

    def lines_for(self, names):
        out = []
        for a in names:
            if a in "PAG":
                out.append(self.mat_line(a))
            else:
                v = getattr(self, a)
                out.append(f"vec {a} {len(v)} " + " ".join(fnum(x) for x in v))
        return out


SETTING_VARIANTS = [[], [], [], [("preconditioner_scale_cost", 1)], [("preconditioner_iter", 0)], [("iterative_refinement_always_enabled", 1)],
                    [("max_iter", 3)], [("check_duality_gap", 0)], [("rho_init", 1e-3), ("delta_init", 1e-2)]]


def new_case(name, api, kkt, settings, meta):
    return {"name": name, "api": api, "kkt": kkt,
            "lines": [f"api {api} {kkt}"] + [f"set {k} {fnum(v)}" for k, v in settings],
            "meta": dict(meta, api=cfg_name(api, kkt), settings=[f"{k}={v}" for k, v in settings]), "ops": []}


def op_setup(case, pr, rng):
    names = ["P", "c"]
    if pr.p:
        names += ["A", "b"]
    if pr.m:
        names += ["G", "h"]
    box = rng.choice([(0, 0), (1, 0), (0, 1), (1, 1), (1, 1)])
    if box[0]:
        names.append("lb")
    if box[1]:
        names.append("ub")
    case["lines"] += pr.lines_for(names) + ["setup " + " ".join(names)]
    case["ops"].append(("setup", tuple(names)))


def op_update(case, pr, names, reuse):
    pr.perturb(names)
    if case["api"] >= 4:
        reuse = 1           # the C interface has no reuse_preconditioner argument
    case["lines"] += pr.lines_for(names) + [f"update {int(reuse)} " + " ".join(names)]
    case["ops"].append(("update", tuple(names), int(reuse)))


def op_solve(case):
    case["lines"].append("solve")
    case["ops"].append(("solve",))


def allowed(pr):
    return [a for a in ARGS if not ((a in "Ab" and pr.p == 0) or (a in "Gh" and pr.m == 0))]


def gen_enum(rng, api, kkt, idx):
    """every one of the 2^8 argument subsets as an update, each followed by a solve"""
    n = rng.randint(2, 5)
    pr = Prob(rng, n, rng.randint(1, min(2, n)), rng.randint(1, 3), api in (3, 5))
    case = new_case(f"enum_{api}_{kkt}_{idx}", api, kkt, [], {"kind": "mask-enum", "n": pr.n, "p": pr.p, "m": pr.m})
    op_setup(case, pr, rng)
    op_solve(case)
    masks = list(range(256))
    rng.shuffle(masks)
    for mk in masks:
        op_update(case, pr, [a for k, a in enumerate(ARGS) if mk >> k & 1], rng.random() < 0.5)
        op_solve(case)
    return case


def gen_random(rng, api, kkt, idx):
    n = rng.choice([1, 2, 3, 4, 5, 6, 8, 10, 12, 16, 25, 40])
    p = rng.choice([0, 1, max(1, n // 3)])
    m = rng.choice([0, 1, max(1, n // 2), n + 1])
    pr = Prob(rng, n, min(p, n), m, api in (3, 5))
    st = rng.choice(SETTING_VARIANTS)
    case = new_case(f"rand_{api}_{kkt}_{idx}", api, kkt, st, {"kind": "random", "n": n, "p": pr.p, "m": pr.m})
    op_setup(case, pr, rng)
    if rng.random() < 0.3:
        # a second setup on the same workspace-less C++ object replaces everything (C API: a new workspace would be needed)
        if api < 4 and rng.random() < 0.5:
            op_setup(case, pr, rng)
    if rng.random() < 0.85:
        op_solve(case)
    al = allowed(pr)
    for _ in range(rng.randint(2, 6)):
        for _ in range(rng.choice([1, 1, 2, 3])):
            r = rng.random()
            names = list(al) if r < 0.15 else [rng.choice(al)] if r < 0.4 else [a for a in al if rng.random() < 0.4]
            op_update(case, pr, names, rng.random() < 0.5)
        for _ in range(rng.choice([1, 1, 2])):
            op_solve(case)
    return case


def gen_inplace(rng, api, kkt, idx):
    """sparse interfaces, caller reuses its buffers in place: setup; solve; update(M) with the right pattern; solve; then the same
    buffers are overwritten with a matrix of another pattern (same sizes) and passed to update() again -> must be rejected exactly as
    when it arrives in fresh buffers (mode A vs mode C)"""
    n = rng.choice([3, 4, 5, 6])
    pr = Prob(rng, n, rng.randint(1, min(2, n - 1)), rng.randint(2, 4), True)
    case = new_case(f"inpl_{api}_{kkt}_{idx}", api, kkt, [], {"kind": "inplace-reuse", "n": pr.n, "p": pr.p, "m": pr.m})
    op_setup(case, pr, rng)
    op_solve(case)
    for a in rng.sample(["A", "G"], 2):
        op_update(case, pr, [a], 1)
        op_solve(case)
        bad = pr.bad_pattern_line(a)
        if bad:
            case["lines"] += [bad, f"update 1 {a}"]
            case["ops"].append(("update", (a,), 1))
            op_solve(case)
    return case


def gen_cases(chk, rng):
    cases = []
    nrand = 220 if chk.thorough() else 24
    nenum = 4 if chk.thorough() else 1
    for api, kkt in CONFIGS:
        for k in range(nenum):
            cases.append(gen_enum(rng, api, kkt, k))
        for k in range(nrand):
            cases.append(gen_random(rng, api, kkt, k))
        if api in (3, 5):
            for k in range(12 if chk.thorough() else 3):
                cases.append(gen_inplace(rng, api, kkt, k))
    return cases


# ----------------------------------------------------------------------------- running

def case_text(c, mode):
    return f"case {c['name']}#{mode}\nmode {mode}\n" + "\n".join(c["lines"]) + "\n"


def run_chunk(exe, items, timeout, env=None):
    """items: [(case, mode)] -> rc, {name#mode: lines}, order, stderr"""
    text = "".join(case_text(c, md) for c, md in items)
    try:
        p = subprocess.run([exe], input=text, stdout=subprocess.PIPE, stderr=subprocess.PIPE, text=True, timeout=timeout, env=env)
        rc, out, err = p.returncode, p.stdout, p.stderr
    except subprocess.TimeoutExpired as e:
        out = e.stdout.decode() if isinstance(e.stdout, bytes) else (e.stdout or "")
        rc, err = -9, "timeout"
    res, cur, order = {}, None, []
    for l in out.splitlines():
        if l.startswith("case "):
            cur = l[5:].strip()
            res[cur] = []
            order.append(cur)
        elif cur is not None:
            res[cur].append(l)
    return rc, res, order, err


def run_all(exe, items, nproc=6, timeout=600, env=None):
    """-> outputs {name#mode: lines}, crashes {name#mode: why}"""
    items = sorted(items, key=lambda it: -len(it[0]["lines"]))
    k = max(1, min(len(items), nproc * 2))
    jobs = [items[i::k] for i in range(k) if items[i::k]]

    def one(job):
        pending = list(job)
        got_all, bad = {}, {}
        while pending:
            rc, res, order, err = run_chunk(exe, pending, timeout, env)
            if rc == 0:
                got_all.update(res)
                break
            done = order[:-1] if order else []
            for nme in done:
                got_all[nme] = res[nme]
            culprit = order[-1] if order else f"{pending[0][0]['name']}#{pending[0][1]}"
            got_all[culprit] = res.get(culprit, [])
            k = err.find("ERROR: AddressSanitizer")
            bad[culprit] = "timeout" if rc == -9 else f"rc={rc}\n" + (err[max(0, k - 12):k + 7000] if k >= 0 else err[-6000:])
            dn = set(done) | {culprit}
            pending = [(c, md) for c, md in pending if f"{c['name']}#{md}" not in dn]
        return got_all, bad

    outs, crashes = {}, {}
    with ThreadPoolExecutor(max_workers=nproc) as ex:
        for got, bad in ex.map(one, jobs):
            outs.update(got)
            crashes.update(bad)
    return outs, crashes


def history_text(c, upto=None):
    out = []
    for k, o in enumerate(c["ops"]):
        if upto is not None and k > upto:
            break
        out.append("  " + (f"setup({', '.join(o[1])})" if o[0] == "setup" else
                           f"update({', '.join(o[1])}; reuse_preconditioner={bool(o[2])})" if o[0] == "update" else "solve()"))
    return "\n".join(out)


def op_index_of_line(c, lines, li):
    """index into c['ops'] of the op that produced output line li: setup/update print optional 'modified' lines and
    one '<op> done' line; solve prints 'status', 'info' and 13 vectors, the last one being 'nu_ub'"""
    cur = 0
    for i, l in enumerate(lines):
        if i == li:
            return cur
        if l.endswith(" done") or l.startswith("nu_ub"):
            cur += 1
    return cur


def parse_replay(path):
    txt = open(path).read()
    m = re.search(r"^input:\n(case .*?)\nend of input", txt, re.S | re.M)
    if not m:
        return []
    ls = [l for l in m.group(1).splitlines() if not l.startswith("mode ")]
    name = ls[0].split()[1].split("#")[0]
    t = ls[1].split()
    c = {"name": name, "api": int(t[1]), "kkt": int(t[2]) if len(t) > 2 else 0, "lines": ls[1:], "ops": [],
         "meta": {"kind": "replay", "api": cfg_name(int(t[1]), int(t[2]) if len(t) > 2 else 0), "n": 0}}
    for l in ls[1:]:
        t = l.split()
        if t[0] == "setup":
            c["ops"].append(("setup", tuple(t[1:])))
        elif t[0] == "update":
            c["ops"].append(("update", tuple(t[2:]), int(t[1])))
        elif t[0] == "solve":
            c["ops"].append(("solve",))
    return [c]


def run(replay=None):
    chk = Check(PID, "other")
    rng = random.Random(chk.seed * 32452843 + 19)
    lean_file = os.path.join(LEAN, "PiqpProofs", "Properties", PID + ".lean")
    have_lean = os.path.exists(lean_file)
    proof_ok = chk.proof_stage() if have_lean else None

    src = [os.path.join(HARNESS, "halias.cpp"), os.path.join(common.REPO, "interfaces", "c", "src", "piqp.cpp")]
    inc = ["-I", os.path.join(common.REPO, "interfaces", "c", "include")]
    okb, exe, log = build_cpp("halias", src, flags=["-O1"] + inc)
    if not okb:
        chk.violation("build:halias", "harness halias (+ interfaces/c/src/piqp.cpp) does not compile against the current /repo tree:\n"
                      + log[-4000:], True)
        chk.cov.update({"evaluations": 0, "distinct_nontrivial": 0, "explanation": "harness did not build"})
        return chk.finish()
    exe_asan = None
    if chk.thorough():
        oka, exe_asan, loga = build_cpp("halias_asan", src, flags=["-O1", "-g", "-fsanitize=address", "-fno-sanitize-recover=all",
                                                                   "-fno-omit-frame-pointer"] + inc)
        if not oka:
            chk.violation("build:halias_asan", "ASan build of harness halias failed:\n" + loga[-4000:], True)
            exe_asan = None

    cases = parse_replay(replay) if replay else gen_cases(chk, rng)
    if replay:
        chk.log(f"replay {replay}: {len(cases)} case(s)")
    byname = {c["name"]: c for c in cases}
    items = [(c, md) for c in cases for md in "AB"] + [(c, "C") for c in cases if c["meta"]["kind"] == "inplace-reuse"]
    outs, crashes = run_all(exe, items)

    found = {}

    def report(sig, size, text):
        if sig not in found or found[sig][0] > size:
            found[sig] = (size, text)

    n_cmp = n_solves = n_calls = n_args = 0
    statuses, masks, per_cfg = {}, set(), {}
    errlines = 0
    for c in cases:
        a, b = outs.get(c["name"] + "#A"), outs.get(c["name"] + "#B")
        ca, cb = crashes.get(c["name"] + "#A"), crashes.get(c["name"] + "#B")
        cfg = c["meta"]["api"]
        size = len(c["lines"]) * 1000 + sum(len(l) for l in c["lines"]) // 100
        inp = f"input:\n{case_text(c, 'B')}end of input\n"
        head = (f"interface {cfg}, meta={c['meta']}\nreproduce: {exe} < input (mode A: replace the line 'mode B' by 'mode A')   "
                "[harness/halias.cpp + interfaces/c/src/piqp.cpp]\n")
        if ca and cb:
            report(f"harness:crash:{cfg}", size, f"harness crashed or timed out in BOTH modes on case {c['name']}: A: {ca[:500]}\nB: {cb[:500]}\n{head}"
                   "history:\n" + history_text(c) + "\n\n" + inp)
            continue
        if cb or ca:
            md = "B (caller buffers scribbled and freed after each call)" if cb else "A (caller buffers kept alive)"
            n_done = sum(1 for l in (b if cb else a) or [] if l.startswith("status ") or l.endswith(" done"))
            report(f"impl:alias:{cfg}:crash", size,
                   f"the process died in mode {md} only: {(cb or ca)[:3000]}\n"
                   f"observed: crash during op #{n_done + 1} of the history; expected: identical behaviour in modes A and B\n{head}"
                   "history (up to the crashing op):\n" + history_text(c, n_done) + "\n\n" + inp)
            continue
        if a is None or b is None:
            report("harness:protocol", size, f"case {c['name']}: no output")
            continue
        errlines += sum(1 for l in a + b if l.startswith("error"))
        per_cfg[cfg] = per_cfg.get(cfg, 0) + 1
        for o in c["ops"]:
            if o[0] == "solve":
                n_solves += 1
            else:
                n_calls += 1
                n_args += len(o[1])
                if o[0] == "update":
                    masks.add((o[1], o[2] if c["api"] < 4 else 1))
        for l in a:
            if l.startswith("status "):
                s = l.split()[1]
                statuses[s] = statuses.get(s, 0) + 1
        # (1) caller buffers bit-for-bit unchanged by the call (both modes)
        for md, lines in (("A", a), ("B", b)):
            for li, l in enumerate(lines):
                if l.startswith("modified "):
                    kv = dict(t.split("=", 1) for t in l.split()[1:])
                    oi = op_index_of_line(c, lines, li)
                    report(f"impl:modified:{cfg}:{kv.get('op')}:{kv.get('arg')}", size,
                           f"{kv.get('op')}() changed the caller's buffer '{kv.get('arg')}' (mode {md}): {l}\n"
                           f"expected: the argument block is bitwise identical before and after the call\n{head}"
                           "history (up to that call):\n" + history_text(c, oi) + "\n\n" + inp)
        # (2) results of A and B bitwise identical
        a2 = [l for l in a if not l.startswith("modified ")]
        b2 = [l for l in b if not l.startswith("modified ")]
        n_cmp += sum(1 for l in a2 if not l.endswith(" done"))
        if a2 != b2:
            li = next((i for i, (x, y) in enumerate(zip(a2, b2)) if x != y), min(len(a2), len(b2)))
            la = a2[li] if li < len(a2) else "<missing>"
            lb = b2[li] if li < len(b2) else "<missing>"
            key = (la.split() or ["?"])[0]
            oi = op_index_of_line(c, a2, min(li, len(a2) - 1))
            # which caller buffers were released before this solve: the arguments of the preceding calls
            prev = [o for o in c["ops"][:oi] if o[0] != "solve"]
            last = prev[-1] if prev else ("?", ())
            ta, tb = la.split(), lb.split()
            pos = next((i for i, (x, y) in enumerate(zip(ta, tb)) if x != y), 0)
            report(f"impl:alias:{cfg}:{key}", size,
                   f"results differ between mode A (caller buffers alive) and mode B (scribbled + freed after each call): op #{oi + 1} of the "
                   f"history, output '{key}', token {pos}\n  A: {la[:400]}\n  B: {lb[:400]}\n"
                   f"expected: bitwise identical (the solver works on its own copies)\nlast setup/update before it: {last[0]}({', '.join(last[1])})\n{head}"
                   "history (up to the differing op):\n" + history_text(c, oi) + "\n\n" + inp)
    # (2b) caller reuses its buffers in place (mode C) vs fresh buffers (mode A): bitwise identical, in particular a matrix of
    # another pattern is rejected in both
    n_inplace = 0
    for c in cases:
        if c["meta"]["kind"] != "inplace-reuse":
            continue
        a, cc_ = outs.get(c["name"] + "#A"), outs.get(c["name"] + "#C")
        cfg = c["meta"]["api"]
        if crashes.get(c["name"] + "#C") or a is None or cc_ is None:
            if crashes.get(c["name"] + "#C") and not crashes.get(c["name"] + "#A"):
                report(f"impl:alias:{cfg}:inplace-crash", len(c["lines"]) * 1000, f"the process died only when the caller reuses its buffers in place: "
                       f"{crashes.get(c['name'] + '#C')[:2000]}\ninput:\n{case_text(c, 'C')}end of input\n")
            continue
        n_inplace += 1
        a2 = [l for l in a if not l.startswith("modified ")]
        c2 = [l for l in cc_ if not l.startswith("modified ")]
        if a2 != c2:
            li = next((i for i, (x, y) in enumerate(zip(a2, c2)) if x != y), min(len(a2), len(c2)))
            la = a2[li] if li < len(a2) else "<missing>"
            lc = c2[li] if li < len(c2) else "<missing>"
            oi = op_index_of_line(c, a2, min(li, len(a2) - 1))
            report(f"impl:alias:{cfg}:inplace:{(la.split() or ['?'])[0]}", len(c["lines"]) * 1000,
                   "results depend on WHERE the caller's arrays live: the same history with every argument in a fresh block (mode A) and with "
                   f"the caller overwriting and re-passing the same blocks (mode C) differs at op #{oi + 1}\n  A: {la[:300]}\n  C: {lc[:300]}\n"
                   "expected: bitwise identical (the solver keeps no address of, and nothing derived from the old content of, caller memory)\n"
                   "history:\n" + history_text(c, oi) + f"\n\ninput:\n{case_text(c, 'C')}end of input\n")
    chk.cov["inplace_reuse_cases_compared"] = n_inplace
    if errlines:
        chk.violation("harness:error-lines", f"{errlines} 'error' lines in the harness output (generator/protocol inconsistency)", True)

    # (3) thorough: AddressSanitizer on mode B (and A, which must not differ)
    asan = {"built": bool(exe_asan), "cases": 0, "aborts": 0}
    if exe_asan:
        env = dict(os.environ, ASAN_OPTIONS="detect_leaks=0:abort_on_error=0:halt_on_error=1:allocator_may_return_null=1")
        outs2, crashes2 = run_all(exe_asan, [(c, "B") for c in cases], env=env, timeout=1500)
        asan["cases"] = len(cases)
        for c in cases:
            cb = crashes2.get(c["name"] + "#B")
            if not cb:
                continue
            asan["aborts"] += 1
            cfg = c["meta"]["api"]
            m = re.search(r"ERROR: AddressSanitizer: (\S+)", cb) or re.search(r"SUMMARY: AddressSanitizer: (\S+)", cb)
            kind = m.group(1) if m else "crash"
            done = sum(1 for l in outs2.get(c["name"] + "#B") or [] if l.startswith("status ") or l.endswith(" done"))
            size = len(c["lines"]) * 1000
            report(f"impl:alias:{cfg}:asan:{kind}", size,
                   f"AddressSanitizer aborted the run in mode B (caller buffers scribbled and freed after each call) during op #{done + 1}\n"
                   f"interface {cfg}, meta={c['meta']}\nhistory (up to the aborting op):\n" + history_text(c, done) + "\n\n"
                   "sanitizer report (head):\n" + cb[:5000] + f"\n\nreproduce: {exe_asan} < input\ninput:\n{case_text(c, 'B')}end of input\n")
    chk.cov["asan"] = asan

    for sig, (_, text) in sorted(found.items())[:12]:
        chk.violation(sig, text, no_input=sig.startswith("harness:protocol"))

    chk.cov["evaluations"] = len(items)
    chk.cov["histories"] = len(cases)
    chk.cov["runs_per_history"] = 2
    chk.cov["result_lines_compared_bitwise"] = n_cmp
    chk.cov["solves_compared"] = n_solves
    chk.cov["setup_update_calls_with_snapshot_check"] = 2 * n_calls
    chk.cov["argument_blocks_released_in_mode_B"] = n_args
    chk.cov["distinct_update_argsets_x_reuse"] = len(masks)
    chk.cov["statuses_seen"] = statuses
    chk.cov["histories_per_interface"] = per_cfg
    chk.cov["distinct_nontrivial"] = len({(c["api"], c["kkt"], "\n".join(c["lines"])) for c in cases
                                          if any(o[0] == "update" for o in c["ops"]) and any(o[0] == "solve" for o in c["ops"])
                                          and outs.get(c["name"] + "#B")})
    chk.cov["rule"] = ("per interface (C++ dense column-major / row-major / padded column-major, C++ sparse x 4 KKT modes, C dense, C "
                       "sparse): one history enumerating all 256 update argument subsets (each followed by solve) and random histories "
                       "setup; [setup]; solve; (update(subset, reuse)+; solve+)* on well-posed problems with n in 1..40, some infeasible "
                       "updates, h entries at +inf, settings variants. evaluations = runs (each history in mode A and mode B); "
                       "distinct_nontrivial = distinct (interface, history text) with at least one update and one solve that produced output in mode B")
    for c in ([c for c in cases if c["meta"]["kind"] == "random"][:1] + [c for c in cases if c["api"] == 5 and c["meta"]["kind"] == "random"][:1]):
        chk.sample({"case": c["name"], "meta": c["meta"],
                    "ops": [o[0] + ("(" + ",".join(o[1]) + (f";reuse={o[2]}" if o[0] == "update" else "") + ")" if len(o) > 1 else "()") for o in c["ops"]][:12],
                    "mode_B_output_head": [l[:120] for l in (outs.get(c["name"] + "#B") or [])[:5]]})
    lean_txt = (f"the Lean module PiqpProofs/Properties/C19.lean was built and axiom-audited ({chk.cov.get('discharged', 0)} of "
                f"{chk.cov.get('obligations', 0)} obligations)" if have_lean else "no Lean module for C19 exists yet: runtime observation only")
    chk.cov["explanation"] = (
        "Runtime observation, not a proof about the C++ code. Every argument of every setup()/update() call (matrix storage, "
        "vectors, CSC arrays p/i/x, piqp_csc headers, the piqp_data_* and piqp_settings structs) is a separate malloc block. 'Unchanged' is "
        "checked exactly as stated: a byte snapshot taken immediately before the call is memcmp'ed with the block immediately after it, "
        "in both modes. 'No effect of overwriting or releasing' is checked by running each history twice in separate solver objects — "
        "blocks alive and untouched vs. scribbled (NaN / 1.7e308 / garbage indices), freed and re-handed-out after each call — and "
        "requiring the status, iteration and counter fields, all 15 floating-point Info fields except the *_time ones, and all 13 result "
        "vectors to be bitwise identical after every solve. A retained pointer into caller memory therefore shows up as a difference, a "
        "crash in mode B only, or (thorough tier) an AddressSanitizer abort. " + lean_txt + ".")
    chk.cov["trusted_base"] = [
        "harness/halias.cpp (snapshot/compare/scribble discipline; Ref/Map objects are destroyed before the blocks are released)",
        "bitwise determinism of two runs of the same history in one process image (16-byte malloc alignment, no -march flags)",
        "g++ 12 -O1, Eigen 3.4, glibc malloc; T = double, I = int; thorough: AddressSanitizer",
    ] + (chk.cov["trusted_base"][:2] if have_lean else [])
    chk.assumptions = [
        "T = double, I = int; Ruiz preconditioner (default) only",
        "observed on generated histories only (n <= 40): not a proof for all inputs",
        "a retained pointer that is never dereferenced again is not observable (and harmless)",
        "compute_timings = false; *_time fields are excluded from the comparison as the property allows",
    ]
    if proof_ok is False and not chk.violations:
        chk.violation("proof:C19", "Lean proof obligations of C19 no longer check:\n" + getattr(chk, "proof_log", "")[-4000:], True)
    elif proof_ok is False:
        chk.notes.append("proof stage failed: " + getattr(chk, "proof_log", "")[-1500:])
    return chk.finish()
