"""C12 — factorisation failures are retried, bounded and never poison the result."""
import itertools
import random

from .. import gen_dbl, skelrun
from ..common import Check, lake_build
from ..diffrun import case_text
from ..dblprops import parse_result, cert_failures_dbl, finite_failures, DEFAULT_SETTINGS

PID = "C12"


def run(replay=None):
    chk = Check(PID, "proof")
    rng = random.Random(chk.seed * 811 + 12)
    proof_ok = chk.proof_stage(leancheck=chk.thorough())
    ok, out, _ = lake_build(["driver"])
    if not ok:
        chk.violation("build:driver", "lean driver does not build:\n" + out[-3000:], True)
        return chk.finish()
    try:
        exe = skelrun.build_hsold()
    except RuntimeError as e:
        chk.violation("build:hsold", str(e), True)
        return chk.finish()
    thorough = chk.thorough()
    K = 14 if thorough else 8
    cases = []
    probs = {}
    k = 0
    # exhaustive failure masks over the first K factorisation calls, dense + sparse, first solve and re-solve
    base = []
    for be, pk in ([(0, 0), (1, 0), (4, 0)] if not thorough else [(0, 0), (1, 0), (2, 0), (3, 0), (4, 0)]):
        pr = gen_dbl.wellposed(rng, n=rng.randint(2, 5), p=rng.randint(0, 2), m=rng.randint(1, 4))
        base.append((be, pk, pr))
    masks = ["".join(b) for b in itertools.product("01", repeat=K)]
    per = 64
    for be, pk, pr in base:
        for i in range(0, len(masks), per):
            L = gen_dbl.case_lines(be, pk, {}, ["d.setup " + pr.args(be != 0), "d.trace 1"])
            ms = masks[i:i + per]
            for mk in ms:
                L += ["d.failmask " + mk, "d.solve", "d.result"]   # every solve after the first is a re-solve
            name = f"x{k}"
            cases.append({"name": name, "lines": L, "meta": {"be": be, "pk": pk, "kind": "exhaustive", "masks": ms}})
            probs[name] = pr
            k += 1
    # random sparse / burst patterns beyond K, more problems
    for i in range(4000 if thorough else 300):
        be, pk = rng.randrange(5), rng.choice([0, 0, 1])
        pr = gen_dbl.wellposed(rng, n=rng.randint(1, 10))
        kind = rng.choice(["sparse", "burst", "late", "all"])
        if kind == "sparse":
            mk = "".join("1" if rng.random() < 0.15 else "0" for _ in range(60))
        elif kind == "burst":
            a = rng.randint(0, 20); b = rng.randint(1, 14)
            mk = "0" * a + "1" * b
        elif kind == "late":
            mk = "0" * rng.randint(5, 30) + "".join(rng.choice("01") for _ in range(6))
        else:
            mk = "1" * 40
        st = {"max_iter": rng.choice([250, 250, 30, 3]), "max_factor_retires": rng.choice([10, 10, 2, 1])}
        L = gen_dbl.case_lines(be, pk, st, ["d.setup " + pr.args(be != 0), "d.trace 1", "d.failmask " + mk, "d.solve", "d.result",
                                            "d.failmask " + mk[::-1], "d.solve", "d.result"])
        name = f"r{i}"
        cases.append({"name": name, "lines": L, "meta": {"be": be, "pk": pk, "kind": kind, "masks": [mk, mk[::-1]], "st": st}})
        probs[name] = pr
    impl, bad, stats = skelrun.run_tie_b(cases, exe)
    byname = {c["name"]: c for c in cases}
    chk.cov["evaluations"] = stats["solves_replayed"]
    chk.cov["traces_validated_against_impl"] = stats["solves_replayed"]
    chk.cov["exhaustive_mask_bits"] = K
    chk.cov["exhaustive"] = True
    lost = [x for x in stats["lost_impl"] + stats["lost_model"]]
    chk.cov["cases_lost"] = len(lost)
    for x in lost[:2]:
        if "timeout" not in x["why"]:
            chk.violation("crash:" + x["why"][:30], f"harness/driver crashed on {x['name']}: {x['why']}", True)
    for b in bad[:4]:
        nm, si = b["case"].split("#")
        c = byname[nm]
        chk.violation(f"corr:skeleton:be{c['meta']['be']}:{(b['impl'].split() or ['?'])[0]}",
                      "control skeleton (Lean loopG at Float) does not reproduce the real solver's control state (tie B, bit exact)\n"
                      f"case {nm} solve #{si} mask={c['meta']['masks'][int(si)] if int(si) < len(c['meta']['masks']) else '?'} meta be={c['meta']['be']} pk={c['meta']['pk']} "
                      f"state line {b['line']}\nimpl : {b['impl']}\nmodel: {b['model']}\n\ninput:\n" + case_text(c))
    # the property evaluated on the implementation
    stat, nviol = {}, 0
    for c in cases:
        out = impl.get(c["name"])
        if out is None:
            continue
        pr = probs[c["name"]]
        solves = skelrun.split_solves(out)
        # result blocks follow each status line
        blocks, cur = [], None
        for l in out:
            if l.startswith("info "):
                cur = [l]
            elif cur is not None and l.split()[0] in ("x", "y", "z", "z_lb", "z_ub", "s", "s_lb", "s_ub"):
                cur.append(l)
                if l.startswith("s_ub"):
                    blocks.append(cur); cur = None
        st = dict(DEFAULT_SETTINGS); st.update(c["meta"].get("st", {}))
        for si, (sv, blk) in enumerate(zip(solves, blocks)):
            mk = c["meta"]["masks"][si]
            res = parse_result(blk)
            status = sv["status"]
            stat[status] = stat.get(status, 0) + 1
            probs_found = []
            rline = sv["states"][-1].split()
            iters, retries, refine = int(rline[1]), int(rline[2]), rline[3]
            if status not in (1, -1, -2, -3, -8):
                probs_found.append(f"undocumented status {status}")
            if iters > st["max_iter"]:
                probs_found.append(f"iter {iters} > max_iter {st['max_iter']}")
            if status == -8 and not (refine == "1" and retries >= st["max_factor_retires"]):
                probs_found.append(f"NUMERICS returned with refinement={refine}, factor_retires={retries} < max_factor_retires")
            if status != -8 or res["info"]["iter"] > 0:
                bf = finite_failures(pr, res)
                if bf:
                    probs_found.append("non-finite / malformed iterates after failures: " + ",".join(bf[:4]))
            if status == 1:
                cf = cert_failures_dbl(pr, st, res)
                if cf:
                    probs_found.append("SOLVED without a valid certificate: " + "; ".join(cf[:3]))
            nfail_used = mk[:sv.get("calls") or len(mk)].count("1")
            if nfail_used <= 3 and st["max_iter"] >= 250 and st["max_factor_retires"] >= 10:
                chk.add("transient_failure_runs")
                if status != 1:
                    probs_found.append(f"{nfail_used} transient factorisation failure(s) on a well-posed problem gave status {status} instead of SOLVED")
            if probs_found:
                nviol += 1
                if nviol <= 5:
                    chk.violation(f"impl:failures:be{c['meta']['be']}:{probs_found[0].split(':')[0].split()[0]}",
                                  "; ".join(probs_found) + f"\ncase {c['name']} solve #{si} failure mask {mk} (1 = that factorisation call fails)\n\ninput:\n" + case_text(c))
    chk.cov["statuses_seen"] = {str(k): v for k, v in stat.items()}
    chk.cov["distinct_nontrivial"] = sum(1 for c in cases for mk in c["meta"]["masks"] if "1" in mk)
    chk.cov["rule"] = (f"every failure mask over the first {K} factorisation calls (2^{K}) on dense + sparse back ends, first solves and "
                       "re-solves; random sparse/burst/late/total failure patterns on more problems and settings; each solve's control "
                       "trace is replayed bit-exactly by the Lean skeleton; statuses, iteration/retry bounds, finiteness, certificates and "
                       "the '<=3 transient failures still SOLVED' clause are evaluated on the implementation")
    for c in cases[:2]:
        chk.sample({"case": c["name"], "be": c["meta"]["be"], "masks": c["meta"]["masks"][:3]})
    if proof_ok is False and not chk.violations:
        chk.violation("proof:C12", "Lean proof obligations of C12 no longer check:\n" + getattr(chk, "proof_log", "")[-4000:], True)
    chk.assumptions = ["failure oracle and numeric observations are arbitrary in the theorems; the tie replays the scalar control logic only "
                       "(vector reductions stay in C++ and enter as observations)", "IEEE double scalar +,-,*,/,<,max,min agree between g++ (no FMA) and Lean Float"]
    return chk.finish()
