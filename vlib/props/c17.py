"""C17 -- all language bindings expose the same fields with the same meaning (tie C, proof level).

Pipeline (every run):
  1. translate/tables.py parses the CURRENT binding sources of $VERIF_REPO into
     lean/PiqpProofs/Generated/Tables.lean + build/tables.json   (fails closed -> violation, no input);
  2. `lake build PiqpProofs.Properties.C17` + grep audit + `#print axioms` of every theorem (Check.proof_stage);
     each theorem is one (binding x table x direction) obligation closed by `decide`;
  3. the same obligations are recomputed in Python over tables.json (the *failing-input search*): every
     concrete mismatch becomes one violation with a specific signature, file:line and the Lean theorem refuted;
  4. guards: the statement text of every Lean theorem must equal the statement Python recomputes, the set of
     theorems Lean refuses must equal the set Python refutes, and Tables.lean on disk must still be the text this
     run generated.  Any disagreement is reported as an internal inconsistency (violation without input).

  5. dynamic cross-check of the translator's reading of the mex file: the real piqp_mex.cpp is compiled against
     a mock MEX runtime (harness/mockmex/mex.h) and every core field is round-tripped through mexFunction for both
     backends (harness/hmex.cpp); field lists come from the core headers only.

The obligation list below is shared with C16 (static half): `OBLIGATIONS(pid)`.
"""
import hashlib
import json
import os
import re
import sys

from vlib import common
from vlib.common import Check

TRANSLATOR = os.path.join(common.ROOT, "translate", "tables.py")
TABLES_LEAN = os.path.join(common.LEAN, "PiqpProofs", "Generated", "Tables.lean")
TABLES_JSON = os.path.join(common.BUILD, "tables.json")


# --------------------------------------------------------------------------------------------- translator

def run_translator():
    """-> (ok, tables_dict_or_None, log)"""
    env = common.env_clean()
    env["VERIF_REPO"] = common.REPO
    rc, out = common.sh([sys.executable, TRANSLATOR, "--repo", common.REPO,
                         "--out-lean", TABLES_LEAN, "--out-json", TABLES_JSON], timeout=300, env=env)
    if rc != 0:
        return False, None, out
    with open(TABLES_JSON) as f:
        tj = json.load(f)
    return True, tj, out


# --------------------------------------------------------------------------------------------- mirror of TableLogic.lean

def keys(ps):
    return [p[0] for p in ps]


def nodup_bad(xs):
    seen, dup = set(), []
    for x in xs:
        if x in seen and x not in dup:
            dup.append(x)
        seen.add(x)
    return dup


def tup(x):
    return tuple(x) if isinstance(x, list) else x


def derived(L):
    """The hand-written vocabulary of PiqpProofs/TableLogic.lean (same names)."""
    return {
        "resultVecFields": [p[0] for p in L["coreResultTypes"] if p[1] == "Vec<T>"],
        "infoAliases": [("status_val", "status")],
        "cTypeMap": [("T", "piqp_float"), ("isize", "piqp_int"), ("bool", "piqp_int"), ("Status", "piqp_status"),
                     ("Vec<T>", "const piqp_float*"), ("Info<T>", "piqp_info")],
        "pyiTypeMap": [("T", "float"), ("isize", "int"), ("bool", "bool"), ("Status", "piqp.Status"),
                       ("Vec<T>", "numpy.ndarray[numpy.float64[m, 1]]"), ("Info<T>", "piqp.Info")],
        "mexCastMap": [("T", "double"), ("isize", "piqp::isize"), ("bool", "bool")],
        "octAccessorMap": [("T", "double_value"), ("isize", "int_value"), ("bool", "bool_value")],
        "mexRequiredUses": [(f, b, o) for f, o in (("settings_to_mx_struct", "settings"),
                                                   ("copy_mx_struct_to_settings", "settings"),
                                                   ("result_to_mx_struct", "result")) for b in ("dense", "sparse")],
        "octRequiredUses": [(f, b, o) for f, o in (("settings_to_ov_struct", "settings"),
                                                   ("copy_ov_struct_to_settings", "settings"),
                                                   ("result_to_ov_struct", "result")) for b in ("dense", "sparse")],
        "solverProps": [("settings", "settings", "readwrite"), ("result", "result", "readonly")],
        "pyRequiredClasses": ["Settings", "Info", "Result", "Status", "DenseSolver", "SparseSolver"],
    }


class Ctx:
    """Tables by their Lean names + where each row came from."""

    def __init__(self, tj):
        self.L = {k: [tup(x) for x in v] if isinstance(v, list) else v for k, v in tj["lean"].items()}
        self.L.update(derived(self.L))
        self.D = tj["detail"]

    def __getitem__(self, k):
        return self.L[k]

    def rows(self, path):
        d = self.D
        for p in path:
            d = d[p]
        return d

    def where(self, path, key, field=None):
        """file:line of the row whose dst/name is `key` in detail table `path` (first match)."""
        if path is None:
            return "?"
        rows = self.rows(path)
        for r in rows:
            if r.get("dst", r.get("name")) == key and (field is None or r.get("src") == field):
                return f"{r['file']}:{r['line']}"
        if rows and isinstance(rows[0], dict) and "file" in rows[0]:
            return f"{rows[0]['file']}:(table starting at line {rows[0]['line']})"
        return "?"


class Ob:
    """One obligation = one Lean theorem.  `lean` is the statement text, `check(ctx)` recomputes it and
    returns the list of concrete mismatches [(signature, text)]."""

    def __init__(self, name, lean, check, what):
        self.name, self.lean, self.check, self.what = name, lean, check, what


def ob_wired(name, tab, label, path, what, aliases=None,
             fmt="destination '{dst}' receives source '{src}'; expected source '{dst}'"):
    lean = f"Wired {tab} = true" if aliases is None else f"WiredUpTo {aliases} {tab} = true"

    def check(c):
        bad = []
        al = c[aliases] if aliases else []
        for dst, src in c[tab]:
            if dst != src and (dst, src) not in al:
                bad.append((f"{label}:{dst}<-{src}",
                            f"{c.where(path, dst, src)}: {label}: " + fmt.format(dst=dst, src=src)))
        return bad
    return Ob(name, lean, check, what)


def ob_covers(name, xs_lean, xs_fn, fields_lean, fields_fn, label, path, what):
    lean = f"Covers {xs_lean} {fields_lean} = true"

    def check(c):
        xs, fields = xs_fn(c), fields_fn(c)
        bad = []
        for d in nodup_bad(xs):
            bad.append((f"{label}:duplicate:{d}", f"{c.where(path, d)}: {label}: '{d}' appears more than once"))
        for f in fields:
            if f not in xs:
                bad.append((f"{label}:missing:{f}",
                            f"{c.where(path, None)}: {label}: core field '{f}' is missing"))
        for x in dict.fromkeys(xs):
            if x not in fields:
                bad.append((f"{label}:extra:{x}", f"{c.where(path, x)}: {label}: '{x}' is not a core field"))
        return bad
    return Ob(name, lean, check, what)


def T(tab):
    return tab, (lambda c: list(c[tab]))


def K(tab):
    return f"(keys {tab})", (lambda c: keys(c[tab]))


def APP(a, b):
    return f"({a[0]} ++ {b[0]})", (lambda c: a[1](c) + b[1](c))


def ob_same_table(name, tab, ref, label, path, refpath, what):
    lean = f"SameTable {tab} {ref} = true"

    def check(c):
        xs, ys = c[tab], c[ref]
        bad = []
        for d in nodup_bad(keys(xs)):
            bad.append((f"{label}:duplicate:{d}", f"{c.where(path, d)}: {label}: '{d}' listed more than once"))
        for d in nodup_bad(keys(ys)):
            bad.append((f"{label}:core-duplicate:{d}", f"{c.where(refpath, d)}: core table lists '{d}' more than once"))
        dx, dy = dict(reversed(xs)), dict(reversed(ys))
        for k, v in ys:
            if k not in dx:
                bad.append((f"{label}:missing:{k}",
                            f"{c.where(path, None)}: {label}: '{k}' (core: {v!r} at {c.where(refpath, k)}) is missing"))
        for k, v in xs:
            if k not in dy:
                bad.append((f"{label}:extra:{k}", f"{c.where(path, k)}: {label}: '{k}' = {v!r} does not exist in the core"))
            elif (k, v) not in ys:
                bad.append((f"{label}:{k}:{v}!={dy[k]}",
                            f"{c.where(path, k)}: {label}: '{k}' is {v!r} but the code ({c.where(refpath, k)}) says {dy[k]!r}"))
        return bad
    return Ob(name, lean, check, what)


def ob_types(name, tmap, core, binding, label, path, what):
    lean = f"TypesMatch {tmap} {core} {binding} = true"

    def check(c):
        m, b = dict(reversed(c[tmap])), dict(reversed(c[binding]))
        bad = []
        for n, t in c[core]:
            exp, got = m.get(t), b.get(n)
            if exp is None or got is None or exp != got:
                bad.append((f"{label}:{n}:{got}!={exp}",
                            f"{c.where(path, n)}: {label}: '{n}' has {got!r}, expected {exp!r} for core type {t}"))
        return bad
    return Ob(name, lean, check, what)


def ob_custom(name, lean, fn, label, what):
    def check(c):
        msgs = fn(c)
        return [(f"{label}:{s}", t) for s, t in msgs]
    return Ob(name, lean, check, what)


# --------------------------------------------------------------------------------------------- the obligations

def c_wiring():
    """C API wiring (C16 static half; part of C17 as the C binding's 'wired in both directions')."""
    P = "interfaces/c/src/piqp.cpp"
    return [
        ob_wired("c_result_wired", "cUpdateResultPairs", "c:update_result", ("c", "update_result"),
                 f"{P} piqp_update_result: result->X = solver_result.X.data()"),
        ob_covers("c_result_complete", *K("cUpdateResultPairs"), *T("resultVecFields"), "c:update_result",
                  ("c", "update_result"), "every Vec member of Result<T> is copied exactly once"),
        ob_wired("c_result_info_wired", "cUpdateResultInfoPairs", "c:update_result_info", ("c", "update_result_info"),
                 f"{P} piqp_update_result: result->info.X = solver_result.info.X"),
        ob_covers("c_result_info_complete", *K("cUpdateResultInfoPairs"), *T("coreInfoFields"), "c:update_result_info",
                  ("c", "update_result_info"), "every member of Info<T> is copied exactly once"),
        ob_wired("c_defaults_wired", "cDefaultsPairs", "c:set_default_settings", ("c", "defaults"),
                 f"{P} piqp_set_default_settings: settings->X = default_settings.X"),
        ob_covers("c_defaults_complete", *K("cDefaultsPairs"), *T("coreSettingsFields"), "c:set_default_settings",
                  ("c", "defaults"), "every Settings member receives its default exactly once"),
        ob_custom("c_defaults_source", 'cDefaultsSourceType = "piqp::Settings<piqp_float>"',
                  lambda c: [] if c["cDefaultsSourceType"] == "piqp::Settings<piqp_float>" else
                  [("source", f"{P}: defaults are copied from a '{c['cDefaultsSourceType']}' object, "
                              "expected a default-constructed piqp::Settings<piqp_float>")],
                  "c:set_default_settings", "defaults come from a default-constructed piqp::Settings<piqp_float>"),
        ob_wired("c_settings_wired_dense", "cUpdateSettingsDensePairs", "c:update_settings_dense",
                 ("c", "update_settings_dense"), f"{P} piqp_update_settings, dense branch"),
        ob_covers("c_settings_complete_dense", *K("cUpdateSettingsDensePairs"), *T("coreSettingsFields"),
                  "c:update_settings_dense", ("c", "update_settings_dense"), "every Settings member is transferred exactly once"),
        ob_wired("c_settings_wired_sparse", "cUpdateSettingsSparsePairs", "c:update_settings_sparse",
                 ("c", "update_settings_sparse"), f"{P} piqp_update_settings, sparse branch"),
        ob_covers("c_settings_complete_sparse", *K("cUpdateSettingsSparsePairs"), *T("coreSettingsFields"),
                  "c:update_settings_sparse", ("c", "update_settings_sparse"), "every Settings member is transferred exactly once"),
        ob_custom("c_settings_branch_solvers",
                  '(cUpdateSettingsSolvers == [("dense", "DenseSolver"), ("sparse", "SparseSolver")] && '
                  'cSolverAliases == [("DenseSolver", "piqp::DenseSolver<piqp_float>"), '
                  '("SparseSolver", "piqp::SparseSolver<piqp_float,piqp_int>")]) = true',
                  lambda c: [] if (c["cUpdateSettingsSolvers"] == [("dense", "DenseSolver"), ("sparse", "SparseSolver")]
                                   and c["cSolverAliases"] == [("DenseSolver", "piqp::DenseSolver<piqp_float>"),
                                                               ("SparseSolver", "piqp::SparseSolver<piqp_float,piqp_int>")])
                  else [("solver-casts", f"{P} piqp_update_settings: branch solver casts {c['cUpdateSettingsSolvers']} / aliases "
                                         f"{c['cSolverAliases']} are not dense->DenseSolver, sparse->SparseSolver")],
                  "c:update_settings", "the is_dense branch writes the DenseSolver, the else branch the SparseSolver"),
        ob_same_table("c_status_values_equal", "cStatus", "coreStatus", "c:status", ("c", "status"), ("core", "status"),
                      "piqp_status enumerators and values = piqp::Status"),
    ]


def c17_only():
    obs = []
    # ---- core sanity
    obs.append(ob_custom(
        "core_tables_nonempty",
        "(coreSettingsFields != [] && coreInfoFields != [] && coreResultFields != [] && coreStatus != []) = true",
        lambda c: [("empty", "a core table is empty")] if not (c["coreSettingsFields"] and c["coreInfoFields"]
                                                               and c["coreResultFields"] and c["coreStatus"]) else [],
        "core", "the core tables are not vacuous"))
    obs.append(ob_custom(
        "core_result_shape",
        'coreResultTypes.filter (fun p => p.2 != "Vec<T>") = [("info", "Info<T>")]',
        lambda c: [] if [p for p in c["coreResultTypes"] if p[1] != "Vec<T>"] == [("info", "Info<T>")] else
        [("shape", f"include/piqp/results.hpp: Result<T> is not vectors + one `Info<T> info`: {c['coreResultTypes']}")],
        "core:result", "Result<T> = Vec members + info"))
    obs.append(ob_covers("core_status_strings_complete", *K("coreStatusStrings"), *K("coreStatus"), "core:status_to_string",
                         ("core", "status_strings"), "status_to_string has a case for every Status enumerator"))
    obs.append(ob_custom(
        "core_status_strings_distinct", "NoDup (vals coreStatusStrings) = true",
        lambda c: [(f"duplicate:{d}", f"include/piqp/results.hpp: status_to_string maps two enumerators to '{d}'")
                   for d in nodup_bad([p[1] for p in c["coreStatusStrings"]])],
        "core:status_to_string", "status strings (what Matlab/Octave users see) are distinct"))
    # ---- C struct layout (field names + types) and status
    for s, core in (("Settings", "coreSettings"), ("Info", "coreInfo"), ("Result", "coreResult")):
        low = s.lower()
        obs.append(ob_covers(f"c_{low}_fields_complete", *T(f"c{s}Fields"), *T(f"{core}Fields"), f"c:{low}_struct",
                             ("c", f"{low}_struct"), f"piqp_{low} has exactly the members of {s}<T>"))
        obs.append(ob_types(f"c_{low}_types_match", "cTypeMap", f"{core}Types", f"c{s}Types", f"c:{low}_struct:type",
                            ("c", f"{low}_struct"), f"piqp_{low} member types correspond to {s}<T>"))
    # ---- pybind11
    obs.append(ob_custom(
        "py_classes_named",
        "(Wired pyClasses && Covers (keys pyClasses) pyRequiredClasses) = true",
        lambda c: [(f"class:{a}<-{b}", f"interfaces/python/src/piqp_python.cpp: Python class '{a}' binds C++ '{b}'")
                   for a, b in c["pyClasses"] if a != b] +
                  [(f"class:missing:{n}", f"interfaces/python/src/piqp_python.cpp: no binding of class {n}")
                   for n in c["pyRequiredClasses"] if n not in keys(c["pyClasses"])] +
                  [(f"class:extra:{n}", f"interfaces/python/src/piqp_python.cpp: unexpected class {n}")
                   for n in keys(c["pyClasses"]) if n not in c["pyRequiredClasses"]] +
                  [(f"class:duplicate:{n}", f"interfaces/python/src/piqp_python.cpp: class {n} bound twice")
                   for n in nodup_bad(keys(c["pyClasses"]))],
        "py", "Settings/Info/Result/Status/DenseSolver/SparseSolver are bound under their own names"))
    for s, core in (("Settings", "coreSettings"), ("Info", "coreInfo"), ("Result", "coreResult")):
        low = s.lower()
        obs.append(ob_wired(f"py_{low}_wired", f"py{s}Pairs", f"py:{low}", ("pybind", low),
                            f"def_readwrite(\"X\", &piqp::{s}<T>::X)"))
        obs.append(ob_covers(f"py_{low}_complete", *K(f"py{s}Pairs"), *T(f"{core}Fields"), f"py:{low}",
                             ("pybind", low), f"every member of {s}<T> is bound exactly once"))
    obs.append(ob_custom(
        "py_settings_writable", 'AllVals pySettingsKinds ["readwrite"] = true',
        lambda c: [(f"readonly:{n}", f"{c.where(('pybind', 'settings'), n)}: Settings.{n} is bound {k}, not read-write")
                   for n, k in c["pySettingsKinds"] if k != "readwrite"],
        "py:settings", "every Settings attribute can be read and written from Python"))
    obs.append(ob_custom(
        "py_info_result_readable", '(AllVals pyInfoKinds ["readwrite", "readonly"] && AllVals pyResultKinds ["readwrite", "readonly"]) = true',
        lambda c: [(f"kind:{n}", f"Info/Result.{n} bound as {k}") for n, k in c["pyInfoKinds"] + c["pyResultKinds"]
                   if k not in ("readwrite", "readonly")],
        "py:info_result", "every Info/Result attribute can be read from Python"))
    obs.append(ob_wired("py_status_wired", "pyStatusPairs", "py:status", ("pybind", "status"),
                        ".value(\"X\", piqp::Status::X)"))
    obs.append(ob_covers("py_status_complete", *K("pyStatusPairs"), *K("coreStatus"), "py:status", ("pybind", "status"),
                         "every Status enumerator is bound exactly once"))
    obs.append(ob_custom("py_status_exported", "pyStatusExported = true",
                         lambda c: [] if c["pyStatusExported"] is True else
                         [("not-exported", "interfaces/python/src/piqp_python.cpp: enum_<Status> lacks .export_values()")],
                         "py:status", "status codes are exported to module level (piqp.PIQP_SOLVED)"))
    obs.append(ob_custom(
        "py_solver_props",
        "(SameTriples pyDenseSolverProps solverProps && SameTriples pySparseSolverProps solverProps) = true",
        lambda c: [(f"{which}:{p}", f"interfaces/python/src/piqp_python.cpp: {which} properties {c[tab]} != {c['solverProps']}")
                   for which, tab in (("DenseSolver", "pyDenseSolverProps"), ("SparseSolver", "pySparseSolverProps"))
                   for p in ["props"] if set(c[tab]) != set(c["solverProps"])],
        "py:solver", "both solvers expose settings (read-write) and result (read-only)"))
    # ---- .pyi stub
    for s, core in (("Settings", "coreSettings"), ("Info", "coreInfo"), ("Result", "coreResult")):
        low = s.lower()
        obs.append(ob_covers(f"pyi_{low}_fields_complete", *T(f"pyi{s}Fields"), *T(f"{core}Fields"), f"pyi:{low}",
                             ("pyi", low), f"class {s} in __init__.pyi lists exactly the members of {s}<T>"))
        obs.append(ob_types(f"pyi_{low}_types_match", "pyiTypeMap", f"{core}Types", f"pyi{s}Types", f"pyi:{low}:type",
                            ("pyi", low), f"annotations of class {s} correspond to the core types"))
    obs.append(ob_same_table("pyi_status_table", "pyiStatus", "coreStatus", "pyi:status", ("pyi", "status"),
                             ("core", "status"), "class Status in the stub: names and values"))
    obs.append(ob_wired("pyi_status_wired", "pyiStatusPairs", "pyi:status", ("pyi", "status"),
                        "X: ClassVar[Status]  # value = <Status.X: n>"))
    obs.append(ob_same_table("pyi_module_status_table", "pyiModuleStatus", "coreStatus", "pyi:module_status",
                             ("pyi", "module_status"), ("core", "status"), "module-level exported status values"))
    obs.append(ob_wired("pyi_module_status_wired", "pyiModuleStatusPairs", "pyi:module_status", ("pyi", "module_status"),
                        "X: piqp.Status  # value = <Status.X: n>"))
    # ---- mex
    obs.append(ob_covers("mex_settings_array_complete", *T("mexSettingsFieldArray"), *T("coreSettingsFields"),
                         "mex:settings_field_array", ("mex", "arrays", "PIQP_SETTINGS_FIELDS"),
                         "PIQP_SETTINGS_FIELDS = members of Settings<T>"))
    obs.append(ob_covers("mex_info_array_complete", *T("mexInfoFieldArray"), *APP(T("coreInfoFields"), K("infoAliases")),
                         "mex:info_field_array", ("mex", "arrays", "PIQP_INFO_FIELDS"),
                         "PIQP_INFO_FIELDS = members of Info<T> + status_val"))
    obs.append(ob_covers("mex_result_array_complete", *T("mexResultFieldArray"), *T("coreResultFields"),
                         "mex:result_field_array", ("mex", "arrays", "PIQP_RESULT_FIELDS"),
                         "PIQP_RESULT_FIELDS = members of Result<T>"))
    obs.append(ob_custom(
        "mex_struct_arrays",
        'mexStructArrays = [("settings", "PIQP_SETTINGS_FIELDS"), ("info", "PIQP_INFO_FIELDS"), ("result", "PIQP_RESULT_FIELDS")]',
        lambda c: [] if c["mexStructArrays"] == [("settings", "PIQP_SETTINGS_FIELDS"), ("info", "PIQP_INFO_FIELDS"),
                                                 ("result", "PIQP_RESULT_FIELDS")] else
        [("arrays", f"interfaces/matlab/piqp_mex.cpp: structs are created from the wrong field arrays: {c['mexStructArrays']}")],
        "mex:struct_arrays", "each Matlab struct is created from its own field-name array"))
    for b, B, fx, cmap, convw in (("mex", "mex", "mx", "mexCastMap", "cast"), ("oct", "oct", "ov", "octAccessorMap", "accessor")):
        obs.append(ob_wired(f"{b}_settings_to_struct_wired", f"{B}SettingsToStruct", f"{b}:settings_to_struct",
                            (b, "settings_to_struct"), f"settings_to_{fx}_struct: key \"X\" <- settings.X",
                            fmt="struct key \"{dst}\" is filled from Settings member '{src}'; expected member '{dst}'"))
        obs.append(ob_covers(f"{b}_settings_to_struct_complete", *K(f"{B}SettingsToStruct"), *T("coreSettingsFields"),
                             f"{b}:settings_to_struct", (b, "settings_to_struct"), "every Settings member is written to the struct once"))
        obs.append(ob_wired(f"{b}_struct_to_settings_wired", f"{B}StructToSettings", f"{b}:struct_to_settings",
                            (b, "struct_to_settings"), f"copy_{fx}_struct_to_settings: settings.X <- key \"X\"",
                            fmt="Settings member '{dst}' is read from struct key \"{src}\"; expected key \"{dst}\""))
        obs.append(ob_covers(f"{b}_struct_to_settings_complete", *K(f"{B}StructToSettings"), *T("coreSettingsFields"),
                             f"{b}:struct_to_settings", (b, "struct_to_settings"), "every Settings member is read from the struct once"))
        obs.append(ob_types(f"{b}_struct_to_settings_typed", cmap, "coreSettingsTypes", f"{B}StructToSettingsConv",
                            f"{b}:struct_to_settings:{convw}", (b, "struct_to_settings"),
                            f"the {convw} used for each member matches the member's core type"))
        obs.append(ob_wired(f"{b}_info_to_struct_wired", f"{B}InfoToStruct", f"{b}:info_to_struct", (b, "info_to_struct"),
                            f"result_to_{fx}_struct: info key \"X\" <- result.info.X (status_val <- status allowed)",
                            aliases="infoAliases"))
        obs.append(ob_covers(f"{b}_info_to_struct_complete", *K(f"{B}InfoToStruct"),
                             *APP(T("coreInfoFields"), K("infoAliases")), f"{b}:info_to_struct", (b, "info_to_struct"),
                             "every Info member (+ status_val) is written once"))
        obs.append(ob_wired(f"{b}_result_to_struct_wired", f"{B}ResultToStruct", f"{b}:result_to_struct",
                            (b, "result_to_struct"), f"result_to_{fx}_struct: key \"X\" <- result.X"))
        obs.append(ob_covers(f"{b}_result_to_struct_complete", *K(f"{B}ResultToStruct"), *T("coreResultFields"),
                             f"{b}:result_to_struct", (b, "result_to_struct"), "every Result member is written once"))
        obs.append(ob_custom(
            f"{b}_entry_point_uses", f"SameTriples {B}Uses {B}RequiredUses = true",
            (lambda B: lambda c: [(f"use:{'/'.join(u)}", f"{B}: copy function call sites {sorted(set(c[B + 'Uses']))} != required {c[B + 'RequiredUses']}")
                                  for u in sorted(set(c[B + "Uses"]) ^ set(c[B + "RequiredUses"]))])(B),
            f"{b}:dispatcher", "get_settings/update_settings/setup/solve call the copy functions for both backends"))
    # ---- docs
    obs.append(ob_same_table("docs_defaults_match", "docsSettingsDefaults", "coreSettingsDefaults", "docs:default",
                             ("docs", "settings"), ("core", "settings"),
                             "docs/interfaces/settings.md: every setting with the default of settings.hpp"))
    obs.append(ob_same_table("docs_status_table", "docsStatus", "coreStatus", "docs:status", ("docs", "status"),
                             ("core", "status"), "docs/_common/status_code_table.md: names and values"))
    return obs


def OBLIGATIONS(pid):
    if pid == "C16":
        return c_wiring()
    return c17_only() + c_wiring()


# --------------------------------------------------------------------------------------------- Lean side

def ws(s):
    return " ".join(s.split())


def lean_theorems(pid):
    """[(short name, statement text, tactic, line)] of PiqpProofs/Properties/<pid>.lean (comments stripped)."""
    path = os.path.join(common.LEAN, "PiqpProofs", "Properties", pid + ".lean")
    body = common.strip_comments(open(path).read())
    out = []
    for m in re.finditer(r"^theorem\s+(\S+)\s*:(.*?):=\s*by\s+(decide(?:\s*\+kernel)?)\s*$", body, re.S | re.M):
        out.append((m.group(1), ws(m.group(2)), ws(m.group(3)), body.count("\n", 0, m.start()) + 1))
    return out


def failing_theorems(pid, log):
    """Theorems of <pid>.lean at which lake reported an error (from the error positions)."""
    thms = lean_theorems(pid)
    bad = []
    other = False
    for m in re.finditer(r"error:\s*(\S*?)([\w/]+\.lean):(\d+):(\d+)", log):
        f, ln = m.group(2), int(m.group(3))
        if not f.endswith(f"Properties/{pid}.lean"):
            other = True
            continue
        owner = None
        for name, _, _, l0 in thms:
            if l0 <= ln:
                owner = name
        if owner is None:
            other = True
        elif owner not in bad:
            bad.append(owner)
    return bad, other


def emit_lean(pid):
    """Development helper: print the theorem block of <pid>.lean from the obligation list."""
    lines = []
    for ob in OBLIGATIONS(pid):
        lines.append(f"/-- {ob.what} -/")
        lines.append(f"theorem {ob.name} :\n    {ob.lean} := by decide\n")
    return "\n".join(lines)


# --------------------------------------------------------------------------------------------- the check

def static_tables_check(chk):
    """Translator + proof + failing-input search for chk.pid (C16 or C17).  Returns True when everything held."""
    pid = chk.pid
    ns = f"Piqp.{pid}"
    ok_t, tj, tlog = run_translator()
    chk.cov["translator_cmd"] = f"python3 translate/tables.py --repo {common.REPO}"
    if not ok_t:
        first = next((l for l in tlog.splitlines() if l.startswith("TRANSLATE-ERROR")), tlog.strip().splitlines()[-1] if tlog.strip() else "no output")
        sig = "translator:" + re.sub(r"\s+", "_", first.replace("TRANSLATE-ERROR ", ""))[:160]
        chk.violation(sig, "the table translator failed closed: a binding source has a construct it does not "
                           "understand, so no table (and no proof) exists for this tree.\n\n" + tlog, no_input=True)
        chk.cov.setdefault("obligations", len(OBLIGATIONS(pid)))
        chk.cov.setdefault("discharged", 0)
        chk.cov.setdefault("checker_cmd", "not reached: translator failed")
        return False
    chk.log(tlog.strip().splitlines()[-1] if tlog.strip() else "translator ok")
    ctx = Ctx(tj)
    generated_sha = tj["lean_sha256"]

    # -- Lean
    ok = chk.proof_stage()
    proof_log = getattr(chk, "proof_log", "")
    audit_failed = any(s.startswith("audit:") for s, _, _ in chk.violations)
    with open(TABLES_LEAN, "rb") as f:
        on_disk = hashlib.sha256(f.read()).hexdigest()
    chk.cov["tables_lean_sha256"] = generated_sha
    if on_disk != generated_sha:
        chk.violation(f"internal:{pid}:tables-changed-during-build",
                      "Generated/Tables.lean on disk is not the text this run generated (concurrent run against "
                      "another tree?); the Lean verdict cannot be attributed to this tree.", no_input=True)

    # -- statement correspondence Lean <-> Python
    obs = OBLIGATIONS(pid)
    lean = {n: (st, tac) for n, st, tac, _ in lean_theorems(pid)}
    registered = [t.split(".")[-1] for t in common.property_theorems(pid)]
    incons = []
    for ob in obs:
        if ob.name not in lean:
            incons.append(f"obligation {ob.name} has no `theorem {ob.name} : ... := by decide` in {pid}.lean")
        elif lean[ob.name][0] != ws(ob.lean):
            incons.append(f"theorem {ob.name}: Lean states `{lean[ob.name][0]}` but the Python search recomputes `{ws(ob.lean)}`")
    for n in registered:
        if n not in {o.name for o in obs}:
            incons.append(f"theorem {n} of {pid}.lean has no Python counterpart")
    if incons:
        chk.violation(f"internal:{pid}:statement-mismatch", "Lean theorems and the Python failing-input search disagree "
                      "about WHAT is checked:\n" + "\n".join(incons), no_input=True)

    # -- failing-input search (always; it also guards the translator/Lean pipeline when the proof passes)
    mism = {}
    for ob in obs:
        r = ob.check(ctx)
        if r:
            mism[ob.name] = r
    py_fail = sorted(mism)
    chk.cov["python_recomputed_obligations"] = len(obs)
    chk.cov["python_refuted"] = py_fail

    # every concrete mismatch is a finding about the tree, whatever Lean said
    lean_fail, other = ([], False) if (ok or audit_failed) else failing_theorems(pid, proof_log)
    for n in py_fail:
        ob = next(o for o in obs if o.name == n)
        for sig, text in mism[n]:
            chk.violation(sig, f"{text}\n\nobligation: {ob.what}\nrefuted Lean theorem: {ns}.{n}   "
                               f"(statement: {ws(ob.lean)})\n"
                               f"tables: {os.path.relpath(TABLES_LEAN, common.ROOT)} generated from {common.REPO}\n"
                               f"lake refused the proof of: {', '.join(lean_fail) or '(nothing)'}")
    if ok:
        if py_fail:
            chk.violation(f"internal:{pid}:lean-accepts-python-refutes:{py_fail[0]}",
                          f"Lean proved every theorem but the Python recomputation over the same tables refutes {py_fail}",
                          no_input=True)
    elif not audit_failed:
        chk.cov["lean_refused"] = lean_fail
        if lean_fail:
            # theorems lake did not complain about were elaborated and kernel-checked, but not axiom-audited
            # (no .olean exists for a module with an error); `discharged` therefore stays 0 for this run
            chk.cov["elaborated_without_error"] = len(registered) - len(lean_fail)
        if not py_fail:
            first = lean_fail[0] if lean_fail else "build"
            chk.violation(f"proof:{pid}:{first}", "the Lean build failed but the Python search finds no table mismatch.\n\n"
                          + proof_log[-6000:], no_input=True)
        elif sorted(lean_fail) != py_fail or other:
            chk.violation(f"internal:{pid}:verdicts-differ",
                          f"Lean refuses {sorted(lean_fail)} (+ errors elsewhere: {other}); Python refutes {py_fail}.\n\n"
                          + proof_log[-6000:], no_input=True)

    # -- coverage
    L = ctx.L
    chk.cov["exhaustive"] = True
    chk.cov["rule"] = ("finite: every member of Settings/Info/Result and every Status enumerator x every binding "
                       "source x direction; tables regenerated from the working tree on this run")
    chk.cov["fields"] = {"settings": len(L["coreSettingsFields"]), "info": len(L["coreInfoFields"]),
                         "result": len(L["coreResultFields"]), "status": len(L["coreStatus"])}
    pair_tabs = [k for k, v in tj["lean"].items() if isinstance(v, list)]
    chk.cov["table_rows"] = {k: len(L[k]) for k in pair_tabs if pid == "C17" or k.startswith(("c", "core"))}
    chk.cov["evaluations"] = sum(chk.cov["table_rows"].values())
    chk.cov["sources"] = tj["sources"]
    return ok and not py_fail and not incons


# --------------------------------------------------------------------------------------------- dynamic mex cross-check

def write_hmex_fields(L):
    """X-macro lists of the CORE fields (from settings.hpp/results.hpp only) for harness/hmex.cpp."""
    kinds = {"T": "T", "isize": "isize", "bool": "bool", "Status": "Status"}
    lines = ["// generated by vlib/props/c17.py from the core tables of translate/tables.py -- do not edit"]

    def block(macro, rows):
        lines.append(f"#define {macro}(X) \\")
        lines.extend(f"    {r} \\" for r in rows)
        lines.append("")
    st = [(n, t) for n, t in L["coreSettingsTypes"]]
    inf = [(n, t) for n, t in L["coreInfoTypes"]]
    vec = [n for n, t in L["coreResultTypes"] if t == "Vec<T>"]
    for n, t in st + inf:
        if t not in kinds:
            return None, f"core member {n} has type {t}, which the mex harness cannot fabricate"
    lines.append(f"#define HMEX_N_SETTINGS {len(st)}")
    block("HMEX_SETTINGS_FIELDS", [f"X({n}, {kinds[t]})" for n, t in st])
    lines.append(f"#define HMEX_N_INFO {len(inf)}")
    block("HMEX_INFO_FIELDS", [f"X({n}, {kinds[t]})" for n, t in inf])
    lines.append(f"#define HMEX_N_RESULT_VEC {len(vec)}")
    block("HMEX_RESULT_VEC_FIELDS", [f"X({n})" for n in vec])
    path = os.path.join(common.BUILD, "hmex_fields.inc")
    content = "\n".join(lines) + "\n"
    try:
        same = open(path).read() == content
    except OSError:
        same = False
    if not same:
        tmp = f"{path}.tmp{os.getpid()}"
        with open(tmp, "w") as f:
            f.write(content)
        os.replace(tmp, path)
    return path, None


def dynamic_mex(chk, L):
    """Compile the real piqp_mex.cpp against harness/mockmex/mex.h and round-trip every core field through
    mexFunction (both backends).  Guards the translator's reading of the mex file with an execution."""
    inc, err = write_hmex_fields(L)
    if inc is None:
        chk.violation("mex:dynamic:fields", err, no_input=True)
        return
    mock = os.path.join(common.HARNESS, "mockmex")
    mex_src = os.path.join(common.REPO, "interfaces", "matlab", "piqp_mex.cpp")
    ok, exe, log = common.build_cpp(
        "hmex", [os.path.join(common.HARNESS, "hmex.cpp")],
        flags=["-O1", "-w", "-I", mock, "-I", common.BUILD, f'-DMEX_SOURCE="{mex_src}"'],
        extra_dep_files=[inc, os.path.join(mock, "mex.h")], hooks=False, timeout=900)
    if not ok:
        chk.violation("mex:dynamic:build", "interfaces/matlab/piqp_mex.cpp does not compile against the mock MEX runtime "
                      "with the core field lists (a core field the harness reads may not exist, or the mex file uses an "
                      "API the mock lacks):\n\n" + log[-5000:], no_input=True)
        return
    rc, out = common.sh([exe], timeout=300)
    done = re.search(r"^DONE (\d+) (\d+)$", out, re.M)
    bad = re.findall(r"^MISMATCH (\S+) (.*)$", out, re.M)
    if rc != 0 or not done:
        chk.violation("mex:dynamic:crash", f"hmex exited with {rc} without finishing:\n{out[-3000:]}", no_input=True)
        return
    chk.cov["mex_dynamic_checks"] = int(done.group(1))
    chk.cov["mex_dynamic_mismatches"] = len(bad)
    chk.cov["mex_dynamic_cmd"] = "harness/hmex.cpp: real piqp_mex.cpp + mock mex.h; every core field x {dense,sparse} x both directions"
    for sig, text in bad:
        chk.violation(sig, f"interfaces/matlab/piqp_mex.cpp under the mock MEX runtime: {sig}: {text}\n"
                           f"(value pushed through mexFunction differs from the C++ object behind the handle)\n"
                           f"run: {exe}")


def add_samples(chk, ctx_tables):
    L = ctx_tables
    for tab, i in (("octStructToSettings", 9), ("mexInfoToStruct", 1), ("pySettingsPairs", 4),
                   ("cUpdateSettingsSparsePairs", 22), ("docsSettingsDefaults", 22), ("pyiStatus", 1)):
        if tab in L and len(L[tab]) > i:
            chk.sample({"table": tab, "row": i, "pair": list(L[tab][i])})


def run(replay=None):
    chk = Check("C17", "proof")
    if replay:
        chk.log(f"replay {replay}: the check is a pure function of the working tree; re-running it in full")
    static_tables_check(chk)
    tables = None
    try:
        with open(TABLES_JSON) as f:
            tables = json.load(f)["lean"]
    except (OSError, ValueError, KeyError):
        pass
    if tables is not None and not any(s.startswith("translator:") for s, _, _ in chk.violations):
        add_samples(chk, tables)
        dynamic_mex(chk, tables)
    # "the same meaning": a field can be wired name-for-name and still arrive too late or in the wrong units.  For the C binding
    # the meaning is observed: the same history through piqp_* and through the C++ class it wraps must agree bit for bit, with
    # every settings field at a non-default value both before setup and between solves (shared with C16's dynamic half).
    from . import c16
    c16.dynamic_part(chk)
    chk.cov["trusted_base"] = chk.cov["trusted_base"][:2] + [
        "translate/tables.py (regex/brace-matching extractor; fails closed on unparsed statements inside the blocks it reads)",
        "PiqpProofs/TableLogic.lean predicates (Wired, Covers, SameTable, TypesMatch) and the alias/type vocabularies written there",
        "the file list of the property (bindings outside those files, e.g. the .m wrappers, are not covered)",
        "harness/hmex.cpp + harness/mockmex/mex.h, g++ 12 (dynamic cross-check of the mex path only; it can add "
        "violations, it discharges no obligation)",
    ]
    chk.assumptions.append("a binding is 'wired' when the textual member/key names on both sides of each copy "
                           "statement coincide; value conversions are checked only by cast/accessor kind")
    return chk.finish()


if __name__ == "__main__":
    if len(sys.argv) > 1 and sys.argv[1] == "--emit-lean":
        print(emit_lean(sys.argv[2]))
    else:
        sys.exit(run())
