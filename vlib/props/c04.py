"""C04 — an updated solver is equivalent to a freshly set-up solver."""
import random
from fractions import Fraction as F

from .. import gen_sol
from ..common import Check
from ..diffrun import case_text
from . import solcommon

PID = "C04"


def make_cases(chk, rng):
    cases = []
    thorough = chk.thorough()

    def settings(n, be):
        st = gen_sol.rand_settings(rng, max_iter=1)
        st["eps_abs"] = rng.choice([F(1, 2 ** 20), F(8), F(2 ** 10)])
        st["eps_duality_gap_abs"] = rng.choice([F(1, 2 ** 20), F(2 ** 12)])
        st["preconditioner_iter"] = rng.choice([0, 1, 2, 10])
        st["preconditioner_scale_cost"] = rng.choice([0, 1])
        return st

    # exhaustive over the 2^8 argument subsets x reuse x solve-in-between for one update (thorough: on every back end)
    k = 0
    for mask in range(256):
        for reuse in (0, 1):
            for between in (0, 1):
                bes = range(5) if thorough else [k % 5]
                for be in bes:
                    n = rng.choice([2, 2, 3])
                    h = gen_sol.Hist(rng, f"u{k}", be, rng.choice([0, 0, 1]), settings(n, be), dims=(n, rng.choice([0, 1, 2]), rng.choice([1, 2])))
                    h.setup()
                    if between:
                        h.solve()
                    h.update(mask, bool(reuse))
                    h.solve()
                    cases.append(h.case(kind="one-update", mask=mask, reuse=reuse, between=between))
                    k += 1
    # two updates / repeated setup / longer random histories
    for i in range(1500 if thorough else 150):
        be = rng.randrange(5)
        n = rng.choice([1, 2, 3])
        h = gen_sol.Hist(rng, f"v{i}", be, rng.choice([0, 0, 1]), settings(n, be), dims=(n, None, None))
        h.setup()
        for _ in range(rng.choice([2, 2, 3])):
            r = rng.random()
            if r < 0.25:
                h.solve()
            elif r < 0.35:
                h.setup()       # repeated setup on the same solver object
            else:
                h.update(rng.randrange(256), rng.random() < 0.5)
        h.solve()
        cases.append(h.case(kind="random-history"))
    # h crossing the infinity threshold both ways
    for i in range(60 if thorough else 15):
        be = rng.randrange(5)
        h = gen_sol.Hist(rng, f"x{i}", be, rng.choice([0, 1]), settings(2, be), dims=(2, 0, 2))
        pr = h.prob
        pr.allow_hrow = True
        pr.h = [x if not isinstance(x, str) else F(1) for x in pr.h]
        h.setup().precheck()
        keep = list(pr.h)
        pr.h = ["inf"] + keep[1:]
        h.raw("sol.sqrtmode -1", "").raw("sol.update 1 " + pr.vec_arg("h", pr.h), "update(h->inf)").dump().precheck()
        h.solve()
        mode = rng.choice(["G-alone", "h-finite-with-G", "h-finite-alone"])
        if mode == "G-alone":
            # new G while row 0 is disabled: the row must stay disabled
            pr.G = gen_sol.rnd_mat(rng, pr.m, pr.n, pr.maskG)
            h.raw("sol.sqrtmode -1", "").raw("sol.update 1 " + pr.mat_arg("G", pr.G, pr.maskG, pr.m, pr.n, h.sparse), "update(G)").dump().precheck()
        elif mode == "h-finite-with-G":
            pr.h = list(keep)
            h.raw("sol.sqrtmode -1", "").raw("sol.update 1 " + pr.mat_arg("G", pr.G, pr.maskG, pr.m, pr.n, h.sparse) + " " + pr.vec_arg("h", pr.h), "update(G,h->finite)").dump().precheck()
        else:
            pr.h = list(keep)
            h.raw("sol.sqrtmode -1", "").raw("sol.update 1 " + pr.vec_arg("h", pr.h), "update(h->finite)").dump().precheck()
        h.solve()
        cases.append(h.case(kind="h-crossing", mode=mode))
    return cases


def run(replay=None):
    chk = Check(PID, "proof")
    rng = random.Random(chk.seed * 5003 + 4)
    proof_ok = solcommon.prepare(chk, leancheck=chk.thorough())
    if proof_ok is None:
        return chk.finish()
    cases = make_cases(chk, rng)
    res = solcommon.run_cases(chk, cases)
    if res is None:
        return chk.finish()
    nsolved, nfail = 0, 0
    for c in cases:
        r = res.get(c["name"])
        if not r or not r["corr_ok"]:
            continue
        # data coherence after every op of the h-crossing histories: the stored (scaled) data must be the user's current data
        if c["meta"].get("kind") == "h-crossing" and not r["trapped"]:
            for k, chkres in enumerate(r["checks"]):
                fails = chkres.get("pre", [])
                if fails:
                    sig = "impl:h-row:reenable" if c["meta"]["mode"] == "h-finite-alone" else f"impl:h-row:{c['meta']['mode']}:{fails[0]}"
                    chk.violation(sig, "after this update history the solver's stored problem is not the user's current problem "
                                  "(blocks that differ: " + ", ".join(fails) + f")\ncase {c['name']} check #{k} meta={c['meta']}\n\ninput:\n" + case_text(c))
                    break
        solves = solcommon.solve_events(r["events"])
        for k, ((status, dump), chkres) in enumerate(zip(solves, r["checks"])):
            if status != 1:
                continue
            nsolved += 1
            fails = chkres.get("cert", [])
            if fails:
                nfail += 1
                kind = c["meta"].get("kind")
                sig = f"impl:updcert:{kind}:be{c['meta']['be']}:{fails[0]}" if kind != "h-crossing" else f"impl:updcert:h-crossing:{fails[0]}"
                if kind == "h-crossing" and c["meta"].get("mode") == "h-finite-alone":
                    # the history of known finding F16b: the SOLVED point ignoring the re-posed row is the same defect seen at the result
                    sig = "impl:h-row:reenable"
                if nfail <= 6:
                    chk.violation(sig,
                                  "after a history of updates solve() returned PIQP_SOLVED but the point is not a certificate for the "
                                  "effective problem (latest value of each block): " + ", ".join(fails)
                                  + f"\ncase {c['name']} solve #{k} meta={c['meta']}\n\ninput:\n" + case_text(c)
                                  + "\nimplementation output:\n" + "\n".join(x[:300] for x in r["impl"]))
    chk.cov["solved_after_update_certified_exactly"] = nsolved
    chk.cov["certificate_failures"] = nfail
    chk.cov["exhaustive"] = True
    return solcommon.finish(chk, proof_ok, PID,
                            "setup;(solve);update(mask,reuse);solve for all 2^8 argument subsets x reuse x solve-in-between (quick: back end "
                            "rotating; thorough: every back end), random longer histories incl. repeated setup, h crossing the infinity "
                            "threshold both ways; white-box state compared after every op; every SOLVED certified for the effective data", cases)
