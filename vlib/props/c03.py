"""C03 — verdicts are never contradicted by exact ground truth."""
import itertools
import math
import random
from fractions import Fraction as F

from .. import gen_dbl, skelrun
from ..common import Check, lake_build
from ..diffrun import case_text, run_chunks
from .. import exactlp
from ..exactlp import classify_checked

PID = "C03"


def problem_from_int(n, p, m, P, c, A, b, G, h, lb, ub):
    pr = gen_dbl.DProblem(n, p, m)
    pr.P = [[float(v) for v in r] for r in P]
    pr.c = [float(v) for v in c]
    pr.A = [[float(v) for v in r] for r in A]
    pr.b = [float(v) for v in b]
    pr.G = [[float(v) for v in r] for r in G]
    pr.h = [float(v) for v in h]
    pr.lb = [(-math.inf if v is None else float(v)) for v in lb]
    pr.ub = [(math.inf if v is None else float(v)) for v in ub]
    pr.maskP = pr.maskA = pr.maskG = None
    return pr


def grid_problems(rng, count, thorough):
    """small integer grid: n <= 2, entries in {-1,0,1}, all block presences, LPs and singular P"""
    out = []
    vals = [-1, 0, 1]
    while len(out) < count:
        n = rng.choice([1, 2, 2])
        p = rng.choice([0, 0, 1])
        m = rng.choice([0, 1, 2])
        kind = rng.choice(["lp", "singular", "pd"])
        if kind == "lp":
            P = [[0] * n for _ in range(n)]
        elif kind == "singular":
            v = [rng.choice(vals) for _ in range(n)]
            P = [[v[i] * v[j] for j in range(n)] for i in range(n)]
        else:
            P = [[(1 if i == j else 0) for j in range(n)] for i in range(n)]
        c = [rng.choice(vals) for _ in range(n)]
        A = [[rng.choice(vals) for _ in range(n)] for _ in range(p)]
        b = [rng.choice(vals) for _ in range(p)]
        G = [[rng.choice(vals) for _ in range(n)] for _ in range(m)]
        h = [rng.choice(vals) for _ in range(m)]
        lb = [rng.choice([None, None, -1, 0]) for _ in range(n)]
        ub = [rng.choice([None, None, 0, 1]) for _ in range(n)]
        out.append((n, p, m, P, c, A, b, G, h, lb, ub, "grid-" + kind))
    return out


def degenerate_problems(rng, count):
    """strictly convex problems with arbitrary constraint degeneracy: duplicated rows, fixed variables, p > n consistent,
    no Slater point; plus constructed Farkas-infeasible and recession-unbounded ones"""
    out = []
    for _ in range(count):
        n = rng.randint(1, 3)
        kind = rng.choice(["dup", "fixed", "p>n", "noslater", "farkas", "recession", "farkas-crossing-bounds", "farkas-lb-eq",
                           "farkas-ub-ineq"])
        P = [[(rng.randint(1, 3) if i == j else 0) for j in range(n)] for i in range(n)]
        c = [rng.randint(-2, 2) for _ in range(n)]
        x0 = [rng.randint(-1, 1) for _ in range(n)]
        A, b, G, h = [], [], [], []
        lb, ub = [None] * n, [None] * n
        if kind == "dup":
            r = [rng.randint(-1, 1) for _ in range(n)]
            G = [r, list(r), [2 * v for v in r]]
            hv = sum(r[j] * x0[j] for j in range(n)) + rng.randint(0, 1)
            h = [hv, hv, 2 * hv]
            A = [r] if rng.random() < 0.3 else []
            b = [sum(r[j] * x0[j] for j in range(n))] if A else []
        elif kind == "fixed":
            lb = list(x0); ub = list(x0)
            G = [[rng.randint(-1, 1) for _ in range(n)]]
            h = [sum(G[0][j] * x0[j] for j in range(n)) + rng.randint(0, 1)]
        elif kind == "p>n":
            rows = [[rng.randint(-1, 1) for _ in range(n)] for _ in range(n + 2)]
            A = rows; b = [sum(r[j] * x0[j] for j in range(n)) for r in rows]
        elif kind == "noslater":
            r = [rng.choice([-1, 1]) for _ in range(n)]
            v = sum(r[j] * x0[j] for j in range(n))
            G = [r, [-t for t in r]]; h = [v, -v]
        elif kind == "farkas":
            r = [rng.choice([-1, 1]) for _ in range(n)]
            G = [r, [-t for t in r]]; h = [0, -1]           # r.x <= 0 and r.x >= 1
            P = [[(1 if i == j else 0) for j in range(n)] for i in range(n)]
        elif kind == "farkas-crossing-bounds":
            j = rng.randrange(n)
            lb = [rng.choice([None, -2]) for _ in range(n)]; ub = [rng.choice([None, 3]) for _ in range(n)]
            lb[j] = 1; ub[j] = 0                              # lb_j > ub_j
        elif kind == "farkas-lb-eq":
            lb = [0] * n                                      # x >= 0 and sum x = -2
            A = [[1] * n]; b = [-2]
        elif kind == "farkas-ub-ineq":
            ub = [0] * n                                      # x <= 0 and -sum x <= -1
            G = [[-1] * n]; h = [-1]
        else:
            P = [[0] * n for _ in range(n)]
            c = [-1] + [0] * (n - 1)
            lb = [0] + [None] * (n - 1)
        out.append((n, len(A), len(G), P, c, A, b, G, h, lb, ub, "constructed-" + kind))
    return out


def run(replay=None):
    chk = Check(PID, "proof")
    rng = random.Random(chk.seed * 401 + 3)
    proof_ok = chk.proof_stage(leancheck=chk.thorough())
    try:
        exe = skelrun.build_hsold()
    except RuntimeError as e:
        chk.violation("build:hsold", str(e), True)
        return chk.finish()
    thorough = chk.thorough()
    raw = grid_problems(rng, 6000 if thorough else 500, thorough) + degenerate_problems(rng, 2000 if thorough else 200)
    cases, truth = [], {}
    classes = {}
    for k, (n, p, m, P, c, A, b, G, h, lb, ub, kind) in enumerate(raw):
        cls0, _ = classify_checked([[F(v) for v in r] for r in P], [F(v) for v in c], A, b, G, h,
                                   [None if v is None else F(v) for v in lb], [None if v is None else F(v) for v in ub])
        if cls0 == "optimal" and rng.random() < 0.4:
            # an equivalent, badly scaled problem: x_j = s_j x'_j (the class is invariant; it is re-decided exactly below). The random
            # part scales only problems that HAVE a solution (no false infeasibility verdict under scaling); badly scaled infeasible /
            # unbounded problems are a FIXED corpus below, because some of them hit the known finding F20 (listed input by input).
            sc = [rng.choice([F(1), F(100), F(1, 32), F(64)]) for _ in range(n)]
            P = [[F(P[i][j]) * sc[i] * sc[j] for j in range(n)] for i in range(n)]
            c = [F(c[j]) * sc[j] for j in range(n)]
            A = [[F(A[i][j]) * sc[j] for j in range(n)] for i in range(p)]
            G = [[F(G[i][j]) * sc[j] for j in range(n)] for i in range(m)]
            lb = [None if v is None else F(v) / sc[j] for j, v in enumerate(lb)]
            ub = [None if v is None else F(v) / sc[j] for j, v in enumerate(ub)]
            kind = kind + "+colscaled"
        cls, cert = classify_checked([[F(v) for v in r] for r in P], [F(v) for v in c], A, b, G, h,
                                     [None if v is None else F(v) for v in lb], [None if v is None else F(v) for v in ub])
        classes[cls] = classes.get(cls, 0) + 1
        pr = problem_from_int(n, p, m, P, c, A, b, G, h, lb, ub)
        for be in range(5):
            name = f"g{k}_{be}"
            # (the duality-gap test stays on here; the fixed corpus below switches it off)
            st = rng.choice([{}, {}, {"eps_abs": 1e-6, "eps_rel": 1e-7}])
            body = ["d.setup " + pr.args(False), "d.solve", "d.result"]
            hist = "direct"
            rh = rng.random()
            nfin = sum(1 for v in list(lb) + list(ub) if v is not None)
            if nfin and 0.25 <= rh < 0.45:
                # the same problem reached by making bounds finite in an update (the number of finite bounds grows, the new ones
                # not necessarily first in index order), with or without a solve in between and either reuse value
                drop = [rng.random() < 0.6 for _ in range(2 * n)]
                if not any(d and v is not None for d, v in zip(drop, list(lb) + list(ub))):
                    drop = [True] * (2 * n)
                lb0 = [None if drop[j] else lb[j] for j in range(n)]
                ub0 = [None if drop[n + j] else ub[j] for j in range(n)]
                pr0 = problem_from_int(n, p, m, P, c, A, b, G, h, lb0, ub0)
                body = ["d.setup " + pr0.args(False)] + (["d.solve"] if rng.random() < 0.5 else []) + \
                       [f"d.update {rng.choice([0, 1, 1])} " + pr.args(False, ["lb", "ub"]), "d.solve", "d.result"]
                hist = "bounds-history"
            elif any(any(v != 0 for v in r) for r in P) and 0.45 <= rh < 0.6:
                # the same problem reached by an update of P (stored with both triangles; same zero pattern: 3 P first)
                pr0 = problem_from_int(n, p, m, [[3 * F(v) for v in r] for r in P], c, A, b, G, h, lb, ub)
                body = ["d.setup " + pr0.args(False)] + (["d.solve"] if rng.random() < 0.5 else []) + \
                       [f"d.update {rng.choice([0, 1])} " + pr.args(False, ["P"]), "d.solve", "d.result"]
                hist = "P-history"
            if m and rh < 0.25:
                # the same problem reached through updates: a row of G first disabled by h_i = +inf, then h made finite together
                # with G, then G passed alone (F16a/F17 family): the effective problem is the original one
                i0 = rng.randrange(m)
                h_inf = list(pr.h); h_inf[i0] = math.inf
                pr_inf = problem_from_int(n, p, m, P, c, A, b, G, h, lb, ub); pr_inf.h = h_inf
                body = ["d.setup " + pr_inf.args(False), f"d.update {rng.choice([0, 1])} " + pr.args(False, ["G", "h"]),
                        f"d.update {rng.choice([0, 1])} " + pr.args(False, ["G"]), "d.solve", "d.result"]
                hist = "h-row-history"
            L = gen_dbl.case_lines(be, rng.choice([0, 1]), st, body)
            cases.append({"name": name, "lines": L, "meta": {"be": be, "kind": kind, "class": cls, "settings": st, "history": hist}})
            truth[name] = (cls, kind)
    # fixed corpus (independent of VERIF_SEED): infeasible / unbounded problems with check_duality_gap = false. Without the gap test
    # the relative primal tolerance eps_rel * primal_rel_inf (primal_rel_inf contains the norms of the diverging slacks) lets the
    # unchanged solver return SOLVED on some of them: known finding F18, listed case by case in known_findings.txt, so that any
    # OTHER false SOLVED of this corpus is still reported.
    rngF = random.Random(20260930)
    fixed = []
    for rawF in (grid_problems(rngF, 400, False), degenerate_problems(rngF, 400)):
        got = 0
        for (n, p, m, P, c, A, b, G, h, lb, ub, kind) in rawF:
            cls, cert = classify_checked([[F(v) for v in r] for r in P], [F(v) for v in c], A, b, G, h,
                                         [None if v is None else F(v) for v in lb], [None if v is None else F(v) for v in ub])
            if cls != "optimal":
                fixed.append((n, p, m, P, c, A, b, G, h, lb, ub, kind, cls))
                got += 1
            if got >= 40:
                break
    # the inputs on which finding F18 was first seen (seed-dependent part of an earlier version of this check), kept explicitly
    known_inputs = [
        (2, 0, 2, [[0, 0], [0, 0]], [-1, 0], [], [], [[-1, 0], [0, 1]], [-1, 1], [0, None], [0, None], "F18-fixed-variable-vs-row", "infeasible"),
        (2, 0, 1, [[0, 0], [0, 0]], [0, 1], [], [], [[0, 0]], [-1], [-1, 0], [None, None], "F18-zero-row", "infeasible"),
    ]
    for (n, p, m, P, c, A, b, G, h, lb, ub, kind, cls) in known_inputs:
        c0, _ = classify_checked([[F(v) for v in r] for r in P], [F(v) for v in c], A, b, G, h,
                                 [None if v is None else F(v) for v in lb], [None if v is None else F(v) for v in ub])
        assert c0 == cls, "internal: listed F18 input is not of the recorded class"
    fixed = known_inputs + fixed
    for k, (n, p, m, P, c, A, b, G, h, lb, ub, kind, cls) in enumerate(fixed):
        pr = problem_from_int(n, p, m, P, c, A, b, G, h, lb, ub)
        for be in range(5):
            name = f"F{k}_{be}"
            L = gen_dbl.case_lines(be, k % 2, {"check_duality_gap": 0}, ["d.setup " + pr.args(False), "d.solve", "d.result"])
            cases.append({"name": name, "lines": L, "meta": {"be": be, "kind": kind, "class": cls, "settings": {"check_duality_gap": 0},
                                                             "history": "direct", "fixed": k}})
            truth[name] = (cls, kind)
    # fixed corpus 2 (independent of VERIF_SEED): column-scaled infeasible / unbounded problems under DEFAULT settings, both
    # preconditioner kinds. On some of them the unchanged solver answers SOLVED at |x| ~ 1e13, where the dual residual P x + c
    # evaluates to exactly 0 in double precision by cancellation (known finding F20, listed input by input in known_findings.txt).
    rngS = random.Random(20261001)
    scaled = [(2, 0, 0, [[10000, -6400], [-6400, 4096]], [0, 64], [], [], [], [], [None, None], [None, None], "F20-first-seen", "unbounded")]
    pool = [q for q in grid_problems(rngS, 600, False)]
    got = 0
    for (n, p, m, P, c, A, b, G, h, lb, ub, kind) in pool:
        cls, _ = classify_checked([[F(v) for v in r] for r in P], [F(v) for v in c], A, b, G, h,
                                  [None if v is None else F(v) for v in lb], [None if v is None else F(v) for v in ub])
        if cls == "optimal":
            continue
        sc = [[F(100), F(64)], [F(1, 32), F(100)], [F(64), F(1)], [F(100), F(100)]][got % 4][:n] + [F(1)] * max(0, n - 2)
        P2 = [[F(P[i][j]) * sc[i] * sc[j] for j in range(n)] for i in range(n)]
        c2 = [F(c[j]) * sc[j] for j in range(n)]
        A2 = [[F(A[i][j]) * sc[j] for j in range(n)] for i in range(p)]
        G2 = [[F(G[i][j]) * sc[j] for j in range(n)] for i in range(m)]
        lb2 = [None if v is None else F(v) / sc[j] for j, v in enumerate(lb)]
        ub2 = [None if v is None else F(v) / sc[j] for j, v in enumerate(ub)]
        cls2, _ = classify_checked(P2, c2, A2, b, G2, h, lb2, ub2)
        assert cls2 == cls, "internal: column scaling changed the exact class"
        scaled.append((n, p, m, P2, c2, A2, b, G2, h, lb2, ub2, kind + "+colscaled", cls))
        got += 1
        if got >= 40:
            break
    for k, (n, p, m, P, c, A, b, G, h, lb, ub, kind, cls) in enumerate(scaled):
        pr = problem_from_int(n, p, m, P, c, A, b, G, h, lb, ub)
        for be in range(5):
            for pk in (0, 1):
                name = f"S{k}_{be}_{pk}"
                L = gen_dbl.case_lines(be, pk, {}, ["d.setup " + pr.args(False), "d.solve", "d.result"])
                cases.append({"name": name, "lines": L, "meta": {"be": be, "kind": kind, "class": cls, "settings": {}, "history": "direct",
                                                                 "scaled": k, "pk": pk}})
                truth[name] = (cls, kind)
    impl, lost = run_chunks([exe], cases, 12, 30)
    chk.cov["evaluations"] = len(cases)
    chk.cov["ground_truth_classes"] = classes
    chk.cov["distinct_nontrivial"] = len(raw)
    verdicts = {}
    nviol = 0
    for c in cases:
        out = impl.get(c["name"])
        if out is None:
            continue
        sts = [int(l.split()[1]) for l in out if l.startswith("status")]
        st = sts[-1] if sts else None      # the verdict on the FINAL (effective) problem; earlier solves of a history are on other data
        cls, kind = truth[c["name"]]
        verdicts[f"{cls}:{st}"] = verdicts.get(f"{cls}:{st}", 0) + 1
        bad = None
        if cls == "optimal" and st in (-2, -3):
            bad = f"{'PRIMAL' if st == -2 else 'DUAL'}_INFEASIBLE reported for a problem that has an optimal solution (exact classification)"
        elif cls in ("infeasible", "unbounded") and st == 1:
            bad = f"SOLVED reported for a problem that is {cls} (exact classification, integer data: clear margin)"
        if bad and "scaled" in c["meta"]:
            chk.violation(f"impl:verdict:scaled:S{c['meta']['scaled']}:be{c['meta']['be']}:pk{c['meta']['pk']}", bad + " (fixed corpus of column-scaled "
                          f"problems, default settings, problem S{c['meta']['scaled']}, {kind})\n\ninput:\n" + case_text(c))
        elif bad and "fixed" in c["meta"]:
            chk.violation(f"impl:verdict:gapoff:F{c['meta']['fixed']}:be{c['meta']['be']}", bad + " with check_duality_gap = false "
                          f"(fixed corpus problem F{c['meta']['fixed']}, {kind})\n\ninput:\n" + case_text(c))
        elif bad:
            nviol += 1
            if nviol <= 5:
                chk.violation(f"impl:verdict:{cls}:status{st}:be{c['meta']['be']}:{kind}", bad + f"\ncase {c['name']} kind {kind}\n\ninput:\n" + case_text(c))
    for x in lost[:2]:
        chk.violation("impl:hang-or-crash:" + x["why"][:20], f"solver run lost on {x['name']}: {x['why']}", False)
    chk.cov["verdict_matrix(class:status)"] = verdicts
    chk.cov["fourier_motzkin_cross_checks_skipped_for_size"] = exactlp.FM_SKIPPED[0]
    chk.cov["settings_and_histories"] = {"fixed_corpus_check_duality_gap_off": sum(1 for c in cases if "fixed" in c["meta"]),
                                         "h_row_histories": sum(1 for c in cases if c["meta"]["history"] == "h-row-history"),
                                         "bounds_histories": sum(1 for c in cases if c["meta"]["history"] == "bounds-history"),
                                         "P_update_histories": sum(1 for c in cases if c["meta"]["history"] == "P-history"),
                                         "column_scaled_problems": sum(1 for c in cases if "colscaled" in c["meta"]["kind"] and "scaled" not in c["meta"]) // 5,
                                         "fixed_corpus_column_scaled_infeasible_unbounded": sum(1 for c in cases if "scaled" in c["meta"])}
    chk.cov["rule"] = ("integer grid (n<=2, entries -1/0/1, all block presences, LPs, singular P) + constructed degenerate strictly convex, "
                       "Farkas-infeasible (rows, crossing bounds, bounds against an equality/inequality) and recession-unbounded problems, each on "
                       "all five back ends (default and looser tolerances) and, for a quarter of the problems with inequalities, reached "
                       "through an update history that disables and re-enables a row of G; plus a fixed corpus of 80 infeasible/unbounded problems with "
                       "check_duality_gap = false (known finding F18 listed case by case); class decided exactly (rational "
                       "simplex cross-checked by Fourier-Motzkin, certificates re-verified); a verdict contradicting the class is a violation")
    for c in cases[:2]:
        chk.sample({"case": c["name"], "class": truth[c["name"]], "setup": c["lines"][1][:160]})
    if proof_ok is False and not chk.violations:
        chk.violation("proof:C03", "Lean proof obligations of C03 no longer check:\n" + getattr(chk, "proof_log", "")[-4000:], True)
    chk.assumptions = ["'never INFEASIBLE on a solvable problem' is a claim about a heuristic rule (counters, 1e12 threshold): monitored on the "
                       "enumerated classes, not proved", "ground truth by exact rational LP (own simplex + Fourier-Motzkin cross-check)"]
    return chk.finish()
