"""C05 — rejected calls leave the solver unchanged and usable."""
import random
from fractions import Fraction as F

from .. import gen_sol
from ..gen_sol import fs
from ..common import Check
from ..diffrun import case_text
from . import solcommon
from ..common import HARNESS, build_cpp
from ..diffrun import DRIVER, run_chunks, compare
import os

PID = "C05"

INVALID_SETTINGS = [
    ("rho_init", F(0)), ("rho_init", F(-1)), ("delta_init", F(0)), ("eps_abs", F(0)), ("eps_rel", F(-1)),
    ("eps_duality_gap_abs", F(0)), ("eps_duality_gap_rel", F(-1)), ("reg_lower_limit", F(0)),
    ("reg_finetune_primal_update_threshold", -1), ("reg_finetune_dual_update_threshold", -1), ("max_iter", 0), ("max_iter", -3),
    ("max_factor_retires", 0), ("preconditioner_iter", -1), ("tau", F(0)), ("tau", F(2)), ("tau", F(-1, 2)),
    ("iterative_refinement_eps_abs", F(0)), ("iterative_refinement_eps_rel", F(-1)), ("iterative_refinement_max_iter", -1),
    ("iterative_refinement_min_improvement_rate", F(1, 2)), ("iterative_refinement_static_regularization_eps", F(0)),
    ("iterative_refinement_static_regularization_rel", F(-1)),
]


def wrong_vec(rng, name, k):
    k2 = k + rng.choice([1, 2]) if (k == 0 or rng.random() < 0.5) else k - 1
    return f"{name} {k2} " + " ".join(fs(gen_sol.rnd_val(rng, True)) for _ in range(k2))


def wrong_mat(rng, name, r, c):
    r2, c2 = r, c
    if rng.random() < 0.5:
        r2 = r + 1
    else:
        c2 = c + 1 if (c <= 1 or rng.random() < 0.5) else c - 1
    return f"{name} {r2} {c2} " + " ".join(fs(gen_sol.rnd_val(rng)) for _ in range(r2 * c2))


def invalid_updates(rng, h):
    """every kind of invalid update() for the problem of history `h` -> list of (kind, line)"""
    pr, sp = h.prob, h.sparse
    n, p, m = pr.n, pr.p, pr.m
    out = []
    out.append(("P-size", "sol.update 1 " + wrong_mat(rng, "P", n, n)))
    out.append(("c-size", "sol.update 1 " + wrong_vec(rng, "c", n)))
    out.append(("A-size", "sol.update 1 " + wrong_mat(rng, "A", p, n)))
    out.append(("b-size", "sol.update 0 " + wrong_vec(rng, "b", p)))
    out.append(("G-size", "sol.update 1 " + wrong_mat(rng, "G", m, n)))
    out.append(("h-size", "sol.update 0 " + wrong_vec(rng, "h", m)))
    out.append(("lb-size", "sol.update 1 " + wrong_vec(rng, "lb", n)))
    out.append(("ub-size", "sol.update 1 " + wrong_vec(rng, "ub", n)))
    # a valid first argument followed by an invalid later one: nothing may be half-applied
    out.append(("c-ok-then-b-bad", "sol.update 1 " + pr.vec_arg("c", [gen_sol.rnd_val(rng, True) for _ in range(n)]) + " " + wrong_vec(rng, "b", p)))
    out.append(("P-ok-then-ub-bad", "sol.update 0 " + pr.mat_arg("P", pr.P, pr.maskP, n, n, sp) + " " + wrong_vec(rng, "ub", n)))
    if sp:
        def remask(M, mask, r, c, mode):
            # same nnz elsewhere ('move') or different nnz ('drop'/'add')
            cells = [(i, j) for i in range(r) for j in range(c)]
            on = [x for x in cells if mask[x[0]][x[1]]]
            off = [x for x in cells if not mask[x[0]][x[1]]]
            m2 = [row[:] for row in mask]
            if mode == "move" and on and off:
                a, b = rng.choice(on), rng.choice(off)
                m2[a[0]][a[1]] = False; m2[b[0]][b[1]] = True
            elif mode in ("moverow", "movecol") and on and off:
                # the entry stays in its row (resp. column): per-row (per-column) counts unchanged, pattern different
                k = 0 if mode == "moverow" else 1
                pairs = [(a, b) for a in on for b in off if a[k] == b[k]]
                if not pairs:
                    return None
                a, b = rng.choice(pairs)
                m2[a[0]][a[1]] = False; m2[b[0]][b[1]] = True
            elif mode == "drop" and on:
                a = rng.choice(on); m2[a[0]][a[1]] = False
            elif mode == "add" and off:
                b = rng.choice(off); m2[b[0]][b[1]] = True
            else:
                return None
            vals = [[(gen_sol.rnd_val(rng) if m2[i][j] else F(0)) for j in range(c)] for i in range(r)]
            return vals, m2
        for nm, M, mask, r, c in (("A", pr.A, pr.maskA, p, n), ("G", pr.G, pr.maskG, m, n)):
            if r == 0:
                continue
            for mode in ("move", "moverow", "movecol", "drop", "add"):
                rm = remask(M, mask, r, c, mode)
                if rm:
                    out.append((f"{nm}-pattern-{mode}", "sol.update 1 " + pr.mat_arg(nm, rm[0], rm[1], r, c, True)))
        # P: a column with fewer stored entries than the stored upper triangle / a different leading pattern
        up = [(i, j) for j in range(n) for i in range(j + 1) if pr.maskP[i][j]]
        if up:
            # prefer a column with room below the diagonal, so that the pattern-only mismatch ('P-pattern') exists for this history
            i0, j0 = rng.choice([x for x in up if x[1] < n - 1] or up)
            m2 = [row[:] for row in pr.maskP]
            m2[i0][j0] = False
            # keep nnz of the column >= stored count by adding a below-diagonal entry when possible (pattern, not count, differs)
            vals = [[(pr.P[i][j] if m2[i][j] else F(0)) for j in range(n)] for i in range(n)]
            out.append(("P-colcount", "sol.update 1 " + pr.mat_arg("P", vals, m2, n, n, True)))
            below = [i for i in range(j0 + 1, n) if not m2[i][j0]]
            if below:
                m3 = [row[:] for row in m2]
                m3[below[0]][j0] = True
                vals3 = [[(F(1) if m3[i][j] and not pr.maskP[i][j] else (pr.P[i][j] if m3[i][j] else F(0))) for j in range(n)] for i in range(n)]
                out.append(("P-pattern", "sol.update 1 " + pr.mat_arg("P", vals3, m3, n, n, True)))
    return out


def invalid_setups(rng, h):
    pr, sp = h.prob, h.sparse
    n, p, m = pr.n, pr.p, pr.m
    base_P = pr.mat_arg("P", pr.P, pr.maskP, n, n, sp)
    base_c = pr.vec_arg("c", pr.c)
    out = [("setup-P-nonsquare", "sol.setup " + f"P {n} {n + 1} " + " ".join(["1"] * (n * (n + 1))) + " " + base_c),
           ("setup-c-size", "sol.setup " + base_P + " " + wrong_vec(rng, "c", n)),
           ("setup-A-cols", "sol.setup " + base_P + " " + base_c + " " + f"A 1 {n + 1} " + " ".join(["1"] * (n + 1)) + " b 1 1"),
           ("setup-b-missing", "sol.setup " + base_P + " " + base_c + " " + f"A 1 {n} " + " ".join(["1"] * n)),
           ("setup-h-size", "sol.setup " + base_P + " " + base_c + " " + f"G 1 {n} " + " ".join(["1"] * n) + " h 2 1 1"),
           ("setup-lb-size", "sol.setup " + base_P + " " + base_c + " " + wrong_vec(rng, "lb", n)),
           ("setup-smaller-problem-bad-c", "sol.setup " + f"P {max(1, n - 1)} {max(1, n - 1)} " + " ".join(["1"] * (max(1, n - 1) ** 2)) + " " + wrong_vec(rng, "c", max(1, n - 1)))]
    return out


def make_cases(chk, rng):
    """each case = a valid history with ONE rejected call injected at some position; its twin = the same history
    without the call.  The generator is deterministic in the seed so that twin and original see the same data."""
    cases, pairs = [], []
    thorough = chk.thorough()
    k = 0

    def build(seed, be, pk, inject_pos, bad_kind_idx, family):
        r = random.Random(seed)
        st = gen_sol.rand_settings(r, max_iter=1)
        st["eps_abs"] = r.choice([F(1, 2 ** 20), F(8)])
        n = r.choice([2, 2, 3])
        names = []
        out = []
        for twin in (False, True):
            r2 = random.Random(seed + 1)
            h = gen_sol.Hist(r2, "", be, pk, st, dims=(n, r2.choice([0, 1, 2]), r2.choice([0, 1, 2])))
            plan = ["setup", "solve", "update", "solve", "update", "solve"]
            pos = 0
            kind = None
            for op in plan:
                if pos == inject_pos and not twin:
                    rr = random.Random(seed + 2)
                    if family == "update":
                        kinds = invalid_updates(rr, h)
                        if isinstance(bad_kind_idx, str):
                            named = [x for x in kinds if x[0] == bad_kind_idx]
                            if not named:
                                return (h, None), (h, None)
                            kind, line = named[0]
                        else:
                            kind, line = kinds[bad_kind_idx % len(kinds)]
                        h.raw("sol.dump", "").raw(line, f"REJ:{kind}").raw("sol.dump", "")
                    elif family == "setup":
                        kinds = invalid_setups(rr, h)
                        kind, line = kinds[bad_kind_idx % len(kinds)]
                        h.raw("sol.dump", "").raw(line, f"REJ:{kind}").raw("sol.dump", "")
                    else:
                        fld, val = INVALID_SETTINGS[bad_kind_idx % len(INVALID_SETTINGS)]
                        kind = f"settings-{fld}"
                        good = dict(h.st)
                        h.raw("sol.dump", "")
                        # a whole rejected "settings profile": other (valid) fields differ as well and are reverted afterwards,
                        # so anything the rejected solve() latches from them shows up in the following valid calls
                        prof = {fld: val}
                        if rr.random() < 0.8:
                            prof["iterative_refinement_always_enabled"] = 1 - good["iterative_refinement_always_enabled"]
                        if rr.random() < 0.5 and fld != "preconditioner_iter":
                            prof["preconditioner_iter"] = rr.choice([0, 1, 3])
                        if rr.random() < 0.5 and fld != "preconditioner_scale_cost":
                            prof["preconditioner_scale_cost"] = 1 - good["preconditioner_scale_cost"]
                        if rr.random() < 0.5 and fld != "max_iter":
                            prof["max_iter"] = 2
                        if rr.random() < 0.5 and fld != "rho_init":
                            prof["rho_init"] = F(1, 2 ** 3)
                        if rr.random() < 0.5 and fld != "check_duality_gap":
                            prof["check_duality_gap"] = 1 - good["check_duality_gap"]
                        h.settings(**prof)
                        h.raw("sol.solve", f"REJ:{kind}").raw("sol.dump", "")
                        h.st = good
                        h.L.append(gen_sol.settings_line(good))
                pos += 1
                if op == "setup":
                    h.setup(dump=True)
                elif op == "solve":
                    h.solve(dump=True, check=False)
                else:
                    h.update(r2.randrange(256), r2.random() < 0.5, dump=True)
            out.append((h, kind))
        return out

    fams = [("update", 40), ("setup", 7), ("settings", len(INVALID_SETTINGS))]   # 40 >= the longest list of invalid update kinds (sparse, p, m > 0)
    for family, nk in fams:
        for kidx in range(nk):
            poss = range(1, 6) if thorough else [1 + (kidx % 5)]
            for pos in poss:
                for rep in range(2 if thorough else 1):
                    be = rng.randrange(5) if family != "update" else (rng.choice([1, 2, 3, 4]) if kidx >= 10 else rng.randrange(5))
                    pk = rng.choice([0, 0, 1])
                    seed = rng.randrange(10 ** 9)
                    (h, kind), (t, _) = build(seed, be, pk, pos, kidx, family)
                    if kind is None:
                        continue
                    h.name, t.name = f"j{k}", f"t{k}"
                    a, b = h.case(kind="inject", family=family, bad=kind, pos=pos), t.case(kind="twin")
                    cases += [a, b]
                    pairs.append((a, b))
                    k += 1
    # every sparse pattern-mismatch kind by name, on every sparse back end family member drawn at random: the index-based enumeration above
    # reaches a kind only when the history happens to offer it (e.g. 'P-pattern' needs room below the diagonal of the chosen column)
    for name in ["P-pattern", "P-colcount"] + [f"{nm}-pattern-{mode}" for nm in ("A", "G") for mode in ("move", "moverow", "movecol", "drop", "add")]:
        got = 0
        for attempt in range(12):
            if got >= (4 if thorough else 2):
                break
            be = rng.choice([1, 2, 3, 4]); pk = rng.choice([0, 0, 1]); seed = rng.randrange(10 ** 9)
            (h, kind), (t, _) = build(seed, be, pk, 1 + attempt % 5, name, "update")
            if kind is None:
                continue
            h.name, t.name = f"j{k}", f"t{k}"
            a, b = h.case(kind="inject", family="update", bad=kind, pos=1 + attempt % 5), t.case(kind="twin")
            cases += [a, b]
            pairs.append((a, b))
            k += 1
            got += 1
    # update / solve before setup
    for be in range(5):
        h = gen_sol.Hist(rng, f"p{be}", be, 0, gen_sol.rand_settings(rng), dims=(2, 1, 1))
        h.raw("sol.update 1 " + h.prob.vec_arg("c", h.prob.c), "REJ:update-before-setup")
        h.raw("sol.solve", "REJ:solve-before-setup")
        h.setup().solve(check=False)
        t = gen_sol.Hist(random.Random(0), f"q{be}", be, 0, h.st, prob=h.prob)
        t.dense_sqrt = h.dense_sqrt
        t.setup().solve(check=False)
        a, b = h.case(kind="inject", family="before-setup", bad="before-setup", pos=0), t.case(kind="twin")
        cases += [a, b]
        pairs.append((a, b))
    return cases, pairs


def dumps_of(lines):
    """list of dump blocks (each a tuple of lines info..flags)"""
    out, cur = [], None
    for l in lines:
        if l.startswith("info "):
            # info.status is how a rejected solve() reports the rejection; it is not part of the state that must be kept
            t = l.split()
            cur = [" ".join(["info", "<status>"] + t[2:])]
        elif cur is not None:
            cur.append(l)
            if l.startswith("flags "):
                out.append(tuple(cur)); cur = None
    return out


def run(replay=None):
    chk = Check(PID, "proof")
    rng = random.Random(chk.seed * 3001 + 5)
    proof_ok = solcommon.prepare(chk, leancheck=chk.thorough())
    if proof_ok is None:
        return chk.finish()
    cases, pairs = make_cases(chk, rng)
    res = solcommon.run_cases(chk, cases)
    if res is None:
        return chk.finish()
    kinds = {}
    nviol = 0
    for a, b in pairs:
        ra, rb = res.get(a["name"]), res.get(b["name"])
        if not ra or not rb:
            continue
        bad = a["meta"]["bad"]
        kinds[bad] = kinds.get(bad, 0) + 1
        # implementation vs implementation: use the full runs (the truncation at numeric traps only concerns the model)
        la = [l for l in ra["raw"] if not l.startswith("#")]
        lb = [l for l in rb["raw"] if not l.startswith("#")]
        probs = []
        # (1) the call was reported as rejected
        nrej = sum(1 for l in la if l.startswith("rejected") or l == "status -10" or l == "status -9")
        if nrej == 0:
            probs.append("the invalid call was not reported as rejected (no message / status code)")
        # (2) state before == state after the rejected call (white box); (3) everything else equals the twin run
        da, db = dumps_of(la), dumps_of(lb)
        if a["meta"]["family"] != "before-setup":
            # injected history has two extra dumps around the rejected call: locate them = first adjacent pair not in twin order
            # remove the pair (i, i+1) whose removal makes the sequences equal; require da[i] == da[i+1]
            found = False
            for i in range(len(da) - 1):
                if da[:i] + da[i + 2:] == db:
                    found = True
                    if da[i] != da[i + 1]:
                        diff = [(x, y) for x, y in zip(da[i], da[i + 1]) if x != y][:3]
                        probs.append("solver state changed across the rejected call: " + "; ".join(f"{x[:120]} -> {y[:120]}" for x, y in diff))
                    break
            if not found:
                probs.append("results of the valid calls differ from the twin history in which the rejected call was never made")
        else:
            if da != db:
                probs.append("results after setup differ from the twin history without the calls made before setup")
        if probs:
            nviol += 1
            if nviol <= 5:
                chk.violation(f"impl:rejected:{bad}:be{a['meta']['be']}",
                              "; ".join(probs) + f"\ncase {a['name']} (twin {b['name']}) meta={a['meta']}\n\ninput:\n" + case_text(a)
                              + "\ntwin input:\n" + case_text(b))
    # the classifier of sparse update arguments itself (sparse::is_transpose_pattern, what update() runs before anything is modified): the
    # real function against its loop-level model (PiqpModel/Csc.lean, theorems Csc.guard_ready / guard_complete) on raw-array arguments --
    # duplicates, unsorted rows, moved entries with unchanged counts -- which the matrix arguments of the histories above cannot express
    from . import c14 as _c14
    okb, hk, log = build_cpp("hk", [os.path.join(HARNESS, "hk.cpp")], flags=["-O1"], libs=["-lgmpxx", "-lgmp"])
    if not okb:
        chk.violation("build:hk", "harness hk does not compile against the current /repo tree:\n" + log[-3000:], True)
    else:
        G = _c14.guard_raw_cases(rng, chk.thorough())
        gcases = [{"name": f"guard{q // 256}", "lines": G[q:q + 256], "meta": {"kind": "guard-raw"}} for q in range(0, len(G), 256)]
        gi, e1 = run_chunks([hk], gcases, 14, 120)
        gm, e2 = run_chunks([DRIVER], gcases, 14, 240)
        for x in (e1 + e2)[:2]:
            chk.violation("crash:guard:" + x["why"][:30], f"guard harness/driver lost {x['name']}: {x['why']}", True)
        gbad = compare(gcases, gi, gm)
        for b in gbad[:3]:
            chk.violation("corr:guard:istp",
                          "sparse update argument classifier (is_transpose_pattern) disagrees with its model on a raw-array argument\n"
                          f"case {b['name']} line {b['line']}\nimpl : {b['impl'][:200]}\nmodel: {b['model'][:200]}\n\ninput line:\n"
                          + "\n".join([c for c in gcases if c["name"] == b["name"]][0]["lines"][max(0, b["line"] - 1):b["line"] + 1] if isinstance(b.get("line"), int) and b["line"] >= 0 else []))
        chk.cov["guard_raw_array_arguments_compared"] = len(G)
    chk.cov["rejection_kinds_exercised"] = kinds
    chk.cov["injected_histories"] = len(pairs)
    chk.cov["violations_found"] = nviol
    chk.cov["exhaustive"] = True
    return solcommon.finish(chk, proof_ok, PID,
                            "valid histories (setup;solve;update;solve;update;solve) with one rejected call injected (every update argument "
                            "with a wrong size, valid-then-invalid argument pairs, sparse nnz / pattern mismatches for A, G, P, every invalid "
                            "settings field, rejected setup(), calls before setup) at positions 1..5; the white-box state is compared across "
                            "the rejected call and all outputs with the twin history without it, exactly", cases)
