"""C18 — the solver templates work for every supported scalar and index type.

Observation half: harness/hinst.cpp is compiled once per instantiation
    T in {float, double, long double, boost cpp_bin_float<100>} x I in {int, long long} x
    {dense, KKT_FULL, KKT_EQ_ELIMINATED, KKT_INEQ_ELIMINATED, KKT_ALL_ELIMINATED} x {Ruiz, identity}
(72 distinct: the dense solver has no index parameter).  A compile failure is a violation.  Every binary solves the
same well-posed problems (strictly convex, strictly feasible, full-row-rank A; all data dyadic rationals that are exact
in every scalar type) with tolerances appropriate to its type.  Python recomputes, in exact rational arithmetic from
the user's data, the optimality certificate of every SOLVED result (the same quantities as the Lean predicate
Piqp.certFails of C01) and compares the higher-precision solutions with the optimum found in double."""
import math
import os
import random
import re
import subprocess
from concurrent.futures import ThreadPoolExecutor
from decimal import Decimal
from fractions import Fraction as F

from ..common import Check, HARNESS, LEAN, build_cpp

PID = "C18"
T_NAME = {0: "float", 1: "double", 2: "long double", 3: "cpp_bin_float<100>"}
T_SIG = {0: "float", 1: "double", 2: "long_double", 3: "mp100"}
I_NAME = {0: "int", 1: "long long"}
BE_NAME = {0: "dense", 1: "KKT_FULL", 2: "KKT_EQ_ELIMINATED", 3: "KKT_INEQ_ELIMINATED", 4: "KKT_ALL_ELIMINATED"}
PRE_NAME = {0: "ruiz", 1: "identity"}
BOOST_HDR = "/usr/include/boost/multiprecision/cpp_bin_float.hpp"
SLACK = 10          # slack factor on the certificate thresholds (rounding of the type while it evaluates its own test)
MU = F(1, 8)        # strong convexity modulus of every generated problem: P = M'M + I/8
REF = (1, 0, 0, 0)  # the double optimum: DenseSolver<double>, Ruiz


def cfg_sig(cfg):
    t, i, be, pre = cfg
    return f"T={T_SIG[t]}:I={I_NAME[i].replace(' ', '_')}:be={BE_NAME[be]}:pre={PRE_NAME[pre]}"


def all_configs(have_mp):
    out = []
    for t in range(4 if have_mp else 3):
        for be in range(5):
            for i in ((0,) if be == 0 else (0, 1)):
                for pre in (0, 1):
                    out.append((t, i, be, pre))
    return out


def quick_configs(have_mp, seed):
    """every (T, back end) pair once; preconditioner and index type alternate over the pairs (and with the seed) such that
    both values of each appear for every T and for every back end"""
    out = [REF]
    if have_mp:
        out += [(3, 0, 0, 0), (3, 0, 0, 1)]      # the non-literal, non-built-in scalar: both dense preconditioners always
    for t in range(4 if have_mp else 3):
        for be in range(5):
            pre = (t + be + seed + 1) % 2
            i = 0 if be == 0 else ((t + (be // 2) + seed) % 2)
            if (t, i, be, pre) not in out:
                out.append((t, i, be, pre))
    return out


# ----------------------------------------------------------------------------- problems (exact dyadic data)

def dy(rng, lo, hi):
    """k/8 with lo <= k <= hi"""
    return F(rng.randint(lo, hi), 8)


def fstr(v):
    if v is None:
        return None
    if v.denominator == 1:
        return str(v.numerator)
    return repr(v.numerator / v.denominator)        # dyadic with small numerator: exact as a short decimal


def dec(v):
    """exact decimal expansion of a dyadic rational"""
    d = Decimal(v.numerator) / Decimal(v.denominator)
    return format(d, "f")


def gen_problem(rng, name, n, p, m, box):
    k = n
    dens = rng.choice([0.4, 0.7, 1.0])
    M = [[dy(rng, -12, 12) if rng.random() < dens else F(0) for _ in range(n)] for _ in range(k)]
    P = [[sum(M[t][i] * M[t][j] for t in range(k)) + (MU if i == j else 0) for j in range(n)] for i in range(n)]
    # A = [I | R] with permuted columns: full row rank by construction
    perm = list(range(n))
    rng.shuffle(perm)
    A = [[F(0)] * n for _ in range(p)]
    for i in range(p):
        A[i][perm[i]] = F(1) if rng.random() < 0.5 else dy(rng, 4, 16)
        for j in perm[p:]:
            if rng.random() < 0.6:
                A[i][j] = dy(rng, -12, 12)
    G = [[dy(rng, -12, 12) if rng.random() < 0.6 else F(0) for _ in range(n)] for _ in range(m)]
    for row in G:
        if not any(row):
            row[rng.randrange(n)] = F(1)
    x0 = [dy(rng, -16, 16) for _ in range(n)]
    c = [dy(rng, -16, 16) for _ in range(n)]
    b = [sum(a * x for a, x in zip(row, x0)) for row in A]
    h = [sum(a * x for a, x in zip(row, x0)) + dy(rng, 1, 16) for row in G]       # strictly feasible: margin >= 1/8
    lb = [x - dy(rng, 1, 16) if rng.random() < box[0] else None for x in x0]
    ub = [x + dy(rng, 1, 16) if rng.random() < box[1] else None for x in x0]
    pr = {"name": name, "n": n, "p": p, "m": m, "P": P, "c": c, "A": A, "b": b, "G": G, "h": h, "lb": lb, "ub": ub}
    return pr


def problem_text(pr):
    def row(v):
        return " ".join(dec(x) for x in v)
    L = [f"prob {pr['name']} {pr['n']} {pr['p']} {pr['m']}",
         "P " + " ".join(row(r) for r in pr["P"]), "c " + row(pr["c"]),
         "A " + " ".join(row(r) for r in pr["A"]), "b " + row(pr["b"]),
         "G " + " ".join(row(r) for r in pr["G"]), "h " + row(pr["h"]),
         "lb " + " ".join("-inf" if x is None else dec(x) for x in pr["lb"]),
         "ub " + " ".join("inf" if x is None else dec(x) for x in pr["ub"]), "upd_end" if pr.get("update_of") else "end"]
    return "\n".join(" ".join(l.split()) for l in L) + "\n"


def parse_problem_text(text):
    """inverse of problem_text (replay)"""
    probs, cur = [], None

    def val(t):
        return None if t in ("inf", "-inf") else F(Decimal(t))
    for l in text.splitlines():
        t = l.split()
        if not t:
            continue
        if t[0] == "prob":
            cur = {"name": t[1], "n": int(t[2]), "p": int(t[3]), "m": int(t[4])}
        elif t[0] in ("P", "A", "G"):
            n = cur["n"]
            v = [val(x) for x in t[1:]]
            cur[t[0]] = [v[i * n:(i + 1) * n] for i in range(len(v) // n if n else 0)]
        elif t[0] in ("c", "b", "h", "lb", "ub"):
            cur[t[0]] = [val(x) for x in t[1:]]
        elif t[0] in ("end", "upd_end"):
            if t[0] == "upd_end":
                cur["update_of"] = probs[-1]["name"] if probs else None
            probs.append(cur)
    return probs


def gen_problems(chk, rng):
    probs = []
    sizes = [2, 3, 4, 5, 6, 8, 10, 12, 14, 16, 18, 20]
    count = 48 if chk.thorough() else 14
    for k in range(count):
        n = sizes[k % len(sizes)] if k < len(sizes) else rng.randint(2, 20)
        p = rng.choice([0, 1, n // 3, n // 2])
        m = rng.choice([0, 1, n // 2, n, n + 2])
        box = rng.choice([(0, 0), (1, 0), (0, 1), (0.5, 0.5), (1, 1)])
        if p == 0 and m == 0 and box == (0, 0) and rng.random() < 0.7:
            m = 2
        pr = gen_problem(rng, f"q{k}", n, min(p, n - 1) if n > 1 else 0, m, box)
        probs.append(pr)
        if (pr["p"] or pr["m"]) and k % 2 == 0:
            probs.append(updated_problem(rng, pr))
    return probs


def updated_problem(rng, pr):
    """the same problem with new values (same sparsity patterns) of c, A, b, G, h: applied by the harness through update() to the
    solver that has just solved `pr`; certified like any other problem against its own data"""
    fac = lambda: rng.choice([F(1), F(5, 4), F(3, 4), F(2), F(-1)])
    A = [[a * fac() for a in row] for row in pr["A"]]
    G = [[g * fac() for g in row] for row in pr["G"]]
    n = pr["n"]
    x0 = [dy(rng, -16, 16) for _ in range(n)]
    # keep the bounds of `pr` (they are not updated): choose the new interior point inside them
    for j in range(n):
        lo, hi = pr["lb"][j], pr["ub"][j]
        if lo is not None and hi is not None:
            x0[j] = (lo + hi) / 2
        elif lo is not None:
            x0[j] = lo + F(1, 2)
        elif hi is not None:
            x0[j] = hi - F(1, 2)
    b = [sum(a * x for a, x in zip(row, x0)) for row in A]
    h = [sum(a * x for a, x in zip(row, x0)) + dy(rng, 1, 16) for row in G]
    c = [dy(rng, -16, 16) for _ in range(n)]
    return dict(pr, name=pr["name"] + "u", A=A, G=G, b=b, h=h, c=c, update_of=pr["name"])


# ----------------------------------------------------------------------------- certificate (exact)

def num(tok):
    if tok in ("inf", "-inf", "nan"):
        return tok
    return F(Decimal(tok))


def parse_run(out):
    """-> {prob: {status, iter, x..., settings}}"""
    res, cur = {}, None
    for l in out.splitlines():
        t = l.split()
        if not t:
            continue
        if t[0] == "prob":
            cur = {}
            res[t[1]] = cur
        elif cur is None:
            continue
        elif t[0] == "settings":
            cur["settings"] = {t[k]: (int(t[k + 1]) if t[k] == "check_duality_gap" else num(t[k + 1])) for k in range(1, len(t), 2)}
        elif t[0] == "status":
            cur["status"], cur["iter"] = int(t[1]), int(t[3])
        elif t[0] == "info":
            cur["info"] = {t[k]: t[k + 1] for k in range(1, len(t), 2)}
        elif t[0] in ("x", "y", "z", "z_lb", "z_ub", "s", "s_lb", "s_ub"):
            cur[t[0]] = [num(v) for v in t[1:]]
    return res


def inf_norm(v):
    return max([abs(a) for a in v], default=F(0))


def quantities(pr, r):
    """mirror of Piqp.quantities (lean/PiqpModel/Checkers.lean) in exact rationals"""
    n, p, m = pr["n"], pr["p"], pr["m"]
    x, y, z = r["x"], r["y"], r["z"]
    hasL = [v is not None for v in pr["lb"]]
    hasU = [v is not None for v in pr["ub"]]
    zl = [r["z_lb"][j] if hasL[j] else F(0) for j in range(n)]
    zu = [r["z_ub"][j] if hasU[j] else F(0) for j in range(n)]
    Px = [sum(pr["P"][i][j] * x[j] for j in range(n)) for i in range(n)]
    ATy = [sum(pr["A"][i][j] * y[i] for i in range(p)) for j in range(n)]
    GTz = [sum(pr["G"][i][j] * z[i] for i in range(m)) for j in range(n)]
    other = [ATy[j] + GTz[j] - zl[j] + zu[j] for j in range(n)]
    rd = [Px[j] + pr["c"][j] + other[j] for j in range(n)]
    Ax = [sum(pr["A"][i][j] * x[j] for j in range(n)) for i in range(p)]
    Gx = [sum(pr["G"][i][j] * x[j] for j in range(n)) for i in range(m)]
    rpe = [Ax[i] - pr["b"][i] for i in range(p)]
    rpi = [Gx[i] + r["s"][i] - pr["h"][i] for i in range(m)]
    rpl = [x[j] - r["s_lb"][j] - pr["lb"][j] for j in range(n) if hasL[j]]
    rpu = [x[j] + r["s_ub"][j] - pr["ub"][j] for j in range(n) if hasU[j]]
    xPx = sum(a * b for a, b in zip(x, Px))
    cx = sum(a * b for a, b in zip(pr["c"], x))
    by = sum(a * b for a, b in zip(pr["b"], y))
    hz = sum(a * b for a, b in zip(pr["h"], z))
    lz = sum(pr["lb"][j] * zl[j] for j in range(n) if hasL[j])
    uz = sum(pr["ub"][j] * zu[j] for j in range(n) if hasU[j])
    pobj = xPx / 2 + cx
    dobj = -xPx / 2 - by - hz + lz - uz
    return {
        "dualInf": inf_norm(rd), "dualRelInf": max(inf_norm(Px), inf_norm(pr["c"]), inf_norm(other)),
        "primalInf": max(inf_norm(rpe), inf_norm(rpi), inf_norm(rpl), inf_norm(rpu)),
        "primalRelInf": max([inf_norm(Ax), inf_norm(pr["b"]), inf_norm(Gx), inf_norm(pr["h"]), inf_norm(r["s"])] +
                            [inf_norm([x[j] for j in range(n) if hasL[j]]), inf_norm([pr["lb"][j] for j in range(n) if hasL[j]]),
                             inf_norm([r["s_lb"][j] for j in range(n) if hasL[j]]),
                             inf_norm([x[j] for j in range(n) if hasU[j]]), inf_norm([pr["ub"][j] for j in range(n) if hasU[j]]),
                             inf_norm([r["s_ub"][j] for j in range(n) if hasU[j]])]),
        "dualityGap": abs(pobj - dobj), "dualityGapRel": max(abs(xPx), abs(cx), abs(by), abs(hz), abs(lz), abs(uz)),
        "multipliers": max(inf_norm(y), inf_norm(z), inf_norm(zl), inf_norm(zu)),
    }


def finite_ok(pr, r):
    """every entry the certificate uses is an ordinary number"""
    n = pr["n"]
    vals = list(r["x"]) + list(r["y"]) + list(r["z"]) + list(r["s"])
    vals += [r["z_lb"][j] for j in range(n) if pr["lb"][j] is not None] + [r["s_lb"][j] for j in range(n) if pr["lb"][j] is not None]
    vals += [r["z_ub"][j] for j in range(n) if pr["ub"][j] is not None] + [r["s_ub"][j] for j in range(n) if pr["ub"][j] is not None]
    return not any(isinstance(v, str) for v in vals)


def cert_fails(pr, r, q):
    st = r["settings"]
    fails = []
    if not q["dualInf"] < SLACK * (st["eps_abs"] + st["eps_rel"] * q["dualRelInf"]):
        fails.append("stationarity")
    if not q["primalInf"] < SLACK * (st["eps_abs"] + st["eps_rel"] * q["primalRelInf"]):
        fails.append("primal-feasibility")
    if st["check_duality_gap"] and not q["dualityGap"] < SLACK * (st["eps_duality_gap_abs"] + st["eps_duality_gap_rel"] * q["dualityGapRel"]):
        fails.append("duality-gap")
    n = pr["n"]
    if any(v < 0 for v in r["z"]):
        fails.append("z-negative")
    if any(v < 0 for v in r["s"]):
        fails.append("s-negative")
    if any(pr["lb"][j] is not None and (r["z_lb"][j] < 0 or r["s_lb"][j] < 0) for j in range(n)):
        fails.append("lb-multiplier-or-slack-negative")
    if any(pr["ub"][j] is not None and (r["z_ub"][j] < 0 or r["s_ub"][j] < 0) for j in range(n)):
        fails.append("ub-multiplier-or-slack-negative")
    return fails


def fl(v):
    return float(v) if not isinstance(v, str) else v


# ----------------------------------------------------------------------------- the check

def first_errors(log, k=12):
    ls = [l for l in log.splitlines() if "error" in l or "required from" in l or "note:" in l]
    return "\n".join(l[:400] for l in ls[:k]) or log[-3000:]


def run(replay=None):
    chk = Check(PID, "other")
    rng = random.Random(chk.seed * 49979687 + 18)
    lean_file = os.path.join(LEAN, "PiqpProofs", "Properties", PID + ".lean")
    have_lean = os.path.exists(lean_file)
    proof_ok = chk.proof_stage() if have_lean else None

    have_mp = os.path.exists(BOOST_HDR)
    chk.cov["multiprecision_type"] = ("boost::multiprecision::number<cpp_bin_float<100>, et_off> (100 decimal digits, binary radix)"
                                      if have_mp else "none available (boost::multiprecision not installed): T limited to float, double, long double")
    configs = all_configs(have_mp) if chk.thorough() else quick_configs(have_mp, chk.seed)
    replay_probs = None
    if replay:
        # re-run the instantiation (and the problem, if the replay carries one) named in the replay file
        txt = open(replay).read()
        m = re.search(r"^signature=\S*?T=(\w+):I=(\w+):be=(\w+):pre=(\w+)", txt, re.M)
        if m:
            inv = lambda d, v: next(k for k, x in d.items() if x.replace(" ", "_") == v)
            cfg = (inv(T_SIG, m.group(1)), inv(I_NAME, m.group(2)), inv(BE_NAME, m.group(3)), inv(PRE_NAME, m.group(4)))
            configs = [REF] + ([cfg] if cfg != REF else [])
        mm = re.search(r"^input:\n(prob .*?\nend)$", txt, re.S | re.M)
        if mm:
            replay_probs = parse_problem_text(mm.group(1))
        chk.log(f"replay {replay}: configurations {[cfg_sig(c) for c in configs]}, {len(replay_probs or [])} problem(s) from the file")
    src = [os.path.join(HARNESS, "hinst.cpp")]

    def build(cfg):
        t, i, be, pre = cfg
        return cfg, build_cpp(f"hinst_{t}{i}{be}{pre}", src, flags=["-O1", f"-DHT={t}", f"-DHI={i}", f"-DHBE={be}", f"-DHPRE={pre}"], timeout=1200)

    exes = {}
    compile_fail = []
    with ThreadPoolExecutor(max_workers=6) as ex:
        for cfg, (ok, exe, log) in ex.map(build, configs):
            if ok:
                exes[cfg] = exe
            else:
                compile_fail.append(cfg)
                chk.violation(f"impl:instantiate:{cfg_sig(cfg)}",
                              f"the instantiation {cfg_sig(cfg)} does not compile against the current tree\n"
                              f"expected: DenseSolver/SparseSolver compile for every supported scalar and index type\n"
                              f"reproduce: g++ -std=c++17 -O1 -DHT={cfg[0]} -DHI={cfg[1]} -DHBE={cfg[2]} -DHPRE={cfg[3]} -I <repo>/include "
                              f"-I /usr/include/eigen3 {src[0]}\ncompiler diagnostic (first errors):\n" + first_errors(log), no_input=False)
    chk.cov["instantiations_requested"] = len(configs)
    chk.cov["instantiations_compiled"] = len(exes)
    chk.cov["instantiations_failed_to_compile"] = [cfg_sig(c) for c in compile_fail]

    probs = replay_probs or gen_problems(chk, rng)
    text = "".join(problem_text(pr) for pr in probs)
    pbyname = {pr["name"]: pr for pr in probs}

    def runone(cfg):
        try:
            p = subprocess.run([exes[cfg]], input=text, stdout=subprocess.PIPE, stderr=subprocess.PIPE, text=True, timeout=900)
            return cfg, p.returncode, p.stdout, p.stderr
        except subprocess.TimeoutExpired as e:
            out = e.stdout.decode() if isinstance(e.stdout, bytes) else (e.stdout or "")
            return cfg, -9, out, "timeout"

    runs = {}
    headers = {}
    with ThreadPoolExecutor(max_workers=6) as ex:
        for cfg, rc, out, err in ex.map(runone, list(exes)):
            res = parse_run(out)
            runs[cfg] = res
            headers[cfg] = next((l for l in out.splitlines() if l.startswith("#hinst")), "")
            if rc != 0 or any(l.startswith("error") for l in out.splitlines()):
                done = len([1 for r in res.values() if "s_ub" in r])
                nxt = probs[done]["name"] if done < len(probs) else "?"
                chk.violation(f"impl:run:{cfg_sig(cfg)}",
                              f"the instantiation {cfg_sig(cfg)} compiled but its run failed (rc={rc}) while solving problem {nxt}\n"
                              f"stderr tail: {err[-1500:]}\nreproduce: {exes[cfg]} < input\ninput:\n" +
                              (problem_text(pbyname[nxt]) if nxt in pbyname else text[:4000]))

    # reference: the optimum found in double
    ref = runs.get(REF, {})
    refq = {}
    for pr in probs:
        r = ref.get(pr["name"])
        if r and r.get("status") == 1 and "s_ub" in r and finite_ok(pr, r):
            refq[pr["name"]] = quantities(pr, r)

    n_solved = n_res = n_cert_ok = n_conv = 0
    not_solved = []
    per_T = {}
    max_ratio = {}      # per T: max over results of (residual / unslacked threshold) for the three clauses
    max_dist = {}       # per T: max |x_T - x_double|_inf
    found = {}

    def report(sig, size, textv):
        if sig not in found or found[sig][0] > size:
            found[sig] = (size, textv)

    for cfg in sorted(runs):
        tname = T_NAME[cfg[0]]
        for pr in probs:
            r = runs[cfg].get(pr["name"])
            if r is None or "s_ub" not in r:
                continue
            n_res += 1
            d = per_T.setdefault(tname, {"results": 0, "solved": 0})
            d["results"] += 1
            where = (f"instantiation {cfg_sig(cfg)} ({headers.get(cfg, '')}), problem {pr['name']} (n={pr['n']} p={pr['p']} m={pr['m']}, "
                     f"finite lb={sum(v is not None for v in pr['lb'])} ub={sum(v is not None for v in pr['ub'])})\n"
                     f"reproduce: {exes[cfg]} < input\ninput:\n{problem_text(pr)}")
            if r["status"] != 1:
                not_solved.append(f"{cfg_sig(cfg)}/{pr['name']}: status {r['status']} after {r['iter']} iterations")
                report(f"impl:status:{cfg_sig(cfg)}", pr["n"],
                       f"status {r['status']} (iter {r['iter']}) instead of SOLVED (1) on a well-posed problem (strictly convex P = M'M + I/8, strictly "
                       f"feasible, full-row-rank A) with the tolerances of the type: {({k: fl(v) for k, v in r['settings'].items()})}\n"
                       f"solver diagnostics: {r.get('info')}\n" + where)
                continue
            n_solved += 1
            d["solved"] += 1
            if not finite_ok(pr, r):
                report(f"impl:certificate:{cfg_sig(cfg)}:non-finite", pr["n"], "SOLVED result contains inf/nan entries\n" + where)
                continue
            q = quantities(pr, r)
            st = r["settings"]
            ratios = (q["dualInf"] / (st["eps_abs"] + st["eps_rel"] * q["dualRelInf"]),
                      q["primalInf"] / (st["eps_abs"] + st["eps_rel"] * q["primalRelInf"]),
                      q["dualityGap"] / (st["eps_duality_gap_abs"] + st["eps_duality_gap_rel"] * q["dualityGapRel"]))
            max_ratio[tname] = max(max_ratio.get(tname, 0.0), float(max(ratios)))
            fails = cert_fails(pr, r, q)
            if fails:
                report(f"impl:certificate:{cfg_sig(cfg)}:{fails[0]}", pr["n"],
                       f"SOLVED result without a valid certificate at the type's tolerance: failing clauses {fails}\n"
                       f"exact recomputation from the user's data: dual_inf={float(q['dualInf']):.3e} (threshold {SLACK}*("
                       f"{fl(st['eps_abs']):.1e}+{fl(st['eps_rel']):.1e}*{float(q['dualRelInf']):.3e})), primal_inf={float(q['primalInf']):.3e} "
                       f"(rel term {float(q['primalRelInf']):.3e}), duality_gap={float(q['dualityGap']):.3e} (rel term {float(q['dualityGapRel']):.3e})\n"
                       f"solver's own diagnostics: {r.get('info')}\nx = {[float(v) for v in r['x']]}\n" + where)
            else:
                n_cert_ok += 1
            # convergence of the higher-precision instantiations to the double optimum
            if cfg[0] >= 2 and pr["name"] in refq:
                rq = refq[pr["name"]]
                rs = ref[pr["name"]]["settings"]
                tol_d = max(rs["eps_abs"] + rs["eps_rel"] * max(rq["dualRelInf"], rq["primalRelInf"]),
                            rs["eps_duality_gap_abs"] + rs["eps_duality_gap_rel"] * rq["dualityGapRel"])
                bound = 10 * math.sqrt(float((1 + rq["multipliers"]) * tol_d / MU))
                dist = float(inf_norm([a - b for a, b in zip(r["x"], ref[pr["name"]]["x"])]))
                n_conv += 1
                max_dist[tname] = max(max_dist.get(tname, 0.0), dist)
                if not dist <= bound:
                    report(f"impl:converge:{cfg_sig(cfg)}", pr["n"],
                           f"|x_T - x_double|_inf = {dist:.3e} exceeds the bound {bound:.3e} = 10*sqrt((1+|multipliers|_inf)*tol_double/mu) "
                           f"(mu = 1/8 strong convexity, tol_double = {float(tol_d):.3e})\nx_T      = {[float(v) for v in r['x']]}\n"
                           f"x_double = {[float(v) for v in ref[pr['name']]['x']]}\n" + where)
    for sig, (_, textv) in sorted(found.items())[:12]:
        chk.violation(sig, textv)

    chk.cov["evaluations"] = len(configs) + n_res
    chk.cov["problems"] = len(probs)
    chk.cov["results"] = n_res
    chk.cov["solved"] = n_solved
    chk.cov["certificates_valid_exact"] = n_cert_ok
    chk.cov["convergence_comparisons"] = n_conv
    chk.cov["not_solved"] = not_solved[:20]
    chk.cov["per_scalar"] = per_T
    chk.cov["max_residual_over_unslacked_threshold_per_scalar"] = {k: round(v, 4) for k, v in max_ratio.items()}
    chk.cov["max_distance_to_double_optimum_per_scalar"] = max_dist
    chk.cov["configurations"] = [cfg_sig(c) for c in configs]
    chk.cov["distinct_nontrivial"] = len({(cfg, pr["name"]) for cfg in runs for pr in probs
                                          if runs[cfg].get(pr["name"], {}).get("status") == 1 and (pr["p"] + pr["m"] > 0 or any(v is not None for v in pr["lb"] + pr["ub"]))})
    chk.cov["exhaustive"] = bool(chk.thorough())
    chk.cov["rule"] = ("instantiations: thorough = all 72 (T x I x back end x preconditioner; dense has no I), quick = every (T, back end) pair "
                       "once with preconditioner and index type alternating (+ the double/dense/Ruiz reference and both dense preconditioners at "
                       "the 100-digit type). problems: P = M'M + I/8, "
                       "A = [I|R] column-permuted, strictly feasible x0 with margin >= 1/8 on every inequality and bound, all data k/8 or k/64 "
                       "(exact in float), n in 2..20, mixes of finite/infinite bounds. evaluations = compilations + (instantiation, problem) "
                       "runs; distinct_nontrivial = distinct (instantiation, problem) pairs that were SOLVED and have at least one constraint")
    s0 = probs[0]
    r0 = runs.get(REF, {}).get(s0["name"], {})
    chk.sample({"problem": s0["name"], "n": s0["n"], "p": s0["p"], "m": s0["m"], "input": problem_text(s0)[:600],
                "double_reference": {"status": r0.get("status"), "iter": r0.get("iter"), "x": [float(v) for v in r0.get("x", []) if not isinstance(v, str)]}})
    for cfg in list(runs)[:1]:
        chk.sample({"instantiation": cfg_sig(cfg), "header": headers.get(cfg)})
    lean_txt = (f"the Lean module PiqpProofs/Properties/C18.lean was built and axiom-audited ({chk.cov.get('discharged', 0)} of "
                f"{chk.cov.get('obligations', 0)} obligations)" if have_lean else "no Lean module for C18 exists yet: runtime observation only")
    chk.cov["explanation"] = (
        "Compile-and-run observation. 'Compile': each instantiation is its own translation unit built with g++ -std=c++17; a failure is "
        "reported with the compiler diagnostic. 'Valid certificate at that type's precision': for every SOLVED result the quantities "
        "of the solver's termination test (stationarity, primal feasibility, duality gap; same formulas as the Lean predicate "
        "Piqp.certFails used for C01) are recomputed in exact rational arithmetic from the user's data and the printed solution "
        "(printed with more digits than the type carries) and must lie below SLACK=10 times eps_abs + eps_rel*scale for the tolerances "
        "configured for that type (float 1e-4/1e-5, double 1e-8/1e-9, long double 1e-10/1e-11, 100-digit 1e-20/1e-21); the factor 10 "
        "covers the rounding of the type while it evaluates its own test on the scaled data (observed maximum ratio per type is in "
        "max_residual_over_unslacked_threshold_per_scalar); multipliers and slacks must be non-negative exactly. 'Converges to the "
        "optimum found in double': every problem is strongly convex with modulus mu = 1/8, so an approximate KKT point with residuals "
        "<= tol lies within O(sqrt((1+|multipliers|)*tol/mu)) of the unique optimum; the long double and 100-digit solutions must be "
        "within 10*sqrt((1+|multipliers|_inf)*tol_double/mu) of the DenseSolver<double> solution in the infinity norm. A status "
        "other than SOLVED on these well-posed problems is reported as a violation (impl:status:...). " + lean_txt + ".")
    chk.cov["trusted_base"] = [
        "g++ 12 -std=c++17 -O1, Eigen 3.4, Boost.Multiprecision 1.83 (cpp_bin_float<100>, et_off) with boost/multiprecision/eigen.hpp",
        "harness/hinst.cpp (decimal output with >= 25 significant digits for built-in types, 115 for the multiprecision type)",
        "Python fractions/decimal for the exact certificate",
    ] + (chk.cov["trusted_base"][:2] if have_lean else [])
    chk.assumptions = [
        "well-posed problems only: strictly convex (P >= I/8), strictly feasible with margin, full-row-rank A, n <= 20",
        "settings per type chosen in harness/hinst.cpp (tolerances and regularisation scaled with the unit roundoff)",
        f"certificate thresholds carry a slack factor {SLACK}; convergence bound constant 10",
        "quick tier compiles a covering subset (every (T, back end) pair), thorough all 72 instantiations",
    ]
    if proof_ok is False and not chk.violations:
        chk.violation("proof:C18", "Lean proof obligations of C18 no longer check:\n" + getattr(chk, "proof_log", "")[-4000:], True)
    elif proof_ok is False:
        chk.notes.append("proof stage failed: " + getattr(chk, "proof_log", "")[-1500:])
    return chk.finish()
