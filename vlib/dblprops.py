"""Property evaluation on double-precision results (hex doubles from hsold): exact rational recomputation of the
certificate from the user's data + an explicit rounding slack (the solver computes its residuals in floating point)."""
import math
import struct
from fractions import Fraction as F


def unhex(s):
    return struct.unpack(">d", bytes.fromhex(s))[0]


def parse_result(lines):
    """-> dict with info fields (floats) and vectors, from the block printed by `d.result`"""
    out = {}
    names = ["status", "iter", "rho", "delta", "mu", "sigma", "primal_step", "dual_step", "primal_inf", "primal_rel_inf", "dual_inf",
             "dual_rel_inf", "primal_obj", "dual_obj", "duality_gap", "duality_gap_rel", "factor_retires", "reg_limit", "no_primal_update",
             "no_dual_update"]
    for l in lines:
        t = l.split()
        if not t:
            continue
        if t[0] == "info":
            info = {}
            for nme, tok in zip(names, t[1:]):
                info[nme] = int(tok) if nme in ("status", "iter", "factor_retires", "no_primal_update", "no_dual_update") else unhex(tok)
            out["info"] = info
        elif t[0] in ("x", "y", "z", "z_lb", "z_ub", "s", "s_lb", "s_ub"):
            out[t[0]] = [unhex(v) for v in t[1:]]
    return out


PIQP_INF = 1e30


def cert_failures_dbl(pr, st, res, slack_rel=1e-6, slack_abs=1e-11):
    """C01-style certificate for a double result. pr: gen_dbl.DProblem (user data), st: settings dict with eps_*"""
    n, p, m = pr.n, pr.p, pr.m
    x, y, z, zl, zu, s, sl, su = (res[k] for k in ("x", "y", "z", "z_lb", "z_ub", "s", "s_lb", "s_ub"))
    vals = x + y + z + s
    if any(math.isnan(v) or math.isinf(v) for v in vals):
        return ["non-finite entry in x/y/z/s"]
    Fx = [F(v) for v in x]
    P = [[F(pr.P[min(i, j)][max(i, j)]) for j in range(n)] for i in range(n)]
    lbf = [(pr.lb[j] if (pr.lb is not None and pr.lb[j] > -PIQP_INF) else None) for j in range(n)]
    ubf = [(pr.ub[j] if (pr.ub is not None and pr.ub[j] < PIQP_INF) else None) for j in range(n)]
    G = [[F(v) for v in row] for row in pr.G]
    h = [F(v) for v in pr.h]
    for i in range(m):
        if pr.h[i] > PIQP_INF or pr.h[i] < -PIQP_INF:
            G[i] = [F(0)] * n
            h[i] = F(1)
    Px = [sum(P[i][j] * Fx[j] for j in range(n)) for i in range(n)]
    other = []
    for j in range(n):
        v = sum(F(pr.A[i][j]) * F(y[i]) for i in range(p)) + sum(G[i][j] * F(z[i]) for i in range(m))
        if lbf[j] is not None:
            v -= F(zl[j])
        if ubf[j] is not None:
            v += F(zu[j])
        other.append(v)
    rd = [Px[j] + F(pr.c[j]) + other[j] for j in range(n)]
    Ax = [sum(F(pr.A[i][j]) * Fx[j] for j in range(n)) for i in range(p)]
    Gx = [sum(G[i][j] * Fx[j] for j in range(n)) for i in range(m)]
    rp = [Ax[i] - F(pr.b[i]) for i in range(p)] + [Gx[i] + F(s[i]) - h[i] for i in range(m)]
    rel_p = [abs(v) for v in Ax] + [abs(F(v)) for v in pr.b] + [abs(v) for v in Gx] + [abs(v) for v in h] + [abs(F(v)) for v in s]
    fails = []
    for j in range(n):
        if lbf[j] is not None:
            if math.isinf(sl[j]) or math.isnan(sl[j]):
                fails.append(f"s_lb[{j}] not finite on a finite bound"); continue
            rp.append(Fx[j] - F(sl[j]) - F(lbf[j])); rel_p += [abs(Fx[j]), abs(F(lbf[j])), abs(F(sl[j]))]
        if ubf[j] is not None:
            if math.isinf(su[j]) or math.isnan(su[j]):
                fails.append(f"s_ub[{j}] not finite on a finite bound"); continue
            rp.append(Fx[j] + F(su[j]) - F(ubf[j])); rel_p += [abs(Fx[j]), abs(F(ubf[j])), abs(F(su[j]))]
    nrm = lambda v: max([abs(a) for a in v], default=F(0))
    dual_inf, prim_inf = nrm(rd), nrm(rp)
    dual_rel = max(nrm(Px), nrm([F(v) for v in pr.c]), nrm(other))
    prim_rel = max(rel_p, default=F(0))
    eps_abs, eps_rel = F(st["eps_abs"]), F(st["eps_rel"])

    def within(val, tol, scale):
        return val < tol * (1 + F(slack_rel)) + F(slack_abs) * max(F(1), scale)
    if not within(dual_inf, eps_abs + eps_rel * dual_rel, dual_rel):
        fails.append(f"stationarity residual {float(dual_inf):.3e} > tol {float(eps_abs + eps_rel * dual_rel):.3e}")
    if not within(prim_inf, eps_abs + eps_rel * prim_rel, prim_rel):
        fails.append(f"primal residual {float(prim_inf):.3e} > tol {float(eps_abs + eps_rel * prim_rel):.3e}")
    xPx = sum(Fx[j] * Px[j] for j in range(n))
    cx = sum(F(pr.c[j]) * Fx[j] for j in range(n))
    by = sum(F(pr.b[i]) * F(y[i]) for i in range(p))
    hz = sum(h[i] * F(z[i]) for i in range(m))
    lz = sum(F(lbf[j]) * F(zl[j]) for j in range(n) if lbf[j] is not None)
    uz = sum(F(ubf[j]) * F(zu[j]) for j in range(n) if ubf[j] is not None)
    gap = abs((xPx / 2 + cx) - (-xPx / 2 - by - hz + lz - uz))
    gap_rel = max(abs(xPx), abs(cx), abs(by), abs(hz), abs(lz), abs(uz))
    if st.get("check_duality_gap", 1) and not within(gap, F(st["eps_duality_gap_abs"]) + F(st["eps_duality_gap_rel"]) * gap_rel, gap_rel):
        fails.append(f"duality gap {float(gap):.3e} > tol")
    if any(v < 0 for v in z) or any(v < 0 for v in s):
        fails.append("negative z or s")
    for j in range(n):
        if lbf[j] is not None and (zl[j] < 0 or sl[j] < 0):
            fails.append(f"negative z_lb/s_lb[{j}]")
        if ubf[j] is not None and (zu[j] < 0 or su[j] < 0):
            fails.append(f"negative z_ub/s_ub[{j}]")
    return fails


def finite_failures(pr, res):
    """no NaN/inf in the iterates (slacks of absent bounds are +inf by contract)"""
    n = pr.n
    bad = []
    for k in ("x", "y", "z", "s"):
        if any(math.isnan(v) or math.isinf(v) for v in res[k]):
            bad.append(k)
    for j in range(n):
        fl = pr.lb is not None and pr.lb[j] > -PIQP_INF
        fu = pr.ub is not None and pr.ub[j] < PIQP_INF
        if fl and (not math.isfinite(res["z_lb"][j]) or not math.isfinite(res["s_lb"][j])):
            bad.append(f"lb[{j}]")
        if fu and (not math.isfinite(res["z_ub"][j]) or not math.isfinite(res["s_ub"][j])):
            bad.append(f"ub[{j}]")
        if not fl and (res["z_lb"][j] != 0.0 or res["s_lb"][j] != math.inf):
            bad.append(f"absent-lb[{j}]")
        if not fu and (res["z_ub"][j] != 0.0 or res["s_ub"][j] != math.inf):
            bad.append(f"absent-ub[{j}]")
    return bad


DEFAULT_SETTINGS = {"eps_abs": 1e-8, "eps_rel": 1e-9, "check_duality_gap": 1, "eps_duality_gap_abs": 1e-8, "eps_duality_gap_rel": 1e-9,
                    "max_iter": 250, "max_factor_retires": 10}
