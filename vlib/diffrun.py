"""Differential runner: the same case file goes to a C++ harness (real PIQP code, T = Q) and to the Lean
driver (model at QQ); outputs are compared line by line, per case, as strings (exact rationals)."""
import os
import subprocess
from concurrent.futures import ThreadPoolExecutor

from .common import LEAN, sh2

DRIVER = os.path.join(LEAN, ".lake", "build", "bin", "driver")


def split_cases(text):
    """-> dict name -> list of lines (order preserved), plus order list"""
    cases, order, cur = {}, [], None
    for line in text.splitlines():
        if line.startswith("case "):
            cur = line[5:].strip()
            cases[cur] = []
            order.append(cur)
        elif cur is not None:
            cases[cur].append(" ".join(line.split()))
    return cases, order


def run_prog(cmd, text, timeout):
    try:
        p = subprocess.run(cmd, input=text, stdout=subprocess.PIPE, stderr=subprocess.PIPE, text=True, timeout=timeout)
        return p.returncode, p.stdout, p.stderr
    except subprocess.TimeoutExpired as e:
        out = e.stdout.decode() if isinstance(e.stdout, bytes) else (e.stdout or "")
        return -9, out, "timeout"


def run_chunks(cmd, cases, nproc=14, timeout=600):
    """cases: list of {name, lines}. Runs `cmd` over chunks in parallel. -> dict name -> output lines, and list of process errors"""
    if not cases:
        return {}, []
    nchunks = min(nproc, len(cases))
    chunks = [cases[i::nchunks] for i in range(nchunks)]
    texts = ["".join("case %s\n%s\n" % (c["name"], "\n".join(c["lines"])) for c in ch) for ch in chunks]
    outs, errs = {}, []
    with ThreadPoolExecutor(max_workers=nchunks) as ex:
        for (rc, out, err), ch in zip(ex.map(lambda t: run_prog(cmd, t, timeout), texts), chunks):
            got, _ = split_cases(out)
            outs.update(got)
            if rc != 0:
                errs.append({"rc": rc, "stderr": err[-2000:], "cases": [c["name"] for c in ch if c["name"] not in got][:3]})
    return outs, errs


def compare(cases, a, b):
    """-> list of mismatches {name, line, impl, model}"""
    bad = []
    for c in cases:
        n = c["name"]
        la, lb = a.get(n), b.get(n)
        if la is None or lb is None:
            bad.append({"name": n, "line": -1, "impl": "<missing>" if la is None else "<present>",
                        "model": "<missing>" if lb is None else "<present>"})
            continue
        if la != lb:
            for i in range(max(len(la), len(lb))):
                x = la[i] if i < len(la) else "<eof>"
                y = lb[i] if i < len(lb) else "<eof>"
                if x != y:
                    bad.append({"name": n, "line": i, "impl": x[:400], "model": y[:400]})
                    break
    return bad


def case_text(c):
    return "case %s\n%s\n" % (c["name"], "\n".join(c["lines"]))
