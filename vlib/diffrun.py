"""Differential runner: the same case file goes to a C++ harness (real PIQP code, T = Q) and to the Lean
driver (model at QQ); outputs are compared line by line, per case, as strings (exact rationals)."""
import os
import subprocess
from concurrent.futures import ThreadPoolExecutor

from .common import LEAN, sh2

DRIVER = os.path.join(LEAN, ".lake", "build", "bin", "driver")


def split_cases(text):
    """-> dict name -> list of lines (order preserved), plus order list"""
    cases, order, cur = {}, [], None
    for line in text.splitlines():
        if line.startswith("case "):
            cur = line[5:].strip()
            cases[cur] = []
            order.append(cur)
        elif cur is not None:
            cases[cur].append(" ".join(line.split()))
    return cases, order


def run_prog(cmd, text, timeout):
    try:
        p = subprocess.run(cmd, input=text, stdout=subprocess.PIPE, stderr=subprocess.PIPE, text=True, timeout=timeout)
        return p.returncode, p.stdout, p.stderr
    except subprocess.TimeoutExpired as e:
        out = e.stdout.decode() if isinstance(e.stdout, bytes) else (e.stdout or "")
        return -9, out, "timeout"


def run_serial(cmd, cases, timeout):
    """Run `cases` through one process at a time; a case that exceeds `timeout` seconds (or crashes the process) is
    recorded in `lost` and the remaining cases are re-queued to a fresh process.
    -> (outputs dict, lost list of {name, why})"""
    outs, lost = {}, []
    pending = list(cases)
    while pending:
        text = "".join("case %s\n%s\n" % (c["name"], "\n".join(c["lines"])) for c in pending)
        # budget: per-case timeout for the slowest case + a little for each other case
        rc, out, err = run_prog(cmd, text, timeout + 0.25 * len(pending))
        got, order = split_cases(out)
        if rc == 0:
            outs.update(got)
            for c in pending:
                if c["name"] not in got:
                    lost.append({"name": c["name"], "why": "no output"})
            break
        # the last case that produced a `case` line is the one that did not finish
        done = order[:-1] if order else []
        for nme in done:
            outs[nme] = got[nme]
        culprit = order[-1] if order else pending[0]["name"]
        lost.append({"name": culprit, "why": "timeout" if rc == -9 else f"crash rc={rc} {err[-300:]}"})
        names_done = set(done) | {culprit}
        pending = [c for c in pending if c["name"] not in names_done]
    return outs, lost


def run_chunks(cmd, cases, nproc=14, timeout=60):
    """cases: list of {name, lines}. Runs `cmd` over chunks in parallel; `timeout` is per case.
    -> dict name -> output lines, and list of lost cases {name, why}"""
    if not cases:
        return {}, []
    nchunks = min(nproc, len(cases))
    chunks = [cases[i::nchunks] for i in range(nchunks)]
    outs, lost = {}, []
    with ThreadPoolExecutor(max_workers=nchunks) as ex:
        for o, l in ex.map(lambda ch: run_serial(cmd, ch, timeout), chunks):
            outs.update(o)
            lost += l
    return outs, lost


def compare(cases, a, b):
    """-> list of mismatches {name, line, impl, model}"""
    bad = []
    for c in cases:
        n = c["name"]
        la, lb = a.get(n), b.get(n)
        if la is None or lb is None:
            bad.append({"name": n, "line": -1, "impl": "<missing>" if la is None else "<present>",
                        "model": "<missing>" if lb is None else "<present>"})
            continue
        if la != lb:
            for i in range(max(len(la), len(lb))):
                x = la[i] if i < len(la) else "<eof>"
                y = lb[i] if i < len(lb) else "<eof>"
                if x != y:
                    bad.append({"name": n, "line": i, "impl": x[:400], "model": y[:400]})
                    break
    return bad


def case_text(c):
    return "case %s\n%s\n" % (c["name"], "\n".join(c["lines"]))
