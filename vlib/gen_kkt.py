"""Generator of `kkt.*` cases (C13): random dimensions, sparsity patterns (empty rows/columns, P without
diagonal), bound patterns, positive scalings, permutations, every update_data mask."""
import itertools
import random
from fractions import Fraction as F


def fs(x):
    if isinstance(x, str):
        return x
    x = F(x)
    return str(x.numerator) if x.denominator == 1 else f"{x.numerator}/{x.denominator}"


def vs(v):
    return " ".join(fs(x) for x in v)


def rnd_val(rng, zero_ok=False):
    while True:
        v = F(rng.randint(-6, 6), rng.choice([1, 1, 2, 4]))
        if v != 0 or zero_ok:
            return v


def rnd_pos(rng):
    return F(rng.randint(1, 12), rng.choice([1, 2, 4, 8]))


def rnd_mat(rng, r, c, mask):
    return [[rnd_val(rng) if mask[i][j] else F(0) for j in range(c)] for i in range(r)]


def rnd_mask(rng, r, c, dens):
    m = [[rng.random() < dens for _ in range(c)] for _ in range(r)]
    # sometimes force an empty row / column
    if r and rng.random() < 0.2:
        i = rng.randrange(r)
        m[i] = [False] * c
    if c and rng.random() < 0.2:
        j = rng.randrange(c)
        for i in range(r):
            m[i][j] = False
    return m


def psd_matrix(rng, n):
    """M^T M + diag: symmetric positive definite with small rational entries"""
    k = rng.randint(1, n)
    M = [[F(rng.randint(-2, 2)) for _ in range(n)] for _ in range(k)]
    P = [[sum(M[t][i] * M[t][j] for t in range(k)) for j in range(n)] for i in range(n)]
    for i in range(n):
        P[i][i] += F(rng.randint(0, 2), 2)
    return P


def sym_from_mask(rng, n, dens, diag_prob):
    P = [[F(0)] * n for _ in range(n)]
    for i in range(n):
        for j in range(i, n):
            if i == j:
                if rng.random() < diag_prob:
                    P[i][i] = F(rng.randint(1, 8), rng.choice([1, 2]))
            elif rng.random() < dens:
                v = rnd_val(rng)
                P[i][j] = v
                P[j][i] = v
    return P


def mat_tokens(M):
    return " ".join(fs(x) for row in M for x in row)


def refresh_like(rng, M):
    """new values on the same pattern (a stored entry may become an explicit zero)"""
    return [[(rnd_val(rng, zero_ok=(rng.random() < 0.1)) if x != 0 else F(0)) for x in row] for row in M]


def sym_refresh(rng, P):
    n = len(P)
    Q = [[F(0)] * n for _ in range(n)]
    for i in range(n):
        for j in range(i, n):
            if P[i][j] != 0:
                v = rnd_val(rng, zero_ok=(rng.random() < 0.1)) if i != j else F(rng.randint(1, 8), rng.choice([1, 2]))
                Q[i][j] = v
                Q[j][i] = v
    return Q


def box(rng, n):
    cnt = rng.choice([0, 0, 1, n, rng.randint(0, n)])
    idx = sorted(rng.sample(range(n), cnt))
    sc = [rnd_pos(rng) for _ in range(cnt)]
    return cnt, idx, sc


def gen_case(rng, name, be=None, dims=None, mask=None, perm_mode="random"):
    be = rng.randrange(5) if be is None else be
    n, p, m = dims if dims else (rng.randint(1, 5), rng.choice([0, 0, 1, 2, 3]), rng.choice([0, 0, 1, 2, 3]))
    dense = be == 0
    L = []
    sqrt_mode = 32
    L.append(f"kkt.new {be} {n} {p} {m} {sqrt_mode}")
    if dense or rng.random() < 0.3:
        P = psd_matrix(rng, n)
    else:
        P = sym_from_mask(rng, n, rng.choice([0.2, 0.5, 0.9]), rng.choice([0.0, 0.5, 1.0]))
    A = rnd_mat(rng, p, n, rnd_mask(rng, p, n, rng.choice([0.3, 0.6, 1.0])))
    G = rnd_mat(rng, m, n, rnd_mask(rng, m, n, rng.choice([0.3, 0.6, 1.0])))
    L.append("kkt.P " + mat_tokens(P))
    if p:
        L.append("kkt.A " + mat_tokens(A))
    if m:
        L.append("kkt.G " + mat_tokens(G))
    lb = box(rng, n)
    ub = box(rng, n)
    L.append(f"kkt.lb {lb[0]} {' '.join(map(str, lb[1]))} {vs(lb[2])}".rstrip())
    L.append(f"kkt.ub {ub[0]} {' '.join(map(str, ub[1]))} {vs(ub[2])}".rstrip())
    keepY = be in (1, 3)
    keepZ = be in (1, 2)
    N = n + (p if keepY else 0) + (m if keepZ else 0)
    if not dense:
        perm = list(range(N))
        if perm_mode == "random":
            rng.shuffle(perm)
        elif isinstance(perm_mode, (list, tuple)):
            perm = list(perm_mode)
        L.append("kkt.perm " + " ".join(map(str, perm)))
    refine = rng.random() < 0.4
    if refine:
        # static regularisation + refinement (dyadic so that numbers stay short)
        L.append(f"kkt.set {fs(F(1, rng.choice([64, 1024])))} {fs(F(1, 2 ** rng.randint(8, 20)))} {rng.randint(0, 3)} "
                 f"{fs(F(1, 2 ** 30))} {fs(F(1, 2 ** 30))} {rng.choice([1, 2, 5])}")
    rho = F(1, 2 ** rng.randint(2, 12))
    delta = F(1, 2 ** rng.randint(2, 10))
    L.append(f"kkt.init {fs(rho)} {fs(delta)}")
    L.append("kkt.dump")

    def step_tokens():
        return " ".join([vs([rnd_val(rng, True) for _ in range(n)]), vs([rnd_val(rng, True) for _ in range(p)]),
                         vs([rnd_val(rng, True) for _ in range(m)]), vs([rnd_val(rng, True) for _ in range(lb[0])]),
                         vs([rnd_val(rng, True) for _ in range(ub[0])]), vs([rnd_val(rng, True) for _ in range(m)]),
                         vs([rnd_val(rng, True) for _ in range(lb[0])]), vs([rnd_val(rng, True) for _ in range(ub[0])])]).split()

    def scal_line():
        rho2 = F(1, 2 ** rng.randint(2, 12))
        delta2 = F(1, 2 ** rng.randint(2, 10))
        parts = [fs(rho2), fs(delta2)]
        parts += [fs(rnd_pos(rng)) for _ in range(m)] + [fs(rnd_pos(rng)) for _ in range(lb[0])] + [fs(rnd_pos(rng)) for _ in range(ub[0])]
        parts += [fs(rnd_pos(rng)) for _ in range(m)] + [fs(rnd_pos(rng)) for _ in range(lb[0])] + [fs(rnd_pos(rng)) for _ in range(ub[0])]
        return "kkt.scal " + " ".join(parts)

    L.append(f"kkt.factor {1 if refine else 0}")
    L.append(f"kkt.resid {1 if refine else 0} " + " ".join(step_tokens()))
    L.append(scal_line())
    L.append("kkt.dump")
    L.append(f"kkt.factor {1 if refine else 0}")
    L.append(f"kkt.solve {1 if refine else 0} " + " ".join(step_tokens()))
    L.append(f"kkt.resid {1 if refine else 0} " + " ".join(step_tokens()))
    L.append("kkt.mult " + " ".join(step_tokens()))
    # data refresh with an option mask; the mask may or may not cover what changed (staleness is modelled)
    mk = mask if mask is not None else rng.randrange(8)
    chg = mk if rng.random() < 0.7 else rng.randrange(8)
    if chg & 1:
        P = sym_refresh(rng, P) if not dense else psd_matrix(rng, n)
        L.append("kkt.P " + mat_tokens(P))
    if chg & 2 and p:
        A = refresh_like(rng, A)
        L.append("kkt.A " + mat_tokens(A))
    if chg & 4 and m:
        G = refresh_like(rng, G)
        L.append("kkt.G " + mat_tokens(G))
    L.append(f"kkt.upd {mk & 1} {(mk >> 1) & 1} {(mk >> 2) & 1}")
    L.append("kkt.dump")
    L.append(f"kkt.factor {1 if refine else 0}")
    L.append(f"kkt.resid {1 if refine else 0} " + " ".join(step_tokens()))
    L.append(scal_line())
    L.append("kkt.dump")
    L.append(f"kkt.factor {1 if refine else 0}")
    L.append(f"kkt.resid {1 if refine else 0} " + " ".join(step_tokens()))
    meta = {"be": be, "n": n, "p": p, "m": m, "n_lb": lb[0], "n_ub": ub[0], "refine": refine, "mask": mk,
            "changed": chg, "covered": (chg & ~mk & 7) == 0}
    return {"name": name, "lines": L, "meta": meta}


def gen_fresh_pair(rng, name, be, mk):
    """Two cases that must leave the *same* reduced matrix in the implementation:
       A: init(data0); change the blocks in `mk`; update_data(mk); update_scalings(σ)
       B: init(data1); update_scalings(σ)"""
    n, p, m = rng.randint(1, 4), rng.randint(1, 3), rng.randint(1, 3)
    dense = be == 0
    P0 = psd_matrix(rng, n) if dense else sym_from_mask(rng, n, 0.6, 1.0)
    A0 = rnd_mat(rng, p, n, rnd_mask(rng, p, n, 0.8))
    G0 = rnd_mat(rng, m, n, rnd_mask(rng, m, n, 0.8))
    P1 = (psd_matrix(rng, n) if dense else sym_refresh(rng, P0)) if mk & 1 else P0
    A1 = refresh_like(rng, A0) if mk & 2 else A0
    G1 = refresh_like(rng, G0) if mk & 4 else G0
    lb, ub = box(rng, n), box(rng, n)
    keepY, keepZ = be in (1, 3), be in (1, 2)
    N = n + (p if keepY else 0) + (m if keepZ else 0)
    perm = list(range(N))
    rng.shuffle(perm)
    rho, delta = F(1, 2 ** rng.randint(2, 10)), F(1, 2 ** rng.randint(2, 8))
    rho2, delta2 = F(1, 2 ** rng.randint(2, 10)), F(1, 2 ** rng.randint(2, 8))
    sc = [fs(rho2), fs(delta2)]
    sc += [fs(rnd_pos(rng)) for _ in range(m + lb[0] + ub[0])] + [fs(rnd_pos(rng)) for _ in range(m + lb[0] + ub[0])]
    scal = "kkt.scal " + " ".join(sc)

    def head(P, A, G):
        L = [f"kkt.new {be} {n} {p} {m} 32", "kkt.P " + mat_tokens(P), "kkt.A " + mat_tokens(A), "kkt.G " + mat_tokens(G),
             f"kkt.lb {lb[0]} {' '.join(map(str, lb[1]))} {vs(lb[2])}".rstrip(),
             f"kkt.ub {ub[0]} {' '.join(map(str, ub[1]))} {vs(ub[2])}".rstrip()]
        if not dense:
            L.append("kkt.perm " + " ".join(map(str, perm)))
        L.append(f"kkt.init {fs(rho)} {fs(delta)}")
        return L

    LA = head(P0, A0, G0)
    if mk & 1:
        LA.append("kkt.P " + mat_tokens(P1))
    if mk & 2:
        LA.append("kkt.A " + mat_tokens(A1))
    if mk & 4:
        LA.append("kkt.G " + mat_tokens(G1))
    LA += [f"kkt.upd {mk & 1} {(mk >> 1) & 1} {(mk >> 2) & 1}", scal, "kkt.dump"]
    LB = head(P1, A1, G1) + [scal, "kkt.dump"]
    meta = {"be": be, "n": n, "p": p, "m": m, "mask": mk}
    return ({"name": name + "A", "lines": LA, "meta": meta}, {"name": name + "B", "lines": LB, "meta": meta})
