"""Shared machinery for the PIQP verification checks.

Everything here is deterministic given VERIF_SEED and the current /repo working tree.
Paths are derived from this file's location so that the same code runs from /verif
and from a `vp run` snapshot.
"""
import sys
sys.set_int_max_str_digits(0)
import fcntl
import hashlib
import json
import os
import re
import subprocess
import sys
import time

ROOT = os.path.dirname(os.path.dirname(os.path.abspath(__file__)))
LEAN = os.path.join(ROOT, "lean")
HARNESS = os.path.join(ROOT, "harness")
BUILD = os.path.join(ROOT, "build")
EVID = os.path.join(ROOT, "evidence")
REPLAYS = os.path.join(ROOT, "replays")
REPO = os.environ.get("VERIF_REPO", "/repo")
KNOWN = os.path.join(ROOT, "known_findings.txt")
GUARD = "PIQP_VERIF"

ALLOWED_AXIOMS = {"propext", "Classical.choice", "Quot.sound"}
FORBIDDEN = re.compile(
    r"\bsorry\b|\badmit\b|^\s*axiom\s|native_decide|bv_decide|implemented_by|\bunsafe\s|maxHeartbeats\s+0\b|@\[extern"
)

TRUSTED_BASE = [
    "Lean 4.33.0 kernel (lake build; #print axioms audited: propext, Classical.choice, Quot.sound only)",
    "no sorry/admit/axiom/native_decide/bv_decide/implemented_by/unsafe in /verif/lean (grep audit every run)",
    "hand-written Lean model, tied to /repo by the correspondence checks named in this evidence",
    "C++ harness + exact scalar Q (GMP mpq), g++ 12, Eigen 3.4 kernels assumed to compute the mathematical operation",
]


def env_clean():
    e = dict(os.environ)
    e.setdefault("LC_ALL", "C")
    return e


def sh(cmd, cwd=None, timeout=None, input=None, env=None):
    """Run a command, return (rc, stdout+stderr) with the conda noise filtered."""
    p = subprocess.run(cmd, cwd=cwd, shell=isinstance(cmd, str), input=input,
                       stdout=subprocess.PIPE, stderr=subprocess.STDOUT, text=True,
                       timeout=timeout, env=env or env_clean())
    out = "\n".join(l for l in p.stdout.splitlines() if "auto_activate_base" not in l and "conda" not in l.lower()[:40])
    return p.returncode, out


def sh2(cmd, cwd=None, timeout=None, input=None):
    """Run a command, return (rc, stdout, stderr) separately."""
    p = subprocess.run(cmd, cwd=cwd, shell=isinstance(cmd, str), input=input,
                       stdout=subprocess.PIPE, stderr=subprocess.PIPE, text=True,
                       timeout=timeout, env=env_clean())
    return p.returncode, p.stdout, p.stderr


class Lock:
    def __init__(self, name):
        os.makedirs(BUILD, exist_ok=True)
        self.path = os.path.join(BUILD, name + ".lock")

    def __enter__(self):
        self.f = open(self.path, "w")
        fcntl.flock(self.f, fcntl.LOCK_EX)
        return self

    def __exit__(self, *a):
        fcntl.flock(self.f, fcntl.LOCK_UN)
        self.f.close()


# ----------------------------------------------------------------------------- Lean

def lean_sources():
    out = []
    for d, _, fs in os.walk(LEAN):
        if "/.lake" in d:
            continue
        for f in fs:
            if f.endswith(".lean"):
                out.append(os.path.join(d, f))
    return sorted(out)


def strip_comments(src):
    # remove /- ... -/ (nested) and -- ... comments
    res = []
    i, depth, n = 0, 0, len(src)
    while i < n:
        if src.startswith("/-", i):
            depth += 1
            i += 2
        elif depth and src.startswith("-/", i):
            depth -= 1
            i += 2
        elif depth:
            if src[i] == "\n":
                res.append("\n")
            i += 1
        elif src.startswith("--", i):
            while i < n and src[i] != "\n":
                i += 1
        else:
            res.append(src[i])
            i += 1
    return "".join(res)


def grep_audit():
    """Forbidden constructs outside comments anywhere in the Lean project."""
    hits = []
    for f in lean_sources():
        body = strip_comments(open(f).read())
        for ln, line in enumerate(body.splitlines(), 1):
            if FORBIDDEN.search(line):
                hits.append(f"{os.path.relpath(f, ROOT)}:{ln}: {line.strip()}")
    return hits


def lake_build(targets, timeout=3000):
    """Build the given lake targets (serialised across concurrently running checks)."""
    with Lock("lake"):
        t0 = time.time()
        rc, out = sh(["lake", "build"] + list(targets), cwd=LEAN, timeout=timeout)
        return rc == 0, out, time.time() - t0


def property_theorems(pid):
    """Names of the theorems declared in PiqpProofs/Properties/<pid>.lean (the registered obligations)."""
    path = os.path.join(LEAN, "PiqpProofs", "Properties", pid + ".lean")
    if not os.path.exists(path):
        return []
    body = strip_comments(open(path).read())
    ns = []
    names = []
    for line in body.splitlines():
        m = re.match(r"\s*namespace\s+(\S+)", line)
        if m:
            ns.append(m.group(1))
            continue
        m = re.match(r"\s*end\s+(\S+)", line)
        if m and ns and ns[-1].split(".")[-1] == m.group(1).split(".")[-1]:
            ns.pop()
            continue
        m = re.match(r"\s*(?:@\[[^\]]*\]\s*)?(?:protected\s+|private\s+)?theorem\s+(\S+)", line)
        if m:
            names.append(".".join(ns + [m.group(1)]))
    return names


def axioms_audit(pid, extra_imports=()):
    """#print axioms for each registered theorem. Returns (results, log)
    results: list of dicts {theorem, axioms, ok}."""
    thms = property_theorems(pid)
    if not thms:
        return [], "no theorems registered"
    os.makedirs(BUILD, exist_ok=True)
    tmp = os.path.join(BUILD, f"audit_{pid}_{os.getpid()}.lean")
    with open(tmp, "w") as f:
        f.write(f"import PiqpProofs.Properties.{pid}\n")
        for i in extra_imports:
            f.write(f"import {i}\n")
        for t in thms:
            f.write(f"#print axioms {t}\n")
    rc, out = sh(["lake", "env", "lean", tmp], cwd=LEAN, timeout=900)
    os.unlink(tmp)
    results = []
    # output format: "'name' depends on axioms: [a, b]" or "'name' does not depend on any axioms"
    flat = re.sub(r"\s+", " ", out)
    for t in thms:
        m = re.search(r"'" + re.escape(t) + r"' depends on axioms: \[([^\]]*)\]", flat)
        if m:
            ax = [a.strip() for a in m.group(1).split(",") if a.strip()]
            results.append({"theorem": t, "axioms": ax, "ok": set(ax) <= ALLOWED_AXIOMS})
        elif re.search(r"'" + re.escape(t) + r"' does not depend on any axioms", flat):
            results.append({"theorem": t, "axioms": [], "ok": True})
        else:
            results.append({"theorem": t, "axioms": ["<not found>"], "ok": False})
    return results, out


def leanchecker(module):
    rc, out = sh(["lake", "env", "leanchecker", module], cwd=LEAN, timeout=1800)
    return rc == 0, out


# ----------------------------------------------------------------------------- harness builds

def repo_tree_hash(subdirs=("include", "interfaces")):
    h = hashlib.sha256()
    for sd in subdirs:
        base = os.path.join(REPO, sd)
        for d, dn, fs in os.walk(base):
            dn.sort()
            for f in sorted(fs):
                p = os.path.join(d, f)
                if os.path.islink(p):
                    continue
                h.update(os.path.relpath(p, REPO).encode())
                with open(p, "rb") as fh:
                    h.update(fh.read())
    return h.hexdigest()


_repo_hash_cache = {}


def build_cpp(name, sources, flags=(), libs=(), extra_dep_files=(), compiler="g++", timeout=1800, hooks=True):
    """Compile harness `name` from `sources` against /repo's current tree.
    The cache key covers every file under /repo/include and /repo/interfaces, the harness sources,
    the flags; so a check always reflects the working tree while identical trees are not recompiled.
    Returns (ok, exe_path, log)."""
    os.makedirs(BUILD, exist_ok=True)
    if "tree" not in _repo_hash_cache:
        _repo_hash_cache["tree"] = repo_tree_hash()
    h = hashlib.sha256()
    h.update(_repo_hash_cache["tree"].encode())
    hdrs = sorted(os.path.join(HARNESS, f) for f in os.listdir(HARNESS) if f.endswith((".hpp", ".h")))
    for s in list(sources) + hdrs + list(extra_dep_files):
        h.update(s.encode())
        with open(s, "rb") as fh:
            h.update(fh.read())
    allflags = list(flags) + ([f"-D{GUARD}"] if hooks else [])
    h.update(" ".join([compiler] + allflags + list(libs)).encode())
    key = h.hexdigest()[:20]
    exe = os.path.join(BUILD, f"{name}-{key}")
    if os.path.exists(exe):
        return True, exe, "cached"
    with Lock("cpp-" + name):
        if os.path.exists(exe):
            return True, exe, "cached"
        # remove stale builds of the same harness
        for f in os.listdir(BUILD):
            if f.startswith(name + "-") and not f.endswith(".lock"):
                try:
                    os.unlink(os.path.join(BUILD, f))
                except OSError:
                    pass
        cmd = [compiler, "-std=c++17", "-I", os.path.join(REPO, "include"), "-I", "/usr/include/eigen3",
               "-I", HARNESS] + allflags + list(sources) + ["-o", exe + ".tmp"] + list(libs)
        rc, out = sh(cmd, timeout=timeout)
        if rc != 0:
            return False, None, out
        os.rename(exe + ".tmp", exe)
        return True, exe, out


# ----------------------------------------------------------------------------- known findings

def load_known():
    """known_findings.txt lines:
         known: property=<id> sig=<signature> <text>
         fixed: property=<id> <commit> <text>
       Only `known:` entries suppress; they are matched by exact signature."""
    known = []
    if os.path.exists(KNOWN):
        for line in open(KNOWN):
            line = line.strip()
            m = re.match(r"known:\s+property=(\S+)\s+sig=(\S+)\s*(.*)", line)
            if m:
                known.append({"property": m.group(1), "sig": m.group(2), "text": m.group(3)})
    return known


# ----------------------------------------------------------------------------- result object

class Check:
    def __init__(self, pid, level):
        self.pid = pid
        self.level = level
        self.tier = os.environ.get("VERIF_TIER", "quick")
        self.seed = int(os.environ.get("VERIF_SEED", "1"))
        self.t0 = time.time()
        self.violations = []      # list of (sig, replay_text, no_input)
        self.cov = {"samples": [], "trusted_base": list(TRUSTED_BASE)}
        self.assumptions = []
        self.notes = []
        self.known_hit = []

    def thorough(self):
        return self.tier == "thorough"

    def log(self, *a):
        print(f"[{self.pid}]", *a, flush=True)

    def sample(self, s, cap=6):
        if len(self.cov["samples"]) < cap:
            self.cov["samples"].append(s)

    def add(self, key, n=1):
        self.cov[key] = self.cov.get(key, 0) + n

    def violation(self, sig, text, no_input=False):
        """Record a violation with a signature identifying the failing input/history."""
        self.violations.append((sig, text, no_input))

    # --- proof obligations
    def proof_stage(self, targets=None, leancheck=False):
        """Build the property's Lean module(s) + audit.  Returns True if every obligation is discharged."""
        pid = self.pid
        targets = targets or [f"PiqpProofs.Properties.{pid}"]
        hits = grep_audit()
        ok, out, dt = lake_build(targets)
        self.cov["lake_build_s"] = round(dt, 1)
        thms = property_theorems(pid)
        self.cov["obligations"] = len(thms)
        self.cov["checker_cmd"] = f"cd lean && lake build {' '.join(targets)} && lake env lean <#print axioms of {len(thms)} theorems>"
        if hits:
            self.cov["discharged"] = 0
            self.violation("audit:forbidden-construct", "forbidden constructs in Lean sources:\n" + "\n".join(hits), True)
            return False
        if not ok:
            self.cov["discharged"] = 0
            self.proof_log = out
            return False
        res, log = axioms_audit(pid)
        self.cov["theorems"] = [{"name": r["theorem"], "axioms": r["axioms"]} for r in res]
        self.cov["discharged"] = sum(1 for r in res if r["ok"])
        bad = [r for r in res if not r["ok"]]
        if bad:
            self.proof_log = "axiom audit failed: " + json.dumps(bad) + "\n" + log
            return False
        if leancheck:
            for t in targets:
                okc, outc = leanchecker(t)
                self.cov.setdefault("leanchecker", []).append({"module": t, "ok": okc})
                if not okc:
                    self.proof_log = "leanchecker failed on " + t + "\n" + outc
                    return False
        return True

    # --- finishing
    def finish(self):
        os.makedirs(EVID, exist_ok=True)
        os.makedirs(REPLAYS, exist_ok=True)
        known = [k for k in load_known() if k["property"] == self.pid]
        ksig = {k["sig"]: k for k in known}
        real = []
        for sig, text, no_input in self.violations:
            if sig in ksig:
                if sig not in self.known_hit:
                    self.known_hit.append(sig)
                    print(f"KNOWN-FINDING: property={self.pid} {sig} {ksig[sig]['text']}", flush=True)
                continue
            real.append((sig, text, no_input))
        self.cov["known_findings_reproduced"] = list(self.known_hit)
        wall = time.time() - self.t0
        ev = {
            "property_id": self.pid,
            "tier": self.tier if self.tier in ("quick", "thorough") else "quick",
            "seed": self.seed,
            "level": self.level,
            "coverage": self.cov,
            "assumptions": self.assumptions,
            "wall_s": round(wall, 2),
            "violations": len(real),
        }
        if self.notes:
            ev["coverage"]["notes"] = self.notes
        with open(os.path.join(EVID, self.pid + ".json"), "w") as f:
            json.dump(ev, f, indent=1, default=str)
        if real:
            seen = set()
            for sig, text, no_input in real:
                if sig in seen:
                    continue
                seen.add(sig)
                hh = hashlib.sha256((sig + text).encode()).hexdigest()[:10]
                path = os.path.join(REPLAYS, f"{self.pid}-{hh}.txt")
                with open(path, "w") as f:
                    f.write(f"property={self.pid}\nsignature={sig}\nseed={self.seed}\ntier={self.tier}\n")
                    f.write(f"replay: VERIF_SEED={self.seed} {ROOT}/check {self.pid} --tier {self.tier}\n\n")
                    f.write(text + "\n")
                tail = " no-failing-input-found" if no_input else ""
                print(f"VIOLATION property={self.pid} replay={path}{tail}", flush=True)
            return 1
        self.log(f"ok ({wall:.1f}s)")
        return 0
