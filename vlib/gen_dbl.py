"""Double-precision problem generators for the `d.*` protocol of harness/hsold.cpp."""
import math
import random


def fr(x):
    if isinstance(x, str):
        return x
    if x == math.inf:
        return "inf"
    if x == -math.inf:
        return "-inf"
    return repr(float(x))


class DProblem:
    def __init__(self, n, p, m):
        self.n, self.p, self.m = n, p, m
        self.P = [[0.0] * n for _ in range(n)]
        self.c = [0.0] * n
        self.A = [[0.0] * n for _ in range(p)]
        self.b = [0.0] * p
        self.G = [[0.0] * n for _ in range(m)]
        self.h = [0.0] * m
        self.lb = None
        self.ub = None
        self.maskA = None
        self.maskG = None
        self.maskP = None

    def mat(self, name, M, mask, r, c, sparse):
        toks = []
        for i in range(r):
            for j in range(c):
                if sparse and mask is not None and not mask[i][j]:
                    toks.append(".")
                else:
                    toks.append(fr(M[i][j]))
        return f"{name} {r} {c} " + " ".join(toks)

    def vec(self, name, v):
        return f"{name} {len(v)} " + " ".join(fr(x) for x in v)

    def args(self, sparse, which=None):
        n, p, m = self.n, self.p, self.m
        parts = []
        w = which or ["P", "c", "A", "b", "G", "h", "lb", "ub"]
        if "P" in w:
            parts.append(self.mat("P", self.P, self.maskP, n, n, sparse))
        if "c" in w:
            parts.append(self.vec("c", self.c))
        if p and "A" in w:
            parts.append(self.mat("A", self.A, self.maskA, p, n, sparse))
        if p and "b" in w:
            parts.append(self.vec("b", self.b))
        if m and "G" in w:
            parts.append(self.mat("G", self.G, self.maskG, m, n, sparse))
        if m and "h" in w:
            parts.append(self.vec("h", self.h))
        if self.lb is not None and "lb" in w:
            parts.append(self.vec("lb", self.lb))
        if self.ub is not None and "ub" in w:
            parts.append(self.vec("ub", self.ub))
        return " ".join(parts)


def wellposed(rng, n=None, p=None, m=None, mu=None, dens=None):
    """class W: P >= mu*I (mu >= 1e-2), a Slater point with margin, rank(A) = p <= n, O(1) entries,
    every mix of lower-only / upper-only / two-sided / free variables"""
    n = n or rng.randint(1, 12)
    p = rng.randint(0, min(n, 4)) if p is None else min(p, n)
    m = rng.randint(0, 8) if m is None else m
    pr = DProblem(n, p, m)
    k = rng.randint(1, n)
    M = [[rng.uniform(-1, 1) if rng.random() < (dens or 0.7) else 0.0 for _ in range(n)] for _ in range(k)]
    mu = mu if mu is not None else rng.choice([1e-2, 0.1, 1.0])
    for i in range(n):
        for j in range(n):
            pr.P[i][j] = sum(M[t][i] * M[t][j] for t in range(k)) + (mu if i == j else 0.0)
    pr.maskP = [[pr.P[i][j] != 0.0 for j in range(n)] for i in range(n)]
    x0 = [rng.uniform(-2, 2) for _ in range(n)]
    pr.x0 = x0
    pr.c = [rng.uniform(-2, 2) for _ in range(n)]
    # full row rank A: random rows + identity-like pivots
    for i in range(p):
        for j in range(n):
            pr.A[i][j] = rng.uniform(-1, 1) if rng.random() < (dens or 0.7) else 0.0
        pr.A[i][i] += 2.0
    pr.maskA = [[pr.A[i][j] != 0.0 for j in range(n)] for i in range(p)]
    pr.b = [sum(pr.A[i][j] * x0[j] for j in range(n)) for i in range(p)]
    for i in range(m):
        for j in range(n):
            pr.G[i][j] = rng.uniform(-1, 1) if rng.random() < (dens or 0.7) else 0.0
    pr.maskG = [[pr.G[i][j] != 0.0 for j in range(n)] for i in range(m)]
    pr.h = [sum(pr.G[i][j] * x0[j] for j in range(n)) + rng.uniform(0.1, 2.0) for i in range(m)]
    kinds = [rng.choice(["free", "lb", "ub", "both"]) for _ in range(n)]
    if rng.random() < 0.2:
        kinds = [rng.choice(["free", "free", "lb"]) for _ in range(n)]
    lb, ub = [], []
    for j in range(n):
        lo, hi = x0[j] - rng.uniform(0.1, 2.0), x0[j] + rng.uniform(0.1, 2.0)
        lb.append(lo if kinds[j] in ("lb", "both") else -math.inf)
        ub.append(hi if kinds[j] in ("ub", "both") else math.inf)
    r = rng.random()
    pr.lb = lb if (r < 0.8 or any(k in ("lb", "both") for k in kinds)) else None
    pr.ub = ub if (r < 0.8 or any(k in ("ub", "both") for k in kinds)) else None
    if pr.lb is None:
        pr.lb = None
    pr.kinds = kinds
    return pr


def permuted(pr, perm):
    """the same problem with its variables renumbered (variable j of the result is variable perm[j] of `pr`): same
    dimensions, same number of stored entries in P, A, G — in general another sparsity pattern"""
    n, p, m = pr.n, pr.p, pr.m
    q = DProblem(n, p, m)
    q.P = [[pr.P[perm[i]][perm[j]] for j in range(n)] for i in range(n)]
    q.c = [pr.c[perm[j]] for j in range(n)]
    q.A = [[pr.A[i][perm[j]] for j in range(n)] for i in range(p)]
    q.b = list(pr.b)
    q.G = [[pr.G[i][perm[j]] for j in range(n)] for i in range(m)]
    q.h = list(pr.h)
    q.lb = None if pr.lb is None else [pr.lb[perm[j]] for j in range(n)]
    q.ub = None if pr.ub is None else [pr.ub[perm[j]] for j in range(n)]
    q.maskP = None if pr.maskP is None else [[pr.maskP[perm[i]][perm[j]] for j in range(n)] for i in range(n)]
    q.maskA = None if pr.maskA is None else [[pr.maskA[i][perm[j]] for j in range(n)] for i in range(p)]
    q.maskG = None if pr.maskG is None else [[pr.maskG[i][perm[j]] for j in range(n)] for i in range(m)]
    return q


DEFAULTS = {}


def case_lines(be, pk, settings, body):
    L = [f"d.new {be} {pk}"]
    for k, v in settings.items():
        L.append(f"d.set {k} {fr(v) if isinstance(v, float) else v}")
    return L + body


def adversarial(rng):
    """structurally valid but hostile data: non-convex / zero P, P without diagonal, empty and duplicated rows, p > n,
    fixed variables, crossing bounds, magnitudes 1e+-150, +-inf in h and in the bounds (all entries finite or +-inf where allowed)"""
    n = rng.randint(1, 8)
    p = rng.choice([0, 0, 1, 2, n, n + 2])
    m = rng.choice([0, 1, 2, 5, 8])
    pr = DProblem(n, p, m)
    mag = lambda: rng.choice([1.0, 1.0, 1.0, 1e-150, 1e150, 1e-30, 1e30, 1e8, 1e-8])
    kindP = rng.choice(["indef", "zero", "negdef", "nodiag", "psd", "huge"])
    for i in range(n):
        for j in range(i, n):
            if kindP == "zero":
                v = 0.0
            elif kindP == "nodiag":
                v = 0.0 if i == j else rng.uniform(-1, 1)
            elif kindP == "negdef":
                v = -rng.uniform(0.5, 2) if i == j else 0.0
            elif kindP == "huge":
                v = rng.uniform(-1, 1) * mag()
            else:
                v = rng.uniform(-1, 1) * (1.0 if rng.random() < 0.7 else 0.0)
            pr.P[i][j] = v; pr.P[j][i] = v
    if kindP == "psd":
        for i in range(n):
            pr.P[i][i] = abs(pr.P[i][i]) + n
    pr.maskP = [[pr.P[i][j] != 0.0 for j in range(n)] for i in range(n)]
    pr.c = [rng.uniform(-1, 1) * mag() for _ in range(n)]
    sc = mag()
    for i in range(p):
        if rng.random() < 0.2 and i > 0:
            pr.A[i] = list(pr.A[i - 1])            # duplicated row
        elif rng.random() < 0.15:
            pr.A[i] = [0.0] * n                     # empty row
        else:
            pr.A[i] = [rng.uniform(-1, 1) * sc if rng.random() < 0.6 else 0.0 for _ in range(n)]
    pr.maskA = [[pr.A[i][j] != 0.0 for j in range(n)] for i in range(p)]
    pr.b = [rng.uniform(-1, 1) * mag() for _ in range(p)]
    sg = mag()
    for i in range(m):
        if rng.random() < 0.2 and i > 0:
            pr.G[i] = list(pr.G[i - 1])
        elif rng.random() < 0.15:
            pr.G[i] = [0.0] * n
        else:
            pr.G[i] = [rng.uniform(-1, 1) * sg if rng.random() < 0.6 else 0.0 for _ in range(n)]
    pr.maskG = [[pr.G[i][j] != 0.0 for j in range(n)] for i in range(m)]
    pr.h = [rng.choice([rng.uniform(-1, 1) * mag(), math.inf, -math.inf, 1e30, 2e30, -2e30]) if rng.random() < 0.5 else rng.uniform(-1, 1) for _ in range(m)]
    lb, ub = [], []
    for j in range(n):
        k = rng.choice(["free", "lb", "ub", "both", "fixed", "crossing", "huge"])
        a, b_ = rng.uniform(-2, 0), rng.uniform(0, 2)
        if k == "free":
            lb.append(-math.inf); ub.append(math.inf)
        elif k == "lb":
            lb.append(a); ub.append(math.inf)
        elif k == "ub":
            lb.append(-math.inf); ub.append(b_)
        elif k == "both":
            lb.append(a); ub.append(b_)
        elif k == "fixed":
            lb.append(a); ub.append(a)
        elif k == "crossing":
            lb.append(b_); ub.append(a)
        else:
            lb.append(-1e30 * rng.choice([0.5, 1, 2])); ub.append(1e29 * rng.choice([1, 10, 100]))
    pr.lb = lb if rng.random() < 0.85 else None
    pr.ub = ub if rng.random() < 0.85 else None
    pr.kind = kindP
    return pr
