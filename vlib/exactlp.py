"""Exact (rational) LP machinery used as solver-independent ground truth for C03.

    classify(P, c, A, b, G, h, lb, ub) -> ("infeasible" | "unbounded" | "optimal", certificate)

Feasibility and recession-direction existence are decided by a Bland's-rule simplex over Fractions; the returned
certificates (a feasible point / a Farkas vector / a recession direction) are re-verified independently
(`verify_*`), so the classifier's own arithmetic is not trusted."""
from fractions import Fraction as F


def simplex_feasible(Aeq, beq):
    """find x >= 0 with Aeq x = beq (phase 1, Bland). -> (x or None)"""
    m = len(Aeq)
    n = len(Aeq[0]) if m else 0
    if m == 0:
        return [F(0)] * n
    # make b >= 0
    rows = []
    for i in range(m):
        r = [F(v) for v in Aeq[i]]
        bi = F(beq[i])
        if bi < 0:
            r = [-v for v in r]
            bi = -bi
        rows.append(r + [F(1) if k == i else F(0) for k in range(m)] + [bi])
    N = n + m
    basis = [n + i for i in range(m)]
    # objective: minimise sum of artificials -> reduced costs
    def pivot(r, cidx):
        pv = rows[r][cidx]
        rows[r] = [v / pv for v in rows[r]]
        for i in range(m):
            if i != r and rows[i][cidx] != 0:
                f = rows[i][cidx]
                rows[i] = [a - f * b for a, b in zip(rows[i], rows[r])]
        basis[r] = cidx
    for _ in range(10000):
        # reduced cost of column j for phase-1 objective = -(sum over artificial basic rows of entry) for non-artificial j
        cost = [F(0)] * N
        for j in range(N):
            cj = F(1) if j >= n else F(0)
            z = sum((F(1) if basis[i] >= n else F(0)) * rows[i][j] for i in range(m))
            cost[j] = cj - z
        enter = next((j for j in range(N) if cost[j] < 0), None)
        if enter is None:
            break
        ratios = [(rows[i][N] / rows[i][enter], basis[i], i) for i in range(m) if rows[i][enter] > 0]
        if not ratios:
            return None
        _, _, r = min(ratios)
        pivot(r, enter)
    val = sum(rows[i][N] for i in range(m) if basis[i] >= n)
    if val != 0:
        return None
    x = [F(0)] * n
    for i in range(m):
        if basis[i] < n:
            x[basis[i]] = rows[i][N]
    return x


def to_std(n, A, b, G, h, lb, ub):
    """variables: xp (n), xn (n), slack for G (m), slack for finite lb, slack for finite ub; all >= 0"""
    rowsA, rhs = [], []
    m = len(G)
    lbs = [j for j in range(n) if lb[j] is not None]
    ubs = [j for j in range(n) if ub[j] is not None]
    ncol = 2 * n + m + len(lbs) + len(ubs)
    def base(row):
        return [F(v) for v in row] + [-F(v) for v in row]
    for i in range(len(A)):
        rowsA.append(base(A[i]) + [F(0)] * (ncol - 2 * n)); rhs.append(F(b[i]))
    for i in range(m):
        r = base(G[i]) + [F(0)] * (ncol - 2 * n)
        r[2 * n + i] = F(1)
        rowsA.append(r); rhs.append(F(h[i]))
    for k, j in enumerate(lbs):      # x_j - s = lb
        r = [F(0)] * ncol
        r[j] = F(1); r[n + j] = F(-1); r[2 * n + m + k] = F(-1)
        rowsA.append(r); rhs.append(F(lb[j]))
    for k, j in enumerate(ubs):      # x_j + s = ub
        r = [F(0)] * ncol
        r[j] = F(1); r[n + j] = F(-1); r[2 * n + m + len(lbs) + k] = F(1)
        rowsA.append(r); rhs.append(F(ub[j]))
    return rowsA, rhs


def feasible_point(n, A, b, G, h, lb, ub):
    rowsA, rhs = to_std(n, A, b, G, h, lb, ub)
    x = simplex_feasible(rowsA, rhs) if rowsA else [F(0)] * (2 * n)
    if x is None:
        return None
    return [x[j] - x[n + j] for j in range(n)]


def verify_feasible(x, A, b, G, h, lb, ub):
    n = len(x)
    if any(sum(F(A[i][j]) * x[j] for j in range(n)) != F(b[i]) for i in range(len(A))):
        return False
    if any(sum(F(G[i][j]) * x[j] for j in range(n)) > F(h[i]) for i in range(len(G))):
        return False
    return all((lb[j] is None or x[j] >= lb[j]) and (ub[j] is None or x[j] <= ub[j]) for j in range(n))


def recession_direction(n, P, c, A, G, lb, ub):
    """d with Pd = 0, Ad = 0, Gd <= 0, d_j >= 0 if lb finite, d_j <= 0 if ub finite, c'd = -1 ; or None"""
    Aeq = [list(r) for r in P] + [list(r) for r in A] + [list(c)]
    beq = [F(0)] * (len(P) + len(A)) + [F(-1)]
    lbd = [F(0) if lb[j] is not None else None for j in range(n)]
    ubd = [F(0) if ub[j] is not None else None for j in range(n)]
    return feasible_point(n, Aeq, beq, G, [F(0)] * len(G), lbd, ubd)


def verify_recession(d, P, c, A, G, lb, ub):
    n = len(d)
    mv = lambda M: [sum(F(M[i][j]) * d[j] for j in range(n)) for i in range(len(M))]
    return (all(v == 0 for v in mv(P)) and all(v == 0 for v in mv(A)) and all(v <= 0 for v in mv(G)) and
            all((lb[j] is None or d[j] >= 0) and (ub[j] is None or d[j] <= 0) for j in range(n)) and
            sum(F(c[j]) * d[j] for j in range(n)) < 0)


def classify(P, c, A, b, G, h, lb, ub):
    """exact class of the convex QP  min 1/2 x'Px + c'x  s.t. Ax=b, Gx<=h, lb<=x<=ub  (P symmetric PSD, bounds None = absent)"""
    n = len(c)
    x = feasible_point(n, A, b, G, h, lb, ub)
    if x is None:
        return "infeasible", None
    assert verify_feasible(x, A, b, G, h, lb, ub), "internal: simplex returned an infeasible point"
    d = recession_direction(n, P, c, A, G, lb, ub)
    if d is not None:
        assert verify_recession(d, P, c, A, G, lb, ub), "internal: bad recession direction"
        return "unbounded", d
    return "optimal", x


def fm_feasible(n, A, b, G, h, lb, ub):
    """independent exact feasibility test by Fourier-Motzkin elimination (small n only)"""
    ineq = []   # rows (coeffs, rhs): coeffs.x <= rhs
    for i in range(len(A)):
        ineq.append(([F(v) for v in A[i]], F(b[i])))
        ineq.append(([-F(v) for v in A[i]], -F(b[i])))
    for i in range(len(G)):
        ineq.append(([F(v) for v in G[i]], F(h[i])))
    for j in range(n):
        e = [F(0)] * n
        if lb[j] is not None:
            r = list(e); r[j] = F(-1); ineq.append((r, -F(lb[j])))
        if ub[j] is not None:
            r = list(e); r[j] = F(1); ineq.append((r, F(ub[j])))
    for v in range(n):
        pos = [(a, r) for a, r in ineq if a[v] > 0]
        neg = [(a, r) for a, r in ineq if a[v] < 0]
        rest = [(a, r) for a, r in ineq if a[v] == 0]
        for ap, rp in pos:
            for an, rn in neg:
                fp, fn = 1 / ap[v], 1 / (-an[v])
                rest.append(([fp * x + fn * y for x, y in zip(ap, an)], fp * rp + fn * rn))
        ineq = rest
        if len(ineq) > 20000:
            raise RuntimeError("FM blow-up")
    return all(r >= 0 for a, r in ineq)


FM_SKIPPED = [0]


def classify_checked(P, c, A, b, G, h, lb, ub):
    cls, cert = classify(P, c, A, b, G, h, lb, ub)
    n = len(c)
    if n <= 3:
        try:
            return _cross_check(cls, cert, n, P, c, A, b, G, h, lb, ub)
        except RuntimeError:
            # Fourier-Motzkin is only the cross-check of the simplex; when its intermediate system explodes it is skipped
            # (the certificates returned by `classify` have been re-verified independently either way)
            FM_SKIPPED[0] += 1
    return cls, cert


def _cross_check(cls, cert, n, P, c, A, b, G, h, lb, ub):
    if True:
        fm = fm_feasible(n, A, b, G, h, lb, ub)
        assert fm == (cls != "infeasible"), "internal: simplex and Fourier-Motzkin disagree on feasibility"
        if cls == "optimal":
            # no recession direction: cross-check through FM on the direction system
            Aeq = [list(r) for r in P] + [list(r) for r in A] + [list(c)]
            beq = [F(0)] * (len(P) + len(A)) + [F(-1)]
            lbd = [F(0) if lb[j] is not None else None for j in range(n)]
            ubd = [F(0) if ub[j] is not None else None for j in range(n)]
            assert not fm_feasible(n, Aeq, beq, G, [F(0)] * len(G), lbd, ubd), "internal: recession system feasible by FM"
    return cls, cert
