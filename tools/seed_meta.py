#!/usr/bin/env python3
"""seed_meta.py : (re)write seeded/<id>/meta.json from the agent's description (meta_agent.json), the confirmation runs
(build/seed_confirm*.log, produced by tools/confirm_seed.sh) and the detection record (detection.json, tools/seed_matrix.py)."""
import glob, json, os
V = os.path.dirname(os.path.dirname(os.path.abspath(__file__)))
conf = {}
for f in sorted(glob.glob(os.path.join(V, "build", "seed_confirm*.log")) + glob.glob(os.path.join(V, "seeded", "confirm_log.jsonl"))):
    for l in open(f):
        l = l.strip()
        if l.startswith("{"):
            try:
                j = json.loads(l)
                if "seed" in j:
                    conf[j["seed"]] = j
            except Exception:
                pass
# keep the confirmation records under version control (build/ is not)
with open(os.path.join(V, "seeded", "confirm_log.jsonl"), "w") as f:
    for k in sorted(conf):
        f.write(json.dumps(conf[k]) + "\n")
for d in sorted(glob.glob(os.path.join(V, "seeded", "*-*"))):
    sid = os.path.basename(d)
    ma = os.path.join(d, "meta_agent.json")
    if not os.path.exists(ma):
        continue
    a = json.load(open(ma))
    c = conf.get(sid)
    det = None
    if os.path.exists(os.path.join(d, "detection.json")):
        det = json.load(open(os.path.join(d, "detection.json")))
    meta = {
        "seed": sid,
        "property": sid.split("-")[0],
        "breaks": a.get("summary"),
        "needs_to_manifest": a.get("needs"),
        "produced_by": "fresh sub-agent given only the property text and a scratch worktree of /repo (see DESIGN.md §18)",
        "agent_ran": a.get("ran"),
        "confirmed_by_me": None if c is None else {
            "how": "tools/confirm_seed.sh in the scratch worktree /tmp/seedcheck (outside /repo and /verif): patch applies to /repo HEAD; "
                   "demo built and run on the unchanged tree and on the patched tree; full build; ctest of _build/tests (295 tests, "
                   "BUILD_MAROS_MESZAROS_TEST=ON) and _build/interfaces/c/tests (2 tests) on the patched tree",
            "demo_exit_unchanged_tree": c["demo_exit_unchanged"], "demo_exit_patched_tree": c["demo_exit_changed"],
            "build_rc_patched_tree": c["build_rc"], "unexpected_test_failures_patched_tree": c["unexpected_test_failures"],
            "ctest_summary": c.get("ctest")},
        "detected_by": None if det is None else [
            {"check": r["check"], "reports_violation": r["violations"] > 0, "signatures": r["signatures"]} for r in det["results"]],
    }
    json.dump(meta, open(os.path.join(d, "meta.json"), "w"), indent=1)
    print(sid, "confirmed" if c else "NOT-CONFIRMED", "detected" if det and any(r["violations"] for r in det["results"]) else ("-" if det is None else "MISSED"))
