#!/usr/bin/env python3
"""seed_matrix.py [seed ids…] : for every /verif/seeded/<id> apply patch.diff to /repo, run the listed checks (quick tier),
undo, and record which checks report a violation (with the replay signatures) in seeded/<id>/detection.json.
/repo must be clean; evidence files are restored from git afterwards (they would otherwise describe the patched tree)."""
import json, os, re, subprocess, sys, time
V = os.path.dirname(os.path.dirname(os.path.abspath(__file__)))
EXTRA = {"C01-a": ["C15", "C04", "C09"], "C01-b": ["C09"], "C04-a": ["C15", "C01"], "C04-b": ["C15", "C08"], "C05-a": ["C09"],
         "C07-a": ["C13", "C12"], "C07-b": ["C09", "C01"], "C08-a": ["C01"], "C08-b": ["C04", "C07"], "C09-a": ["C01"], "C09-b": ["C15", "C01"],
         "C10-a": ["C04"], "C10-b": ["C15", "C01", "C08"], "C12-a": ["C07"], "C12-b": ["C06"], "C13-a": ["C04"], "C13-b": ["C12"],
         "C15-a": ["C04", "C01"], "C15-b": ["C04", "C08"]}
def sh(cmd, **kw):
    return subprocess.run(cmd, shell=True, capture_output=True, text=True, **kw)
def main():
    ids = sys.argv[1:] or sorted(os.listdir(os.path.join(V, "seeded")))
    if sh("git -C /repo diff --quiet").returncode != 0:
        print("repo not clean"); return 2
    for sid in ids:
        d = os.path.join(V, "seeded", sid)
        if not os.path.exists(os.path.join(d, "patch.diff")):
            continue
        prop = sid.split("-")[0]
        checks = [prop] + [c for c in EXTRA.get(sid, []) if c != prop]
        r = sh(f"git -C /repo apply {d}/patch.diff")
        if r.returncode != 0:
            print(sid, "PATCH-DOES-NOT-APPLY"); continue
        res = []
        try:
            for c in checks:
                t0 = time.time()
                o = sh(f"cd {V} && timeout 3000 ./check {c} --tier quick")
                out = o.stdout + o.stderr
                sigs = []
                for m in re.finditer(r"^VIOLATION property=(\S+) replay=(\S+)(.*)$", out, re.M):
                    sig = ""
                    try:
                        sig = open(m.group(2)).read().splitlines()[1]
                    except Exception:
                        pass
                    sigs.append(sig + (" no-failing-input-found" if "no-failing-input-found" in m.group(3) else ""))
                res.append({"check": c, "exit": o.returncode, "violations": len(sigs), "signatures": sorted(set(sigs))[:8],
                            "seconds": round(time.time() - t0)})
                print(sid, c, "rc=%d" % o.returncode, "viol=%d" % len(sigs), sorted(set(sigs))[:3], flush=True)
        finally:
            sh("git -C /repo checkout -- .")
        json.dump({"seed": sid, "repo_head": sh("git -C /repo rev-parse --short HEAD").stdout.strip(), "tier": "quick",
                   "results": res}, open(os.path.join(d, "detection.json"), "w"), indent=1)
    sh(f"cd {V} && git checkout -- evidence lean/PiqpProofs/Generated")
    return 0
sys.exit(main())
