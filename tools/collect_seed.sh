#!/bin/bash
# collect_seed.sh <Cxx> [suffix1 suffix2]: copy a mutation agent's output (/tmp/mut/<id>/_out) into seeded/<id>-<suffix> and drop its worktree
id=$1; s1=${2:-c}; s2=${3:-d}; o=/tmp/mut/$id/_out
cd /verif || exit 2
for pair in "$s1:patch.diff:demo.cpp:meta.json" "$s2:patch2.diff:demo2.cpp:meta2.json"; do
  IFS=: read suf p d m <<<"$pair"
  [ -f $o/$p ] || { echo "missing $o/$p"; continue; }
  mkdir -p seeded/$id-$suf
  cp $o/$p seeded/$id-$suf/patch.diff; cp $o/$d seeded/$id-$suf/demo.cpp; cp $o/$m seeded/$id-$suf/meta_agent.json
  [ -d $o/mock ] && cp -r $o/mock seeded/$id-$suf/
done
git -C /repo worktree remove --force /tmp/mut/$id
