#!/bin/bash
# confirm_queue.sh <seed ids...>: confirm seeds one after another; concurrent invocations serialise on a lock
cd /verif || exit 2
exec 9>/tmp/seedconfirm.lock
flock 9
for s in "$@"; do tools/confirm_seed.sh seeded/$s; done
