#!/bin/bash
# run_all.sh [tier] : every registered check once at the current VERIF_SEED; prints one line per check
cd "$(dirname "$0")/.."
TIER=${1:-quick}
./setup.sh > /dev/null 2>&1
for c in C01 C02 C03 C04 C05 C06 C07 C08 C09 C10 C11 C12 C13 C14 C15 C16 C17 C18 C19 C20; do
  s=$(date +%s)
  out=$(timeout 7200 ./check $c --tier $TIER 2>&1)
  rc=$?
  e=$(( $(date +%s) - s ))
  echo "seed=${VERIF_SEED:-1} $c rc=$rc ${e}s $(echo "$out" | grep -E '^VIOLATION|^KNOWN|INTERNAL' | head -3 | tr '\n' ' ')"
  if [ $rc -ne 0 ]; then echo "$out" | grep '^VIOLATION' | sed 's/.*replay=//' | awk '{print $1}' | while read f; do echo "   sig: $(sed -n 2p $f)"; done; fi
done
