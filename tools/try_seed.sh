#!/bin/bash
# try_seed.sh <seeded-dir> <check ids...> : apply a seeded change to /repo, run the checks, undo. Prints which caught it.
D=$(realpath "$1"); shift
cd /repo || exit 2
git diff --quiet || { echo "repo not clean"; exit 2; }
git apply "$D/patch.diff" || { echo "PATCH-DOES-NOT-APPLY $(basename $D)"; exit 3; }
for c in "$@"; do
  out=$(cd /verif && timeout 2400 ./check $c 2>&1)
  rc=$?
  nv=$(echo "$out" | grep -c "^VIOLATION")
  sigs=$(echo "$out" | grep "^VIOLATION" | sed 's/.*replay=//' | awk '{print $1}' | while read f; do sed -n 2p $f; done | sort | uniq | head -5 | tr '\n' ' ')
  echo "$(basename $D) check=$c rc=$rc violations=$nv $sigs"
done
git checkout -q -- .
