#!/bin/bash
# confirm_seed.sh <seeded-dir> : confirm a seeded change in a scratch worktree (outside /repo and /verif):
#   1. the patch applies to /repo's HEAD, the tree compiles and the FULL baseline suite passes (only the baseline's
#      always-failing DenseMarosMeszaros QBEACONF may fail)
#   2. the demonstration passes on the unchanged tree and fails on the changed tree
# Prints a JSON summary line; leaves nothing behind except the (reused) scratch worktree /tmp/seedcheck, removed by `--cleanup`.
set -u
WT=/tmp/seedcheck
if [ "${1:-}" = "--cleanup" ]; then git -C /repo worktree remove --force $WT 2>/dev/null; rm -rf $WT; exit 0; fi
D=$(realpath "$1")
if [ ! -d $WT ]; then git -C /repo worktree add -q $WT HEAD || exit 2; fi
cd $WT && git checkout -q -- . && git checkout -q --detach $(git -C /repo rev-parse HEAD) 2>/dev/null
if [ ! -d $WT/_build ]; then
  cmake -G Ninja -B $WT/_build -S $WT -DFETCHCONTENT_SOURCE_DIR_GOOGLETEST=/usr/src/googletest -DCMAKE_BUILD_TYPE=RelWithDebInfo -DCMAKE_CXX_FLAGS=-Wno-error -DBUILD_TESTS=ON -DBUILD_MAROS_MESZAROS_TEST=ON -DBUILD_C_INTERFACE=ON -DBUILD_WITH_TEMPLATE_INSTANTIATION=ON -DBUILD_EXAMPLES=OFF > $WT/_cmake.log 2>&1 || { echo '{"error":"cmake"}'; exit 2; }
fi
CXX="g++ -std=c++17 -O1 -DNDEBUG -I$WT/include -I/usr/include/eigen3 -I$WT/interfaces/c/include"
EXTRA=""
grep -q "piqp.h" $D/demo.cpp && EXTRA="$WT/interfaces/c/src/piqp.cpp"
grep -q "matio\|io_utils" $D/demo.cpp && EXTRA="$EXTRA -lmatio"
grep -q "fail_hook\|piqp_verif" $D/demo.cpp && ! grep -q "define PIQP_VERIF" $D/demo.cpp && CXX="$CXX -DPIQP_VERIF"
[ -d $D/mock ] && CXX="$CXX -I$D/mock -I$WT/interfaces/matlab"
$CXX $D/demo.cpp $EXTRA -o $WT/_demo_clean > $WT/_demo_clean.log 2>&1; ( cd $WT && timeout 600 ./_demo_clean > _demo_clean.out 2>&1 ); CLEAN=$?
git apply $D/patch.diff || { echo '{"error":"patch does not apply"}'; exit 2; }
$CXX $D/demo.cpp $EXTRA -o $WT/_demo_mut > $WT/_demo_mut.log 2>&1; ( cd $WT && timeout 600 ./_demo_mut > _demo_mut.out 2>&1 ); MUT=$?
cmake --build $WT/_build -j14 > $WT/_build.log 2>&1; BUILD=$?
FAILED="?"
if [ $BUILD = 0 ]; then
  ctest --test-dir $WT/_build/tests -j12 --timeout 900 > $WT/_ctest.log 2>&1
  ctest --test-dir $WT/_build/interfaces/c/tests >> $WT/_ctest.log 2>&1
  FAILED=$(grep -E "^\s+[0-9]+ - " $WT/_ctest.log | grep -v "DenseMarosMeszarosTest.CanSolveProblemKKTFull/QBEACONF" | wc -l)
  NT=$(grep -E "tests passed|tests failed" $WT/_ctest.log | tr '\n' ';')
fi
git checkout -q -- .
echo "{\"seed\":\"$(basename $D)\",\"demo_exit_unchanged\":$CLEAN,\"demo_exit_changed\":$MUT,\"build_rc\":$BUILD,\"unexpected_test_failures\":\"$FAILED\",\"ctest\":\"${NT:-}\"}"
