/-
  Executable property predicates on a *returned* point and the *user's* problem (original scaling and
  variable order), independent of the solver's internal numbers:

    * `certFails`      (C01)  optimality certificate within the configured tolerances
    * `wellFormedFails`(C08)  exact 0 / +∞ at infinite bounds, signs, finiteness
    * `diagFails`      (C09)  reported diagnostics equal the quantities of the returned point

  They are evaluated by the driver on the results of the model, which the correspondence check compares,
  entry by entry and exactly, with the results of the real solver.
-/
import PiqpModel.Solver

namespace Piqp
variable {K : Type}

/-- the user's (effective) problem: symmetric `P`, bounds `none` = infinite -/
structure UserProblem (K : Type) (n p m : Nat) where
  P : Mat K n n
  c : Vec K n
  A : Mat K p n
  b : Vec K p
  G : Mat K m n
  h : Vec K m
  lb : Vector (Option K) n
  ub : Vector (Option K) n

/-- a returned point in the user's coordinates -/
structure Point (K : Type) (n p m : Nat) where
  x : Vec K n
  y : Vec K p
  z : Vec K m
  z_lb : Vec K n
  z_ub : Vec K n
  s : Vec K m
  s_lb : Vec K n
  s_ub : Vec K n

structure Quantities (K : Type) where
  dualInf : K
  dualRelInf : K
  primalInf : K
  primalRelInf : K
  primalObj : K
  dualObj : K
  dualityGap : K
  dualityGapRel : K

section
variable [Add K] [Sub K] [Mul K] [Div K] [Neg K] [Zero K] [One K] [LT K] [DecidableLT K] [LE K] [DecidableLE K]
variable {n p m : Nat}

def maskedNorm (v : Vec K n) (act : Fin n → Bool) : K :=
  maxFin 0 n (fun i => if act i then vabs v[i] else 0)

/-- residuals, objectives and the relative-tolerance terms, from the user's data and the point only -/
def quantities (half : K) (u : UserProblem K n p m) (q : Point K n p m) : Quantities K :=
  let Px := Mat.mulVec u.P q.x
  let ATy := Mat.mulVecT u.A q.y
  let GTz := Mat.mulVecT u.G q.z
  let hasL : Fin n → Bool := fun j => u.lb[j].isSome
  let hasU : Fin n → Bool := fun j => u.ub[j].isSome
  let other : Vec K n := Vector.ofFn fun j =>
    ATy[j] + GTz[j] - (if hasL j then q.z_lb[j] else 0) + (if hasU j then q.z_ub[j] else 0)
  let rd : Vec K n := Vector.ofFn fun j => Px[j] + u.c[j] + other[j]
  let Ax := Mat.mulVec u.A q.x
  let Gx := Mat.mulVec u.G q.x
  let rpe : Vec K p := Vector.ofFn fun i => Ax[i] - u.b[i]
  let rpi : Vec K m := Vector.ofFn fun i => Gx[i] + q.s[i] - u.h[i]
  let lbv : Vec K n := Vector.ofFn fun j => (u.lb[j]).getD 0
  let ubv : Vec K n := Vector.ofFn fun j => (u.ub[j]).getD 0
  let rpl : Vec K n := Vector.ofFn fun j => q.x[j] - q.s_lb[j] - lbv[j]
  let rpu : Vec K n := Vector.ofFn fun j => q.x[j] + q.s_ub[j] - ubv[j]
  let xPx := Vec.dot q.x Px
  let cx := Vec.dot u.c q.x
  let by_ := Vec.dot u.b q.y
  let hz := Vec.dot u.h q.z
  let lz := sumFin n (fun j => if hasL j then lbv[j] * q.z_lb[j] else 0)
  let uz := sumFin n (fun j => if hasU j then ubv[j] * q.z_ub[j] else 0)
  let pobj := half * xPx + cx
  let dobj := -(half * xPx) - by_ - hz + lz - uz
  let mx (a b : K) : K := vmax a b
  { dualInf := Vec.infNorm rd,
    dualRelInf := mx (mx (Vec.infNorm Px) (Vec.infNorm u.c)) (Vec.infNorm other),
    primalInf := mx (mx (mx (Vec.infNorm rpe) (Vec.infNorm rpi)) (maskedNorm rpl hasL)) (maskedNorm rpu hasU),
    primalRelInf :=
      mx (mx (mx (mx (mx (mx (mx (mx (mx (mx (Vec.infNorm Ax) (Vec.infNorm u.b)) (Vec.infNorm Gx)) (Vec.infNorm u.h))
        (Vec.infNorm q.s)) (maskedNorm q.x hasL)) (maskedNorm lbv hasL)) (maskedNorm q.s_lb hasL))
        (maskedNorm q.x hasU)) (maskedNorm ubv hasU)) (maskedNorm q.s_ub hasU),
    primalObj := pobj, dualObj := dobj, dualityGap := vabs (pobj - dobj),
    dualityGapRel := mx (mx (mx (mx (mx (vabs xPx) (vabs cx)) (vabs by_)) (vabs hz)) (vabs lz)) (vabs uz) }

/-- C01: names of the certificate clauses that fail (empty = valid certificate) -/
def certFails (half : K) (st : Settings K) (u : UserProblem K n p m) (q : Point K n p m) : List String :=
  let t := quantities half u q
  let hasL : Fin n → Bool := fun j => u.lb[j].isSome
  let hasU : Fin n → Bool := fun j => u.ub[j].isSome
  let neg (v : K) : Bool := decide (v < 0)
  (if t.dualInf < st.epsAbs + st.epsRel * t.dualRelInf then [] else ["stationarity"]) ++
  (if t.primalInf < st.epsAbs + st.epsRel * t.primalRelInf then [] else ["primal-feasibility"]) ++
  (if !st.checkDualityGap || decide (t.dualityGap < st.epsGapAbs + st.epsGapRel * t.dualityGapRel) then [] else ["duality-gap"]) ++
  (if (List.finRange m).any (fun i => neg q.z[i]) then ["z-negative"] else []) ++
  (if (List.finRange m).any (fun i => neg q.s[i]) then ["s-negative"] else []) ++
  (if (List.finRange n).any (fun j => hasL j && (neg q.z_lb[j] || neg q.s_lb[j])) then ["lb-multiplier-or-slack-negative"] else []) ++
  (if (List.finRange n).any (fun j => hasU j && (neg q.z_ub[j] || neg q.s_ub[j])) then ["ub-multiplier-or-slack-negative"] else [])

/-- C08: well-formedness of the result vectors. `isFin` says whether a scalar is an ordinary finite number,
    `posInf` is the value the code stores for the slack of an absent bound. -/
def wellFormedFails [BEq K] (isFin : K → Bool) (posInf : K) (u : UserProblem K n p m) (q : Point K n p m) : List String :=
  let bad (name : String) (c : Bool) : List String := if c then [name] else []
  bad "z_lb-not-0-at-infinite-bound" ((List.finRange n).any fun j => u.lb[j].isNone && !(q.z_lb[j] == 0)) ++
  bad "z_ub-not-0-at-infinite-bound" ((List.finRange n).any fun j => u.ub[j].isNone && !(q.z_ub[j] == 0)) ++
  bad "s_lb-not-inf-at-infinite-bound" ((List.finRange n).any fun j => u.lb[j].isNone && !(q.s_lb[j] == posInf)) ++
  bad "s_ub-not-inf-at-infinite-bound" ((List.finRange n).any fun j => u.ub[j].isNone && !(q.s_ub[j] == posInf)) ++
  bad "non-finite-entry" ((List.finRange n).any (fun j => !isFin q.x[j]) || (List.finRange p).any (fun i => !isFin q.y[i]) ||
       (List.finRange m).any (fun i => !isFin q.z[i] || !isFin q.s[i]) ||
       (List.finRange n).any (fun j => (u.lb[j].isSome && (!isFin q.z_lb[j] || !isFin q.s_lb[j])) ||
                                       (u.ub[j].isSome && (!isFin q.z_ub[j] || !isFin q.s_ub[j])))) ++
  bad "multiplier-negative" ((List.finRange m).any (fun i => decide (q.z[i] < 0)) ||
       (List.finRange n).any (fun j => (u.lb[j].isSome && decide (q.z_lb[j] < 0)) || (u.ub[j].isSome && decide (q.z_ub[j] < 0)))) ++
  bad "slack-not-positive" ((List.finRange m).any (fun i => !decide (0 < q.s[i])) ||
       (List.finRange n).any (fun j => (u.lb[j].isSome && !decide (0 < q.s_lb[j])) || (u.ub[j].isSome && !decide (0 < q.s_ub[j]))))

/-- C09: diagnostics that differ from the quantities of the returned point -/
def diagFails [BEq K] (half : K) (st : Settings K) (u : UserProblem K n p m) (q : Point K n p m)
    (info : Info K) (returned : Status) : List String :=
  let t := quantities half u q
  let bad (name : String) (c : Bool) : List String := if c then [name] else []
  let ran := decide (1 ≤ info.iter) || decide (returned = .solved)
  let verdict := decide (returned = .solved) || decide (returned = .primalInfeasible) || decide (returned = .dualInfeasible)
  bad "info.status" (decide (info.status ≠ returned)) ++
  bad "info.iter>max_iter" (decide (st.maxIter < (info.iter : Int))) ++
  bad "primal_obj" (ran && !(info.primalObj == t.primalObj)) ++
  bad "dual_obj" (ran && !(info.dualObj == t.dualObj)) ++
  bad "duality_gap" (ran && !(info.dualityGap == t.dualityGap)) ++
  bad "primal_inf" (verdict && !(info.primalInf == t.primalInf)) ++
  bad "dual_inf" (verdict && !(info.dualInf == t.dualInf))

/-- C15: the scaled data held by the solver are the user's (effective) data transformed by the scalings the
    preconditioner reports, and every inverse scaling is the inverse on the active indices.
    `u.lb/ub`: packed order = increasing variable index of the finite bounds. -/
def precondFails [BEq K] (u : UserProblem K n p m) (d : Data K n p m) (pre : Precond K n p m) : List String :=
  let bad (name : String) (c : Bool) : List String := if c then [name] else []
  let anyN (f : Fin n → Bool) : Bool := (List.finRange n).any f
  -- rank of variable j among the finite lower (upper) bounds
  let finL : Fin n → Bool := fun j => u.lb[j].isSome
  let finU : Fin n → Bool := fun j => u.ub[j].isSome
  bad "P" (anyN fun i => anyN fun j => decide (i.val ≤ j.val) && !(d.P[i][j] == pre.c * pre.dx[i] * pre.dx[j] * u.P[i][j])) ++
  bad "c" (anyN fun i => !(d.c[i] == pre.c * pre.dx[i] * u.c[i])) ++
  bad "A" (anyN fun i => (List.finRange p).any fun k => !(d.AT[i][k] == pre.dx[i] * u.A[k][i] * pre.dy[k])) ++
  bad "G" (anyN fun i => (List.finRange m).any fun k => !(d.GT[i][k] == pre.dx[i] * u.G[k][i] * pre.dz[k])) ++
  bad "b" ((List.finRange p).any fun k => !(d.b[k] == u.b[k] * pre.dy[k])) ++
  bad "h" ((List.finRange m).any fun k => !(d.h[k] == u.h[k] * pre.dz[k])) ++
  bad "n_lb" (d.lb.cnt != ((List.finRange n).filter finL).length) ++
  bad "n_ub" (d.ub.cnt != ((List.finRange n).filter finU).length) ++
  bad "lb-packing" (anyN fun k => decide (k.val < d.lb.cnt) &&
      (match u.lb[d.lb.idx[k]] with
       | some v => !(d.lb.val[k] == -v * pre.dlb[k]) || !(d.lb.sc[k] == pre.dlb[k] * pre.dx[d.lb.idx[k]])
       | none => true)) ++
  bad "ub-packing" (anyN fun k => decide (k.val < d.ub.cnt) &&
      (match u.ub[d.ub.idx[k]] with
       | some v => !(d.ub.val[k] == v * pre.dub[k]) || !(d.ub.sc[k] == pre.dub[k] * pre.dx[d.ub.idx[k]])
       | none => true)) ++
  bad "c_inv" (!(pre.c * pre.cInv == 1)) ++
  bad "delta_inv" (anyN (fun i => !(pre.dx[i] * pre.dxInv[i] == 1)) || (List.finRange p).any (fun k => !(pre.dy[k] * pre.dyInv[k] == 1)) ||
                   (List.finRange m).any (fun k => !(pre.dz[k] * pre.dzInv[k] == 1))) ++
  bad "delta_lb_inv" (anyN fun k => decide (k.val < d.lb.cnt) && !(pre.dlb[k] * pre.dlbInv[k] == 1)) ++
  bad "delta_ub_inv" (anyN fun k => decide (k.val < d.ub.cnt) && !(pre.dub[k] * pre.dubInv[k] == 1)) ++
  bad "n_lb-stale" (pre.nlb != d.lb.cnt) ++ bad "n_ub-stale" (pre.nub != d.ub.cnt) ++
  bad "scaling-not-positive" (!decide (0 < pre.c) || anyN (fun i => !decide (0 < pre.dx[i])) ||
      (List.finRange p).any (fun k => !decide (0 < pre.dy[k])) || (List.finRange m).any (fun k => !decide (0 < pre.dz[k])) ||
      anyN (fun k => decide (k.val < d.lb.cnt) && !decide (0 < pre.dlb[k])) || anyN (fun k => decide (k.val < d.ub.cnt) && !decide (0 < pre.dub[k])))

end
end Piqp
