/-
  Bound packing (`setup_lb_data`, `setup_ub_data`), disabling of infinite rows of `h`
  (`disable_inf_constraints`) and the re-indexing of box multipliers/slacks after a solve
  (`restore_box_dual`).
-/
import PiqpModel.Precond

namespace Piqp
variable {K : Type}

section
variable [Neg K] [LT K] [DecidableLT K] [Zero K] [One K]
variable {n p m : Nat}

/-- state of the packing loop after looking at variables `0 … k-1` -/
def packLoop (keep : K → Bool) (store : K → K) (x : Vec K n) :
    (k : Nat) → (Nat × Vector (Fin n) n × Vec K n) → (Nat × Vector (Fin n) n × Vec K n)
  | 0, acc => acc
  | k + 1, acc =>
    let (cnt, idx, val) := packLoop keep store x k acc
    if h : k < n then
      if keep x[k] then
        if hc : cnt < n then (cnt + 1, idx.set cnt ⟨k, h⟩, val.set cnt (store x[k]))
        else (cnt, idx, val)   -- unreachable: cnt ≤ k < n
      else (cnt, idx, val)
    else (cnt, idx, val)

/-- `setup_lb_data(x_lb)`: finite lower bounds are packed, negated, into the head of `x_lb_n`.
    `none` = argument absent: `n_lb = 0`, buffers untouched. -/
def setupLb (cs : Consts K) (old : BoxSide K n) (x : Option (Vec K n)) : BoxSide K n :=
  match x with
  | none => { old with cnt := 0 }
  | some x =>
    let (cnt, idx, val) := packLoop (fun v => decide (-cs.piqpInf < v)) (fun v => -v) x n (0, old.idx, old.val)
    { old with cnt := cnt, idx := idx, val := val }

/-- `setup_ub_data(x_ub)` -/
def setupUb (cs : Consts K) (old : BoxSide K n) (x : Option (Vec K n)) : BoxSide K n :=
  match x with
  | none => { old with cnt := 0 }
  | some x =>
    let (cnt, idx, val) := packLoop (fun v => decide (v < cs.piqpInf)) (fun v => v) x n (0, old.idx, old.val)
    { old with cnt := cnt, idx := idx, val := val }

/-- `disable_inf_constraints`: rows of `G` whose `h` is beyond ±PIQP_INF are zeroed and `h` set to 1 -/
def disableInf (cs : Consts K) (GT : Mat K n m) (h : Vec K m) : Mat K n m × Vec K m :=
  let off : Fin m → Bool := fun i => decide (cs.piqpInf < h[i]) || decide (h[i] < -cs.piqpInf)
  (Mat.ofFn fun j i => if off i then 0 else GT[j][i], Vector.ofFn fun i => if off i then 1 else h[i])

/-- which rows `disable_inf_constraints` disables -/
def infMask (cs : Consts K) (h : Vec K m) : Vector Bool m :=
  Vector.ofFn fun i => decide (cs.piqpInf < h[i]) || decide (h[i] < -cs.piqpInf)

/-- `redisable_inf_constraints`: zero the rows of a freshly assigned G that are disabled -/
def rezeroRows (mask : Vector Bool m) (GT : Mat K n m) : Mat K n m :=
  Mat.ofFn fun j i => if mask[i] then 0 else GT[j][i]

/-- the descending swap loop of `restore_box_dual`: `for i = cnt-1 … 0: swap(v(i), v(idx(i)))` -/
def swapLoop (idx : Vector (Fin n) n) : (k : Nat) → Vec K n → Vec K n
  | 0, v => v
  | k + 1, v =>
    if h : k < n then swapLoop idx k (v.swap k idx[k].val h idx[k].isLt)
    else swapLoop idx k v

/-- `restore_box_dual` for one buffer: tail filled with `fill`, then the swap loop -/
def restoreBox (b : BoxSide K n) (fill : K) (v : Vec K n) : Vec K n :=
  let v1 : Vec K n := Vector.ofFn fun i => if i.val < b.cnt then v[i] else fill
  swapLoop b.idx (min b.cnt n) v1

end
end Piqp
