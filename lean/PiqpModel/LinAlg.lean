/-
  Dense pivot-free factorisations as recursions on the Schur complement.

  * `ldlt`      : `A = L D Lᵀ`, `L` unit lower triangular, `D` diagonal; fails with the index of the first
                  zero pivot (sparse::LDLt::factorize_numeric_upper_triangular returns that index,
                  dense::LDLTNoPivot reports NumericalIssue).
  * `ldltSolve` : solution of `A x = b` through the same pivots.
  * `llt`/`lltSolve` : Cholesky `A = L Lᵀ` with an abstract square root `sqrtF` (Eigen::LLT, used by the
                  dense KKT back end); fails at the first non-positive pivot.

  In exact arithmetic the factors of a pivot-free LDLᵀ/LLᵀ do not depend on the loop order (left-looking,
  up-looking, right-looking, blocked), so these recursions denote what every variant in the code computes.
-/
import PiqpModel.Scalar

namespace Piqp
variable {K : Type}

section
variable [Add K] [Sub K] [Mul K] [Div K] [Zero K] [One K] [BEq K]

/-- first column below the diagonal divided by the pivot -/
@[inline] def colDiv {n : Nat} (A : Mat K (n+1) (n+1)) (d : K) : Vec K n :=
  Vector.ofFn fun i => A[i.succ][(0 : Fin (n+1))] / d

/-- Schur complement after eliminating variable 0 with multipliers `l` and pivot weight `w`
    (`w = d₀` for LDLᵀ, `w = 1` for LLᵀ). -/
@[inline] def schur {n : Nat} (A : Mat K (n+1) (n+1)) (l : Vec K n) (w : K) : Mat K n n :=
  Mat.ofFn fun i j => A[i.succ][j.succ] - l[i] * w * l[j]

/-- glue a first row/column onto a unit-lower-triangular factor -/
@[inline] def consL {n : Nat} (d : K) (l : Vec K n) (L' : Mat K n n) : Mat K (n+1) (n+1) :=
  Mat.ofFn fun i j =>
    Fin.cases (motive := fun _ => K)
      (Fin.cases (motive := fun _ => K) d (fun _ => 0) j)
      (fun i' => Fin.cases (motive := fun _ => K) l[i'] (fun j' => L'[i'][j']) j) i

@[inline] def consV {n : Nat} (a : K) (v : Vec K n) : Vec K (n+1) :=
  Vector.ofFn fun i => Fin.cases (motive := fun _ => K) a (fun i' => v[i']) i

@[inline] def tailV {n : Nat} (v : Vec K (n+1)) : Vec K n := Vector.ofFn fun i => v[i.succ]

/-- `A = L D Lᵀ`; `Except.error k` = zero pivot met at elimination step `k`. -/
def ldlt : (n : Nat) → Mat K n n → Except Nat (Mat K n n × Vec K n)
  | 0, _ => .ok (Vector.ofFn fun i => i.elim0, Vector.ofFn fun i => i.elim0)
  | n+1, A =>
    let d0 := A[(0 : Fin (n+1))][(0 : Fin (n+1))]
    if d0 == 0 then .error 0 else
    let l := colDiv A d0
    match ldlt n (schur A l d0) with
    | .error k => .error (k+1)
    | .ok (L', D') => .ok (consL 1 l L', consV d0 D')

/-- solve `A x = b` by pivot-free LDLᵀ elimination. -/
def ldltSolve : (n : Nat) → Mat K n n → Vec K n → Except Nat (Vec K n)
  | 0, _, _ => .ok (Vector.ofFn fun i => i.elim0)
  | n+1, A, b =>
    let d0 := A[(0 : Fin (n+1))][(0 : Fin (n+1))]
    if d0 == 0 then .error 0 else
    let l := colDiv A d0
    let b0 := b[(0 : Fin (n+1))]
    let b' : Vec K n := Vector.ofFn fun i => b[i.succ] - l[i] * b0
    match ldltSolve n (schur A l d0) b' with
    | .error k => .error (k+1)
    | .ok x' => .ok (consV (b0 / d0 - sumFin n (fun i => l[i] * x'[i])) x')

/-- drop the first row and column -/
@[inline] def minorM {n : Nat} (L : Mat K (n+1) (n+1)) : Mat K n n := Mat.ofFn fun i j => L[i.succ][j.succ]

/-- solve `(L D Lᵀ) x = b` with stored factors (`L` unit lower triangular: only its strict lower part is read), by the
    same elimination recursion as `ldltSolve`: forward elimination on the way down, back-substitution on the way up -/
def solveLD : (n : Nat) → Mat K n n → Vec K n → Vec K n → Vec K n
  | 0, _, _, _ => Vector.ofFn fun i => i.elim0
  | n+1, L, D, b =>
    let l : Vec K n := Vector.ofFn fun i => L[i.succ][(0 : Fin (n+1))]
    let b0 := b[(0 : Fin (n+1))]
    let b' : Vec K n := Vector.ofFn fun i => b[i.succ] - l[i] * b0
    let x' := solveLD n (minorM L) (tailV D) b'
    consV (b0 / D[(0 : Fin (n+1))] - sumFin n (fun i => l[i] * x'[i])) x'

end

section
variable [Add K] [Sub K] [Mul K] [Div K] [Zero K] [One K] [LE K] [DecidableLE K]

/-- Cholesky with abstract square root; `Except.error k` = pivot `k` not positive. -/
def llt (sqrtF : K → K) : (n : Nat) → Mat K n n → Except Nat (Mat K n n)
  | 0, _ => .ok (Vector.ofFn fun i => i.elim0)
  | n+1, A =>
    let x := A[(0 : Fin (n+1))][(0 : Fin (n+1))]
    if x ≤ 0 then .error 0 else
    let l00 := sqrtF x
    let l := colDiv A l00
    match llt sqrtF n (schur A l 1) with
    | .error k => .error (k+1)
    | .ok L' => .ok (consL l00 l L')

/-- solve `(L Lᵀ) x = b` with `L = llt sqrtF A` (forward then backward substitution). -/
def lltSolve (sqrtF : K → K) : (n : Nat) → Mat K n n → Vec K n → Except Nat (Vec K n)
  | 0, _, _ => .ok (Vector.ofFn fun i => i.elim0)
  | n+1, A, b =>
    let x := A[(0 : Fin (n+1))][(0 : Fin (n+1))]
    if x ≤ 0 then .error 0 else
    let l00 := sqrtF x
    let l := colDiv A l00
    let y0 := b[(0 : Fin (n+1))] / l00
    let b' : Vec K n := Vector.ofFn fun i => b[i.succ] - l[i] * y0
    match lltSolve sqrtF n (schur A l 1) b' with
    | .error k => .error (k+1)
    | .ok x' => .ok (consV ((y0 - sumFin n (fun i => l[i] * x'[i])) / l00) x')

/-- solve `(L Lᵀ) x = b` with the stored Cholesky factor, by the same recursion as `lltSolve` -/
def solveLL : (n : Nat) → Mat K n n → Vec K n → Vec K n
  | 0, _, _ => Vector.ofFn fun i => i.elim0
  | n+1, L, b =>
    let l00 := L[(0 : Fin (n+1))][(0 : Fin (n+1))]
    let l : Vec K n := Vector.ofFn fun i => L[i.succ][(0 : Fin (n+1))]
    let y0 := b[(0 : Fin (n+1))] / l00
    let b' : Vec K n := Vector.ofFn fun i => b[i.succ] - l[i] * y0
    let x' := solveLL n (minorM L) b'
    consV ((y0 - sumFin n (fun i => l[i] * x'[i])) / l00) x'

end

/-- symmetric permutation `C = A(p,p)` : `C i j = A (p i) (p j)` -/
def permSym {n : Nat} (A : Mat K n n) (p : Vector (Fin n) n) : Mat K n n :=
  Mat.ofFn fun i j => A[p[i]][p[j]]

/-- `x[j] = b[p j]` (AMDOrdering::perm) -/
def permVec {n : Nat} (p : Vector (Fin n) n) (b : Vec K n) : Vec K n := Vector.ofFn fun j => b[p[j]]

/-- inverse table of a permutation given as a vector (`P_inv[P[i]] = i`); garbage-free only for permutations -/
def permInv {n : Nat} (p : Vector (Fin n) n) : Vector (Fin n) n :=
  Fin.foldl n (fun acc i => acc.set p[i] i) p

/-- `x[p j] = b[j]` (AMDOrdering::permt) -/
def permtVec {n : Nat} (p : Vector (Fin n) n) (b : Vec K n) : Vec K n :=
  let pinv := permInv p
  Vector.ofFn fun i => b[pinv[i]]

end Piqp
