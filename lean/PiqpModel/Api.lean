/-
  The public call interface as a state machine: `setup`, `update`, `solve`, settings changes, with the
  argument validation that decides whether a call is *rejected* (state must stay as it was).

  Arguments arrive untyped (`RawMat`, `RawVec`: sizes are data, sparse entries may be "not stored"), exactly
  as a caller can pass them; the typed solver model of `Solver.lean` is entered only after validation.
-/
import PiqpModel.Solver
import PiqpModel.Exec

namespace Piqp
variable {K : Type}

/-- row-major matrix argument; `none` = structurally absent entry of a sparse matrix -/
structure RawMat (K : Type) where
  rows : Nat
  cols : Nat
  ent : Array (Option K)

structure RawVec (K : Type) where
  data : Array K

inductive Call (K : Type) where
  | setup (be : Backend) (pk : PrecKind) (P : RawMat K) (c : RawVec K) (A : Option (RawMat K)) (b : Option (RawVec K))
      (G : Option (RawMat K)) (h : Option (RawVec K)) (xlb xub : Option (RawVec K))
  | update (P : Option (RawMat K)) (c : Option (RawVec K)) (A : Option (RawMat K)) (b : Option (RawVec K))
      (G : Option (RawMat K)) (h : Option (RawVec K)) (xlb xub : Option (RawVec K)) (reuse : Bool)
  | solve
  | settings (s : Settings K)

inductive Outcome where
  | done
  | rejected (msg : String)
  | status (s : Status)
  deriving DecidableEq, Repr

/-- a set-up solver of some dimensions, with the stored sparsity patterns (sparse back ends) -/
structure AnySolver (K : Type) where
  n : Nat
  p : Nat
  m : Nat
  hn : 0 < n
  s : Solver K n p m
  maskP : Array Bool     -- n*n row-major, stored upper-triangular pattern
  maskA : Array Bool     -- p*n row-major
  maskG : Array Bool     -- m*n row-major
  /-- fill-reducing permutation used by the sparse back end (an input: Eigen's AMD is not modelled) -/
  perm : Vector (Fin (n + p + m)) (n + p + m)

structure ApiState (K : Type) where
  settings : Settings K
  sol : Option (AnySolver K)

namespace RawMat
def get (M : RawMat K) (i j : Nat) : Option K := (M.ent.getD (i * M.cols + j) none)
def stored (M : RawMat K) (i j : Nat) : Bool := (M.get i j).isSome
def nnz (M : RawMat K) : Nat := (M.ent.filter Option.isSome).size
def toMat [Zero K] (M : RawMat K) (r c : Nat) : Mat K r c :=
  Mat.ofFn fun i j => (M.get i.val j.val).getD 0
def mask (M : RawMat K) : Array Bool := M.ent.map Option.isSome
end RawMat

def RawVec.toVec [Inhabited K] (v : RawVec K) (n : Nat) : Vec K n := Vector.ofFn fun i => v.data.getD i.val default

section
variable [Add K] [Sub K] [Mul K] [Div K] [Neg K] [Zero K] [One K] [LT K] [DecidableLT K] [LE K] [DecidableLE K]
variable [NatCast K] [BEq K] [Inhabited K]

/-- rows of column `j` stored in `M`, ascending -/
def colRows (M : RawMat K) (j : Nat) : List Nat := (List.range M.rows).filter fun i => M.stored i j

/-- rows `i ≤ j` of column `j` stored in the mask of `P_utri` -/
def maskColRows (mask : Array Bool) (n j : Nat) : List Nat :=
  (List.range n).filter fun i => decide (i ≤ j) && mask.getD (i * n + j) false

/-- validation of `update` arguments against a set-up solver (fixed tree: everything is checked first) -/
def validateUpdate (a : AnySolver K) (sparse : Bool) (P : Option (RawMat K)) (c : Option (RawVec K))
    (A : Option (RawMat K)) (b : Option (RawVec K)) (G : Option (RawMat K)) (h : Option (RawVec K))
    (xlb xub : Option (RawVec K)) : Option String :=
  let n := a.n; let p := a.p; let m := a.m
  let chkP : Option String :=
    match P with
    | none => none
    | some P =>
      if P.rows ≠ n || P.cols ≠ n then some "P has wrong dimensions"
      else if sparse then
        -- per column: at least as many entries as stored, and the leading entries are the stored pattern
        let bad := (List.range n).find? fun j =>
          let have_ := colRows P j
          let want := maskColRows a.maskP n j
          decide (have_.length < want.length)
        match bad with
        | some _ => some "P nonzeros missmatch"
        | none =>
          let bad2 := (List.range n).find? fun j =>
            let have_ := colRows P j
            let want := maskColRows a.maskP n j
            have_.take want.length != want
          match bad2 with
          | some _ => some "P sparsity pattern missmatch"
          | none => none
      else none
  let chkM (nm : String) (M : Option (RawMat K)) (r : Nat) (mask : Array Bool) : Option String :=
    match M with
    | none => none
    | some M =>
      if M.rows ≠ r || M.cols ≠ n then some (nm ++ " has wrong dimensions")
      else if sparse then
        if M.nnz ≠ (mask.filter id).size then some (nm ++ " nonzeros missmatch")
        else if M.mask != mask then some (nm ++ " sparsity pattern missmatch")
        else none
      else none
  let chkV (nm : String) (v : Option (RawVec K)) (k : Nat) : Option String :=
    match v with
    | none => none
    | some v => if v.data.size ≠ k then some (nm ++ " has wrong dimensions") else none
  (chkP <|> chkM "A" A p a.maskA <|> chkM "G" G m a.maskG <|> chkV "c" c n <|> chkV "b" b p <|> chkV "h" h m
    <|> chkV "x_lb" xlb n <|> chkV "x_ub" xub n)

/-- validation of `setup` arguments -/
def validateSetup (P : RawMat K) (c : RawVec K) (A : Option (RawMat K)) (b : Option (RawVec K))
    (G : Option (RawMat K)) (h : Option (RawVec K)) (xlb xub : Option (RawVec K)) : Option String :=
  let n := P.rows
  let p := match A with | some A => A.rows | none => 0
  let m := match G with | some G => G.rows | none => 0
  if P.cols ≠ n then some "P must be square"
  else if (match A with | some A => decide (A.cols ≠ n) | none => false) then some "A must have correct dimensions"
  else if (match G with | some G => decide (G.cols ≠ n) | none => false) then some "G must have correct dimensions"
  else if c.data.size ≠ n then some "c must have correct dimensions"
  else if (match b with | some b => decide (b.data.size ≠ p) | none => decide (0 < p)) then some "b must have correct dimensions"
  else if (match h with | some h => decide (h.data.size ≠ m) | none => decide (0 < m)) then some "h must have correct dimensions"
  else if (match xlb with | some v => decide (v.data.size ≠ n) | none => false) then some "x_lb must have correct dimensions"
  else if (match xub with | some v => decide (v.data.size ≠ n) | none => false) then some "x_ub must have correct dimensions"
  else none

variable (cs : Consts K) (sqrtF : K → K) (poison : K)

def upperOfMat {n : Nat} (a : Mat K n n) : Mat K n n := Mat.ofFn fun i j => if i.val ≤ j.val then a[i][j] else 0

def freshStep (n p m : Nat) : Step K n p m :=
  ⟨Vec.const n poison, Vec.const p poison, Vec.const m poison, Vec.const n poison, Vec.const n poison,
   Vec.const m poison, Vec.const n poison, Vec.const n poison⟩

def initInfo (st : Settings K) : Info K :=
  { status := .unsolved, iter := 0, rho := st.rhoInit, delta := st.deltaInit, mu := 0, sigma := 0, primalStep := 0,
    dualStep := 0, primalInf := 0, primalRelInf := 0, dualInf := 0, dualRelInf := 0, primalObj := 0, dualObj := 0,
    dualityGap := 0, dualityGapRel := 0, factorRetires := 0, regLimit := 0, noPrimalUpdate := 0, noDualUpdate := 0 }

/-- the executable inner solver / factorisation test for a back end -/
def execInner {n p m : Nat} (be : Backend) (perm : Vector (Fin (n + p + m)) (n + p + m)) : Inner K n p m :=
  if be.isDense then innerLLT sqrtF else innerLDLT be perm

def Solver.env {n p m : Nat} (s : Solver K n p m) (perm : Vector (Fin (n + p + m)) (n + p + m)) : Env K n p m :=
  { be := s.be, pk := s.pk, cs := cs, st := s.st, data := s.data, pre := s.pre,
    inner := execInner sqrtF s.be perm }

/-- the data `setup()` hands to the preconditioner: upper triangle of `P`, rows of `G` with an infinite `h` disabled,
    bounds packed -/
def setupRaw {n p m : Nat} (hn : 0 < n)
    (P : Mat K n n) (c : Vec K n) (AT : Mat K n p) (b : Vec K p) (GT : Mat K n m) (h : Option (Vec K m))
    (xlb xub : Option (Vec K n)) : Data K n p m :=
  let (GT1, h1) : Mat K n m × Vec K m :=
    match h with
    | some h => disableInf cs GT h
    | none => (GT, Vec.const m poison)
  let box0 : BoxSide K n :=
    { cnt := 0, idx := Vector.replicate n ⟨0, hn⟩, sc := Vec.const n 1, val := Vec.const n poison }
  { P := upperOfMat P, AT := AT, GT := GT1, c := c, b := b, h := h1,
    lb := setupLb cs box0 xlb, ub := setupUb cs box0 xub }

/-- `setup_impl` after validation (typed arguments). `prevInfo` carries the info fields setup does not reset. -/
def setupTyped {n p m : Nat} (hn : 0 < n) (be : Backend) (pk : PrecKind) (st : Settings K) (prevInfo : Info K)
    (P : Mat K n n) (c : Vec K n) (AT : Mat K n p) (b : Vec K p) (GT : Mat K n m) (h : Option (Vec K m))
    (xlb xub : Option (Vec K n)) : Solver K n p m :=
  let d0 := setupRaw cs poison hn P c AT b GT h xlb xub
  let zn : Vec K n := Vec.const n 0
  let w : Work K n p m :=
    { x := zn, y := Vec.const p 0, z := Vec.const m 0, z_lb := zn, z_ub := zn, s := Vec.const m 0, s_lb := zn, s_ub := zn,
      zeta := zn, lambda := Vec.const p 0, nu := Vec.const m 0, nu_lb := zn, nu_ub := zn,
      r := freshStep poison n p m, rx_nr := Vec.const n poison, ry_nr := Vec.const p poison, rz_nr := Vec.const m poison,
      rz_lb_nr := Vec.const n poison, rz_ub_nr := Vec.const n poison, d := freshStep poison n p m }
  let info := { prevInfo with rho := st.rhoInit, delta := st.deltaInit }
  let pre0 := Precond.init d0
  let sc := Precond.scaleData pk sqrtF cs d0 pre0 false st.precScaleCost st.precIter.toNat
  let one : Vec K n := Vec.const n 1
  let kkt := KKT.init be sc.1 info.rho info.delta one one one one
  { be, pk, st, data := sc.1, pre := sc.2, kkt, w, info, kktInitState := true, setupDone := true,
    refineOn := st.refAlways,
    hDisabled := match h with | some h => infMask cs h | none => Vector.replicate m false }

/-- `unscale_results` -/
def unscaleResults {n p m : Nat} (pk : PrecKind) (pre : Precond K n p m) (w : Work K n p m) : Work K n p m :=
  { w with x := pre.unscalePrimal pk w.x, y := pre.unscaleDualEq pk w.y, z := pre.unscaleDualIneq pk w.z,
           z_lb := pre.unscaleDualLb pk w.z_lb, z_ub := pre.unscaleDualUb pk w.z_ub,
           s := pre.unscaleSlackIneq pk w.s, s_lb := pre.unscaleSlackLb pk w.s_lb, s_ub := pre.unscaleSlackUb pk w.s_ub,
           zeta := pre.unscalePrimal pk w.zeta, lambda := pre.unscaleDualEq pk w.lambda, nu := pre.unscaleDualIneq pk w.nu,
           nu_lb := pre.unscaleDualLb pk w.nu_lb, nu_ub := pre.unscaleDualUb pk w.nu_ub }

/-- `restore_box_dual` -/
def restoreBoxDual {n p m : Nat} (d : Data K n p m) (w : Work K n p m) : Work K n p m :=
  { w with z_lb := restoreBox d.lb 0 w.z_lb, z_ub := restoreBox d.ub 0 w.z_ub,
           s_lb := restoreBox d.lb cs.posInf w.s_lb, s_ub := restoreBox d.ub cs.posInf w.s_ub,
           nu_lb := restoreBox d.lb 0 w.nu_lb, nu_ub := restoreBox d.ub 0 w.nu_ub }

/-- the state `solve()` starts from: slacks and multipliers at one (they feed `update_scalings` when the first
    factorisation is retried), counters reset, and the KKT scalings refreshed unless `setup()` has just built them -/
def solveStart {n p m : Nat} (s : Solver K n p m) (perm : Vector (Fin (n + p + m)) (n + p + m)) :
    Work K n p m × KKT K n p m × Info K :=
  let st := s.st
  let e := Solver.env cs sqrtF s perm
  let d := s.data
  let info0 : Info K :=
    { s.info with status := .unsolved, iter := 0, regLimit := st.regLowerLimit, factorRetires := 0, noPrimalUpdate := 0,
                  noDualUpdate := 0, mu := 0, primalStep := 0, dualStep := 0, rho := st.rhoInit, delta := st.deltaInit }
  let w0 : Work K n p m :=
    { s.w with s := Vec.const m 1, s_lb := d.lb.headUpd s.w.s_lb fun _ => 1, s_ub := d.ub.headUpd s.w.s_ub fun _ => 1,
               z := Vec.const m 1, z_lb := d.lb.headUpd s.w.z_lb fun _ => 1, z_ub := d.ub.headUpd s.w.z_ub fun _ => 1 }
  let kkt0 : KKT K n p m := if !s.kktInitState then kktScal e s.kkt w0 info0.rho info0.delta else s.kkt
  (w0, kkt0, info0)

/-- the shifts `(δ_s, δ_z)` of the Mehrotra-style initial point (`max(0, -1.5·min)` over the three cone blocks) and the
    complementarity product of the shifted point -/
def mehrotraShift {n p m : Nat} (d : Data K n p m) (w : Work K n p m) : K × K × K :=
  let nl := d.lb.cnt
  let nu := d.ub.cnt
  let dS0 : K := 0
  let dS1 := if m ≠ 0 then vmax dS0 (-cs.c1_5 * minFin (w.s.getD 0 0) m fun i => w.s[i]) else dS0
  let dS2 := if nl ≠ 0 then vmax dS1 (-cs.c1_5 * minHead (w.s_lb.getD 0 0) nl w.s_lb) else dS1
  let dS := if nu ≠ 0 then vmax dS2 (-cs.c1_5 * minHead (w.s_ub.getD 0 0) nu w.s_ub) else dS2
  let dZ0 : K := 0
  let dZ1 := if m ≠ 0 then vmax dZ0 (-cs.c1_5 * minFin (w.z.getD 0 0) m fun i => w.z[i]) else dZ0
  let dZ2 := if nl ≠ 0 then vmax dZ1 (-cs.c1_5 * minHead (w.z_lb.getD 0 0) nl w.z_lb) else dZ1
  let dZ := if nu ≠ 0 then vmax dZ2 (-cs.c1_5 * minHead (w.z_ub.getD 0 0) nu w.z_ub) else dZ2
  let tp0 := sumFin m fun i => (w.s[i] + dS) * (w.z[i] + dZ)
  let tp1 := tp0 + sumFin n fun i => if i.val < nl then (w.s_lb[i] + dS) * (w.z_lb[i] + dZ) else 0
  let tp := tp1 + sumFin n fun i => if i.val < nu then (w.s_ub[i] + dS) * (w.z_ub[i] + dZ) else 0
  (dS, dZ, tp)

/-- the initial slacks and multipliers after the second, product-balancing shift -/
def mehrotraApply {n p m : Nat} (d : Data K n p m) (w : Work K n p m) : Work K n p m :=
  let nl := d.lb.cnt
  let nu := d.ub.cnt
  let dS := (mehrotraShift cs d w).1
  let dZ := (mehrotraShift cs d w).2.1
  let tp := (mehrotraShift cs d w).2.2
  let cnt : K := ((m + nl + nu : Nat) : K)
  let dSbar := dS + (cs.c0_5 * tp) / (Vec.sum w.z + sumHead nl w.z_lb + sumHead nu w.z_ub + cnt * dZ)
  let dZbar := dZ + (cs.c0_5 * tp) / (Vec.sum w.s + sumHead nl w.s_lb + sumHead nu w.s_ub + cnt * dS)
  let wA2 : Work K n p m :=
    { w with s := Vector.ofFn fun i => w.s[i] + dSbar,
               s_lb := d.lb.headUpd w.s_lb fun i => w.s_lb[i] + dSbar,
               s_ub := d.ub.headUpd w.s_ub fun i => w.s_ub[i] + dSbar,
               z := Vector.ofFn fun i => w.z[i] + dZbar,
               z_lb := d.lb.headUpd w.z_lb fun i => w.z_lb[i] + dZbar,
               z_ub := d.ub.headUpd w.z_ub fun i => w.z_ub[i] + dZbar }
  wA2

/-- the iterate after the initial KKT solve and, if all slacks came out tiny, the reset to `0.1` — before the shifts -/
def ipBeforeShift {n p m : Nat} (s : Solver K n p m) (e : Env K n p m) (w0 : Work K n p m) (kkt1 : KKT K n p m)
    (refineOn : Bool) : Work K n p m :=
  let st := s.st
  let d := s.data
  let rhs : Step K n p m :=
    { x := Vector.ofFn fun i => -d.c[i], y := d.b, z := d.h, z_lb := d.lb.val, z_ub := d.ub.val,
      s := Vec.const m 0, s_lb := Vec.const n 0, s_ub := Vec.const n 0 }
  let old : Step K n p m := ⟨w0.x, w0.y, w0.z, w0.z_lb, w0.z_ub, w0.s, w0.s_lb, w0.s_ub⟩
  let ip := match KKT.solve e.be st.kkt d kkt1 rhs old refineOn with
            | some o => o
            | none => old
  let wA : Work K n p m :=
    { w0 with x := ip.x, y := ip.y, z := ip.z, z_lb := ip.z_lb, z_ub := ip.z_ub, s := ip.s, s_lb := ip.s_lb, s_ub := ip.s_ub,
              r := { w0.r with x := rhs.x, s := rhs.s, s_lb := rhs.s_lb, s_ub := rhs.s_ub } }
  let nl := d.lb.cnt
  let nu := d.ub.cnt
  if m + nl + nu ≠ 0 then
    let sNorm := vmax (vmax (vmax 0 (Vec.infNorm wA.s)) (headInfNorm nl wA.s_lb)) (headInfNorm nu wA.s_ub)
    if sNorm ≤ cs.c1e_4 then
      { wA with s := Vec.const m cs.c0_1, s_lb := d.lb.headUpd wA.s_lb fun _ => cs.c0_1,
                s_ub := d.ub.headUpd wA.s_ub fun _ => cs.c0_1,
                z := Vec.const m cs.c0_1, z_lb := d.lb.headUpd wA.z_lb fun _ => cs.c0_1,
                z_ub := d.ub.headUpd wA.z_ub fun _ => cs.c0_1 }
    else wA
  else wA

/-- the initial point (one KKT solve, Mehrotra-style shift into the cone) and the loop state the main loop starts from -/
def initialPoint {n p m : Nat} (s : Solver K n p m) (e : Env K n p m) (w0 : Work K n p m) (kkt1 : KKT K n p m)
    (info1 : Info K) (refineOn : Bool) : LoopState K n p m :=
  let d := s.data
  let info2 := { info1 with factorRetires := 0 }
  let wA1 := ipBeforeShift cs s e w0 kkt1 refineOn
  let wB : Work K n p m := if m + d.lb.cnt + d.ub.cnt ≠ 0 then mehrotraApply cs d wA1 else wA1
  let info3 : Info K := if m + d.lb.cnt + d.ub.cnt ≠ 0 then { info2 with mu := muOf d wB } else info2
  let wC : Work K n p m :=
    { wB with zeta := wB.x, lambda := wB.y, nu := wB.z,
              nu_lb := d.lb.headUpd wB.nu_lb fun i => wB.z_lb[i],
              nu_ub := d.ub.headUpd wB.nu_ub fun i => wB.z_ub[i] }
  { c := { iter := 0, factorRetires := 0, refineOn := refineOn }, w := wC, info := info3, kkt := kkt1 }

/-- `solve()` on a set-up solver -/
def solveTyped {n p m : Nat} (s : Solver K n p m) (perm : Vector (Fin (n + p + m)) (n + p + m)) :
    Solver K n p m × Status :=
  if !s.st.verify then
    ({ s with info := { s.info with status := .invalidSettings } }, .invalidSettings)
  else
    let e := Solver.env cs sqrtF s perm
    let start := solveStart cs sqrtF s perm
    let il := initLoopG e.st e.cs (realOps e) s.refineOn 0 (start.1, start.2.1) start.2.2
    if !il.2.2.2.2 then
      let w' := restoreBoxDual cs s.data (unscaleResults s.pk s.pre start.1)
      ({ s with w := w', info := il.2.2.2.1, kkt := il.2.2.1.2, kktInitState := false, refineOn := il.1 }, .numerics)
    else
      let ls0 := initialPoint cs s e start.1 il.2.2.1.2 il.2.2.2.1 il.1
      let r := mainLoop e ls0
      let w' := restoreBoxDual cs s.data (unscaleResults s.pk s.pre r.1.w)
      ({ s with w := w', info := r.1.info, kkt := r.1.kkt, kktInitState := false, refineOn := r.1.c.refineOn }, r.2)

/-- the data `update()` hands to the preconditioner: the stored data unscaled, with the passed blocks replaced,
    rows of `G` disabled by an infinite `h` zeroed, bounds re-packed -/
def updateRaw {n p m : Nat} (sparse : Bool) (maskP : Array Bool) (s : Solver K n p m)
    (P : Option (Mat K n n)) (c : Option (Vec K n)) (A : Option (Mat K p n)) (b : Option (Vec K p))
    (G : Option (Mat K m n)) (h : Option (Vec K m)) (xlb xub : Option (Vec K n)) : Data K n p m :=
  let d0 := Precond.unscaleData s.pk s.data s.pre
  let d1 : Data K n p m :=
    match P with
    | some P =>
      if sparse then
        { d0 with P := Mat.ofFn fun i j => if i.val ≤ j.val && maskP.getD (i.val * n + j.val) false then P[i][j] else d0.P[i][j] }
      else { d0 with P := upperOfMat P }
    | none => d0
  let d2 := match A with | some A => { d1 with AT := Mat.transpose A } | none => d1
  let d3 := match G with
            | some G => { d2 with GT := if h.isSome then Mat.transpose G else rezeroRows s.hDisabled (Mat.transpose G) }
            | none => d2
  let d4 := match c with | some c => { d3 with c := c } | none => d3
  let d5 := match b with | some b => { d4 with b := b } | none => d4
  let d6 := match h with
            | some h => let (GT1, h1) := disableInf cs d5.GT h; { d5 with GT := GT1, h := h1 }
            | none => d5
  let d7 := match xlb with | some _ => { d6 with lb := setupLb cs d6.lb xlb } | none => d6
  match xub with | some _ => { d7 with ub := setupUb cs d7.ub xub } | none => d7

/-- `update()` after validation -/
def updateTyped {n p m : Nat} (sparse : Bool) (maskP : Array Bool) (s : Solver K n p m)
    (P : Option (Mat K n n)) (c : Option (Vec K n)) (A : Option (Mat K p n)) (b : Option (Vec K p))
    (G : Option (Mat K m n)) (h : Option (Vec K m)) (xlb xub : Option (Vec K n)) (reuse : Bool) : Solver K n p m :=
  let d8 := updateRaw cs sparse maskP s P c A b G h xlb xub
  let sc := Precond.scaleData s.pk sqrtF cs d8 s.pre reuse s.st.precScaleCost s.st.precIter.toNat
  -- fix 4th of its kind in solver.hpp: a new scaling changes every block; the next solve rebuilds the scalings part
  let all := !reuse
  -- disabling a constraint (infinite entry of a new h) zeroes a row of G: flagged as a change of G
  let hDis := match h with | some h => (List.finRange m).any (fun i => (infMask cs h)[i]) | none => false
  let kkt1 := KKT.updateData s.be sc.1 s.kkt (P.isSome || all) (A.isSome || all) (G.isSome || all || hDis)
  { s with data := sc.1, pre := sc.2, kkt := kkt1, kktInitState := false,
           hDisabled := match h with | some h => infMask cs h | none => s.hDisabled }

def optMat {r c : Nat} (M : Option (RawMat K)) : Option (Mat K r c) := M.map fun M => M.toMat r c
def optVec {k : Nat} (v : Option (RawVec K)) : Option (Vec K k) := v.map fun v => v.toVec k

def upperMask (P : RawMat K) : Array Bool :=
  Array.ofFn (n := P.rows * P.cols) fun k =>
    let i := k.val / P.cols
    let j := k.val % P.cols
    decide (i ≤ j) && P.stored i j

/-- one call of the public interface -/
def apiStep (st : ApiState K) (call : Call K) : ApiState K × Outcome :=
  match call with
  | .settings s =>
    ({ settings := s, sol := st.sol.map fun a => { a with s := { a.s with st := s } } }, .done)
  | .setup be pk P c A b G h xlb xub =>
    match validateSetup P c A b G h xlb xub with
    | some msg => (st, .rejected msg)
    | none =>
      let n := P.rows
      let p := match A with | some A => A.rows | none => 0
      let m := match G with | some G => G.rows | none => 0
      if hn : 0 < n then
        let prevInfo := match st.sol with | some a => a.s.info | none => { initInfo st.settings with rho := 0, delta := 0 }
        let AT : Mat K n p := match A with | some A => Mat.transpose (A.toMat p n) | none => Mat.ofFn fun _ _ => 0
        let GT : Mat K n m := match G with | some G => Mat.transpose (G.toMat m n) | none => Mat.ofFn fun _ _ => 0
        let bv : Vec K p := match b with | some b => b.toVec p | none => Vec.const p poison
        let s := setupTyped cs sqrtF poison hn be pk st.settings prevInfo (P.toMat n n) (c.toVec n) AT bv GT
                   (optVec h) (optVec xlb) (optVec xub)
        let a : AnySolver K :=
          { n, p, m, hn, s, maskP := upperMask P,
            maskA := match A with | some A => A.mask | none => #[],
            maskG := match G with | some G => G.mask | none => #[],
            perm := Vector.ofFn fun i => i }
        ({ st with sol := some a }, .done)
      else (st, .rejected "n must be positive")
  | .update P c A b G h xlb xub reuse =>
    match st.sol with
    | none => (st, .rejected "Solver not setup yet")
    | some a =>
      let sparse := !a.s.be.isDense
      match validateUpdate a sparse P c A b G h xlb xub with
      | some msg => (st, .rejected msg)
      | none =>
        let s' := updateTyped cs sqrtF sparse a.maskP a.s (optMat P) (optVec c) (optMat A) (optVec b) (optMat G)
                    (optVec h) (optVec xlb) (optVec xub) reuse
        ({ st with sol := some { a with s := s' } }, .done)
  | .solve =>
    match st.sol with
    | none => (st, .status .unsolved)
    | some a =>
      let (s', status) := solveTyped cs sqrtF a.s a.perm
      ({ st with sol := some { a with s := s' } }, .status status)

end
end Piqp
