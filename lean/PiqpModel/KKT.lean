/-
  The five KKT back ends (`dense::KKT`, `sparse::KKT<…, KKT_FULL / KKT_EQ_ELIMINATED /
  KKT_INEQ_ELIMINATED / KKT_ALL_ELIMINATED>`), modelled at the level of

    * the reduced matrix they assemble, **including which parts are cached and only refreshed by
      particular calls** (`init`, `update_scalings`, `update_data(options)`),
    * the right-hand-side reduction and back-substitution around the inner factorisation,
    * static regularisation and iterative refinement,
    * `multiply` (the full un-eliminated regularised Newton operator).

  The inner linear solve is a parameter (`Inner`), so the elimination theorems hold for any
  factorisation that solves the reduced system.  Dense denotations are used for sparse matrices.
-/
import PiqpModel.Data
import PiqpModel.LinAlg

namespace Piqp
variable {K : Type}

inductive Backend where
  | dense | full | eqElim | ineqElim | allElim
  deriving DecidableEq, Repr, Inhabited

namespace Backend
/-- the reduced system keeps the equality multipliers -/
def keepY : Backend → Bool
  | full | ineqElim => true
  | _ => false
/-- the reduced system keeps the inequality multipliers -/
def keepZ : Backend → Bool
  | full | eqElim => true
  | _ => false
def isDense : Backend → Bool
  | dense => true
  | _ => false
def ofCode : Nat → Backend
  | 0 => dense | 1 => full | 2 => eqElim | 3 => ineqElim | _ => allElim
end Backend

/-- blocks of the (symmetric) reduced KKT matrix; eliminated blocks are ignored -/
structure KBlocks (K : Type) (n p m : Nat) where
  xx : Mat K n n
  xy : Mat K n p
  xz : Mat K n m
  yy : Vec K p
  zz : Vec K m

/-- settings the KKT layer reads -/
structure KKTSettings (K : Type) where
  regEps : K
  regRel : K
  refMaxIter : Nat
  refEpsAbs : K
  refEpsRel : K
  refMinRate : K

structure KKT (K : Type) (n p m : Nat) where
  rho : K
  delta : K
  s : Vec K m
  s_lb : Vec K n
  s_ub : Vec K n
  zinv : Vec K m
  zinv_lb : Vec K n
  zinv_ub : Vec K n
  /-- reduced matrix as last assembled (`kkt_mat` / `PKPt` un-permuted) -/
  k : KBlocks K n p m
  /-- matrix that was last factorised (regularised copy of `k`) -/
  f : KBlocks K n p m
  /-- the factorisation of `f`: `none` if it failed, otherwise the map rhs ↦ solution it provides -/
  fsol : Option (Vec K n → Vec K p → Vec K m → Vec K n × Vec K p × Vec K m)
  -- caches
  ata : Mat K n n
  ac : Mat K p n
  gc : Mat K m n
  gwg : Mat K n n
  pdiag : Vec K n

abbrev SolveFn (K : Type) (n p m : Nat) := Vec K n → Vec K p → Vec K m → Vec K n × Vec K p × Vec K m

/-- An inner factorisation of the reduced system: `none` if it fails (zero / non-positive pivot), otherwise
    the solve map it provides. Blocks that the back end eliminated are ignored. -/
abbrev Inner (K : Type) (n p m : Nat) := KBlocks K n p m → Option (SolveFn K n p m)

def KKT.factOk {n p m : Nat} (k : KKT K n p m) : Bool := k.fsol.isSome

section ops
variable [Add K] [Sub K] [Mul K] [Div K] [Neg K] [Zero K] [One K] [LT K] [DecidableLT K] [LE K] [DecidableLE K]
variable {n p m : Nat}

/-- `Σ_i [i active ∧ idx i = j] sc_i² / (zinv_i * s_i + δ)` : what `update_kkt_box_scalings` adds to column `j` -/
def boxDiagSide (b : BoxSide K n) (zinv s : Vec K n) (delta : K) : Vec K n :=
  b.scatter fun i => b.sc[i] * b.sc[i] / (zinv[i] * s[i] + delta)

def boxDiag (d : Data K n p m) (zinv_lb s_lb zinv_ub s_ub : Vec K n) (delta : K) : Vec K n :=
  let l := boxDiagSide d.lb zinv_lb s_lb delta
  let u := boxDiagSide d.ub zinv_ub s_ub delta
  Vector.ofFn fun j => l[j] + u[j]

/-- `AT * A` from the cached `A` copy and the current `AT` (`update_AT_A`) -/
def mkATA (ac : Mat K p n) (AT : Mat K n p) : Mat K n n :=
  symUpper (Mat.ofFn fun i j => sumFin p fun k => ac[k][j] * AT[i][k])

/-- `GT (W+δ)⁻¹ G` from the cached `G` copy and the current `GT` (`update_GT_W_delta_inv_G`) -/
def mkGWG (gc : Mat K m n) (GT : Mat K n m) (s zinv : Vec K m) (delta : K) : Mat K n n :=
  symUpper (Mat.ofFn fun i j => sumFin m fun k => (1 / (s[k] * zinv[k] + delta)) * gc[k][j] * GT[i][k])

def addDiag (A : Mat K n n) (v : Vec K n) : Mat K n n :=
  Mat.ofFn fun i j => if i = j then A[i][j] + v[i] else A[i][j]

def setDiag (A : Mat K n n) (v : Vec K n) : Mat K n n :=
  Mat.ofFn fun i j => if i = j then v[i] else A[i][j]

def matAdd (A B : Mat K n n) : Mat K n n := Mat.ofFn fun i j => A[i][j] + B[i][j]
def matScale (a : K) (A : Mat K n n) : Mat K n n := Mat.ofFn fun i j => a * A[i][j]

/-- top-left block of the sparse back ends after a full refresh:
    `P + ρI (+ δ⁻¹ AᵀA) (+ Gᵀ(W+δ)⁻¹G) + box` -/
def topLeft (be : Backend) (d : Data K n p m) (rho delta : K) (ata gwg : Mat K n n) (box : Vec K n) : Mat K n n :=
  let base := addDiag d.Psym (Vec.const n rho)
  let withA := if be.keepY then base else matAdd base (matScale (1 / delta) ata)
  let withG := if be.keepZ then withA else matAdd withA gwg
  addDiag withG box

def negDelta (delta : K) (k : Nat) : Vec K k := Vec.const k (-delta)

def zzDiag (s zinv : Vec K m) (delta : K) : Vec K m :=
  Vector.ofFn fun i => -s[i] * zinv[i] - delta

/-- dense `update_kkt`: everything recomputed from the current data except the cached `AT_A` -/
def denseKxx (d : Data K n p m) (rho delta : K) (s zinv : Vec K m) (box : Vec K n) (ata : Mat K n n) : Mat K n n :=
  let g : Mat K n n := Mat.ofFn fun i j => sumFin m fun k => d.GT[i][k] * ((1 / (zinv[k] * s[k] + delta)) * d.GT[j][k])
  let base := addDiag d.Psym (Vec.const n rho)
  let withG := if m = 0 then base else matAdd base g
  let withB := addDiag withG box
  if p = 0 then withB else matAdd withB (matScale (1 / delta) ata)

def denseATA (d : Data K n p m) : Mat K n n :=
  Mat.ofFn fun i j => sumFin p fun k => d.AT[i][k] * d.AT[j][k]

/-- `KKT::init(rho, delta)` -/
def KKT.init (be : Backend) (d : Data K n p m) (rho delta : K)
    (old_s_lb old_s_ub old_zinv_lb old_zinv_ub : Vec K n) : KKT K n p m :=
  let s := Vec.const m (1 : K)
  let zinv := Vec.const m (1 : K)
  let s_lb := d.lb.headUpd old_s_lb fun _ => 1
  let s_ub := d.ub.headUpd old_s_ub fun _ => 1
  let zinv_lb := d.lb.headUpd old_zinv_lb fun _ => 1
  let zinv_ub := d.ub.headUpd old_zinv_ub fun _ => 1
  let box := boxDiag d zinv_lb s_lb zinv_ub s_ub delta
  let ac : Mat K p n := Mat.transpose d.AT
  let gc : Mat K m n := Mat.transpose d.GT
  let zero : Mat K n n := Mat.ofFn fun _ _ => 0
  match be with
  | .dense =>
    let ata := if p = 0 then zero else denseATA d
    let kxx := denseKxx d rho delta s zinv box ata
    let k : KBlocks K n p m := ⟨kxx, d.AT, d.GT, negDelta delta p, zzDiag s zinv delta⟩
    { rho, delta, s, s_lb, s_ub, zinv, zinv_lb, zinv_ub, k, f := k, fsol := none,
      ata, ac, gc, gwg := zero, pdiag := Vec.const n 0 }
  | be =>
    let ata := if be.keepY then zero else mkATA ac d.AT
    let gwg := if be.keepZ then zero else matScale (1 / (1 + delta)) (mkGWG gc d.GT (Vec.const m 1) (Vec.const m 1) 0)
    -- note: at init the code scales GT*G by 1/(1+δ); `mkGWG … 0` with s = z⁻¹ = 1 gives GT*G
    let kxx := topLeft be d rho delta ata gwg box
    let k : KBlocks K n p m := ⟨kxx, d.AT, d.GT, negDelta delta p, Vector.ofFn fun _ => -(1 : K) - delta⟩
    { rho, delta, s, s_lb, s_ub, zinv, zinv_lb, zinv_ub, k, f := k, fsol := none,
      ata, ac, gc, gwg, pdiag := Vector.ofFn fun j => d.P[j][j] }

/-- the part of `update_scalings` / `update_data` that rewrites the reduced matrix from the current
    scalings, data and caches -/
def KKT.refresh (be : Backend) (d : Data K n p m) (k : KKT K n p m) : KKT K n p m :=
  let box := boxDiag d k.zinv_lb k.s_lb k.zinv_ub k.s_ub k.delta
  match be with
  | .dense =>
    let kxx := denseKxx d k.rho k.delta k.s k.zinv box k.ata
    { k with k := { k.k with xx := kxx } }
  | .full =>
    -- only diagonals are rewritten; off-diagonal P, AT, GT copies stay as they are
    let dg : Vec K n := Vector.ofFn fun j => k.pdiag[j] + k.rho + box[j]
    { k with k := { k.k with xx := setDiag k.k.xx dg, yy := negDelta k.delta p, zz := zzDiag k.s k.zinv k.delta } }
  | be =>
    let gwg := if be.keepZ then k.gwg else mkGWG k.gc d.GT k.s k.zinv k.delta
    let kxx := topLeft be d k.rho k.delta k.ata gwg box
    { k with gwg := gwg,
             k := { xx := kxx,
                    xy := if be.keepY then d.AT else k.k.xy,
                    xz := if be.keepZ then d.GT else k.k.xz,
                    yy := negDelta k.delta p,
                    zz := zzDiag k.s k.zinv k.delta } }

/-- `KKT::update_scalings` -/
def KKT.updateScalings (be : Backend) (d : Data K n p m) (k : KKT K n p m) (rho delta : K)
    (s : Vec K m) (s_lb s_ub : Vec K n) (z : Vec K m) (z_lb z_ub : Vec K n) : KKT K n p m :=
  let k1 : KKT K n p m :=
    { k with rho := rho, delta := delta, s := s,
             s_lb := d.lb.headUpd k.s_lb fun i => s_lb[i],
             s_ub := d.ub.headUpd k.s_ub fun i => s_ub[i],
             zinv := Vector.ofFn fun i => 1 / z[i],
             zinv_lb := d.lb.headUpd k.zinv_lb fun i => 1 / z_lb[i],
             zinv_ub := d.ub.headUpd k.zinv_ub fun i => 1 / z_ub[i] }
  KKT.refresh be d k1

/-- `KKT::update_data(options)`; `optP/optA/optG` are the bits of `KKTUpdateOptions` -/
def KKT.updateData (be : Backend) (d : Data K n p m) (k : KKT K n p m) (optP optA optG : Bool) : KKT K n p m :=
  let any := optP || optA || optG
  match be with
  | .dense =>
    let k1 := if optA && decide (p ≠ 0) then { k with ata := denseATA d } else k
    if any then KKT.refresh .dense d k1 else k1
  | .full =>
    let k1 : KKT K n p m :=
      if optP then
        let pd : Vec K n := Vector.ofFn fun j => d.P[j][j]
        let box := boxDiag d k.zinv_lb k.s_lb k.zinv_ub k.s_ub k.delta
        let dg : Vec K n := Vector.ofFn fun j => pd[j] + k.rho + box[j]
        { k with pdiag := pd, k := { k.k with xx := setDiag d.Psym dg } }
      else k
    let k2 := if optA then { k1 with k := { k1.k with xy := d.AT } } else k1
    if optG then { k2 with k := { k2.k with xz := d.GT } } else k2
  | be =>
    let k1 : KKT K n p m :=
      if optA && !be.keepY then
        let ac : Mat K p n := Mat.transpose d.AT
        { k with ac := ac, ata := mkATA ac d.AT }
      else k
    let k2 : KKT K n p m :=
      if optG && !be.keepZ then { k1 with gc := Mat.transpose d.GT } else k1
    if any then KKT.refresh be d k2 else k2

/-- `KKT::multiply`: the full regularised Newton operator. Box rows are written on the active head only. -/
structure Step (K : Type) (n p m : Nat) where
  x : Vec K n
  y : Vec K p
  z : Vec K m
  z_lb : Vec K n
  z_ub : Vec K n
  s : Vec K m
  s_lb : Vec K n
  s_ub : Vec K n

def KKT.multiply (d : Data K n p m) (k : KKT K n p m) (v old : Step K n p m) : Step K n p m :=
  let Px := Mat.mulVec d.Psym v.x
  let ATy := Mat.mulVec d.AT v.y
  let GTz := Mat.mulVec d.GT v.z
  let sl := d.lb.scatter fun i => d.lb.sc[i] * v.z_lb[i]
  let su := d.ub.scatter fun i => d.ub.sc[i] * v.z_ub[i]
  let Ax := Mat.mulVecT d.AT v.x
  let Gx := Mat.mulVecT d.GT v.x
  { x := Vector.ofFn fun j => Px[j] + k.rho * v.x[j] + (ATy[j] + GTz[j]) - sl[j] + su[j],
    y := Vector.ofFn fun i => Ax[i] - k.delta * v.y[i],
    z := Vector.ofFn fun i => Gx[i] - k.delta * v.z[i] + v.s[i],
    z_lb := d.lb.headUpd old.z_lb fun i => -d.lb.sc[i] * v.x[d.lb.idx[i]] - k.delta * v.z_lb[i] + v.s_lb[i],
    z_ub := d.ub.headUpd old.z_ub fun i => d.ub.sc[i] * v.x[d.ub.idx[i]] - k.delta * v.z_ub[i] + v.s_ub[i],
    s := Vector.ofFn fun i => k.s[i] * v.z[i] + (1 / k.zinv[i]) * v.s[i],
    s_lb := d.lb.headUpd old.s_lb fun i => k.s_lb[i] * v.z_lb[i] + (1 / k.zinv_lb[i]) * v.s_lb[i],
    s_ub := d.ub.headUpd old.s_ub fun i => k.s_ub[i] * v.z_ub[i] + (1 / k.zinv_ub[i]) * v.s_ub[i] }

/-- `regularize_and_factorize`: returns the state with the factorised snapshot `f`; success is decided by
    `factor` (the inner factorisation applied to the regularised blocks). -/
def KKT.regFactor (be : Backend) (st : KKTSettings K) (d : Data K n p m) (k : KKT K n p m)
    (refine : Bool) (inner : Inner K n p m) : KKT K n p m :=
  let f : KBlocks K n p m :=
    if refine then
      let static : K :=
        if be.isDense then maxFin 0 n (fun j => vabs d.P[j][j]) else maxFin 0 n (fun j => d.P[j][j])
      let m1 := maxFin static m (fun i => k.zinv[i] * k.s[i])
      let m2 := maxFinHead m1 d.lb.cnt n (fun i => k.zinv_lb[i] * k.s_lb[i])
      let m3 := maxFinHead m2 d.ub.cnt n (fun i => k.zinv_ub[i] * k.s_ub[i])
      let reg := st.regEps + st.regRel * m3
      let rhoReg := vmax 0 (reg - k.rho)
      let deltaReg := vmax 0 (reg - k.delta)
      if be.isDense then { k.k with xx := addDiag k.k.xx (Vec.const n rhoReg) }
      else { k.k with xx := addDiag k.k.xx (Vec.const n rhoReg),
                      yy := Vector.ofFn fun i => k.k.yy[i] - deltaReg,
                      zz := Vector.ofFn fun i => k.k.zz[i] - deltaReg }
    else k.k
  { k with f := f, fsol := inner f }

/-- residual `rhs - K·sol` of the reduced system on the blocks the back end keeps -/
def redResidual (be : Backend) (kb : KBlocks K n p m) (rx : Vec K n) (ry : Vec K p) (rz : Vec K m)
    (x : Vec K n) (y : Vec K p) (z : Vec K m) : Vec K n × Vec K p × Vec K m :=
  let kx := Mat.mulVec kb.xx x
  let ky := Mat.mulVec kb.xy y
  let kz := Mat.mulVec kb.xz z
  let ex : Vec K n := Vector.ofFn fun j =>
    rx[j] - (kx[j] + (if be.keepY then ky[j] else 0) + (if be.keepZ then kz[j] else 0))
  let ax := Mat.mulVecT kb.xy x
  let gx := Mat.mulVecT kb.xz x
  let ey : Vec K p := Vector.ofFn fun i => ry[i] - (ax[i] + kb.yy[i] * y[i])
  let ez : Vec K m := Vector.ofFn fun i => rz[i] - (gx[i] + kb.zz[i] * z[i])
  (ex, ey, ez)

def redNorm (be : Backend) (x : Vec K n) (y : Vec K p) (z : Vec K m) : K :=
  let a := Vec.infNorm x
  let b := if be.keepY then vmax a (Vec.infNorm y) else a
  if be.keepZ then vmax b (Vec.infNorm z) else b

/-- the iterative-refinement loop of `KKT::solve` (fuel = `iterative_refinement_max_iter`) -/
def refineLoop (be : Backend) (st : KKTSettings K) (slv : SolveFn K n p m) (ku : KBlocks K n p m)
    (rx : Vec K n) (ry : Vec K p) (rz : Vec K m) (rhsNorm : K) :
    Nat → (Vec K n × Vec K p × Vec K m) → (Vec K n × Vec K p × Vec K m) → K → (Vec K n × Vec K p × Vec K m)
  | 0, sol, _, _ => sol
  | fuel + 1, sol, err, errNorm =>
    if errNorm ≤ st.refEpsAbs + st.refEpsRel * rhsNorm then sol   -- `error_norm <= tol` : break
    else
      match some (slv err.1 err.2.1 err.2.2) with
      | none => sol
      | some corr =>
        let ref : Vec K n × Vec K p × Vec K m :=
          (Vector.ofFn fun i => sol.1[i] + corr.1[i],
           Vector.ofFn fun i => sol.2.1[i] + corr.2.1[i],
           Vector.ofFn fun i => sol.2.2[i] + corr.2.2[i])
        let err' := redResidual be ku rx ry rz ref.1 ref.2.1 ref.2.2
        let errNorm' := redNorm be err'.1 err'.2.1 err'.2.2
        let rate := errNorm / errNorm'
        if rate < st.refMinRate then
          if 1 < rate then ref else sol
        else refineLoop be st slv ku rx ry rz rhsNorm fuel ref err' errNorm'

/-- `zbar`: the z-row right-hand side after eliminating the slack (`r_z - Z⁻¹ r_s`), divided by `W = S Z⁻¹ + δ`
    when the z-block itself is eliminated -/
def zbarOf (be : Backend) (k : KKT K n p m) (r : Step K n p m) : Vec K m :=
  let w : Vec K m := Vector.ofFn fun i => k.s[i] * k.zinv[i] + k.delta
  let zbar0 : Vec K m := Vector.ofFn fun i => r.z[i] - k.zinv[i] * r.s[i]
  if be.keepZ then zbar0 else Vector.ofFn fun i => zbar0[i] / w[i]

/-- x-row of the reduced right-hand side: eliminated blocks folded in -/
def rxOf (be : Backend) (d : Data K n p m) (k : KKT K n p m) (r : Step K n p m) : Vec K n :=
  let deltaInv : K := 1 / k.delta
  let gt := Mat.mulVec d.GT (zbarOf be k r)
  let at' := Mat.mulVec d.AT r.y
  let bl := d.lb.scatter fun i =>
    d.lb.sc[i] * (r.z_lb[i] - k.zinv_lb[i] * r.s_lb[i]) / (k.s_lb[i] * k.zinv_lb[i] + k.delta)
  let bu := d.ub.scatter fun i =>
    d.ub.sc[i] * (r.z_ub[i] - k.zinv_ub[i] * r.s_ub[i]) / (k.s_ub[i] * k.zinv_ub[i] + k.delta)
  Vector.ofFn fun j =>
    r.x[j] + (if be.keepZ then 0 else gt[j]) + (if be.keepY then 0 else deltaInv * at'[j]) - bl[j] + bu[j]

/-- recovery of the eliminated variables from a solution `sol` of the reduced system -/
def recover (be : Backend) (d : Data K n p m) (k : KKT K n p m) (r old : Step K n p m)
    (sol : Vec K n × Vec K p × Vec K m) : Step K n p m :=
  let deltaInv : K := 1 / k.delta
  let w : Vec K m := Vector.ofFn fun i => k.s[i] * k.zinv[i] + k.delta
  let zbar := zbarOf be k r
  let dx := sol.1
  let ax := Mat.mulVecT d.AT dx
  let gx := Mat.mulVecT d.GT dx
  let dy : Vec K p := if be.keepY then sol.2.1 else Vector.ofFn fun i => deltaInv * ax[i] - deltaInv * r.y[i]
  let dz : Vec K m := if be.keepZ then sol.2.2 else Vector.ofFn fun i => gx[i] / w[i] - zbar[i]
  let dz_lb := d.lb.headUpd old.z_lb fun i =>
    if be.isDense then
      (-d.lb.sc[i] * dx[d.lb.idx[i]] - r.z_lb[i] + k.zinv_lb[i] * r.s_lb[i]) / (k.s_lb[i] * k.zinv_lb[i] + k.delta)
    else
      ((-d.lb.sc[i] * dx[d.lb.idx[i]] - r.z_lb[i]) / k.zinv_lb[i] + r.s_lb[i]) / (k.s_lb[i] + k.delta / k.zinv_lb[i])
  let dz_ub := d.ub.headUpd old.z_ub fun i =>
    if be.isDense then
      (d.ub.sc[i] * dx[d.ub.idx[i]] - r.z_ub[i] + k.zinv_ub[i] * r.s_ub[i]) / (k.s_ub[i] * k.zinv_ub[i] + k.delta)
    else
      ((d.ub.sc[i] * dx[d.ub.idx[i]] - r.z_ub[i]) / k.zinv_ub[i] + r.s_ub[i]) / (k.s_ub[i] + k.delta / k.zinv_ub[i])
  let ds : Vec K m := Vector.ofFn fun i =>
    if be.isDense then k.zinv[i] * (r.s[i] - k.s[i] * dz[i])
    else k.s[i] * k.zinv[i] * (r.s[i] / k.s[i] - dz[i])
  let ds_lb := d.lb.headUpd old.s_lb fun i =>
    if be.isDense then k.zinv_lb[i] * (r.s_lb[i] - k.s_lb[i] * dz_lb[i])
    else k.s_lb[i] * k.zinv_lb[i] * (r.s_lb[i] / k.s_lb[i] - dz_lb[i])
  let ds_ub := d.ub.headUpd old.s_ub fun i =>
    if be.isDense then k.zinv_ub[i] * (r.s_ub[i] - k.s_ub[i] * dz_ub[i])
    else k.s_ub[i] * k.zinv_ub[i] * (r.s_ub[i] / k.s_ub[i] - dz_ub[i])
  { x := dx, y := dy, z := dz, z_lb := dz_lb, z_ub := dz_ub, s := ds, s_lb := ds_lb, s_ub := ds_ub }

/-- `KKT::solve`.  `rhs` has the layout of `Step`; `old` supplies the tails of the box outputs. -/
def KKT.solve (be : Backend) (st : KKTSettings K) (d : Data K n p m)
    (k : KKT K n p m) (r old : Step K n p m) (refine : Bool) : Option (Step K n p m) :=
  let rx := rxOf be d k r
  let ry := r.y
  let rz := zbarOf be k r
  match k.fsol with
  | none => none
  | some slv =>
    let sol0 := slv rx ry rz
    let sol :=
      if refine && decide (st.refMaxIter ≠ 0) then
        let rhsNorm := redNorm be rx ry rz
        let err := redResidual be k.k rx ry rz sol0.1 sol0.2.1 sol0.2.2
        let errNorm := redNorm be err.1 err.2.1 err.2.2
        refineLoop be st slv k.k rx ry rz rhsNorm st.refMaxIter sol0 err errNorm
      else sol0
    some (recover be d k r old sol)

end ops

end Piqp
