/-
PiqpModel/IO.lean — model of PIQP's MAT-file problem I/O (property C20).  Core Lean only.

Code modelled (current /repo tree):
  include/piqp/utils/io_utils.hpp      save_dense_model / save_sparse_model / load_dense_model / load_sparse_model
  include/piqp/utils/eigen_matio.hpp   Eigen::MatioFile::write_mat / read_mat (dense and sparse overloads)
  include/piqp/dense/model.hpp, include/piqp/sparse/model.hpp   the Model constructors called by load_*

Abstraction (the trusted base of C20): libmatio is a finite map  name ↦ variable.
  `Mat_VarDelete; Mat_VarWrite` = `Store.write` (the old variable of that name disappears, the new one is appended
  at the end of the file), `Mat_VarRead` = `Store.read` (returns the variable as it was written: class, rank-2 dims,
  element arrays, and for sparse variables nir / njc / ndata = the lengths of the three arrays).
  Values are opaque tokens `α` (the driver instantiates `α := UInt64`, the bit pattern of a double): ±inf, denormals,
  -0.0 and NaN payloads are just tokens; `cast<double>()` from double to double is the identity on them.
  Whether libmatio really behaves like this store (zero-sized variables, nnz = 0, …) is NOT proved: it is compared,
  case by case and bit by bit, by the correspondence harness /verif/harness/hio.cpp against /verif/lean/IODriver.lean.

What is modelled, including the branches that are not on the round-trip path:
  * the four literal field-name sequences (one per function) and the order of the calls;
  * a dense matrix is written as a rank-2 double array rows×cols of `rows*cols` column-major elements;
    a vector (`Vec<T>` = Matrix<T,Dynamic,1>) is written as an n×1 array;
  * a sparse matrix is first copied into `SparseMatrix<Scalar,ColMajor,int> dst` by Eigen's sparse-to-sparse assignment
    (`eigenAssign`: column by column through InnerIterator, outer index rebuilt as running counts), then
    `nz = dst.nonZeros()` (= outer[cols] − outer[0] for a compressed matrix), jc = the cols+1 outer indices,
    ir / data = the first nz inner indices / values, nir = ndata = nz, njc = cols+1;
  * `read_mat`: missing variable, rank ≠ 2, complex/real mismatch, unrecognised element type → a message on std::cout,
    return −1, TARGET LEFT UNCHANGED; `load_*` ignores the return value, so the field keeps its default-constructed
    value (0×0 matrix / empty vector) and the `Model` constructor is still called (it only prints to stderr);
  * the class of the variable is never checked against the target: a sparse variable read into a dense target (or a
    dense one into a sparse target) reinterprets `var->data` — undefined behaviour, modelled as `none`;
  * a dense variable read into a vector target whose column count is not 1 trips Eigen's `resizeLike`/`resize`
    assertion (abort; UB under NDEBUG) — `none`;
  * the sparse reader's guard `nir != ndata || njc != dims[1]+1` → "wrong sparse format", −1, target unchanged;
    otherwise `Map<SparseMatrix<double,ColMajor,uint32_t>>` + Eigen's sparse-to-sparse assignment again.
Not modelled: failures of the environment (file cannot be opened/created, `Mat_VarCreate`/`Mat_VarWrite` failing),
  the `Model` constructors' dimension diagnostics (stderr only, no effect on the returned value), Eigen's debug-only
  assertion that inner indices are inserted in strictly increasing order (compiled out under NDEBUG; it restricts the
  domain, it never changes a result), and the in-memory representation of an UNCOMPRESSED Eigen sparse matrix: an
  `SMat` is the logical CSC content that `InnerIterator` enumerates (the harness also saves uncompressed matrices).
-/
namespace Piqp.IO

/-! ### the MAT store -/

/-- why `MatioFile::read_mat(matvar_t*, …)` rejects a variable, in the order the checks are made -/
inductive Reject where
  | rankNot2        -- var->rank != 2
  | complexMismatch -- var->isComplex != IsComplex of the target scalar
  | unknownType     -- var->data_type not one of the ten handled MAT_T_* ids
  deriving DecidableEq, Repr

/-- a MAT variable as `read_mat` can observe it through `matvar_t` -/
inductive MatVar (α : Type) where
  /-- class double, rank 2, dims = rows×cols, `data` column-major -/
  | dense (rows cols : Nat) (data : List α)
  /-- class sparse, rank 2; `mat_sparse_t` with njc = jc.length, nir = ir.length, ndata = data.length -/
  | sparse (rows cols : Nat) (jc ir : List Nat) (data : List α)
  /-- anything `read_mat` refuses before looking at the data -/
  | other (why : Reject)
  deriving DecidableEq, Repr

/-- the file: variables in file order -/
abbrev Store (α : Type) := List (String × MatVar α)

def emptyStore {α : Type} : Store α := []

/-- `Mat_VarRead(file, name)` -/
def Store.read {α : Type} : Store α → String → Option (MatVar α)
  | [], _ => none
  | (k, v) :: rest, n => if k = n then some v else Store.read rest n

/-- `Mat_VarDelete(file, name)` -/
def Store.delete {α : Type} : Store α → String → Store α
  | [], _ => []
  | (k, v) :: rest, n => if k = n then Store.delete rest n else (k, v) :: Store.delete rest n

/-- `MatioFile::write_mat`: `Mat_VarDelete(_file, matname)` then `Mat_VarWrite` (appends) -/
def Store.write {α : Type} (s : Store α) (name : String) (v : MatVar α) : Store α :=
  s.delete name ++ [(name, v)]

/-! ### Eigen-side objects -/

/-- `Mat<T>`: column-major dense matrix -/
structure DMat (α : Type) where
  rows : Nat
  cols : Nat
  data : List α
  deriving DecidableEq, Repr

/-- default-constructed `Mat<T>` (0×0) -/
def DMat.empty {α : Type} : DMat α := ⟨0, 0, []⟩

/-- `Vec<T>`: the size is the length -/
abbrev DVec (α : Type) := List α

/-- `SparseMat<T,I>`: logical compressed-column content -/
structure SMat (α : Type) where
  rows : Nat
  cols : Nat
  jc : List Nat
  ir : List Nat
  data : List α
  deriving DecidableEq, Repr

/-- default-constructed `SparseMat<T,I>` (0×0, outer index = [0]) -/
def SMat.empty {α : Type} : SMat α := ⟨0, 0, [0], [], []⟩

structure DenseModel (α : Type) where
  P : DMat α
  c : DVec α
  A : DMat α
  b : DVec α
  G : DMat α
  h : DVec α
  x_lb : DVec α
  x_ub : DVec α
  deriving DecidableEq, Repr

structure SparseModel (α : Type) where
  P : SMat α
  c : DVec α
  A : SMat α
  b : DVec α
  G : SMat α
  h : DVec α
  x_lb : DVec α
  x_ub : DVec α
  deriving DecidableEq, Repr

/-! ### field names: four literal sequences in io_utils.hpp, one per function -/

/-- which MAT variable name goes with which `Model` member -/
structure FieldNames where
  P : String
  c : String
  A : String
  b : String
  G : String
  h : String
  x_lb : String
  x_ub : String
  deriving DecidableEq, Repr

/-- in call order -/
def FieldNames.toList (f : FieldNames) : List String := [f.P, f.c, f.A, f.b, f.G, f.h, f.x_lb, f.x_ub]

/-- io_utils.hpp `save_dense_model`: file.write_mat("P", model.P); … ("x_ub", model.x_ub) -/
def saveDenseNames : FieldNames := ⟨"P", "c", "A", "b", "G", "h", "x_lb", "x_ub"⟩
/-- io_utils.hpp `save_sparse_model` -/
def saveSparseNames : FieldNames := ⟨"P", "c", "A", "b", "G", "h", "x_lb", "x_ub"⟩
/-- io_utils.hpp `load_dense_model`: file.read_mat("P", P); … then `Model(P, c, A, b, G, h, x_lb, x_ub)` -/
def loadDenseNames : FieldNames := ⟨"P", "c", "A", "b", "G", "h", "x_lb", "x_ub"⟩
/-- io_utils.hpp `load_sparse_model` -/
def loadSparseNames : FieldNames := ⟨"P", "c", "A", "b", "G", "h", "x_lb", "x_ub"⟩

/-! ### Eigen's sparse-to-sparse assignment (`internal::assign_sparse_to_sparse`) -/

/-- the entries of the columns described by consecutive outer indices: column j = xs[jc[j] .. jc[j+1]) -/
def colSlices {β : Type} (xs : List β) : List Nat → List (List β)
  | a :: b :: rest => ((xs.drop a).take (b - a)) :: colSlices xs (b :: rest)
  | _ => []

/-- outer index array produced by `startVec`/`insertBack…`/`finalize`: running counts -/
def prefixSums : Nat → List Nat → List Nat
  | s, [] => [s]
  | s, l :: ls => s :: prefixSums (s + l) ls

/-- `dst = src` for column-major sparse operands: for j < cols, for it in InnerIterator(src, j): insertBack -/
def eigenAssign {α : Type} (M : SMat α) : SMat α :=
  let outer := M.jc.take (M.cols + 1)
  let irCols := colSlices M.ir outer
  { rows := M.rows, cols := M.cols,
    jc := prefixSums 0 (irCols.map List.length),
    ir := irCols.flatten,
    data := (colSlices M.data outer).flatten }

/-- `nonZeros()` of a compressed matrix: outer[outerSize] − outer[0] -/
def SMat.nonZeros {α : Type} (M : SMat α) : Nat := M.jc.getD M.cols 0 - M.jc.getD 0 0

/-! ### MatioFile::write_mat -/

/-- dense overload on a `Mat<T>`: dims = {rows, cols}, `rows*cols` elements from `dst_re.data()` -/
def writeDMat {α : Type} (s : Store α) (name : String) (M : DMat α) : Store α :=
  s.write name (.dense M.rows M.cols (M.data.take (M.rows * M.cols)))

/-- dense overload on a `Vec<T>`: an n×1 array -/
def writeDVec {α : Type} (s : Store α) (name : String) (v : DVec α) : Store α :=
  s.write name (.dense v.length 1 v)

/-- sparse overload -/
def sparseVarOf {α : Type} (M : SMat α) : MatVar α :=
  let dst := eigenAssign M            -- dst = matrix; dst.makeCompressed() (already compressed)
  let nz := dst.nonZeros
  .sparse dst.rows dst.cols (dst.jc.take (dst.cols + 1)) (dst.ir.take nz) (dst.data.take nz)

def writeSMat {α : Type} (s : Store α) (name : String) (M : SMat α) : Store α :=
  s.write name (sparseVarOf M)

/-! ### MatioFile::read_mat

Result `none` = undefined behaviour / assertion abort.  `some (x, msgs)`: the target after the call (unchanged when
the call returned −1) and what was printed on std::cout. -/

def msgMissing (name : String) : String := "read_mat() unable to read matrix '" ++ name ++ "'"

def msgReject (name : String) : Reject → String
  | .rankNot2 => "read_mat() can only read rank-2 matrices: '" ++ name ++ "':"
  | .complexMismatch => "read_mat() complex / real matrix mismatch"
  | .unknownType => "read_mat() unrecognized matrix data_type '" ++ name ++ "':"

def msgSparseFormat : String := "read_mat() wrong sparse format"

/-- target `Mat<T>` -/
def readDMat {α : Type} (s : Store α) (name : String) (cur : DMat α) : Option (DMat α × List String) :=
  match s.read name with
  | none => some (cur, [msgMissing name])
  | some (.other why) => some (cur, [msgReject name why])
  | some (.dense r c d) => some (⟨r, c, d⟩, [])   -- Map<Matrix>(var->data, dims[0], dims[1]) copied
  | some (.sparse ..) => none                      -- var->data is a mat_sparse_t*, read as double*: UB

/-- target `Vec<T>` -/
def readDVec {α : Type} (s : Store α) (name : String) (cur : DVec α) : Option (DVec α × List String) :=
  match s.read name with
  | none => some (cur, [msgMissing name])
  | some (.other why) => some (cur, [msgReject name why])
  | some (.dense _ c d) => if c = 1 then some (d, []) else none   -- Eigen resizeLike/resize assertion
  | some (.sparse ..) => none

/-- the guard in `matrix_from_var(SparseMatrixBase&, …)`: true = accepted -/
def sparseGuard {α : Type} : MatVar α → Bool
  | .sparse _ c jc ir d => ir.length == d.length && jc.length == c + 1
  | _ => false

/-- target `SparseMat<T,I>` -/
def readSMat {α : Type} (s : Store α) (name : String) (cur : SMat α) : Option (SMat α × List String) :=
  match s.read name with
  | none => some (cur, [msgMissing name])
  | some (.other why) => some (cur, [msgReject name why])
  | some (.dense ..) => none                       -- var->data is a double*, read as mat_sparse_t*: UB
  | some (.sparse r c jc ir d) =>
    if sparseGuard (.sparse r c jc ir d) then some (eigenAssign ⟨r, c, jc, ir, d⟩, [])
    else some (cur, [msgSparseFormat])

/-! ### io_utils.hpp -/

def saveDenseWith {α : Type} (f : FieldNames) (m : DenseModel α) (s : Store α) : Store α :=
  let s := writeDMat s f.P m.P
  let s := writeDVec s f.c m.c
  let s := writeDMat s f.A m.A
  let s := writeDVec s f.b m.b
  let s := writeDMat s f.G m.G
  let s := writeDVec s f.h m.h
  let s := writeDVec s f.x_lb m.x_lb
  writeDVec s f.x_ub m.x_ub

def saveSparseWith {α : Type} (f : FieldNames) (m : SparseModel α) (s : Store α) : Store α :=
  let s := writeSMat s f.P m.P
  let s := writeDVec s f.c m.c
  let s := writeSMat s f.A m.A
  let s := writeDVec s f.b m.b
  let s := writeSMat s f.G m.G
  let s := writeDVec s f.h m.h
  let s := writeDVec s f.x_lb m.x_lb
  writeDVec s f.x_ub m.x_ub

/-- `load_dense_model`: eight reads into default-constructed targets, return codes ignored, then
`dense::Model<T> model(P, c, A, b, G, h, x_lb, x_ub)` (all optionals engaged: every argument is copied as is). -/
def loadDenseWith {α : Type} (f : FieldNames) (s : Store α) : Option (DenseModel α × List String) := do
  let (P, l1) ← readDMat s f.P DMat.empty
  let (c, l2) ← readDVec s f.c []
  let (A, l3) ← readDMat s f.A DMat.empty
  let (b, l4) ← readDVec s f.b []
  let (G, l5) ← readDMat s f.G DMat.empty
  let (h, l6) ← readDVec s f.h []
  let (x_lb, l7) ← readDVec s f.x_lb []
  let (x_ub, l8) ← readDVec s f.x_ub []
  pure (⟨P, c, A, b, G, h, x_lb, x_ub⟩, l1 ++ l2 ++ l3 ++ l4 ++ l5 ++ l6 ++ l7 ++ l8)

/-- `load_sparse_model` -/
def loadSparseWith {α : Type} (f : FieldNames) (s : Store α) : Option (SparseModel α × List String) := do
  let (P, l1) ← readSMat s f.P SMat.empty
  let (c, l2) ← readDVec s f.c []
  let (A, l3) ← readSMat s f.A SMat.empty
  let (b, l4) ← readDVec s f.b []
  let (G, l5) ← readSMat s f.G SMat.empty
  let (h, l6) ← readDVec s f.h []
  let (x_lb, l7) ← readDVec s f.x_lb []
  let (x_ub, l8) ← readDVec s f.x_ub []
  pure (⟨P, c, A, b, G, h, x_lb, x_ub⟩, l1 ++ l2 ++ l3 ++ l4 ++ l5 ++ l6 ++ l7 ++ l8)

def saveDense {α : Type} (m : DenseModel α) (s : Store α) : Store α := saveDenseWith saveDenseNames m s
def saveSparse {α : Type} (m : SparseModel α) (s : Store α) : Store α := saveSparseWith saveSparseNames m s

/-- returned model and the std::cout diagnostics; `none` = UB / abort -/
def loadDenseFull {α : Type} (s : Store α) : Option (DenseModel α × List String) := loadDenseWith loadDenseNames s
def loadSparseFull {α : Type} (s : Store α) : Option (SparseModel α × List String) := loadSparseWith loadSparseNames s

def loadDense {α : Type} (s : Store α) : Option (DenseModel α) := (loadDenseFull s).map (·.1)
def loadSparse {α : Type} (s : Store α) : Option (SparseModel α) := (loadSparseFull s).map (·.1)

/-! ### well-formedness (the invariants every Eigen object satisfies; decidable) -/

def DMat.WF {α : Type} (M : DMat α) : Prop := M.data.length = M.rows * M.cols

instance {α : Type} (M : DMat α) : Decidable M.WF := by unfold DMat.WF; infer_instance

/-- adjacent entries non-decreasing -/
def monotone : List Nat → Bool
  | a :: b :: rest => decide (a ≤ b) && monotone (b :: rest)
  | _ => true

/-- valid compressed-column arrays: cols+1 outer indices starting at 0, non-decreasing, ending at nnz;
as many row indices as values.  Empty columns (equal consecutive jc), nnz = 0 and explicit zeros are allowed. -/
def SMat.WF {α : Type} (M : SMat α) : Prop :=
  M.jc.length = M.cols + 1 ∧ M.jc.head? = some 0 ∧ monotone M.jc = true ∧
  M.jc.getLastD 0 = M.ir.length ∧ M.ir.length = M.data.length

instance {α : Type} (M : SMat α) : Decidable M.WF := by unfold SMat.WF; infer_instance

/-- in addition: row indices in range and strictly increasing inside each column (what Eigen calls a valid
compressed matrix; not needed for the round trip, used by the generator and the non-vacuity examples) -/
def strictlyIncreasing : List Nat → Bool
  | a :: b :: rest => decide (a < b) && strictlyIncreasing (b :: rest)
  | _ => true

def SMat.Canonical {α : Type} (M : SMat α) : Prop :=
  M.ir.all (· < M.rows) = true ∧ (colSlices M.ir M.jc).all strictlyIncreasing = true

instance {α : Type} (M : SMat α) : Decidable M.Canonical := by unfold SMat.Canonical; infer_instance

/-- the domain of C20 for dense models: n ≥ 1, p ≥ 0, m ≥ 0, all blocks dimensioned consistently -/
def DenseModel.WF {α : Type} (m : DenseModel α) : Prop :=
  1 ≤ m.P.rows ∧ m.P.cols = m.P.rows ∧ m.A.cols = m.P.rows ∧ m.G.cols = m.P.rows ∧
  m.c.length = m.P.rows ∧ m.b.length = m.A.rows ∧ m.h.length = m.G.rows ∧
  m.x_lb.length = m.P.rows ∧ m.x_ub.length = m.P.rows ∧
  m.P.WF ∧ m.A.WF ∧ m.G.WF

instance {α : Type} (m : DenseModel α) : Decidable m.WF := by unfold DenseModel.WF; infer_instance

/-- the domain of C20 for sparse models -/
def SparseModel.WF {α : Type} (m : SparseModel α) : Prop :=
  1 ≤ m.P.rows ∧ m.P.cols = m.P.rows ∧ m.A.cols = m.P.rows ∧ m.G.cols = m.P.rows ∧
  m.c.length = m.P.rows ∧ m.b.length = m.A.rows ∧ m.h.length = m.G.rows ∧
  m.x_lb.length = m.P.rows ∧ m.x_ub.length = m.P.rows ∧
  m.P.WF ∧ m.A.WF ∧ m.G.WF

instance {α : Type} (m : SparseModel α) : Decidable m.WF := by unfold SparseModel.WF; infer_instance

end Piqp.IO
