/-
  The solver (`SolverBase`, `DenseSolver`, `SparseSolver` in solver.hpp): settings, results, workspace,
  `setup`, `update`, `solve` (= `solve_impl` ; `unscale_results` ; `restore_box_dual`).

  The state is split into a small control record `Ctrl` (the three fields the termination measure of the
  main loop depends on) and the numeric workspace `Work`.  The main loop is defined by well-founded
  recursion on `(max_iter - iter, refinement not yet on, max_factor_retires - factor_retires)`.
-/
import PiqpModel.KKT
import PiqpModel.Precond
import PiqpModel.Pack

namespace Piqp
variable {K : Type}

inductive Status where
  | solved | maxIterReached | primalInfeasible | dualInfeasible | numerics | unsolved | invalidSettings
  deriving DecidableEq, Repr, Inhabited

def Status.code : Status → Int
  | .solved => 1 | .maxIterReached => -1 | .primalInfeasible => -2 | .dualInfeasible => -3
  | .numerics => -8 | .unsolved => -9 | .invalidSettings => -10

structure Settings (K : Type) where
  rhoInit : K
  deltaInit : K
  epsAbs : K
  epsRel : K
  checkDualityGap : Bool
  epsGapAbs : K
  epsGapRel : K
  regLowerLimit : K
  regFinetuneLowerLimit : K
  regFinetunePrimalThr : Int
  regFinetuneDualThr : Int
  maxIter : Int
  maxFactorRetires : Int
  precScaleCost : Bool
  precIter : Int
  tau : K
  refAlways : Bool
  refEpsAbs : K
  refEpsRel : K
  refMaxIter : Int
  refMinRate : K
  regEps : K
  regRel : K

structure Info (K : Type) where
  status : Status
  iter : Nat
  rho : K
  delta : K
  mu : K
  sigma : K
  primalStep : K
  dualStep : K
  primalInf : K
  primalRelInf : K
  dualInf : K
  dualRelInf : K
  primalObj : K
  dualObj : K
  dualityGap : K
  dualityGapRel : K
  factorRetires : Nat
  regLimit : K
  noPrimalUpdate : Nat
  noDualUpdate : Nat

/-- result vectors + residual/step workspace -/
structure Work (K : Type) (n p m : Nat) where
  x : Vec K n
  y : Vec K p
  z : Vec K m
  z_lb : Vec K n
  z_ub : Vec K n
  s : Vec K m
  s_lb : Vec K n
  s_ub : Vec K n
  zeta : Vec K n
  lambda : Vec K p
  nu : Vec K m
  nu_lb : Vec K n
  nu_ub : Vec K n
  r : Step K n p m       -- rx … rs_ub
  rx_nr : Vec K n
  ry_nr : Vec K p
  rz_nr : Vec K m
  rz_lb_nr : Vec K n
  rz_ub_nr : Vec K n
  d : Step K n p m       -- dx … ds_ub

structure Solver (K : Type) (n p m : Nat) where
  be : Backend
  pk : PrecKind
  st : Settings K
  data : Data K n p m
  pre : Precond K n p m
  kkt : KKT K n p m
  w : Work K n p m
  info : Info K
  kktInitState : Bool
  setupDone : Bool
  refineOn : Bool

section
variable [Add K] [Sub K] [Mul K] [Div K] [Neg K] [Zero K] [One K] [LT K] [DecidableLT K] [LE K] [DecidableLE K]
variable [NatCast K] [BEq K]
variable {n p m : Nat}

/-- `Settings::verify_settings` -/
def Settings.verify (s : Settings K) : Bool :=
  decide (0 < s.rhoInit) && decide (0 < s.deltaInit) && decide (0 < s.epsAbs) && decide (0 ≤ s.epsRel) &&
  decide (0 < s.epsGapAbs) && decide (0 ≤ s.epsGapRel) && decide (0 < s.regLowerLimit) &&
  decide (0 ≤ s.regFinetunePrimalThr) && decide (0 ≤ s.regFinetuneDualThr) &&
  decide (0 < s.maxIter) && decide (0 < s.maxFactorRetires) && decide (0 ≤ s.precIter) &&
  decide (0 < s.tau) && decide (s.tau ≤ 1) &&
  decide (0 < s.refEpsAbs) && decide (0 ≤ s.refEpsRel) && decide (0 ≤ s.refMaxIter) &&
  decide (1 ≤ s.refMinRate) && decide (0 < s.regEps) && decide (0 ≤ s.regRel)

def Settings.kkt (s : Settings K) : KKTSettings K :=
  { regEps := s.regEps, regRel := s.regRel, refMaxIter := s.refMaxIter.toNat,
    refEpsAbs := s.refEpsAbs, refEpsRel := s.refEpsRel, refMinRate := s.refMinRate }

/-- dot product over the first `cnt` entries -/
def dotHead (cnt : Nat) (a b : Vec K n) : K := sumFin n (fun i => if i.val < cnt then a[i] * b[i] else 0)
def sumHead (cnt : Nat) (a : Vec K n) : K := sumFin n (fun i => if i.val < cnt then a[i] else 0)
def minHead (init : K) (cnt : Nat) (a : Vec K n) : K :=
  minFin init n (fun i => if i.val < cnt then a[i] else init)

/-- everything the residual/diagnostic computations need besides the iterate -/
structure Env (K : Type) (n p m : Nat) where
  be : Backend
  pk : PrecKind
  cs : Consts K
  st : Settings K
  data : Data K n p m
  pre : Precond K n p m
  inner : Inner K n p m

/-- `update_nr_residuals`: non-regularised residuals of the scaled problem + objective diagnostics.
    (`dx` is used as a temporary by the code and is clobbered here as well.) -/
def updateNrResiduals (e : Env K n p m) (w : Work K n p m) (info : Info K) : Work K n p m × Info K :=
  let d := e.data
  let pre := e.pre
  let pk := e.pk
  let nl := d.lb.cnt
  let nu := d.ub.cnt
  let Px := Mat.mulVec d.Psym w.x
  let rx0 : Vec K n := Vector.ofFn fun i => -Px[i]
  let drel0 := Vec.infNorm (pre.unscaleDualRes pk rx0)
  let xPx := -(Vec.dot w.x rx0)
  let pobj0 := e.cs.c0_5 * xPx
  let dobj0 := -e.cs.c0_5 * xPx
  let grel0 := pre.unscaleCost pk (vabs xPx)
  let t1 := Vec.dot d.c w.x
  let pobj1 := pobj0 + t1
  let grel1 := vmax grel0 (pre.unscaleCost pk (vabs t1))
  let t2 := Vec.dot d.b w.y
  let dobj1 := dobj0 - t2
  let grel2 := vmax grel1 (pre.unscaleCost pk (vabs t2))
  let t3 := Vec.dot d.h w.z
  let dobj2 := dobj1 - t3
  let grel3 := vmax grel2 (pre.unscaleCost pk (vabs t3))
  let t4 := dotHead nl d.lb.val w.z_lb
  let dobj3 := dobj2 - t4
  let grel4 := vmax grel3 (pre.unscaleCost pk (vabs t4))
  let t5 := dotHead nu d.ub.val w.z_ub
  let dobj4 := dobj3 - t5
  let grel5 := vmax grel4 (pre.unscaleCost pk (vabs t5))
  let gap := vabs (pobj1 - dobj4)
  -- dual residual
  let rx1 : Vec K n := Vector.ofFn fun i => rx0[i] - d.c[i]
  let drel1 := vmax drel0 (Vec.infNorm (pre.unscaleDualRes pk d.c))
  let ATy := Mat.mulVec d.AT w.y
  let GTz := Mat.mulVec d.GT w.z
  let sl := d.lb.scatter fun i => d.lb.sc[i] * w.z_lb[i]
  let su := d.ub.scatter fun i => d.ub.sc[i] * w.z_ub[i]
  let tmp : Vec K n := Vector.ofFn fun j => ATy[j] + GTz[j] - sl[j] + su[j]
  let drel2 := vmax drel1 (Vec.infNorm (pre.unscaleDualRes pk tmp))
  let rx2 : Vec K n := Vector.ofFn fun i => rx1[i] - tmp[i]
  -- primal residual
  let Ax := Mat.mulVecT d.AT w.x
  let ry0 : Vec K p := Vector.ofFn fun i => -Ax[i]
  let prel0 := Vec.infNorm (pre.unscalePrimalResEq pk ry0)
  let ry1 : Vec K p := Vector.ofFn fun i => ry0[i] + d.b[i]
  let prel1 := vmax prel0 (Vec.infNorm (pre.unscalePrimalResEq pk d.b))
  let Gx := Mat.mulVecT d.GT w.x
  let rz0 : Vec K m := Vector.ofFn fun i => -Gx[i]
  let prel2 := vmax prel1 (Vec.infNorm (pre.unscalePrimalResIneq pk rz0))
  let rz1 : Vec K m := Vector.ofFn fun i => rz0[i] + (d.h[i] - w.s[i])
  let prel3 := vmax prel2 (Vec.infNorm (pre.unscalePrimalResIneq pk d.h))
  let prel4 := vmax prel3 (Vec.infNorm (pre.unscalePrimalResIneq pk w.s))
  let rl0 := d.lb.headUpd w.rz_lb_nr fun i => d.lb.sc[i] * w.x[d.lb.idx[i]]
  let prel5 := vmax prel4 (headInfNorm nl (pre.unscalePrimalResLb pk rl0))
  let rl1 := d.lb.headUpd rl0 fun i => rl0[i] + (d.lb.val[i] - w.s_lb[i])
  let prel6 := vmax prel5 (headInfNorm nl (pre.unscalePrimalResLb pk d.lb.val))
  let prel7 := vmax prel6 (headInfNorm nl (pre.unscalePrimalResLb pk w.s_lb))
  let ru0 := d.ub.headUpd w.rz_ub_nr fun i => -d.ub.sc[i] * w.x[d.ub.idx[i]]
  let prel8 := vmax prel7 (headInfNorm nu (pre.unscalePrimalResUb pk ru0))
  let ru1 := d.ub.headUpd ru0 fun i => ru0[i] + (d.ub.val[i] - w.s_ub[i])
  let prel9 := vmax prel8 (headInfNorm nu (pre.unscalePrimalResUb pk d.ub.val))
  let prel10 := vmax prel9 (headInfNorm nu (pre.unscalePrimalResUb pk w.s_ub))
  ({ w with rx_nr := rx2, ry_nr := ry1, rz_nr := rz1, rz_lb_nr := rl1, rz_ub_nr := ru1,
            d := { w.d with x := tmp } },
   { info with dualRelInf := drel2, primalObj := pre.unscaleCost pk pobj1, dualObj := pre.unscaleCost pk dobj4,
               dualityGap := pre.unscaleCost pk gap, dualityGapRel := grel5, primalRelInf := prel10 })

def primalInfOf (e : Env K n p m) (ry : Vec K p) (rz : Vec K m) (rzl rzu : Vec K n) : K :=
  let a := Vec.infNorm (e.pre.unscalePrimalResEq e.pk ry)
  let b := vmax a (Vec.infNorm (e.pre.unscalePrimalResIneq e.pk rz))
  let c := vmax b (headInfNorm e.data.lb.cnt (e.pre.unscalePrimalResLb e.pk rzl))
  vmax c (headInfNorm e.data.ub.cnt (e.pre.unscalePrimalResUb e.pk rzu))

def primalInfNr (e : Env K n p m) (w : Work K n p m) : K := primalInfOf e w.ry_nr w.rz_nr w.rz_lb_nr w.rz_ub_nr
def primalInfR (e : Env K n p m) (w : Work K n p m) : K := primalInfOf e w.r.y w.r.z w.r.z_lb w.r.z_ub
def dualInfNr (e : Env K n p m) (w : Work K n p m) : K := Vec.infNorm (e.pre.unscaleDualRes e.pk w.rx_nr)
def dualInfR (e : Env K n p m) (w : Work K n p m) : K := Vec.infNorm (e.pre.unscaleDualRes e.pk w.r.x)

def primalProxInf (e : Env K n p m) (w : Work K n p m) : K :=
  let a := Vec.infNorm (e.pre.unscaleDualEq e.pk (Vector.ofFn fun i => w.lambda[i] - w.y[i]))
  let b := vmax a (Vec.infNorm (e.pre.unscaleDualIneq e.pk (Vector.ofFn fun i => w.nu[i] - w.z[i])))
  let c := vmax b (headInfNorm e.data.lb.cnt (e.pre.unscaleDualLb e.pk (Vector.ofFn fun i => w.nu_lb[i] - w.z_lb[i])))
  vmax c (headInfNorm e.data.ub.cnt (e.pre.unscaleDualUb e.pk (Vector.ofFn fun i => w.nu_ub[i] - w.z_ub[i])))

def dualProxInf (e : Env K n p m) (w : Work K n p m) : K :=
  Vec.infNorm (e.pre.unscalePrimal e.pk (Vector.ofFn fun i => w.x[i] - w.zeta[i]))

/-- `μ = (sᵀz + s_lbᵀz_lb + s_ubᵀz_ub) / (m + n_lb + n_ub)` -/
def muOf (d : Data K n p m) (w : Work K n p m) : K :=
  (Vec.dot w.s w.z + dotHead d.lb.cnt w.s_lb w.z_lb + dotHead d.ub.cnt w.s_ub w.z_ub) /
    ((m + d.lb.cnt + d.ub.cnt : Nat) : K)

/-- fraction-to-boundary search over the three cone blocks, in the code's order -/
def stepToBoundary (d : Data K n p m) (w : Work K n p m) (dir : Step K n p m) : K × K :=
  let upd (acc : K × K) (s ds z dz : K) : K × K :=
    let a := if ds < 0 then vmin acc.1 (-s / ds) else acc.1
    let b := if dz < 0 then vmin acc.2 (-z / dz) else acc.2
    (a, b)
  let a1 := Fin.foldl m (fun acc i => upd acc w.s[i] dir.s[i] w.z[i] dir.z[i]) ((1 : K), (1 : K))
  let a2 := Fin.foldl n (fun acc i => if i.val < d.lb.cnt then upd acc w.s_lb[i] dir.s_lb[i] w.z_lb[i] dir.z_lb[i] else acc) a1
  Fin.foldl n (fun acc i => if i.val < d.ub.cnt then upd acc w.s_ub[i] dir.s_ub[i] w.z_ub[i] dir.z_ub[i] else acc) a2

def kktScal (e : Env K n p m) (k : KKT K n p m) (w : Work K n p m) (rho delta : K) : KKT K n p m :=
  KKT.updateScalings e.be e.data k rho delta w.s w.s_lb w.s_ub w.z w.z_lb w.z_ub

/-- control fields the termination measure depends on -/
structure Ctrl where
  iter : Nat
  factorRetires : Nat
  refineOn : Bool

structure LoopState (K : Type) (n p m : Nat) where
  c : Ctrl
  w : Work K n p m
  info : Info K
  kkt : KKT K n p m

/-- the termination test of the loop head on the diagnostics in `info` -/
def termTest (st : Settings K) (info : Info K) : Bool :=
  decide (info.primalInf < st.epsAbs + st.epsRel * info.primalRelInf) &&
  decide (info.dualInf < st.epsAbs + st.epsRel * info.dualRelInf) &&
  (!st.checkDualityGap || decide (info.dualityGap < st.epsGapAbs + st.epsGapRel * info.dualityGapRel))

/-- loop head, first part: (re)compute residuals at iteration 0 and the infeasibility norms -/
def headInfo (e : Env K n p m) (iter0 : Bool) (w : Work K n p m) (info : Info K) : Work K n p m × Info K :=
  let (w0, info0) := if iter0 then updateNrResiduals e w info else (w, info)
  (w0, { info0 with primalInf := primalInfNr e w0, dualInf := dualInfNr e w0 })

/-- regularised residuals `rx … rz_ub` -/
def regResiduals (e : Env K n p m) (w0 : Work K n p m) (info1 : Info K) : Work K n p m :=
  let d := e.data
  let rho := info1.rho
  let delta := info1.delta
  let rx : Vec K n := Vector.ofFn fun i => w0.rx_nr[i] - rho * (w0.x[i] - w0.zeta[i])
  let ry : Vec K p := Vector.ofFn fun i => w0.ry_nr[i] - delta * (w0.lambda[i] - w0.y[i])
  let rz : Vec K m := Vector.ofFn fun i => w0.rz_nr[i] - delta * (w0.nu[i] - w0.z[i])
  let rzl := d.lb.headUpd w0.r.z_lb fun i => w0.rz_lb_nr[i] - delta * (w0.nu_lb[i] - w0.z_lb[i])
  let rzu := d.ub.headUpd w0.r.z_ub fun i => w0.rz_ub_nr[i] - delta * (w0.nu_ub[i] - w0.z_ub[i])
  { w0 with r := { w0.r with x := rx, y := ry, z := rz, z_lb := rzl, z_ub := rzu } }

/-- the two infeasibility rules, as functions of the scalars they depend on -/
def primalInfeasRuleS (st : Settings K) (cs : Consts K) (info : Info K) (pprox pinfR : K) : Bool :=
  decide ((min (5 : Int) st.regFinetuneDualThr) < (info.noDualUpdate : Int)) &&
  decide (cs.c1e12 < pprox) &&
  decide (pinfR < st.epsAbs + st.epsRel * info.primalRelInf)

def dualInfeasRuleS (st : Settings K) (cs : Consts K) (info : Info K) (dprox dinfR : K) : Bool :=
  decide ((min (5 : Int) st.regFinetunePrimalThr) < (info.noPrimalUpdate : Int)) &&
  decide (cs.c1e12 < dprox) &&
  decide (dinfR < st.epsAbs + st.epsRel * info.dualRelInf)

def primalInfeasRule (e : Env K n p m) (w1 : Work K n p m) (info1 : Info K) : Bool :=
  primalInfeasRuleS e.st e.cs info1 (primalProxInf e w1) (primalInfR e w1)

def dualInfeasRule (e : Env K n p m) (w1 : Work K n p m) (info1 : Info K) : Bool :=
  dualInfeasRuleS e.st e.cs info1 (dualProxInf e w1) (dualInfR e w1)

/-- the switch to the fine-tuning regularisation limit -/
def finetuneSwitch (st : Settings K) (info1 : Info K) : Info K :=
  let ft : Bool :=
    (decide (st.regFinetunePrimalThr < (info1.noPrimalUpdate : Int)) && (info1.rho == info1.regLimit) &&
       !(info1.regLimit == st.regFinetuneLowerLimit)) ||
    (decide (st.regFinetuneDualThr < (info1.noDualUpdate : Int)) && (info1.delta == info1.regLimit) &&
       !(info1.regLimit == st.regFinetuneLowerLimit))
  if ft then { info1 with regLimit := st.regFinetuneLowerLimit, noPrimalUpdate := 0, noDualUpdate := 0 } else info1

/-- `σ = clamp(sg / (μ·cnt), 0, 1)³` -/
def sigmaOf (sg mu cnt : K) : K :=
  let sg3 := sg / (mu * cnt)
  let sg4 := vmax 0 (vmin 1 sg3)
  sg4 * sg4 * sg4

/-- regularisation update of the inequality branch as a function of the observed scalars.
    Returns the new info and the two flags (`ζ ← x`, `(λ, ν) ← (y, z)`). -/
def regUpdateIneq (st : Settings K) (cs : Consts K) (info2 : Info K) (muPrev mu dinfNr dprox pinfNr pprox : K) :
    Info K × Bool × Bool :=
  let muRate := vmax 0 ((muPrev - mu) / muPrev)
  let condP := decide (dinfNr < cs.c0_95 * info2.dualInf) ||
               ((info2.rho == st.regFinetuneLowerLimit) && decide (dprox < cs.c1e2))
  let info3 : Info K :=
    if condP then { info2 with rho := vmax info2.regLimit ((1 - muRate) * info2.rho) }
    else { info2 with noPrimalUpdate := info2.noPrimalUpdate + 1,
                      rho := vmax info2.regLimit ((1 - cs.c0_666 * muRate) * info2.rho) }
  let condD := decide (pinfNr < cs.c0_95 * info3.primalInf) ||
               ((info3.delta == st.regFinetuneLowerLimit) && decide (pprox < cs.c1e2))
  let info4 : Info K :=
    if condD then { info3 with delta := vmax info3.regLimit ((1 - muRate) * info3.delta) }
    else { info3 with noDualUpdate := info3.noDualUpdate + 1,
                      delta := vmax info3.regLimit ((1 - cs.c0_666 * muRate) * info3.delta) }
  (info4, condP, condD)

/-- regularisation update when there are no inequality constraints -/
def regUpdateEq (cs : Consts K) (info2 : Info K) (dinfNr pinfNr : K) : Info K × Bool × Bool :=
  let condP := decide (dinfNr < cs.c0_95 * info2.dualInf)
  let info3 : Info K :=
    if condP then { info2 with rho := vmax info2.regLimit (cs.c0_1 * info2.rho) }
    else { info2 with noPrimalUpdate := info2.noPrimalUpdate + 1, rho := vmax info2.regLimit (cs.c0_5 * info2.rho) }
  let condD := decide (pinfNr < cs.c0_95 * info3.primalInf)
  let info4 : Info K :=
    if condD then { info3 with delta := vmax info3.regLimit (cs.c0_1 * info3.delta) }
    else { info3 with noDualUpdate := info3.noDualUpdate + 1, delta := vmax info3.regLimit (cs.c0_5 * info3.delta) }
  (info4, condP, condD)

/-- phase A: loop head up to the infeasibility tests.  `none` = continue with the body.
    (`iter0` : the residuals are recomputed when `iter = 0`.) -/
def phaseA (e : Env K n p m) (iter0 : Bool) (w : Work K n p m) (info : Info K) :
    Work K n p m × Info K × Option Status :=
  let hi := headInfo e iter0 w info
  if termTest e.st hi.2 then
    (hi.1, { hi.2 with status := .solved }, some .solved)
  else
    let w1 := regResiduals e hi.1 hi.2
    if primalInfeasRule e w1 hi.2 then (w1, { hi.2 with status := .primalInfeasible }, some .primalInfeasible)
    else if dualInfeasRule e w1 hi.2 then (w1, { hi.2 with status := .dualInfeasible }, some .dualInfeasible)
    else (w1, hi.2, none)

/-- phase B (numeric part): boundary shift, finetune switch, `update_scalings`, `regularize_and_factorize` -/
def phaseB (e : Env K n p m) (refineOn : Bool) (w : Work K n p m) (info0 : Info K) (kkt : KKT K n p m) :
    Work K n p m × Info K × KKT K n p m :=
  let st := e.st
  let d := e.data
  let eps := e.cs.machEps
  let shiftZ := decide (m ≠ 0) && decide (minFin (w.z.getD 0 0) m (fun i => w.z[i]) < eps)
  let z1 : Vec K m := if shiftZ then Vector.ofFn fun i => w.z[i] + eps else w.z
  let shiftL := decide (d.lb.cnt ≠ 0) && decide (minHead (w.z_lb.getD 0 0) d.lb.cnt w.z_lb < eps)
  let zl1 := if shiftL then d.lb.headUpd w.z_lb fun i => w.z_lb[i] + eps else w.z_lb
  let shiftU := decide (d.ub.cnt ≠ 0) && decide (minHead (w.z_ub.getD 0 0) d.ub.cnt w.z_ub < eps)
  let zu1 := if shiftU then d.ub.headUpd w.z_ub fun i => w.z_ub[i] + eps else w.z_ub
  let w1 : Work K n p m := { w with z := z1, z_lb := zl1, z_ub := zu1 }
  let info1 := if shiftZ || shiftL || shiftU then { info0 with mu := muOf d w1 } else info0
  let info2 := finetuneSwitch st info1
  let k1 := kktScal e kkt w1 info2.rho info2.delta
  let k2 := KKT.regFactor e.be st.kkt d k1 refineOn e.inner
  (w1, info2, k2)

/-- what a failed factorisation does to ρ, δ and the regularisation limit -/
def bumpRegS (st : Settings K) (cs : Consts K) (info : Info K) : Info K :=
  { info with delta := info.delta * cs.c100, rho := info.rho * cs.c100,
              regLimit := vmin (cs.c10 * info.regLimit) st.epsAbs }

def bumpReg (e : Env K n p m) (info : Info K) : Info K := bumpRegS e.st e.cs info

/-- phase C: predictor/corrector (or the full step when there are no inequalities), iterate update and
    regularisation update. -/
def phaseC (e : Env K n p m) (refineOn : Bool) (kkt : KKT K n p m) (w : Work K n p m) (info : Info K) :
    Work K n p m × Info K :=
  let st := e.st
  let d := e.data
  let cs := e.cs
  let nl := d.lb.cnt
  let nu := d.ub.cnt
  let solve (r : Step K n p m) (old : Step K n p m) : Step K n p m :=
    match KKT.solve e.be st.kkt d kkt r old refineOn with
    | some o => o
    | none => old
  if m + nl + nu ≠ 0 then
    -- predictor
    let rs : Vec K m := Vector.ofFn fun i => -w.s[i] * w.z[i]
    let rsl := d.lb.headUpd w.r.s_lb fun i => -w.s_lb[i] * w.z_lb[i]
    let rsu := d.ub.headUpd w.r.s_ub fun i => -w.s_ub[i] * w.z_ub[i]
    let r1 : Step K n p m := { w.r with s := rs, s_lb := rsl, s_ub := rsu }
    let d1 := solve r1 w.d
    let (as1, az1) := stepToBoundary d w d1
    let alphaS := as1 * st.tau
    let alphaZ := az1 * st.tau
    let sg0 := sumFin m (fun i => (w.s[i] + alphaS * d1.s[i]) * (w.z[i] + alphaZ * d1.z[i]))
    let sg1 := sg0 + sumFin n (fun i => if i.val < nl then (w.s_lb[i] + alphaS * d1.s_lb[i]) * (w.z_lb[i] + alphaZ * d1.z_lb[i]) else 0)
    let sg2 := sg1 + sumFin n (fun i => if i.val < nu then (w.s_ub[i] + alphaS * d1.s_ub[i]) * (w.z_ub[i] + alphaZ * d1.z_ub[i]) else 0)
    let sigma := sigmaOf sg2 info.mu ((m + nl + nu : Nat) : K)
    -- corrector
    let rs2 : Vec K m := Vector.ofFn fun i => rs[i] + (-d1.s[i] * d1.z[i] + sigma * info.mu)
    let rsl2 := d.lb.headUpd rsl fun i => rsl[i] + (-d1.s_lb[i] * d1.z_lb[i] + sigma * info.mu)
    let rsu2 := d.ub.headUpd rsu fun i => rsu[i] + (-d1.s_ub[i] * d1.z_ub[i] + sigma * info.mu)
    let r2 : Step K n p m := { r1 with s := rs2, s_lb := rsl2, s_ub := rsu2 }
    let d2 := solve r2 d1
    let (as2, az2) := stepToBoundary d w d2
    let pstep := as2 * st.tau
    let dstep := az2 * st.tau
    let w1 : Work K n p m :=
      { w with r := r2, d := d2,
               x := Vector.ofFn fun i => w.x[i] + pstep * d2.x[i],
               y := Vector.ofFn fun i => w.y[i] + dstep * d2.y[i],
               z := Vector.ofFn fun i => w.z[i] + dstep * d2.z[i],
               z_lb := d.lb.headUpd w.z_lb fun i => w.z_lb[i] + dstep * d2.z_lb[i],
               z_ub := d.ub.headUpd w.z_ub fun i => w.z_ub[i] + dstep * d2.z_ub[i],
               s := Vector.ofFn fun i => w.s[i] + pstep * d2.s[i],
               s_lb := d.lb.headUpd w.s_lb fun i => w.s_lb[i] + pstep * d2.s_lb[i],
               s_ub := d.ub.headUpd w.s_ub fun i => w.s_ub[i] + pstep * d2.s_ub[i] }
    let muPrev := info.mu
    let mu := muOf d w1
    let info1 := { info with sigma := sigma, primalStep := pstep, dualStep := dstep, mu := mu }
    let (w2, info2) := updateNrResiduals e w1 info1
    -- update regularisation
    let ru := regUpdateIneq st cs info2 muPrev mu (dualInfNr e w2) (dualProxInf e w2) (primalInfNr e w2) (primalProxInf e w2)
    let w3 : Work K n p m := if ru.2.1 then { w2 with zeta := w2.x } else w2
    let w4 : Work K n p m :=
      if ru.2.2 then
        { w3 with lambda := w3.y, nu := w3.z,
                  nu_lb := d.lb.headUpd w3.nu_lb fun i => w3.z_lb[i],
                  nu_ub := d.ub.headUpd w3.nu_ub fun i => w3.z_ub[i] }
      else w3
    (w4, ru.1)
  else
    let d1 := solve w.r w.d
    let w1 : Work K n p m :=
      { w with d := d1,
               x := Vector.ofFn fun i => w.x[i] + 1 * d1.x[i],
               y := Vector.ofFn fun i => w.y[i] + 1 * d1.y[i] }
    let info1 := { info with primalStep := 1, dualStep := 1 }
    let (w2, info2) := updateNrResiduals e w1 info1
    let ru := regUpdateEq cs info2 (dualInfNr e w2) (primalInfNr e w2)
    let w3 : Work K n p m := if ru.2.1 then { w2 with zeta := w2.x } else w2
    let w4 : Work K n p m := if ru.2.2 then { w3 with lambda := w3.y } else w3
    (w4, ru.1)

/-- termination measure of the main loop -/
def loopMeasure (maxIter maxRetries : Nat) (c : Ctrl) : Nat × Nat × Nat :=
  (maxIter - c.iter, if c.refineOn then 0 else 1, maxRetries - c.factorRetires)

/-- the `while (iter < max_iter)` loop of `solve_impl`.  All control decisions are taken here; the phases
    only compute numbers. -/
def mainLoop (e : Env K n p m) (ls : LoopState K n p m) : LoopState K n p m × Status :=
  if h : (ls.c.iter : Int) < e.st.maxIter then
    match phaseA e (ls.c.iter == 0) ls.w ls.info with
    | (wA, infoA, some status) => ({ ls with w := wA, info := infoA }, status)
    | (wA, infoA, none) =>
      match phaseB e ls.c.refineOn wA infoA ls.kkt with
      | (wB, infoB, kB) =>
        let iter1 := ls.c.iter + 1
        if kB.factOk then
          let c1 : Ctrl := { ls.c with iter := iter1, factorRetires := 0 }
          let (wC, infoC) := phaseC e ls.c.refineOn kB wB { infoB with iter := iter1, factorRetires := 0 }
          mainLoop e { c := c1, w := wC, info := infoC, kkt := kB }
        else if hr : ls.c.refineOn = false then
          mainLoop e { c := { ls.c with iter := iter1, refineOn := true }, w := wB, info := { infoB with iter := iter1 }, kkt := kB }
        else if hf : (ls.c.factorRetires : Int) < e.st.maxFactorRetires then
          mainLoop e { c := { ls.c with factorRetires := ls.c.factorRetires + 1 }, w := wB,
                       info := bumpReg e { infoB with iter := ls.c.iter, factorRetires := ls.c.factorRetires + 1 }, kkt := kB }
        else
          ({ c := { ls.c with iter := iter1 }, w := wB, info := { infoB with iter := iter1, status := .numerics }, kkt := kB }, .numerics)
  else
    ({ ls with info := { ls.info with status := .maxIterReached } }, .maxIterReached)
termination_by loopMeasure e.st.maxIter.toNat e.st.maxFactorRetires.toNat ls.c
decreasing_by
  · simp only [loopMeasure]
    apply Prod.Lex.left
    omega
  · simp only [loopMeasure, hr]
    apply Prod.Lex.left
    omega
  · simp only [loopMeasure]
    have hr' : ls.c.refineOn = true := by simpa using hr
    simp only [hr']
    apply Prod.Lex.right
    apply Prod.Lex.right
    omega

end
end Piqp
