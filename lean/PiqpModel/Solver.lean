/-
  The solver (`SolverBase`, `DenseSolver`, `SparseSolver` in solver.hpp): settings, results, workspace,
  `setup`, `update`, `solve` (= `solve_impl` ; `unscale_results` ; `restore_box_dual`).

  The state is split into a small control record `Ctrl` (the three fields the termination measure of the
  main loop depends on) and the numeric workspace `Work`.  The main loop is defined by well-founded
  recursion on `(max_iter - iter, refinement not yet on, max_factor_retires - factor_retires)`.
-/
import PiqpModel.KKT
import PiqpModel.Precond
import PiqpModel.Pack
import PiqpModel.Control

namespace Piqp
variable {K : Type}

/-- result vectors + residual/step workspace -/
structure Work (K : Type) (n p m : Nat) where
  x : Vec K n
  y : Vec K p
  z : Vec K m
  z_lb : Vec K n
  z_ub : Vec K n
  s : Vec K m
  s_lb : Vec K n
  s_ub : Vec K n
  zeta : Vec K n
  lambda : Vec K p
  nu : Vec K m
  nu_lb : Vec K n
  nu_ub : Vec K n
  r : Step K n p m       -- rx … rs_ub
  rx_nr : Vec K n
  ry_nr : Vec K p
  rz_nr : Vec K m
  rz_lb_nr : Vec K n
  rz_ub_nr : Vec K n
  d : Step K n p m       -- dx … ds_ub

structure Solver (K : Type) (n p m : Nat) where
  be : Backend
  pk : PrecKind
  st : Settings K
  data : Data K n p m
  pre : Precond K n p m
  kkt : KKT K n p m
  w : Work K n p m
  info : Info K
  kktInitState : Bool
  setupDone : Bool
  refineOn : Bool
  /-- rows of G disabled because the entry of h was beyond ±PIQP_INF when h was last passed -/
  hDisabled : Vector Bool m

section
variable [Add K] [Sub K] [Mul K] [Div K] [Neg K] [Zero K] [One K] [LT K] [DecidableLT K] [LE K] [DecidableLE K]
variable [NatCast K] [BEq K]
variable {n p m : Nat}

/-- dot product over the first `cnt` entries -/
def dotHead (cnt : Nat) (a b : Vec K n) : K := sumFin n (fun i => if i.val < cnt then a[i] * b[i] else 0)
def sumHead (cnt : Nat) (a : Vec K n) : K := sumFin n (fun i => if i.val < cnt then a[i] else 0)
def minHead (init : K) (cnt : Nat) (a : Vec K n) : K :=
  minFin init n (fun i => if i.val < cnt then a[i] else init)

/-- everything the residual/diagnostic computations need besides the iterate -/
structure Env (K : Type) (n p m : Nat) where
  be : Backend
  pk : PrecKind
  cs : Consts K
  st : Settings K
  data : Data K n p m
  pre : Precond K n p m
  inner : Inner K n p m

/-- `update_nr_residuals`: non-regularised residuals of the scaled problem + objective diagnostics.
    (`dx` is used as a temporary by the code and is clobbered here as well.) -/
def updateNrResiduals (e : Env K n p m) (w : Work K n p m) (info : Info K) : Work K n p m × Info K :=
  let d := e.data
  let pre := e.pre
  let pk := e.pk
  let nl := d.lb.cnt
  let nu := d.ub.cnt
  let Px := Mat.mulVec d.Psym w.x
  let rx0 : Vec K n := Vector.ofFn fun i => -Px[i]
  let drel0 := Vec.infNorm (pre.unscaleDualRes pk rx0)
  let xPx := -(Vec.dot w.x rx0)
  let pobj0 := e.cs.c0_5 * xPx
  let dobj0 := -e.cs.c0_5 * xPx
  let grel0 := pre.unscaleCost pk (vabs xPx)
  let t1 := Vec.dot d.c w.x
  let pobj1 := pobj0 + t1
  let grel1 := vmax grel0 (pre.unscaleCost pk (vabs t1))
  let t2 := Vec.dot d.b w.y
  let dobj1 := dobj0 - t2
  let grel2 := vmax grel1 (pre.unscaleCost pk (vabs t2))
  let t3 := Vec.dot d.h w.z
  let dobj2 := dobj1 - t3
  let grel3 := vmax grel2 (pre.unscaleCost pk (vabs t3))
  let t4 := dotHead nl d.lb.val w.z_lb
  let dobj3 := dobj2 - t4
  let grel4 := vmax grel3 (pre.unscaleCost pk (vabs t4))
  let t5 := dotHead nu d.ub.val w.z_ub
  let dobj4 := dobj3 - t5
  let grel5 := vmax grel4 (pre.unscaleCost pk (vabs t5))
  let gap := vabs (pobj1 - dobj4)
  -- dual residual
  let rx1 : Vec K n := Vector.ofFn fun i => rx0[i] - d.c[i]
  let drel1 := vmax drel0 (Vec.infNorm (pre.unscaleDualRes pk d.c))
  let ATy := Mat.mulVec d.AT w.y
  let GTz := Mat.mulVec d.GT w.z
  let sl := d.lb.scatter fun i => d.lb.sc[i] * w.z_lb[i]
  let su := d.ub.scatter fun i => d.ub.sc[i] * w.z_ub[i]
  let tmp : Vec K n := Vector.ofFn fun j => ATy[j] + GTz[j] - sl[j] + su[j]
  let drel2 := vmax drel1 (Vec.infNorm (pre.unscaleDualRes pk tmp))
  let rx2 : Vec K n := Vector.ofFn fun i => rx1[i] - tmp[i]
  -- primal residual
  let Ax := Mat.mulVecT d.AT w.x
  let ry0 : Vec K p := Vector.ofFn fun i => -Ax[i]
  let prel0 := Vec.infNorm (pre.unscalePrimalResEq pk ry0)
  let ry1 : Vec K p := Vector.ofFn fun i => ry0[i] + d.b[i]
  let prel1 := vmax prel0 (Vec.infNorm (pre.unscalePrimalResEq pk d.b))
  let Gx := Mat.mulVecT d.GT w.x
  let rz0 : Vec K m := Vector.ofFn fun i => -Gx[i]
  let prel2 := vmax prel1 (Vec.infNorm (pre.unscalePrimalResIneq pk rz0))
  let rz1 : Vec K m := Vector.ofFn fun i => rz0[i] + (d.h[i] - w.s[i])
  let prel3 := vmax prel2 (Vec.infNorm (pre.unscalePrimalResIneq pk d.h))
  let prel4 := vmax prel3 (Vec.infNorm (pre.unscalePrimalResIneq pk w.s))
  let rl0 := d.lb.headUpd w.rz_lb_nr fun i => d.lb.sc[i] * w.x[d.lb.idx[i]]
  let prel5 := vmax prel4 (headInfNorm nl (pre.unscalePrimalResLb pk rl0))
  let rl1 := d.lb.headUpd rl0 fun i => rl0[i] + (d.lb.val[i] - w.s_lb[i])
  let prel6 := vmax prel5 (headInfNorm nl (pre.unscalePrimalResLb pk d.lb.val))
  let prel7 := vmax prel6 (headInfNorm nl (pre.unscalePrimalResLb pk w.s_lb))
  let ru0 := d.ub.headUpd w.rz_ub_nr fun i => -d.ub.sc[i] * w.x[d.ub.idx[i]]
  let prel8 := vmax prel7 (headInfNorm nu (pre.unscalePrimalResUb pk ru0))
  let ru1 := d.ub.headUpd ru0 fun i => ru0[i] + (d.ub.val[i] - w.s_ub[i])
  let prel9 := vmax prel8 (headInfNorm nu (pre.unscalePrimalResUb pk d.ub.val))
  let prel10 := vmax prel9 (headInfNorm nu (pre.unscalePrimalResUb pk w.s_ub))
  ({ w with rx_nr := rx2, ry_nr := ry1, rz_nr := rz1, rz_lb_nr := rl1, rz_ub_nr := ru1,
            d := { w.d with x := tmp } },
   { info with dualRelInf := drel2, primalObj := pre.unscaleCost pk pobj1, dualObj := pre.unscaleCost pk dobj4,
               dualityGap := pre.unscaleCost pk gap, dualityGapRel := grel5, primalRelInf := prel10 })

def primalInfOf (e : Env K n p m) (ry : Vec K p) (rz : Vec K m) (rzl rzu : Vec K n) : K :=
  let a := Vec.infNorm (e.pre.unscalePrimalResEq e.pk ry)
  let b := vmax a (Vec.infNorm (e.pre.unscalePrimalResIneq e.pk rz))
  let c := vmax b (headInfNorm e.data.lb.cnt (e.pre.unscalePrimalResLb e.pk rzl))
  vmax c (headInfNorm e.data.ub.cnt (e.pre.unscalePrimalResUb e.pk rzu))

def primalInfNr (e : Env K n p m) (w : Work K n p m) : K := primalInfOf e w.ry_nr w.rz_nr w.rz_lb_nr w.rz_ub_nr
def primalInfR (e : Env K n p m) (w : Work K n p m) : K := primalInfOf e w.r.y w.r.z w.r.z_lb w.r.z_ub
def dualInfNr (e : Env K n p m) (w : Work K n p m) : K := Vec.infNorm (e.pre.unscaleDualRes e.pk w.rx_nr)
def dualInfR (e : Env K n p m) (w : Work K n p m) : K := Vec.infNorm (e.pre.unscaleDualRes e.pk w.r.x)

def primalProxInf (e : Env K n p m) (w : Work K n p m) : K :=
  let a := Vec.infNorm (e.pre.unscaleDualEq e.pk (Vector.ofFn fun i => w.lambda[i] - w.y[i]))
  let b := vmax a (Vec.infNorm (e.pre.unscaleDualIneq e.pk (Vector.ofFn fun i => w.nu[i] - w.z[i])))
  let c := vmax b (headInfNorm e.data.lb.cnt (e.pre.unscaleDualLb e.pk (Vector.ofFn fun i => w.nu_lb[i] - w.z_lb[i])))
  vmax c (headInfNorm e.data.ub.cnt (e.pre.unscaleDualUb e.pk (Vector.ofFn fun i => w.nu_ub[i] - w.z_ub[i])))

def dualProxInf (e : Env K n p m) (w : Work K n p m) : K :=
  Vec.infNorm (e.pre.unscalePrimal e.pk (Vector.ofFn fun i => w.x[i] - w.zeta[i]))

/-- `μ = (sᵀz + s_lbᵀz_lb + s_ubᵀz_ub) / (m + n_lb + n_ub)` -/
def muOf (d : Data K n p m) (w : Work K n p m) : K :=
  (Vec.dot w.s w.z + dotHead d.lb.cnt w.s_lb w.z_lb + dotHead d.ub.cnt w.s_ub w.z_ub) /
    ((m + d.lb.cnt + d.ub.cnt : Nat) : K)

/-- fraction-to-boundary search over the three cone blocks, in the code's order -/
def stepToBoundary (d : Data K n p m) (w : Work K n p m) (dir : Step K n p m) : K × K :=
  let upd (acc : K × K) (s ds z dz : K) : K × K :=
    let a := if ds < 0 then vmin acc.1 (-s / ds) else acc.1
    let b := if dz < 0 then vmin acc.2 (-z / dz) else acc.2
    (a, b)
  let a1 := Fin.foldl m (fun acc i => upd acc w.s[i] dir.s[i] w.z[i] dir.z[i]) ((1 : K), (1 : K))
  let a2 := Fin.foldl n (fun acc i => if i.val < d.lb.cnt then upd acc w.s_lb[i] dir.s_lb[i] w.z_lb[i] dir.z_lb[i] else acc) a1
  Fin.foldl n (fun acc i => if i.val < d.ub.cnt then upd acc w.s_ub[i] dir.s_ub[i] w.z_ub[i] dir.z_ub[i] else acc) a2

def kktScal (e : Env K n p m) (k : KKT K n p m) (w : Work K n p m) (rho delta : K) : KKT K n p m :=
  KKT.updateScalings e.be e.data k rho delta w.s w.s_lb w.s_ub w.z w.z_lb w.z_ub

structure LoopState (K : Type) (n p m : Nat) where
  c : Ctrl
  w : Work K n p m
  info : Info K
  kkt : KKT K n p m

/-- loop head, first part: (re)compute residuals at iteration 0 and the infeasibility norms -/
def headInfo (e : Env K n p m) (iter0 : Bool) (w : Work K n p m) (info : Info K) : Work K n p m × Info K :=
  let (w0, info0) := if iter0 then updateNrResiduals e w info else (w, info)
  (w0, { info0 with primalInf := primalInfNr e w0, dualInf := dualInfNr e w0 })

/-- regularised residuals `rx … rz_ub` -/
def regResiduals (e : Env K n p m) (w0 : Work K n p m) (info1 : Info K) : Work K n p m :=
  let d := e.data
  let rho := info1.rho
  let delta := info1.delta
  let rx : Vec K n := Vector.ofFn fun i => w0.rx_nr[i] - rho * (w0.x[i] - w0.zeta[i])
  let ry : Vec K p := Vector.ofFn fun i => w0.ry_nr[i] - delta * (w0.lambda[i] - w0.y[i])
  let rz : Vec K m := Vector.ofFn fun i => w0.rz_nr[i] - delta * (w0.nu[i] - w0.z[i])
  let rzl := d.lb.headUpd w0.r.z_lb fun i => w0.rz_lb_nr[i] - delta * (w0.nu_lb[i] - w0.z_lb[i])
  let rzu := d.ub.headUpd w0.r.z_ub fun i => w0.rz_ub_nr[i] - delta * (w0.nu_ub[i] - w0.z_ub[i])
  { w0 with r := { w0.r with x := rx, y := ry, z := rz, z_lb := rzl, z_ub := rzu } }

def primalInfeasRule (e : Env K n p m) (w1 : Work K n p m) (info1 : Info K) : Bool :=
  primalInfeasRuleS e.st e.cs info1 (primalProxInf e w1) (primalInfR e w1)

def dualInfeasRule (e : Env K n p m) (w1 : Work K n p m) (info1 : Info K) : Bool :=
  dualInfeasRuleS e.st e.cs info1 (dualProxInf e w1) (dualInfR e w1)

abbrev NumState (K : Type) (n p m : Nat) := Work K n p m × KKT K n p m

/-- boundary shift of `z`, `z_lb`, `z_ub` by machine epsilon, and `mu` if something was shifted -/
def shiftOp (e : Env K n p m) (w : Work K n p m) (info0 : Info K) : Work K n p m × Info K :=
  let st := e.st
  let d := e.data
  let eps := e.cs.machEps
  let shiftZ := decide (m ≠ 0) && decide (minFin (w.z.getD 0 0) m (fun i => w.z[i]) < eps)
  let z1 : Vec K m := if shiftZ then Vector.ofFn fun i => w.z[i] + eps else w.z
  let shiftL := decide (d.lb.cnt ≠ 0) && decide (minHead (w.z_lb.getD 0 0) d.lb.cnt w.z_lb < eps)
  let zl1 := if shiftL then d.lb.headUpd w.z_lb fun i => w.z_lb[i] + eps else w.z_lb
  let shiftU := decide (d.ub.cnt ≠ 0) && decide (minHead (w.z_ub.getD 0 0) d.ub.cnt w.z_ub < eps)
  let zu1 := if shiftU then d.ub.headUpd w.z_ub fun i => w.z_ub[i] + eps else w.z_ub
  let w1 : Work K n p m := { w with z := z1, z_lb := zl1, z_ub := zu1 }
  let info1 := if shiftZ || shiftL || shiftU then { info0 with mu := muOf d w1 } else info0
  (w1, info1)

def bumpReg (e : Env K n p m) (info : Info K) : Info K := bumpRegS e.st e.cs info

/-- numeric part of the loop body: predictor/corrector (or the full step when there are no inequalities),
    iterate update and `update_nr_residuals`; returns the scalars the regularisation update reads -/
def stepNumOp (e : Env K n p m) (refineOn : Bool) (kkt : KKT K n p m) (w : Work K n p m) (info : Info K) :
    Work K n p m × Info K × K × K × K × K × K :=
  let st := e.st
  let d := e.data
  let cs := e.cs
  let nl := d.lb.cnt
  let nu := d.ub.cnt
  let solve (r : Step K n p m) (old : Step K n p m) : Step K n p m :=
    match KKT.solve e.be st.kkt d kkt r old refineOn with
    | some o => o
    | none => old
  if m + nl + nu ≠ 0 then
    -- predictor
    let rs : Vec K m := Vector.ofFn fun i => -w.s[i] * w.z[i]
    let rsl := d.lb.headUpd w.r.s_lb fun i => -w.s_lb[i] * w.z_lb[i]
    let rsu := d.ub.headUpd w.r.s_ub fun i => -w.s_ub[i] * w.z_ub[i]
    let r1 : Step K n p m := { w.r with s := rs, s_lb := rsl, s_ub := rsu }
    let d1 := solve r1 w.d
    let (as1, az1) := stepToBoundary d w d1
    let alphaS := as1 * st.tau
    let alphaZ := az1 * st.tau
    let sg0 := sumFin m (fun i => (w.s[i] + alphaS * d1.s[i]) * (w.z[i] + alphaZ * d1.z[i]))
    let sg1 := sg0 + sumFin n (fun i => if i.val < nl then (w.s_lb[i] + alphaS * d1.s_lb[i]) * (w.z_lb[i] + alphaZ * d1.z_lb[i]) else 0)
    let sg2 := sg1 + sumFin n (fun i => if i.val < nu then (w.s_ub[i] + alphaS * d1.s_ub[i]) * (w.z_ub[i] + alphaZ * d1.z_ub[i]) else 0)
    let sigma := sigmaOf sg2 info.mu ((m + nl + nu : Nat) : K)
    -- corrector
    let rs2 : Vec K m := Vector.ofFn fun i => rs[i] + (-d1.s[i] * d1.z[i] + sigma * info.mu)
    let rsl2 := d.lb.headUpd rsl fun i => rsl[i] + (-d1.s_lb[i] * d1.z_lb[i] + sigma * info.mu)
    let rsu2 := d.ub.headUpd rsu fun i => rsu[i] + (-d1.s_ub[i] * d1.z_ub[i] + sigma * info.mu)
    let r2 : Step K n p m := { r1 with s := rs2, s_lb := rsl2, s_ub := rsu2 }
    let d2 := solve r2 d1
    let (as2, az2) := stepToBoundary d w d2
    let pstep := as2 * st.tau
    let dstep := az2 * st.tau
    let w1 : Work K n p m :=
      { w with r := r2, d := d2,
               x := Vector.ofFn fun i => w.x[i] + pstep * d2.x[i],
               y := Vector.ofFn fun i => w.y[i] + dstep * d2.y[i],
               z := Vector.ofFn fun i => w.z[i] + dstep * d2.z[i],
               z_lb := d.lb.headUpd w.z_lb fun i => w.z_lb[i] + dstep * d2.z_lb[i],
               z_ub := d.ub.headUpd w.z_ub fun i => w.z_ub[i] + dstep * d2.z_ub[i],
               s := Vector.ofFn fun i => w.s[i] + pstep * d2.s[i],
               s_lb := d.lb.headUpd w.s_lb fun i => w.s_lb[i] + pstep * d2.s_lb[i],
               s_ub := d.ub.headUpd w.s_ub fun i => w.s_ub[i] + pstep * d2.s_ub[i] }
    let muPrev := info.mu
    let mu := muOf d w1
    let info1 := { info with sigma := sigma, primalStep := pstep, dualStep := dstep, mu := mu }
    let (w2, info2) := updateNrResiduals e w1 info1
    (w2, info2, muPrev, dualInfNr e w2, dualProxInf e w2, primalInfNr e w2, primalProxInf e w2)
  else
    let d1 := solve w.r w.d
    let w1 : Work K n p m :=
      { w with d := d1,
               x := Vector.ofFn fun i => w.x[i] + 1 * d1.x[i],
               y := Vector.ofFn fun i => w.y[i] + 1 * d1.y[i] }
    let info1 := { info with primalStep := 1, dualStep := 1 }
    let (w2, info2) := updateNrResiduals e w1 info1
    (w2, info2, info.mu, dualInfNr e w2, dualProxInf e w2, primalInfNr e w2, primalProxInf e w2)

/-- `ζ ← x` when the primal regularisation centre moves, `(λ, ν, ν_lb, ν_ub) ← (y, z, z_lb, z_ub)` for the dual one -/
def applyFlagsOp (e : Env K n p m) (w2 : Work K n p m) (condP condD : Bool) : Work K n p m :=
  let d := e.data
  let w3 : Work K n p m := if condP then { w2 with zeta := w2.x } else w2
  if condD then
    if m + d.lb.cnt + d.ub.cnt ≠ 0 then
      { w3 with lambda := w3.y, nu := w3.z,
                nu_lb := d.lb.headUpd w3.nu_lb fun i => w3.z_lb[i],
                nu_ub := d.ub.headUpd w3.nu_ub fun i => w3.z_ub[i] }
    else { w3 with lambda := w3.y }
  else w3

/-- the numeric operations of the real solver -/
def realOps (e : Env K n p m) : LoopOps K (NumState K n p m) :=
  { hasIneq := decide (m + e.data.lb.cnt + e.data.ub.cnt ≠ 0),
    head := fun iter0 s info => let r := headInfo e iter0 s.1 info; ((r.1, s.2), r.2),
    reg := fun s info => (regResiduals e s.1 info, s.2),
    pprox := fun s => primalProxInf e s.1,
    pinfR := fun s => primalInfR e s.1,
    dprox := fun s => dualProxInf e s.1,
    dinfR := fun s => dualInfR e s.1,
    shift := fun s info => let r := shiftOp e s.1 info; ((r.1, s.2), r.2),
    rescale := fun s info => (s.1, kktScal e s.2 s.1 info.rho info.delta),
    factor := fun refineOn s => let k := KKT.regFactor e.be e.st.kkt e.data s.2 refineOn e.inner; ((s.1, k), k.factOk),
    stepNum := fun refineOn s info =>
      let r := stepNumOp e refineOn s.2 s.1 info
      ((r.1, s.2), r.2),
    applyFlags := fun s cP cD => (applyFlagsOp e s.1 cP cD, s.2) }

/-- the main loop of the real solver = the generic loop on workspace × KKT state -/
def mainLoop (e : Env K n p m) (ls : LoopState K n p m) : LoopState K n p m × Status :=
  let r := loopG e.st e.cs (realOps e) ls.c (ls.w, ls.kkt) ls.info
  ({ c := r.1.1, w := r.1.2.1.1, kkt := r.1.2.1.2, info := r.1.2.2 }, r.2)

end
end Piqp
