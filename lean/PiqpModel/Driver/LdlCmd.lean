/-
  Interpreter for the kernel commands (`ldl.*`, `util.*`, `ord.*`): the mathematical definitions at `K = QQ` that the
  sparse LDLt, the dense pivot-free LDLᵀ, the symmetric permutation, the in-place transpose and the diagonal scalings of
  the implementation must agree with (twin of harness/hk.cpp).
-/
import PiqpModel.LinAlg
import PiqpModel.Csc
import PiqpModel.SparseLdl
import PiqpModel.Driver.Parse

namespace Piqp.Driver
open Piqp

/-- `r*c` tokens, `.` = not stored (value 0 in the dense denotation) -/
def dotsMat (r c : Nat) : P (Mat QQ r c) := do
  let mut ent : Array QQ := Array.mkEmpty (r * c)
  for _ in [0:r * c] do
    let t ← tok
    if t = "." then ent := ent.push 0
    else
      match QQ.parse? t with
      | some q => ent := ent.push q
      | none => throw s!"bad entry '{t}'"
  pure (Mat.ofFn fun i j => ent.getD (i.val * c + j.val) QQ.poison)

/-- `r*c` tokens kept as optional entries (row-major) -/
def dotsOpt (r c : Nat) : P (Array (Option QQ)) := do
  let mut ent : Array (Option QQ) := Array.mkEmpty (r * c)
  for _ in [0:r * c] do
    let t ← tok
    if t = "." then ent := ent.push none
    else
      match QQ.parse? t with
      | some q => ent := ent.push (some q)
      | none => throw s!"bad entry '{t}'"
  pure ent

def natsStr (a : Array Nat) : String := " ".intercalate (a.toList.map toString)
def qqsStr (a : Array QQ) : String := " ".intercalate (a.toList.map toString)

/-- `r c` then the entries -/
def rawDense : P (Σ r c : Nat, Mat QQ r c) := do
  let r ← nat
  let c ← nat
  let m ← dotsMat r c
  pure ⟨r, c, m⟩

def symOfUpper {n : Nat} (a : Mat QQ n n) : Mat QQ n n := Mat.ofFn fun i j => if i.val ≤ j.val then a[i][j] else a[j][i]

def ldlStep (cmd : String) : P (List String) := do
  match cmd with
  | "ldl.sparse" =>
    let n ← nat
    let pa ← natArray n
    let _r ← nat
    let _c ← nat
    let a ← dotsMat n n
    if h : 0 < n then
      let b ← vec n
      let perm : Vector (Fin n) n := Vector.ofFn fun i => finOfNat n h (pa.getD i.val 0)
      let A := symOfUpper a
      let C := permSym A perm
      let Cu : Mat QQ n n := Mat.ofFn fun i j => if i.val ≤ j.val then C[i][j] else 0
      let head := [s!"C {matStr Cu}", "mapok 1 upper 1 sorted 1"]
      match ldlt n C with
      | .error k => pure (head ++ [s!"ret {k}"])
      | .ok (L, D) =>
        let x := match ldltSolve n C (permVec perm b) with
                 | .ok y => permtVec perm y
                 | .error _ => Vec.const n QQ.poison
        pure (head ++ [s!"ret {n}", s!"D {vecStr D}", s!"L {matStr L}", "fillok 1", s!"x {vecStr x}"])
    else throw "ldl.sparse: dimension mismatch"
  | "ldl.dense" =>
    let n ← nat
    let _up ← nat
    let a ← mat n n
    let b ← vec n
    -- both the Lower and the Upper variant factorise the symmetric matrix given by the full input
    match ldlt n a with
    | .error _ => pure ["info 1"]
    | .ok (L, D) =>
      let x := match ldltSolve n a b with | .ok y => y | .error _ => Vec.const n QQ.poison
      pure ["info 0", s!"D {vecStr D}", s!"L {matStr L}", s!"x {vecStr x}"]
  | "ldl.denseseq" =>
    let n ← nat
    let _up ← nat
    let cnt ← nat
    let mut ms : Array (Mat QQ n n) := #[]
    for _ in [0:cnt] do
      ms := ms.push (← mat n n)
    let b ← vec n
    let mut out : List String := []
    for a in ms do
      match ldlt n a with
      | .error _ => out := out ++ ["info 1"]
      | .ok (_, D) =>
        let x := match ldltSolve n a b with | .ok y => y | .error _ => Vec.const n QQ.poison
        out := out ++ ["info 0", s!"D {vecStr D}", s!"x {vecStr x}"]
    pure out
  | "ldl.densem" =>
    let n ← nat
    let _up ← nat
    let k ← nat
    let a ← mat n n
    let b ← mat n k
    match ldlt n a with
    | .error _ => pure ["info 1"]
    | .ok _ =>
      -- column by column through the same recursion
      let cols : Vector (Vec QQ n) k := Vector.ofFn fun j =>
        match ldltSolve n a (Vector.ofFn fun i => b[i][j]) with | .ok y => y | .error _ => Vec.const n QQ.poison
      let x : Mat QQ n k := Mat.ofFn fun i j => cols[j][i]
      pure ["info 0", s!"X {matStr x}", s!"Xin {matStr x}"]
  | "util.transpose" =>
    let ⟨_, _, a⟩ ← rawDense
    pure [s!"CT {matStr (Mat.transpose a)}", "outer 1"]
  | "util.scale" =>
    let ⟨r, c, a⟩ ← rawDense
    let dl ← vec r
    let dr ← vec c
    let pre : Mat QQ r c := Mat.ofFn fun i j => a[i][j] * dl[i]
    let post : Mat QQ r c := Mat.ofFn fun i j => pre[i][j] * dr[j]
    pure [s!"pre {matStr pre}", s!"post {matStr post}"]
  | "csc.scale" =>
    -- storage level: the three arrays after pre_mult_diagonal and after post_mult_diagonal
    let r ← nat
    let c ← nat
    let ent ← dotsOpt r c
    let dl ← qqArray r
    let dr ← qqArray c
    let A : Csc QQ := Csc.ofOpt r c ent
    let A1 := A.preMultDiag dl
    let A2 := A1.postMultDiag dr
    pure [s!"cscouter {natsStr A2.outer}", s!"cscinner {natsStr A2.inner}", s!"cscpre {qqsStr A1.vals}", s!"cscpost {qqsStr A2.vals}"]
  | "csc.transpose" =>
    -- storage level: C has the pattern of Aᵀ and stale values; the three arrays of C after transpose_no_allocation
    let r ← nat
    let c ← nat
    let ent ← dotsOpt r c
    let A : Csc QQ := Csc.ofOpt r c ent
    let entT : Array (Option QQ) := Array.ofFn (n := c * r) fun t =>
      let i := t.val / r   -- row of the transpose = column of A
      let j := t.val % r
      (ent.getD (j * c + i) none).map fun _ => (7 : QQ)
    let C : Csc QQ := Csc.ofOpt c r entT
    let C' := A.transposeInto C
    pure [s!"cscouter {natsStr C'.outer}", s!"cscinner {natsStr C'.inner}", s!"cscvals {qqsStr C'.vals}"]
  | "csc.istp" =>
    -- is_transpose_pattern(A, C) on two independently given raw patterns
    let r ← nat
    let c ← nat
    let entA ← dotsOpt r c
    let r2 ← nat
    let c2 ← nat
    let entC ← dotsOpt r2 c2
    let A : Csc QQ := Csc.ofOpt r c entA
    let C : Csc QQ := Csc.ofOpt r2 c2 entC
    pure [s!"istp {if Csc.isTransposePattern A C then 1 else 0}"]
  | "csc.ldl" =>
    -- storage level: every array of the sparse LDLt object after the symbolic and the numeric phase, and one solve
    let n ← nat
    let _c ← nat
    let ent0 ← dotsOpt n n
    let b ← qqArray n
    -- only the upper triangle is stored
    let ent : Array (Option QQ) := Array.ofFn (n := n * n) fun t => if t.val / n ≤ t.val % n then ent0.getD t.val none else none
    let A : Csc QQ := Csc.ofOpt n n ent
    let s0 := SparseLdl.symbolic A
    let etStr := " ".intercalate (s0.etree.toList.map fun o => match o with | some v => toString v | none => "-1")
    let head := [s!"etree {etStr}", s!"lcols {natsStr s0.Lcols}", s!"lnnz0 {natsStr s0.Lnnz}"]
    let (s1, ret) := SparseLdl.numeric A s0
    let filled (s : SparseLdl QQ) : String := " ".intercalate ((List.range n).map fun j =>
      " ".intercalate ((List.range' (s.Lcols.getD j 0) (s.Lnnz.getD j 0)).map fun p => s!"{s.Lind.getD p 0}:{s.Lvals.getD p 0}"))
    let dStr := qqsStr (s1.D.extract 0 (if ret < n then ret + 1 else n))
    if ret = n then
      -- certificate for `ldlt_unique`: the stored factors are unit lower / zero-free and reproduce A exactly
      let lrow (i k : Nat) : QQ := if k < i then SparseLdl.lGet s1 i k else if k = i then 1 else 0
      let aSym (i j : Nat) : QQ := ((ent.getD ((min i j) * n + max i j) none).getD 0)
      let prodOk := (List.range n).all fun i => (List.range n).all fun j =>
        (List.range n).foldl (fun acc k => acc + lrow i k * s1.D.getD k 0 * lrow j k) 0 == aSym i j
      let lowerOk := (List.range n).all fun j => (List.range' (s1.Lcols.getD j 0) (s1.Lnnz.getD j 0)).all fun p => decide (j < s1.Lind.getD p 0)
      let dOk := (List.range n).all fun k => !(s1.D.getD k 0 == 0)
      pure (head ++ [s!"ret {ret}", s!"lnnz {natsStr s1.Lnnz}", s!"lfill {filled s1}", s!"dd {dStr}", s!"xs {qqsStr (SparseLdl.solve s1 b)}",
        s!"ldlcert {if prodOk && lowerOk && dOk then 1 else 0}"])
    else
      -- after a zero pivot the columns not yet reached hold the symbolic counts over unwritten storage: only D[0..k] is defined
      pure (head ++ [s!"ret {ret}", s!"dd {dStr}"])
  | "csc.permute" =>
    -- storage level: C = A(p,p) as the three arrays plus the slot map returned by permute_sparse_symmetric_matrix
    let n ← nat
    let pa ← natArray n
    let _r ← nat
    let _c ← nat
    let ent0 ← dotsOpt n n
    let ent : Array (Option QQ) := Array.ofFn (n := n * n) fun t => if t.val / n ≤ t.val % n then ent0.getD t.val none else none
    let A : Csc QQ := Csc.ofOpt n n ent
    let pinv : Array Nat := (List.range n).foldl (fun (a : Array Nat) i => a.setIfInBounds (pa.getD i 0) i) (Array.replicate n 0)
    let (C, map) := Csc.permuteSym A pinv
    pure [s!"cscouter {natsStr C.outer}", s!"cscinner {natsStr C.inner}", s!"cscvals {qqsStr C.vals}", s!"cscmap {natsStr map}"]
  | "csc.istpraw" =>
    -- is_transpose_pattern on an A given by its raw arrays (duplicates / unsorted rows possible) against a well-formed C
    let r ← nat
    let c ← nat
    let nnz ← nat
    let outerA ← natArray (c + 1)
    let innerA ← natArray nnz
    let r2 ← nat
    let c2 ← nat
    let entC ← dotsOpt r2 c2
    let A : Csc QQ := { rows := r, cols := c, outer := outerA, inner := innerA, vals := Array.replicate nnz 1 }
    let C : Csc QQ := Csc.ofOpt r2 c2 entC
    pure [s!"istp {if Csc.isTransposePattern A C then 1 else 0}"]
  | "ord.amd" =>
    -- Eigen's AMD is not modelled: only "returns a permutation whose inverse table and perm/permt are consistent"
    pure ["isperm 1 inv 1 roundtrip 1"]
  | c => throw s!"unknown kernel command {c}"

end Piqp.Driver
