/-
  Interpreter for the `sol.*` commands: the whole-solver model (`Api.lean`) at `K = QQ`, twin of
  harness/hsolq.cpp which drives the real DenseSolver<Q,…> / SparseSolver<Q,int,Mode,…>.
-/
import PiqpModel.Api
import PiqpModel.Checkers
import PiqpModel.Driver.Parse
import PiqpModel.Driver.KKTCmd

namespace Piqp.Driver
open Piqp

structure SM where
  api : ApiState QQ
  cs : Consts QQ
  sqrtMode : Int
  be : Backend
  pk : PrecKind
  last : Status := .unsolved

def defaultConsts : Consts QQ :=
  { minScaling := 0, maxScaling := 0, ruizEps := 0, piqpInf := 0, posInf := QQ.pinf, machEps := 0, c0_95 := 0, c0_666 := 0,
    c1e12 := 0, c1e2 := 0, c1_5 := 0, c0_5 := 0, c0_1 := 0, c1e_4 := 0, c100 := 100, c10 := 10 }

def defaultSettings : Settings QQ :=
  { rhoInit := 0, deltaInit := 0, epsAbs := 0, epsRel := 0, checkDualityGap := true, epsGapAbs := 0, epsGapRel := 0,
    regLowerLimit := 0, regFinetuneLowerLimit := 0, regFinetunePrimalThr := 7, regFinetuneDualThr := 5, maxIter := 250,
    maxFactorRetires := 10, precScaleCost := false, precIter := 10, tau := 0, refAlways := false, refEpsAbs := 0,
    refEpsRel := 0, refMaxIter := 10, refMinRate := 0, regEps := 0, regRel := 0 }

/-- `sol.settings` : all fields in the order of settings.hpp (verbose / compute_timings excluded) -/
def parseSettings : P (Settings QQ) := do
  let rhoInit ← qq; let deltaInit ← qq; let epsAbs ← qq; let epsRel ← qq
  let checkDualityGap ← bool; let epsGapAbs ← qq; let epsGapRel ← qq
  let regLowerLimit ← qq; let regFinetuneLowerLimit ← qq
  let regFinetunePrimalThr ← int; let regFinetuneDualThr ← int
  let maxIter ← int; let maxFactorRetires ← int
  let precScaleCost ← bool; let precIter ← int
  let tau ← qq
  let refAlways ← bool; let refEpsAbs ← qq; let refEpsRel ← qq; let refMaxIter ← int; let refMinRate ← qq
  let regEps ← qq; let regRel ← qq
  pure { rhoInit, deltaInit, epsAbs, epsRel, checkDualityGap, epsGapAbs, epsGapRel, regLowerLimit, regFinetuneLowerLimit,
         regFinetunePrimalThr, regFinetuneDualThr, maxIter, maxFactorRetires, precScaleCost, precIter, tau, refAlways,
         refEpsAbs, refEpsRel, refMaxIter, refMinRate, regEps, regRel }

/-- `sol.consts minScaling maxScaling ruizEps piqpInf machEps 0.95 0.666 1e12 1e2 1.5 0.5 0.1 1e-4` -/
def parseConsts : P (Consts QQ) := do
  let minScaling ← qq; let maxScaling ← qq; let ruizEps ← qq; let piqpInf ← qq; let machEps ← qq
  let c0_95 ← qq; let c0_666 ← qq; let c1e12 ← qq; let c1e2 ← qq; let c1_5 ← qq; let c0_5 ← qq; let c0_1 ← qq; let c1e_4 ← qq
  pure { minScaling, maxScaling, ruizEps, piqpInf, posInf := QQ.pinf, machEps, c0_95, c0_666, c1e12, c1e2, c1_5, c0_5, c0_1,
         c1e_4, c100 := 100, c10 := 10 }

structure Args where
  P : Option (RawMat QQ) := none
  c : Option (RawVec QQ) := none
  A : Option (RawMat QQ) := none
  b : Option (RawVec QQ) := none
  G : Option (RawMat QQ) := none
  h : Option (RawVec QQ) := none
  lb : Option (RawVec QQ) := none
  ub : Option (RawVec QQ) := none

def rawMat : P (RawMat QQ) := do
  let r ← nat
  let c ← nat
  let mut ent : Array (Option QQ) := Array.mkEmpty (r * c)
  for _ in [0:r * c] do
    let t ← tok
    if t = "." then ent := ent.push none
    else
      match QQ.parse? t with
      | some q => ent := ent.push (some q)
      | none => throw s!"bad matrix entry '{t}'"
  pure { rows := r, cols := c, ent }

def rawVec : P (RawVec QQ) := do
  let k ← nat
  let a ← qqArray k
  pure { data := a }

partial def parseArgs (acc : Args) : P Args := do
  match (← get) with
  | [] => pure acc
  | _ =>
    let name ← tok
    match name with
    | "P" => parseArgs { acc with P := some (← rawMat) }
    | "A" => parseArgs { acc with A := some (← rawMat) }
    | "G" => parseArgs { acc with G := some (← rawMat) }
    | "c" => parseArgs { acc with c := some (← rawVec) }
    | "b" => parseArgs { acc with b := some (← rawVec) }
    | "h" => parseArgs { acc with h := some (← rawVec) }
    | "lb" => parseArgs { acc with lb := some (← rawVec) }
    | "ub" => parseArgs { acc with ub := some (← rawVec) }
    | x => throw s!"unknown argument {x}"

def outcomeLine : Outcome → String
  | .done => "ok"
  | .rejected msg => "rejected " ++ msg
  | .status s => s!"status {s.code}"

def headStr {n : Nat} (v : Vec QQ n) (cnt : Nat) : String := vecStr v cnt

def idxStr {n : Nat} (v : Vector (Fin n) n) (cnt : Nat) : String :=
  " ".intercalate ((List.range (min cnt n)).map fun i => if h : i < n then toString v[i].val else "?")

def kblocksLines {n p m : Nat} (be : Backend) (kb : KBlocks QQ n p m) : List String :=
  [s!"Kxx {matStr kb.xx}"] ++
  (if be.keepY then [s!"Kxy {matStr kb.xy}", s!"Kyy {vecStr kb.yy}"] else []) ++
  (if be.keepZ then [s!"Kxz {matStr kb.xz}", s!"Kzz {vecStr kb.zz}"] else [])

def dumpLines (a : AnySolver QQ) : List String :=
  let s := a.s
  let i := s.info
  let w := s.w
  let d := s.data
  let pre := s.pre
  let b (x : Bool) : String := if x then "1" else "0"
  [ s!"info {i.status.code} {i.iter} {i.rho} {i.delta} {i.mu} {i.sigma} {i.primalStep} {i.dualStep} {i.primalInf} {i.primalRelInf} {i.dualInf} {i.dualRelInf} {i.primalObj} {i.dualObj} {i.dualityGap} {i.dualityGapRel} {i.factorRetires} {i.regLimit} {i.noPrimalUpdate} {i.noDualUpdate}",
    s!"x {vecStr w.x}", s!"y {vecStr w.y}", s!"z {vecStr w.z}", s!"z_lb {vecStr w.z_lb}", s!"z_ub {vecStr w.z_ub}",
    s!"s {vecStr w.s}", s!"s_lb {vecStr w.s_lb}", s!"s_ub {vecStr w.s_ub}",
    s!"zeta {vecStr w.zeta}", s!"lambda {vecStr w.lambda}", s!"nu {vecStr w.nu}", s!"nu_lb {vecStr w.nu_lb}", s!"nu_ub {vecStr w.nu_ub}",
    s!"data.P {matStr d.P}", s!"data.AT {matStr d.AT}", s!"data.GT {matStr d.GT}",
    s!"data.c {vecStr d.c}", s!"data.b {vecStr d.b}", s!"data.h {vecStr d.h}",
    s!"data.lb {d.lb.cnt} idx {idxStr d.lb.idx d.lb.cnt} sc {vecStr d.lb.sc} val {headStr d.lb.val d.lb.cnt}",
    s!"data.ub {d.ub.cnt} idx {idxStr d.ub.idx d.ub.cnt} sc {vecStr d.ub.sc} val {headStr d.ub.val d.ub.cnt}" ] ++
  (if s.pk = .identity then [] else
    [ s!"pre {pre.nlb} {pre.nub} c {pre.c} cinv {pre.cInv}",
      s!"pre.d {vecStr pre.dx} {vecStr pre.dy} {vecStr pre.dz}", s!"pre.dlb {vecStr pre.dlb}", s!"pre.dub {vecStr pre.dub}",
      s!"pre.dinv {vecStr pre.dxInv} {vecStr pre.dyInv} {vecStr pre.dzInv}", s!"pre.dlbinv {vecStr pre.dlbInv}",
      s!"pre.dubinv {vecStr pre.dubInv}" ]) ++
  [ s!"kkt {s.kkt.rho} {s.kkt.delta} s {vecStr s.kkt.s} s_lb {headStr s.kkt.s_lb d.lb.cnt} s_ub {headStr s.kkt.s_ub d.ub.cnt} zinv {vecStr s.kkt.zinv} zinv_lb {headStr s.kkt.zinv_lb d.lb.cnt} zinv_ub {headStr s.kkt.zinv_ub d.ub.cnt}" ] ++
  kblocksLines s.be s.kkt.k ++
  [ s!"flags {b s.kktInitState} {b s.setupDone} {b s.refineOn}" ]

def smNew : P SM := do
  let be := Backend.ofCode (← nat)
  let pkc ← nat
  let sm ← int
  let pk : PrecKind := if pkc = 1 then .identity else if be.isDense then .denseRuiz else .sparseRuiz
  pure { api := { settings := defaultSettings, sol := none }, cs := defaultConsts, sqrtMode := sm, be, pk }

def smStep (sm : SM) (cmd : String) : P (SM × List String) := do
  let step (call : Call QQ) : SM × List String :=
    let (api', out) := apiStep sm.cs (QQ.sqrtMode sm.sqrtMode) QQ.poison sm.api call
    let last := match out with | .status s => s | _ => sm.last
    ({ sm with api := api', last := last }, [outcomeLine out])
  match cmd with
  | "sol.consts" =>
    let cs ← parseConsts
    pure ({ sm with cs := cs }, [])
  | "sol.settings" =>
    let s ← parseSettings
    pure (step (.settings s))
  | "sol.setup" =>
    let a ← parseArgs {}
    match a.P, a.c with
    | some P, some c => pure (step (.setup sm.be sm.pk P c a.A a.b a.G a.h a.lb a.ub))
    | _, _ => throw "setup needs P and c"
  | "sol.update" =>
    let reuse ← bool
    let a ← parseArgs {}
    pure (step (.update a.P a.c a.A a.b a.G a.h a.lb a.ub reuse))
  | "sol.solve" => pure (step .solve)
  | "sol.perm" =>
    match sm.api.sol with
    | none => pure (sm, ["perm"])
    | some a =>
      let be := a.s.be
      let py := if be.keepY then a.p else 0
      let mz := if be.keepZ then a.m else 0
      let arr ← natArray (a.n + py + mz)
      let perm := extendPerm be a.n a.p a.m arr
      let line := "perm " ++ " ".intercalate (arr.toList.map toString)
      pure ({ sm with api := { sm.api with sol := some { a with perm := perm } } }, [line])
  | "sol.sqrtmode" =>
    let k ← int
    pure ({ sm with sqrtMode := k }, [])
  | "sol.check" =>
    -- evaluate the property predicates on the current results against the user's effective problem
    let a ← parseArgs {}
    match sm.api.sol, a.P, a.c with
    | some sv, some P, some c =>
      let n := sv.n; let p := sv.p; let m := sv.m
      let optB (v : Option (RawVec QQ)) : Vector (Option QQ) n :=
        Vector.ofFn fun j => match v with
          | none => none
          | some v => match v.data.getD j.val QQ.poison with
            | QQ.fin r => some (QQ.fin r)
            | _ => none
      let u : UserProblem QQ n p m :=
        { P := P.toMat n n, c := c.toVec n,
          A := match a.A with | some A => A.toMat p n | none => Mat.ofFn fun _ _ => 0,
          b := match a.b with | some b => b.toVec p | none => Vec.const p 0,
          G := match a.G with | some G => G.toMat m n | none => Mat.ofFn fun _ _ => 0,
          h := match a.h with | some h => h.toVec m | none => Vec.const m 0,
          lb := optB a.lb, ub := optB a.ub }
      let w := sv.s.w
      let q : Point QQ n p m := ⟨w.x, w.y, w.z, w.z_lb, w.z_ub, w.s, w.s_lb, w.s_ub⟩
      let status : Status := sm.last
      let isFin : QQ → Bool := fun v => match v with | QQ.fin _ => true | _ => false
      let half : QQ := QQ.fin (1 / 2)
      let l1 := "#check cert " ++ " ".intercalate (certFails half sv.s.st u q)
      let l2 := "#check wf " ++ " ".intercalate (wellFormedFails isFin QQ.pinf u q)
      let l3 := "#check diag " ++ " ".intercalate (diagFails half sv.s.st u q sv.s.info status)
      let l0 := "#check pre " ++ " ".intercalate (precondFails u sv.s.data sv.s.pre)
      pure (sm, [l0, l1, l2, l3])
    | _, _, _ => pure (sm, ["#check none"])
  | "sol.dump" =>
    match sm.api.sol with
    | none => pure (sm, ["nosolver"])
    | some a => pure (sm, dumpLines a)
  | c => throw s!"unknown sol command {c}"

end Piqp.Driver
