/-
  Tie B: the control skeleton (`loopG`, `initLoopG` of Control.lean — the very functions the solver model uses and
  the theorems talk about) executed at `K = Float` on the scalars streamed from real double-precision runs.
  Every numeric operation of `LoopOps` pops the corresponding observation; every decision and scalar update is
  recomputed here and printed as a control-state line that must equal the real solver's bit for bit.
-/
import PiqpModel.Control
import PiqpModel.Driver.Parse

namespace Piqp.Driver
open Piqp

instance : Zero Float := ⟨0.0⟩
instance : One Float := ⟨1.0⟩

def hexOfFloat (f : Float) : String :=
  let u := f.toBits.toNat
  String.ofList ((List.range 16).map fun k => QQ.hexDigit ((u >>> (4 * (15 - k))) % 16))

def hexDigitVal (c : Char) : Option Nat :=
  if '0' ≤ c ∧ c ≤ '9' then some (c.toNat - 48)
  else if 'a' ≤ c ∧ c ≤ 'f' then some (c.toNat - 87)
  else none

def floatOfHex (s : String) : Option Float := do
  if s.length ≠ 16 then none
  let mut v : Nat := 0
  for c in s.toList do
    v := v * 16 + (← hexDigitVal c)
  pure (Float.ofBits v.toUInt64)

structure SkelS where
  obs : List (String × Array Float)
  log : Array String
  b : Array Float := #[]
  err : Option String := none

def SkelS.pop (s : SkelS) (kind : String) : SkelS × Array Float :=
  match s.obs with
  | (k, v) :: rest =>
    if k = kind then ({ s with obs := rest }, v)
    else ({ s with err := s.err <|> some s!"expected observation {kind}, found {k}" }, #[])
  | [] => ({ s with err := s.err <|> some s!"expected observation {kind}, found end of trace" }, #[])

def g (v : Array Float) (i : Nat) : Float := v.getD i 0.0

def stateLine (tag : String) (refine : Option Bool) (info : Info Float) : String :=
  let r := match refine with | some true => "1" | some false => "0" | none => "?"
  let it := if tag = "s" then "-" else toString info.iter
  s!"{tag} {it} {info.factorRetires} {r} {hexOfFloat info.rho} {hexOfFloat info.delta} {hexOfFloat info.regLimit} {info.noPrimalUpdate} {info.noDualUpdate}"

/-- the stream-backed numeric operations -/
def skelOps (hasIneq : Bool) : LoopOps Float SkelS :=
  { hasIneq := hasIneq,
    head := fun _ s info =>
      let s0 := { s with log := s.log.push (stateLine "a" none info) }
      let (s1, v) := s0.pop "A"
      (s1, { info with primalInf := g v 0, dualInf := g v 1, primalRelInf := g v 2, dualRelInf := g v 3, primalObj := g v 4,
                       dualObj := g v 5, dualityGap := g v 6, dualityGapRel := g v 7 }),
    reg := fun s _ => let (s1, v) := s.pop "B"; { s1 with b := v },
    pprox := fun s => g s.b 0,
    pinfR := fun s => g s.b 1,
    dprox := fun s => g s.b 2,
    dinfR := fun s => g s.b 3,
    shift := fun s info => let (s1, v) := s.pop "S"; (s1, { info with mu := g v 0 }),
    rescale := fun s info => { s with log := s.log.push (stateLine "s" none info) },
    factor := fun _ s => let (s1, v) := s.pop "F"; (s1, g v 0 != 0.0),
    stepNum := fun _ s info =>
      let (s1, v) := s.pop "C"
      (s1, { info with mu := g v 0, sigma := g v 1, primalStep := g v 2, dualStep := g v 3, primalRelInf := g v 4,
                       dualRelInf := g v 5, primalObj := g v 6, dualObj := g v 7, dualityGap := g v 8, dualityGapRel := g v 9 },
       info.mu, g v 10, g v 11, g v 12, g v 13),
    applyFlags := fun s _ _ => s }

def floatConsts : Consts Float :=
  { minScaling := 1e-4, maxScaling := 1e4, ruizEps := 1e-3, piqpInf := 1e30, posInf := 1.0 / 0.0, machEps := 2.220446049250313e-16,
    c0_95 := 0.95, c0_666 := 0.666, c1e12 := 1e12, c1e2 := 1e2, c1_5 := 1.5, c0_5 := 0.5, c0_1 := 0.1, c1e_4 := 1e-4,
    c100 := 100.0, c10 := 10.0 }

structure SkelHeader where
  hasIneq : Bool
  refine0 : Bool
  st : Settings Float

def fl : P Float := do
  let t ← tok
  match floatOfHex t with
  | some f => pure f
  | none => throw s!"expected 16 hex digits, got '{t}'"

def parseHeader : P SkelHeader := do
  let hasIneq ← bool; let refine0 ← bool
  let rhoInit ← fl; let deltaInit ← fl; let epsAbs ← fl; let epsRel ← fl
  let cdg ← bool; let ega ← fl; let egr ← fl; let rll ← fl; let rfl ← fl
  let tp ← int; let td ← int; let mi ← int; let mfr ← int
  pure { hasIneq, refine0,
         st := { rhoInit, deltaInit, epsAbs, epsRel, checkDualityGap := cdg, epsGapAbs := ega, epsGapRel := egr,
                 regLowerLimit := rll, regFinetuneLowerLimit := rfl, regFinetunePrimalThr := tp, regFinetuneDualThr := td,
                 maxIter := mi, maxFactorRetires := mfr, precScaleCost := false, precIter := 0, tau := 0.0, refAlways := false,
                 refEpsAbs := 0.0, refEpsRel := 0.0, refMaxIter := 0, refMinRate := 0.0, regEps := 0.0, regRel := 0.0 } }

/-- replay one `solve()` : header + observation lines -> control-state lines -/
def skelReplay (h : SkelHeader) (obs : List (String × Array Float)) : List String :=
  let st := h.st
  let cs := floatConsts
  let ops := skelOps h.hasIneq
  let info0 : Info Float :=
    { status := .unsolved, iter := 0, rho := st.rhoInit, delta := st.deltaInit, mu := 0.0, sigma := 0.0, primalStep := 0.0, dualStep := 0.0,
      primalInf := 0.0, primalRelInf := 0.0, dualInf := 0.0, dualRelInf := 0.0, primalObj := 0.0, dualObj := 0.0, dualityGap := 0.0,
      dualityGapRel := 0.0, factorRetires := 0, regLimit := st.regLowerLimit, noPrimalUpdate := 0, noDualUpdate := 0 }
  -- the init loop does not log rescale lines in the real trace: use ops without logging there
  let opsInit := { ops with rescale := fun s _ => s }
  let il := initLoopG st cs opsInit h.refine0 0 { obs := obs, log := #[] } info0
  let refineOn := il.1
  let s1 := il.2.2.1
  let info1 := il.2.2.2.1
  let ok := il.2.2.2.2
  if !ok then
    let fin := stateLine "r" (some refineOn) info1 ++ s!" {info1.status.code}"
    (s1.log.push fin).toList ++ (match s1.err with | some e => ["error " ++ e] | none => [])
  else
    let info2 := { info1 with factorRetires := 0 }
    let (s2, v) := s1.pop "I"
    let info3 := if h.hasIneq then { info2 with mu := g v 0 } else info2
    let s3 := { s2 with log := s2.log.push (stateLine "i" (some refineOn) info3) }
    let r := loopG st cs ops { iter := 0, factorRetires := 0, refineOn := refineOn } s3 info3
    let sf := r.1.2.1
    let fin := stateLine "r" (some r.1.1.refineOn) r.1.2.2 ++ s!" {r.2.code}"
    (sf.log.push fin).toList ++ (match sf.err with | some e => ["error " ++ e] | none => []) ++
      (if sf.obs.isEmpty then [] else [s!"error {sf.obs.length} unconsumed observations"])

end Piqp.Driver
