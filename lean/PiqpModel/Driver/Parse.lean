/-
  Token-level parsing helpers for the line protocol shared with the C++ harnesses.
  A line is `cmd tok tok …`; rationals are `p/q`, `p`, `inf`, `-inf`, `poison`.
-/
import PiqpModel.QQ

namespace Piqp.Driver

abbrev P := StateT (List String) (Except String)

def tok : P String := do
  match (← get) with
  | [] => throw "unexpected end of line"
  | t :: ts => set ts; pure t

def nat : P Nat := do
  let t ← tok
  match t.toNat? with
  | some n => pure n
  | none => throw s!"expected natural number, got '{t}'"

def int : P Int := do
  let t ← tok
  match QQ.parseInt? t with
  | some n => pure n
  | none => throw s!"expected integer, got '{t}'"

def bool : P Bool := do
  let n ← nat
  pure (n != 0)

def qq : P QQ := do
  let t ← tok
  match QQ.parse? t with
  | some q => pure q
  | none => throw s!"expected rational, got '{t}'"

def qqArray (n : Nat) : P (Array QQ) := do
  let mut a : Array QQ := Array.mkEmpty n
  for _ in [0:n] do
    a := a.push (← qq)
  pure a

def natArray (n : Nat) : P (Array Nat) := do
  let mut a : Array Nat := Array.mkEmpty n
  for _ in [0:n] do
    a := a.push (← nat)
  pure a

/-- `n` rationals -/
def vec (n : Nat) : P (Vec QQ n) := do
  let a ← qqArray n
  pure (Vector.ofFn fun i => a.getD i.val QQ.poison)

/-- `cnt` rationals into the head of a length-`n` vector, tail = `fill` -/
def vecHead (n cnt : Nat) (fill : QQ) : P (Vec QQ n) := do
  let a ← qqArray cnt
  pure (Vector.ofFn fun i => if i.val < cnt then a.getD i.val QQ.poison else fill)

/-- `r*c` rationals, row-major -/
def mat (r c : Nat) : P (Mat QQ r c) := do
  let a ← qqArray (r * c)
  pure (Mat.ofFn fun i j => a.getD (i.val * c + j.val) QQ.poison)

def finOfNat (n : Nat) (h : 0 < n) (k : Nat) : Fin n := if hk : k < n then ⟨k, hk⟩ else ⟨0, h⟩

def vecStr {n : Nat} (v : Vec QQ n) (cnt : Nat := n) : String :=
  " ".intercalate ((List.range (min cnt n)).map fun i => if h : i < n then toString v[i] else "?")

def matStr {r c : Nat} (a : Mat QQ r c) : String :=
  " ".intercalate ((List.finRange r).map fun i => vecStr a[i])

def runP {α : Type} (p : P α) (toks : List String) : Except String α :=
  match p.run toks with
  | .ok (a, _) => .ok a
  | .error e => .error e

end Piqp.Driver
