/-
  Interpreter for the `kkt.*` commands: drives the KKT model at `K = QQ` with the same operation
  sequence the C++ harness `hkkt` applies to the real `dense::KKT<Q>` / `sparse::KKT<Q,int,Mode,FixedOrdering>`.
-/
import PiqpModel.Exec
import PiqpModel.Driver.Parse

namespace Piqp.Driver
open Piqp

structure KM where
  n : Nat
  p : Nat
  m : Nat
  hn : 0 < n
  be : Backend
  sqrtMode : Int
  st : KKTSettings QQ
  d : Data QQ n p m
  k : KKT QQ n p m
  perm : Vector (Fin (n + p + m)) (n + p + m)

def poisonVec (n : Nat) : Vec QQ n := Vec.const n QQ.poison

def emptyBox (n : Nat) (hn : 0 < n) : BoxSide QQ n :=
  { cnt := 0, idx := Vector.replicate n ⟨0, hn⟩, sc := Vec.const n 1, val := poisonVec n }

def idPerm (N : Nat) : Vector (Fin N) N := Vector.ofFn fun i => i

/-- extend the permutation of the kept system (code numbering: x, then kept y, then kept z) to all of
    `n+p+m` (eliminated indices first; they are decoupled identity rows) -/
def extendPerm (be : Backend) (n p m : Nat) (small : Array Nat) : Vector (Fin (n + p + m)) (n + p + m) :=
  -- FULL / INEQ keep y, so code index = model index; EQ keeps only z after x
  let mapIdx' (c : Nat) : Nat :=
    if c < n then c else if be.keepY then c else n + p + (c - n)
  let elimY : List Nat := if be.keepY then [] else (List.range p).map (· + n)
  let elimZ : List Nat := if be.keepZ then [] else (List.range m).map (· + n + p)
  let all : Array Nat := (elimY ++ elimZ).toArray ++ small.map mapIdx'
  Vector.ofFn fun i => if h : all.getD i.val 0 < n + p + m then ⟨all.getD i.val 0, h⟩ else i

def KM.inner (km : KM) : Inner QQ km.n km.p km.m :=
  if km.be.isDense then innerLLT (QQ.sqrtMode km.sqrtMode) else innerLDLT km.be km.perm

def zeroStep (n p m : Nat) : Step QQ n p m :=
  ⟨poisonVec n, poisonVec p, poisonVec m, poisonVec n, poisonVec n, poisonVec m, poisonVec n, poisonVec n⟩

def parseStep (km : KM) : P (Step QQ km.n km.p km.m) := do
  let x ← vec km.n
  let y ← vec km.p
  let z ← vec km.m
  let z_lb ← vecHead km.n km.d.lb.cnt QQ.poison
  let z_ub ← vecHead km.n km.d.ub.cnt QQ.poison
  let s ← vec km.m
  let s_lb ← vecHead km.n km.d.lb.cnt QQ.poison
  let s_ub ← vecHead km.n km.d.ub.cnt QQ.poison
  pure ⟨x, y, z, z_lb, z_ub, s, s_lb, s_ub⟩

def stepLines (km : KM) (pre : String) (r : Step QQ km.n km.p km.m) : List String :=
  [ s!"{pre}x {vecStr r.x}", s!"{pre}y {vecStr r.y}", s!"{pre}z {vecStr r.z}",
    s!"{pre}z_lb {vecStr r.z_lb km.d.lb.cnt}", s!"{pre}z_ub {vecStr r.z_ub km.d.ub.cnt}",
    s!"{pre}s {vecStr r.s}", s!"{pre}s_lb {vecStr r.s_lb km.d.lb.cnt}", s!"{pre}s_ub {vecStr r.s_ub km.d.ub.cnt}" ]

def parseBox (n : Nat) (hn : 0 < n) : P (BoxSide QQ n) := do
  let cnt ← nat
  let idx ← natArray cnt
  let sc ← qqArray cnt
  pure { cnt := cnt,
         idx := Vector.ofFn fun i => finOfNat n hn (idx.getD i.val 0),
         sc := Vector.ofFn fun i => if i.val < cnt then sc.getD i.val QQ.poison else 1,
         val := poisonVec n }

def upperOf {n : Nat} (a : Mat QQ n n) : Mat QQ n n :=
  Mat.ofFn fun i j => if i.val ≤ j.val then a[i][j] else 0

/-- create: `kkt.new be n p m sqrtmode` -/
def kmNew : P KM := do
  let be := Backend.ofCode (← nat)
  let n ← nat
  let p ← nat
  let m ← nat
  let sm ← int
  if h : 0 < n then
    let z : Mat QQ n n := Mat.ofFn fun _ _ => 0
    let d : Data QQ n p m :=
      { P := z, AT := Mat.ofFn fun _ _ => 0, GT := Mat.ofFn fun _ _ => 0,
        c := poisonVec n, b := poisonVec p, h := poisonVec m, lb := emptyBox n h, ub := emptyBox n h }
    let st : KKTSettings QQ := ⟨0, 0, 0, 0, 0, 1⟩
    let k := KKT.init be d 1 1 (poisonVec n) (poisonVec n) (poisonVec n) (poisonVec n)
    pure { n, p, m, hn := h, be, sqrtMode := sm, st, d, k, perm := idPerm (n + p + m) }
  else throw "n must be positive"

def kmStep (km : KM) (cmd : String) : P (KM × List String) := do
  match cmd with
  | "kkt.P" =>
    let a ← mat km.n km.n
    pure ({ km with d := { km.d with P := upperOf a } }, [])
  | "kkt.A" =>
    let a ← mat km.p km.n
    pure ({ km with d := { km.d with AT := Mat.transpose a } }, [])
  | "kkt.G" =>
    let a ← mat km.m km.n
    pure ({ km with d := { km.d with GT := Mat.transpose a } }, [])
  | "kkt.lb" =>
    let b ← parseBox km.n km.hn
    pure ({ km with d := { km.d with lb := b } }, [])
  | "kkt.ub" =>
    let b ← parseBox km.n km.hn
    pure ({ km with d := { km.d with ub := b } }, [])
  | "kkt.set" =>
    let a ← qq; let b ← qq; let c ← nat; let d ← qq; let e ← qq; let f ← qq
    pure ({ km with st := ⟨a, b, c, d, e, f⟩ }, [])
  | "kkt.perm" =>
    let py := if km.be.keepY then km.p else 0
    let mz := if km.be.keepZ then km.m else 0
    let a ← natArray (km.n + py + mz)
    pure ({ km with perm := extendPerm km.be km.n km.p km.m a }, [])
  | "kkt.init" =>
    let rho ← qq; let delta ← qq
    let k := KKT.init km.be km.d rho delta (poisonVec km.n) (poisonVec km.n) (poisonVec km.n) (poisonVec km.n)
    pure ({ km with k := k }, [])
  | "kkt.scal" =>
    let rho ← qq; let delta ← qq
    let s ← vec km.m
    let s_lb ← vecHead km.n km.d.lb.cnt QQ.poison
    let s_ub ← vecHead km.n km.d.ub.cnt QQ.poison
    let z ← vec km.m
    let z_lb ← vecHead km.n km.d.lb.cnt QQ.poison
    let z_ub ← vecHead km.n km.d.ub.cnt QQ.poison
    pure ({ km with k := KKT.updateScalings km.be km.d km.k rho delta s s_lb s_ub z z_lb z_ub }, [])
  | "kkt.upd" =>
    let a ← bool; let b ← bool; let c ← bool
    pure ({ km with k := KKT.updateData km.be km.d km.k a b c }, [])
  | "kkt.factor" =>
    let r ← bool
    let k := KKT.regFactor km.be km.st km.d km.k r km.inner
    pure ({ km with k := k }, [s!"factor {if k.factOk then 1 else 0}"])
  | "kkt.solve" =>
    let r ← bool
    let rhs ← parseStep km
    match KKT.solve km.be km.st km.d km.k rhs (zeroStep km.n km.p km.m) r with
    | none => pure (km, ["solve none"])
    | some out => pure (km, stepLines km "d" out)
  | "kkt.resid" =>
    -- multiply(solve(rhs)) - rhs : all zeros iff the returned step solves the full Newton system exactly
    let r ← bool
    let rhs ← parseStep km
    match KKT.solve km.be km.st km.d km.k rhs (zeroStep km.n km.p km.m) r with
    | none => pure (km, ["resid none"])
    | some out =>
      let back := KKT.multiply km.d km.k out (zeroStep km.n km.p km.m)
      let df : Step QQ km.n km.p km.m :=
        { x := Vector.ofFn fun i => back.x[i] - rhs.x[i], y := Vector.ofFn fun i => back.y[i] - rhs.y[i],
          z := Vector.ofFn fun i => back.z[i] - rhs.z[i],
          z_lb := km.d.lb.headUpd back.z_lb fun i => back.z_lb[i] - rhs.z_lb[i],
          z_ub := km.d.ub.headUpd back.z_ub fun i => back.z_ub[i] - rhs.z_ub[i],
          s := Vector.ofFn fun i => back.s[i] - rhs.s[i],
          s_lb := km.d.lb.headUpd back.s_lb fun i => back.s_lb[i] - rhs.s_lb[i],
          s_ub := km.d.ub.headUpd back.s_ub fun i => back.s_ub[i] - rhs.s_ub[i] }
      pure (km, stepLines km "e" df)
  | "kkt.mult" =>
    let v ← parseStep km
    let out := KKT.multiply km.d km.k v (zeroStep km.n km.p km.m)
    pure (km, stepLines km "r" out)
  | "kkt.dump" =>
    let kb := km.k.k
    let l1 := [s!"Kxx {matStr kb.xx}"]
    let l2 := if km.be.keepY then [s!"Kxy {matStr kb.xy}", s!"Kyy {vecStr kb.yy}"] else []
    let l3 := if km.be.keepZ then [s!"Kxz {matStr kb.xz}", s!"Kzz {vecStr kb.zz}"] else []
    pure (km, l1 ++ l2 ++ l3)
  | c => throw s!"unknown kkt command {c}"

end Piqp.Driver
