/-
  Control skeleton of `solve_impl`: statuses, settings, diagnostics (`Info`), and the main loop written once,
  generically in the numeric state `σ` (`LoopOps`): every numeric computation (residuals, norms, factorisation,
  search direction) is an operation of `σ`, every *decision* (termination test, infeasibility rules, fine-tune
  switch, factorisation retries, regularisation update, counters) is made here from scalars.

  The same loop is run
    * with `σ` = workspace × KKT state at exact rationals (whole-solver correspondence, tie A),
    * with `σ` = a stream of scalars observed in real double-precision runs, at `K = Float` (tie B),
  and the theorems about termination, retries and statuses are proved for *every* `LoopOps`.
-/
import PiqpModel.Precond
import PiqpModel.KKT

namespace Piqp
variable {K : Type}

inductive Status where
  | solved | maxIterReached | primalInfeasible | dualInfeasible | numerics | unsolved | invalidSettings
  deriving DecidableEq, Repr, Inhabited

def Status.code : Status → Int
  | .solved => 1 | .maxIterReached => -1 | .primalInfeasible => -2 | .dualInfeasible => -3
  | .numerics => -8 | .unsolved => -9 | .invalidSettings => -10

structure Settings (K : Type) where
  rhoInit : K
  deltaInit : K
  epsAbs : K
  epsRel : K
  checkDualityGap : Bool
  epsGapAbs : K
  epsGapRel : K
  regLowerLimit : K
  regFinetuneLowerLimit : K
  regFinetunePrimalThr : Int
  regFinetuneDualThr : Int
  maxIter : Int
  maxFactorRetires : Int
  precScaleCost : Bool
  precIter : Int
  tau : K
  refAlways : Bool
  refEpsAbs : K
  refEpsRel : K
  refMaxIter : Int
  refMinRate : K
  regEps : K
  regRel : K

structure Info (K : Type) where
  status : Status
  iter : Nat
  rho : K
  delta : K
  mu : K
  sigma : K
  primalStep : K
  dualStep : K
  primalInf : K
  primalRelInf : K
  dualInf : K
  dualRelInf : K
  primalObj : K
  dualObj : K
  dualityGap : K
  dualityGapRel : K
  factorRetires : Nat
  regLimit : K
  noPrimalUpdate : Nat
  noDualUpdate : Nat

/-- control fields the termination measure depends on -/
structure Ctrl where
  iter : Nat
  factorRetires : Nat
  refineOn : Bool


section
variable [Add K] [Sub K] [Mul K] [Div K] [Neg K] [Zero K] [One K] [LT K] [DecidableLT K] [LE K] [DecidableLE K]
variable [BEq K]

/-- `Settings::verify_settings` -/
def Settings.verify (s : Settings K) : Bool :=
  decide (0 < s.rhoInit) && decide (0 < s.deltaInit) && decide (0 < s.epsAbs) && decide (0 ≤ s.epsRel) &&
  decide (0 < s.epsGapAbs) && decide (0 ≤ s.epsGapRel) && decide (0 < s.regLowerLimit) &&
  decide (0 ≤ s.regFinetunePrimalThr) && decide (0 ≤ s.regFinetuneDualThr) &&
  decide (0 < s.maxIter) && decide (0 < s.maxFactorRetires) && decide (0 ≤ s.precIter) &&
  decide (0 < s.tau) && decide (s.tau ≤ 1) &&
  decide (0 < s.refEpsAbs) && decide (0 ≤ s.refEpsRel) && decide (0 ≤ s.refMaxIter) &&
  decide (1 ≤ s.refMinRate) && decide (0 < s.regEps) && decide (0 ≤ s.regRel)

def Settings.kkt (s : Settings K) : KKTSettings K :=
  { regEps := s.regEps, regRel := s.regRel, refMaxIter := s.refMaxIter.toNat,
    refEpsAbs := s.refEpsAbs, refEpsRel := s.refEpsRel, refMinRate := s.refMinRate }

/-- the termination test of the loop head on the diagnostics in `info` -/
def termTest (st : Settings K) (info : Info K) : Bool :=
  decide (info.primalInf < st.epsAbs + st.epsRel * info.primalRelInf) &&
  decide (info.dualInf < st.epsAbs + st.epsRel * info.dualRelInf) &&
  (!st.checkDualityGap || decide (info.dualityGap < st.epsGapAbs + st.epsGapRel * info.dualityGapRel))

/-- the two infeasibility rules, as functions of the scalars they depend on -/
def primalInfeasRuleS (st : Settings K) (cs : Consts K) (info : Info K) (pprox pinfR : K) : Bool :=
  decide ((min (5 : Int) st.regFinetuneDualThr) < (info.noDualUpdate : Int)) &&
  decide (cs.c1e12 < pprox) &&
  decide (pinfR < st.epsAbs + st.epsRel * info.primalRelInf)

def dualInfeasRuleS (st : Settings K) (cs : Consts K) (info : Info K) (dprox dinfR : K) : Bool :=
  decide ((min (5 : Int) st.regFinetunePrimalThr) < (info.noPrimalUpdate : Int)) &&
  decide (cs.c1e12 < dprox) &&
  decide (dinfR < st.epsAbs + st.epsRel * info.dualRelInf)

/-- the switch to the fine-tuning regularisation limit -/
def finetuneSwitch (st : Settings K) (info1 : Info K) : Info K :=
  let ft : Bool :=
    (decide (st.regFinetunePrimalThr < (info1.noPrimalUpdate : Int)) && (info1.rho == info1.regLimit) &&
       !(info1.regLimit == st.regFinetuneLowerLimit)) ||
    (decide (st.regFinetuneDualThr < (info1.noDualUpdate : Int)) && (info1.delta == info1.regLimit) &&
       !(info1.regLimit == st.regFinetuneLowerLimit))
  if ft then { info1 with regLimit := st.regFinetuneLowerLimit, noPrimalUpdate := 0, noDualUpdate := 0 } else info1

/-- `σ = clamp(sg / (μ·cnt), 0, 1)³` -/
def sigmaOf (sg mu cnt : K) : K :=
  let sg3 := sg / (mu * cnt)
  let sg4 := vmax 0 (vmin 1 sg3)
  sg4 * sg4 * sg4

/-- regularisation update of the inequality branch as a function of the observed scalars.
    Returns the new info and the two flags (`ζ ← x`, `(λ, ν) ← (y, z)`). -/
def regUpdateIneq (st : Settings K) (cs : Consts K) (info2 : Info K) (muPrev mu dinfNr dprox pinfNr pprox : K) :
    Info K × Bool × Bool :=
  let muRate := vmax 0 ((muPrev - mu) / muPrev)
  let condP := decide (dinfNr < cs.c0_95 * info2.dualInf) ||
               ((info2.rho == st.regFinetuneLowerLimit) && decide (dprox < cs.c1e2))
  let info3 : Info K :=
    if condP then { info2 with rho := vmax info2.regLimit ((1 - muRate) * info2.rho) }
    else { info2 with noPrimalUpdate := info2.noPrimalUpdate + 1,
                      rho := vmax info2.regLimit ((1 - cs.c0_666 * muRate) * info2.rho) }
  let condD := decide (pinfNr < cs.c0_95 * info3.primalInf) ||
               ((info3.delta == st.regFinetuneLowerLimit) && decide (pprox < cs.c1e2))
  let info4 : Info K :=
    if condD then { info3 with delta := vmax info3.regLimit ((1 - muRate) * info3.delta) }
    else { info3 with noDualUpdate := info3.noDualUpdate + 1,
                      delta := vmax info3.regLimit ((1 - cs.c0_666 * muRate) * info3.delta) }
  (info4, condP, condD)

/-- regularisation update when there are no inequality constraints -/
def regUpdateEq (cs : Consts K) (info2 : Info K) (dinfNr pinfNr : K) : Info K × Bool × Bool :=
  let condP := decide (dinfNr < cs.c0_95 * info2.dualInf)
  let info3 : Info K :=
    if condP then { info2 with rho := vmax info2.regLimit (cs.c0_1 * info2.rho) }
    else { info2 with noPrimalUpdate := info2.noPrimalUpdate + 1, rho := vmax info2.regLimit (cs.c0_5 * info2.rho) }
  let condD := decide (pinfNr < cs.c0_95 * info3.primalInf)
  let info4 : Info K :=
    if condD then { info3 with delta := vmax info3.regLimit (cs.c0_1 * info3.delta) }
    else { info3 with noDualUpdate := info3.noDualUpdate + 1, delta := vmax info3.regLimit (cs.c0_5 * info3.delta) }
  (info4, condP, condD)

def bumpRegS (st : Settings K) (cs : Consts K) (info : Info K) : Info K :=
  { info with delta := info.delta * cs.c100, rho := info.rho * cs.c100,
              regLimit := vmin (cs.c10 * info.regLimit) st.epsAbs }


/-- the numeric operations the loop needs from its state -/
structure LoopOps (K : Type) (σ : Type) where
  /-- `m + n_lb + n_ub > 0` -/
  hasIneq : Bool
  /-- loop head: (re)compute residuals when `iter = 0`, set `primal_inf`, `dual_inf` -/
  head : Bool → σ → Info K → σ × Info K
  /-- regularised residuals -/
  reg : σ → Info K → σ
  pprox : σ → K
  pinfR : σ → K
  dprox : σ → K
  dinfR : σ → K
  /-- boundary shift of the multipliers (and `mu` if something was shifted) -/
  shift : σ → Info K → σ × Info K
  /-- `update_scalings(rho, delta, …)` -/
  rescale : σ → Info K → σ
  /-- `regularize_and_factorize(refinement)`; `false` = failure -/
  factor : Bool → σ → σ × Bool
  /-- predictor/corrector, iterate update, `update_nr_residuals`:
      returns the new state, the info (new `mu`, steps, objectives, relative terms) and the scalars
      `(mu_prev, dual_inf_nr, dual_prox_inf, primal_inf_nr, primal_prox_inf)` the regularisation update reads -/
  stepNum : Bool → σ → Info K → σ × Info K × K × K × K × K × K
  /-- `ζ ← x` / `(λ, ν) ← (y, z)` -/
  applyFlags : σ → Bool → Bool → σ

/-- termination measure of the main loop -/
def loopMeasure (maxIter maxRetries : Nat) (c : Ctrl) : Nat × Nat × Nat :=
  (maxIter - c.iter, if c.refineOn then 0 else 1, maxRetries - c.factorRetires)

variable {σ : Type}

/-- the `while (iter < max_iter)` loop of `solve_impl`, for any numeric state -/
def loopG (st : Settings K) (cs : Consts K) (ops : LoopOps K σ) (c : Ctrl) (s : σ) (info : Info K) :
    (Ctrl × σ × Info K) × Status :=
  if h : (c.iter : Int) < st.maxIter then
    let hi := ops.head (c.iter == 0) s info
    if termTest st hi.2 then
      ((c, hi.1, { hi.2 with status := .solved }), .solved)
    else
      let s1 := ops.reg hi.1 hi.2
      if primalInfeasRuleS st cs hi.2 (ops.pprox s1) (ops.pinfR s1) then
        ((c, s1, { hi.2 with status := .primalInfeasible }), .primalInfeasible)
      else if dualInfeasRuleS st cs hi.2 (ops.dprox s1) (ops.dinfR s1) then
        ((c, s1, { hi.2 with status := .dualInfeasible }), .dualInfeasible)
      else
        let iter1 := c.iter + 1
        let sh := ops.shift s1 hi.2
        let info2 := finetuneSwitch st sh.2
        let s2 := ops.rescale sh.1 info2
        let fa := ops.factor c.refineOn s2
        if fa.2 then
          let sn := ops.stepNum c.refineOn fa.1 { info2 with iter := iter1, factorRetires := 0 }
          let info3 := sn.2.1
          let ru := if ops.hasIneq then regUpdateIneq st cs info3 sn.2.2.1 info3.mu sn.2.2.2.1 sn.2.2.2.2.1 sn.2.2.2.2.2.1 sn.2.2.2.2.2.2
                    else regUpdateEq cs info3 sn.2.2.2.1 sn.2.2.2.2.2.1
          let s4 := ops.applyFlags sn.1 ru.2.1 ru.2.2
          loopG st cs ops { c with iter := iter1, factorRetires := 0 } s4 ru.1
        else if hr : c.refineOn = false then
          loopG st cs ops { c with iter := iter1, refineOn := true } fa.1 { info2 with iter := iter1 }
        else if hf : (c.factorRetires : Int) < st.maxFactorRetires then
          loopG st cs ops { c with factorRetires := c.factorRetires + 1 } fa.1
            (bumpRegS st cs { info2 with iter := c.iter, factorRetires := c.factorRetires + 1 })
        else
          (({ c with iter := iter1 }, fa.1, { info2 with iter := iter1, status := .numerics }), .numerics)
  else
    ((c, s, { info with status := .maxIterReached }), .maxIterReached)
termination_by loopMeasure st.maxIter.toNat st.maxFactorRetires.toNat c
decreasing_by
  · simp only [loopMeasure]
    apply Prod.Lex.left
    omega
  · simp only [loopMeasure, hr]
    apply Prod.Lex.left
    omega
  · simp only [loopMeasure]
    have hr' : c.refineOn = true := by simpa using hr
    simp only [hr']
    apply Prod.Lex.right
    apply Prod.Lex.right
    omega

/-- the factorisation retry loop before the first iterate (`while (!regularize_and_factorize(...))`) -/
def initLoopG (st : Settings K) (cs : Consts K) (ops : LoopOps K σ) (refineOn : Bool) (retries : Nat) (s : σ) (info : Info K) :
    Bool × Nat × σ × Info K × Bool :=
  let fa := ops.factor refineOn s
  if fa.2 then (refineOn, retries, fa.1, info, true)
  else if hr : refineOn = false then initLoopG st cs ops true retries fa.1 info
  else if hf : (retries : Int) < st.maxFactorRetires then
    let info1 := bumpRegS st cs { info with factorRetires := retries + 1 }
    initLoopG st cs ops refineOn (retries + 1) (ops.rescale fa.1 info1) info1
  else (refineOn, retries, fa.1, { info with status := .numerics }, false)
termination_by ((if refineOn then 0 else 1 : Nat), st.maxFactorRetires.toNat - retries)
decreasing_by
  · subst hr
    apply Prod.Lex.left
    simp
  · have hr' : refineOn = true := by simpa using hr
    subst hr'
    apply Prod.Lex.right
    omega

end
end Piqp
