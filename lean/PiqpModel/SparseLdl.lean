/-
  include/piqp/sparse/ldlt.hpp, loop by loop: the up-looking LDLᵀ of T. Davis' LDL package as PIQP re-implements it
  (`factorize_symbolic_upper_triangular`: elimination tree and column counts; `factorize_numeric_upper_triangular`: row `k` of
  `L` by a sparse triangular solve along the tree paths; `lsolve`, `dsolve`, `ltsolve`).  Every array of the C++ object is an
  array here and every loop a fold (the `for (; flag[i] != k; i = etree[i])` walks get the fuel `n`, which they cannot exhaust:
  each step flags a new node).  `etree[i] = -1` is `none`.

  PiqpProofs/Properties/C14.lean does not prove this algorithm correct in general; it proves (`ldlt_unique`) that *any* unit lower
  `L` and zero-free `D` with `L·D·Lᵀ = A` are the factors of the recursion `ldlt`, and the check validates, case by case, that the
  arrays produced here (and by the C++) satisfy that equation (`SparseLdl.checkLDLt`).
-/
import PiqpModel.Csc

namespace Piqp

structure SparseLdl (K : Type) where
  n : Nat
  etree : Array (Option Nat)
  Lcols : Array Nat
  Lnnz : Array Nat
  Lind : Array Nat
  Lvals : Array K
  D : Array K
  flag : Array Nat
  pattern : Array Nat
  y : Array K

namespace SparseLdl
variable {K : Type}

/-- `for (; flag[i] != k; i = etree[i])` of the symbolic phase: set the parent if unknown, count, flag -/
def symWalk (k : Nat) : Nat → Nat → Array (Option Nat) × Array Nat × Array Nat → Array (Option Nat) × Array Nat × Array Nat
  | 0, _, st => st
  | fuel+1, i, (et, fl, nz) =>
    if fl.getD i 0 != k then
      let et := if (et.getD i none).isNone then et.setIfInBounds i (some k) else et
      let nz := nz.modify i (· + 1)
      let fl := fl.setIfInBounds i k
      symWalk k fuel ((et.getD i none).getD 0) (et, fl, nz)
    else (et, fl, nz)

/-- the same walk in the numeric phase: push the unflagged nodes onto `pattern[0..len)` -/
def numWalk (k : Nat) (etree : Array (Option Nat)) : Nat → Nat → Nat → Array Nat × Array Nat → Nat × Array Nat × Array Nat
  | 0, _, len, (fl, pat) => (len, fl, pat)
  | fuel+1, i, len, (fl, pat) =>
    if fl.getD i 0 != k then
      numWalk k etree fuel ((etree.getD i none).getD 0) (len + 1) (fl.setIfInBounds i k, pat.setIfInBounds len i)
    else (len, fl, pat)

/-- `while (len > 0) pattern[--top] = pattern[--len]` -/
def unstack : Nat → Nat → Nat → Array Nat → Nat × Array Nat
  | 0, top, _, pat => (top, pat)
  | fuel+1, top, len, pat =>
    if len > 0 then unstack fuel (top - 1) (len - 1) (pat.setIfInBounds (top - 1) (pat.getD (len - 1) 0)) else (top, pat)

/-- `factorize_symbolic_upper_triangular` -/
def symbolic [Zero K] (A : Csc K) : SparseLdl K :=
  let n := A.rows
  let init : Array (Option Nat) × Array Nat × Array Nat := (Array.replicate n none, Array.replicate n 0, Array.replicate n 0)
  let st := (List.range n).foldl (fun (st : Array (Option Nat) × Array Nat × Array Nat) k =>
    let st : Array (Option Nat) × Array Nat × Array Nat := (st.1.setIfInBounds k none, st.2.1.setIfInBounds k k, st.2.2.setIfInBounds k 0)
    (A.colRange k).foldl (fun st p => symWalk k (n + 1) (A.inner.getD p 0) st) st) init
  let lcols := (List.range n).foldl (fun (lc : Array Nat) k => lc.push (lc.getD k 0 + st.2.2.getD k 0)) #[0]
  let tot := lcols.getD n 0
  { n := n, etree := st.1, Lcols := lcols, Lnnz := st.2.2, Lind := Array.replicate tot 0, Lvals := Array.replicate tot 0,
    D := Array.replicate n 0, flag := st.2.1, pattern := Array.replicate n 0, y := Array.replicate n 0 }

/-- `factorize_numeric_upper_triangular`; returns the object and the C++ return value (`n` = success, `k` = zero pivot at `k`) -/
def numeric [Zero K] [Sub K] [Mul K] [Div K] [BEq K] (A : Csc K) (s0 : SparseLdl K) : SparseLdl K × Nat :=
  let n := A.rows
  let rowK (s : SparseLdl K) (k : Nat) : SparseLdl K × Bool :=
    let y := s.y.setIfInBounds k 0
    let flag := s.flag.setIfInBounds k k
    let lnnz := s.Lnnz.setIfInBounds k 0
    -- scatter column k of A and collect the pattern of row k of L
    let (top, flag, pat, y) := (A.colRange k).foldl (fun (acc : Nat × Array Nat × Array Nat × Array K) p =>
      let (top, flag, pat, y) := acc
      let i := A.inner.getD p 0
      let y := y.setIfInBounds i (A.vals.getD p 0)
      let (len, flag, pat) := numWalk k s.etree (n + 1) i 0 (flag, pat)
      let (top, pat) := unstack (n + 1) top len pat
      (top, flag, pat, y)) (n, flag, s.pattern, y)
    let dk := y.getD k 0
    let y := y.setIfInBounds k 0
    -- sparse triangular solve along pattern[top..n)
    let (dk, y, lnnz, lind, lvals) := (List.range' top (n - top)).foldl
      (fun (acc : K × Array K × Array Nat × Array Nat × Array K) t =>
        let (dk, y, lnnz, lind, lvals) := acc
        let i := pat.getD t 0
        let yi := y.getD i 0
        let y := y.setIfInBounds i 0
        let p2 := s.Lcols.getD i 0 + lnnz.getD i 0
        let y := (List.range' (s.Lcols.getD i 0) (p2 - s.Lcols.getD i 0)).foldl (fun (y : Array K) p =>
          y.modify (lind.getD p 0) (fun v => v - lvals.getD p 0 * yi)) y
        let lki := yi / s.D.getD i 0
        (dk - lki * yi, y, lnnz.modify i (· + 1), lind.setIfInBounds p2 k, lvals.setIfInBounds p2 lki))
      (dk, y, lnnz, s.Lind, s.Lvals)
    ({ s with y := y, flag := flag, pattern := pat, Lnnz := lnnz, Lind := lind, Lvals := lvals, D := s.D.setIfInBounds k dk }, dk == 0)
  -- the outer loop stops at the first zero pivot
  let rec go : Nat → Nat → SparseLdl K → SparseLdl K × Nat
    | 0, _, s => (s, n)
    | fuel+1, k, s =>
      if k < n then
        let (s', bad) := rowK s k
        if bad then (s', k) else go fuel (k + 1) s'
      else (s, n)
  go (n + 1) 0 s0

/-- `solve_inplace`: `lsolve`, `dsolve`, `ltsolve` -/
def solve [Zero K] [Sub K] [Mul K] [Div K] (s : SparseLdl K) (x : Array K) : Array K :=
  let n := s.n
  let x := (List.range n).foldl (fun (x : Array K) j =>
    (List.range' (s.Lcols.getD j 0) (s.Lcols.getD (j + 1) 0 - s.Lcols.getD j 0)).foldl (fun (x : Array K) p =>
      x.modify (s.Lind.getD p 0) (fun v => v - s.Lvals.getD p 0 * x.getD j 0)) x) x
  let x := (List.range n).foldl (fun (x : Array K) j => x.modify j (fun v => v / s.D.getD j 0)) x
  (List.range n).foldl (fun (x : Array K) t =>
    let j := n - 1 - t
    (List.range' (s.Lcols.getD j 0) (s.Lcols.getD (j + 1) 0 - s.Lcols.getD j 0)).foldl (fun (x : Array K) p =>
      x.modify j (fun v => v - s.Lvals.getD p 0 * x.getD (s.Lind.getD p 0) 0)) x) x

/-- dense unit-lower view of the stored `L` (entry `(i, j)`, `i > j`) -/
def lGet [Zero K] [One K] (s : SparseLdl K) (i j : Nat) : K :=
  if i = j then 1
  else (List.range' (s.Lcols.getD j 0) (s.Lnnz.getD j 0)).foldl (fun acc p => if s.Lind.getD p 0 = i then s.Lvals.getD p 0 else acc) 0

end SparseLdl
end Piqp
