/-
  Problem data as the solver stores it (`dense::Data<T>` / `sparse::Data<T,I>`):
  upper-triangular `P`, transposed `A`, `G`, packed finite bounds with their original indices.

  Sparse matrices are modelled by their dense denotation (entries outside the stored pattern are 0):
  in exact arithmetic every kernel of the code that only touches stored entries agrees with the
  dense formula, and where it would not (pattern bugs) the correspondence check shows it.
-/
import PiqpModel.Scalar

namespace Piqp
variable {K : Type}

/-- One side of the box constraints: `n_lb`, `x_lb_idx`, `x_lb_scaling`, `x_lb_n` (resp. `ub`).
    All buffers have the full length `n`; only the first `cnt` slots are active. -/
structure BoxSide (K : Type) (n : Nat) where
  cnt : Nat
  idx : Vector (Fin n) n
  sc  : Vec K n
  val : Vec K n

structure Data (K : Type) (n p m : Nat) where
  P  : Mat K n n      -- P_utri: entries below the diagonal are 0
  AT : Mat K n p
  GT : Mat K n m
  c  : Vec K n
  b  : Vec K p
  h  : Vec K m
  lb : BoxSide K n
  ub : BoxSide K n

namespace BoxSide
variable {n : Nat}

/-- `i` is an active packed slot. -/
@[inline] def act (s : BoxSide K n) (i : Fin n) : Prop := i.val < s.cnt
instance (s : BoxSide K n) (i : Fin n) : Decidable (s.act i) := inferInstanceAs (Decidable (i.val < s.cnt))

/-- Result of the loop `for i < cnt: out(idx(i)) += f(i)` started from zero. -/
def scatter [Add K] [Zero K] (s : BoxSide K n) (f : Fin n → K) : Vec K n :=
  Vector.ofFn fun j => sumFin n (fun i => if s.act i ∧ s.idx[i] = j then f i else 0)

/-- Head-only update `buf.head(cnt) = f`, tail untouched. -/
def headUpd (s : BoxSide K n) (old : Vec K n) (f : Fin n → K) : Vec K n :=
  Vector.ofFn fun i => if s.act i then f i else old[i]

end BoxSide

namespace Data
variable {n p m : Nat}

/-- Symmetric matrix represented by the stored upper triangle. -/
def Psym (d : Data K n p m) : Mat K n n :=
  Mat.ofFn fun i j => if i.val ≤ j.val then d.P[i][j] else d.P[j][i]

end Data

/-- Symmetrise from the upper triangle. -/
def symUpper {n : Nat} (U : Mat K n n) : Mat K n n :=
  Mat.ofFn fun i j => if i.val ≤ j.val then U[i][j] else U[j][i]

end Piqp
