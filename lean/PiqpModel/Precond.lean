/-
  Ruiz equilibration (`dense::RuizEquilibration<T>` and `sparse::RuizEquilibration<T,I>`), the identity
  preconditioner, and the scale_*/unscale_* family.

  Faithful to two things a tidy model would hide:
    * the inverse vectors double as scratch (`delta_inv` is `delta_iter`, `delta_lb_inv` is `delta_iter_lb`
      and — sparse, scale_cost — also `delta_iter_cost`), and only their *heads* are rewritten at the end;
    * `n_lb`/`n_ub` are re-read from the data at every `scale_data`, so heads can grow over tails that were
      never refreshed.
-/
import PiqpModel.Data

namespace Piqp
variable {K : Type}

/-- numeric literals of the C++ source, as values of the scalar type -/
structure Consts (K : Type) where
  minScaling : K      -- 1e-4
  maxScaling : K      -- 1e4
  ruizEps : K         -- 1e-3
  piqpInf : K         -- PIQP_INF = 1e30
  posInf : K          -- std::numeric_limits<T>::infinity()
  machEps : K         -- std::numeric_limits<T>::epsilon()
  c0_95 : K
  c0_666 : K
  c1e12 : K
  c1e2 : K
  c1_5 : K
  c0_5 : K
  c0_1 : K
  c1e_4 : K
  c100 : K
  c10 : K

inductive PrecKind where
  | denseRuiz | sparseRuiz | identity
  deriving DecidableEq, Repr, Inhabited

structure Precond (K : Type) (n p m : Nat) where
  nlb : Nat
  nub : Nat
  c : K
  dx : Vec K n
  dy : Vec K p
  dz : Vec K m
  dlb : Vec K n
  dub : Vec K n
  cInv : K
  dxInv : Vec K n
  dyInv : Vec K p
  dzInv : Vec K m
  dlbInv : Vec K n
  dubInv : Vec K n

section
variable [Add K] [Sub K] [Mul K] [Div K] [Neg K] [Zero K] [One K] [LT K] [DecidableLT K] [NatCast K]
variable {n p m : Nat}

/-- `RuizEquilibration::init` -/
def Precond.init (d : Data K n p m) : Precond K n p m :=
  { nlb := d.lb.cnt, nub := d.ub.cnt, c := 1,
    dx := Vec.const n 1, dy := Vec.const p 1, dz := Vec.const m 1, dlb := Vec.const n 1, dub := Vec.const n 1,
    cInv := 1, dxInv := Vec.const n 1, dyInv := Vec.const p 1, dzInv := Vec.const m 1,
    dlbInv := Vec.const n 1, dubInv := Vec.const n 1 }

def limitScaling (cs : Consts K) (d : K) : K :=
  if d < cs.minScaling then 1 else if cs.maxScaling < d then cs.maxScaling else d

/-- head-only map: `v.head(cnt) = f`, tail untouched -/
def headMap (cnt : Nat) (v : Vec K n) (f : Fin n → K) : Vec K n :=
  Vector.ofFn fun i => if i.val < cnt then f i else v[i]

/-- inf-norm over the first `cnt` entries -/
def headInfNorm (cnt : Nat) (v : Vec K n) : K := Vec.headInfNorm cnt v

/-- symmetric scaling of the stored upper triangle: `P(i,j) *= a_i a_j` for `i ≤ j` -/
def scaleP (P : Mat K n n) (a : Vec K n) : Mat K n n :=
  Mat.ofFn fun i j => if i.val ≤ j.val then P[i][j] * a[i] * a[j] else P[i][j]

def scaleMat {r c : Nat} (M : Mat K r c) (a : Vec K r) (b : Vec K c) : Mat K r c :=
  Mat.ofFn fun i j => a[i] * M[i][j] * b[j]

def scaleAll {r c : Nat} (M : Mat K r c) (g : K) : Mat K r c := Mat.ofFn fun i j => M[i][j] * g

/-- `sc.head(cnt) *= dside.head(cnt); sc(j) *= dxv(idx j)` -/
def scaleBoxSc (b : BoxSide K n) (dside dxv : Vec K n) : Vec K n :=
  headMap b.cnt b.sc fun j => b.sc[j] * dside[j] * dxv[b.idx[j]]

/-- max |P(i,k)| over the symmetric column `k`, the way the code splits it:
    strictly-upper part of column `k` and row `k` from the diagonal on -/
def colMaxP (P : Mat K n n) (k : Fin n) : K :=
  let a := maxFin 0 n (fun i => if i.val < k.val then vabs P[i][k] else 0)
  let b := maxFin 0 n (fun j => if k.val ≤ j.val then vabs P[k][j] else 0)
  vmax a b

def rowInf {r c : Nat} (M : Mat K r c) (i : Fin r) : K := maxFin 0 c (fun j => vabs M[i][j])
def colInf {r c : Nat} (M : Mat K r c) (j : Fin c) : K := maxFin 0 r (fun i => vabs M[i][j])

/-- the loop `for k < cnt: acc(idx k) = max(acc(idx k), sc k)` -/
def bumpByBox (b : BoxSide K n) : (k : Nat) → Vec K n → Vec K n
  | 0, acc => acc
  | k + 1, acc =>
    let acc' := bumpByBox b k acc
    if h : k < n then
      if k < b.cnt then
        let j := b.idx[k]
        acc'.set j (vmax acc'[j] b.sc[k])
      else acc'
    else acc'

structure RuizState (K : Type) (n p m : Nat) where
  d : Data K n p m
  pre : Precond K n p m

/-- one pass of the Ruiz loop body -/
def ruizBody (kind : PrecKind) (sqrtF : K → K) (cs : Consts K) (scaleCost : Bool)
    (st : RuizState K n p m) : RuizState K n p m :=
  let d := st.d
  let pre := st.pre
  -- column norms of [P AT GT; A 0 0; G 0 0]
  let ix0 : Vec K n := Vector.ofFn fun k =>
    vmax (vmax (colMaxP d.P k) (if p = 0 then 0 else rowInf d.AT k)) (if m = 0 then 0 else rowInf d.GT k)
  let iy0 : Vec K p := Vector.ofFn fun k => colInf d.AT k
  let iz0 : Vec K m := Vector.ofFn fun k => colInf d.GT k
  let ix1 := bumpByBox d.ub n (bumpByBox d.lb n ix0)
  let ilb0 := headMap d.lb.cnt pre.dlbInv fun k => d.lb.sc[k]
  let iub0 := headMap d.ub.cnt pre.dubInv fun k => d.ub.sc[k]
  let fin (v : K) : K := 1 / sqrtF (limitScaling cs v)
  let ix : Vec K n := Vector.ofFn fun k => fin ix1[k]
  let iy : Vec K p := Vector.ofFn fun k => fin iy0[k]
  let iz : Vec K m := Vector.ofFn fun k => fin iz0[k]
  let ilb : Vec K n := Vector.ofFn fun k => fin ilb0[k]
  let iub : Vec K n := Vector.ofFn fun k => fin iub0[k]
  let P1 := scaleP d.P ix
  let c1 : Vec K n := Vector.ofFn fun k => d.c[k] * ix[k]
  let AT1 := scaleMat d.AT ix iy
  let GT1 := scaleMat d.GT ix iz
  let lb1 := { d.lb with sc := scaleBoxSc d.lb ilb ix }
  let ub1 := { d.ub with sc := scaleBoxSc d.ub iub ix }
  let pre1 : Precond K n p m :=
    { pre with dx := Vector.ofFn fun k => pre.dx[k] * ix[k],
               dy := Vector.ofFn fun k => pre.dy[k] * iy[k],
               dz := Vector.ofFn fun k => pre.dz[k] * iz[k],
               dlb := headMap d.lb.cnt pre.dlb fun k => pre.dlb[k] * ilb[k],
               dub := headMap d.ub.cnt pre.dub fun k => pre.dub[k] * iub[k],
               dxInv := ix, dyInv := iy, dzInv := iz, dlbInv := ilb, dubInv := iub }
  if scaleCost then
    let colmax : Vec K n := Vector.ofFn fun k => colMaxP P1 k
    let g0 := sumFin n (fun k => colmax[k]) / (n : K)
    let g1 := limitScaling cs g0
    let g2 := limitScaling cs (vmax g1 (Vec.infNorm c1))
    let gamma := 1 / g2
    let pre2 : Precond K n p m :=
      { pre1 with c := pre1.c * gamma,
                  dlbInv := if kind = .sparseRuiz then colmax else pre1.dlbInv }
    { d := { d with P := scaleAll P1 gamma, c := Vector.ofFn fun k => c1[k] * gamma,
                    AT := AT1, GT := GT1, lb := lb1, ub := ub1 },
      pre := pre2 }
  else
    { d := { d with P := P1, c := c1, AT := AT1, GT := GT1, lb := lb1, ub := ub1 }, pre := pre1 }

/-- loop condition: `max(‖1-δ_iter‖∞, ‖1-δ_iter_lb.head‖∞, ‖1-δ_iter_ub.head‖∞) > ε` -/
def ruizCond (cs : Consts K) (st : RuizState K n p m) : Bool :=
  let pre := st.pre
  let one (v : K) : K := 1 - v
  let a := vmax (vmax (maxFin 0 n fun i => vabs (one pre.dxInv[i])) (maxFin 0 p fun i => vabs (one pre.dyInv[i])))
              (maxFin 0 m fun i => vabs (one pre.dzInv[i]))
  let b := maxFinHead 0 st.d.lb.cnt n (fun i => vabs (one pre.dlbInv[i]))
  let c := maxFinHead 0 st.d.ub.cnt n (fun i => vabs (one pre.dubInv[i]))
  decide (cs.ruizEps < vmax (vmax a b) c)

def ruizLoop (kind : PrecKind) (sqrtF : K → K) (cs : Consts K) (scaleCost : Bool) :
    Nat → RuizState K n p m → RuizState K n p m
  | 0, st => st
  | fuel + 1, st =>
    if ruizCond cs st then
      -- the sparse variant clears delta_iter at the top of every pass (no observable effect: it is overwritten)
      ruizLoop kind sqrtF cs scaleCost fuel (ruizBody kind sqrtF cs scaleCost st)
    else st

/-- `scale_data(data, reuse_prev_scaling, scale_cost, max_iter)` -/
def Precond.scaleData (kind : PrecKind) (sqrtF : K → K) (cs : Consts K)
    (d : Data K n p m) (pre : Precond K n p m) (reuse scaleCost : Bool) (maxIter : Nat) :
    Data K n p m × Precond K n p m :=
  match kind with
  | .identity => (d, pre)
  | kind =>
    let pre0 := { pre with nlb := d.lb.cnt, nub := d.ub.cnt }
    let (d1, pre1) :=
      if !reuse then
        let zero (k : Nat) : Vec K k := Vec.const k 0
        let preI : Precond K n p m :=
          { pre0 with c := 1, dx := Vec.const n 1, dy := Vec.const p 1, dz := Vec.const m 1,
                      dlb := Vec.const n 1, dub := Vec.const n 1,
                      dxInv := zero n, dyInv := zero p, dzInv := zero m,
                      dlbInv := if kind = .denseRuiz then zero n else pre0.dlbInv,
                      dubInv := if kind = .denseRuiz then zero n else pre0.dubInv }
        let st := ruizLoop kind sqrtF cs scaleCost maxIter { d := d, pre := preI }
        let pr := st.pre
        (st.d, { pr with cInv := 1 / pr.c,
                         dxInv := Vector.ofFn fun k => 1 / pr.dx[k],
                         dyInv := Vector.ofFn fun k => 1 / pr.dy[k],
                         dzInv := Vector.ofFn fun k => 1 / pr.dz[k],
                         -- full length (fix db8b486): the scratch content never survives `scale_data`
                         dlbInv := Vector.ofFn fun k => 1 / pr.dlb[k],
                         dubInv := Vector.ofFn fun k => 1 / pr.dub[k] })
      else
        let P1 := scaleP (scaleAll d.P pre0.c) pre0.dx
        ({ d with P := P1, c := Vector.ofFn fun k => d.c[k] * (pre0.c * pre0.dx[k]),
                  AT := scaleMat d.AT pre0.dx pre0.dy, GT := scaleMat d.GT pre0.dx pre0.dz,
                  lb := { d.lb with sc := scaleBoxSc d.lb pre0.dlb pre0.dx },
                  ub := { d.ub with sc := scaleBoxSc d.ub pre0.dub pre0.dx } }, pre0)
    -- scale bounds
    ({ d1 with b := Vector.ofFn fun k => d1.b[k] * pre1.dy[k],
               h := Vector.ofFn fun k => d1.h[k] * pre1.dz[k],
               lb := { d1.lb with val := headMap d1.lb.cnt d1.lb.val fun k => d1.lb.val[k] * pre1.dlb[k] },
               ub := { d1.ub with val := headMap d1.ub.cnt d1.ub.val fun k => d1.ub.val[k] * pre1.dub[k] } }, pre1)

/-- `unscale_data(data)`: uses the preconditioner's own `n_lb`, `n_ub` -/
def Precond.unscaleData (kind : PrecKind) (d : Data K n p m) (pre : Precond K n p m) : Data K n p m :=
  match kind with
  | .identity => d
  | _ =>
    let lbA : BoxSide K n := { d.lb with cnt := pre.nlb }
    let ubA : BoxSide K n := { d.ub with cnt := pre.nub }
    { d with P := scaleP (scaleAll d.P pre.cInv) pre.dxInv,
             c := Vector.ofFn fun k => d.c[k] * (pre.cInv * pre.dxInv[k]),
             AT := scaleMat d.AT pre.dxInv pre.dyInv, GT := scaleMat d.GT pre.dxInv pre.dzInv,
             b := Vector.ofFn fun k => d.b[k] * pre.dyInv[k],
             h := Vector.ofFn fun k => d.h[k] * pre.dzInv[k],
             lb := { d.lb with sc := scaleBoxSc lbA pre.dlbInv pre.dxInv,
                               val := headMap pre.nlb d.lb.val fun k => d.lb.val[k] * pre.dlbInv[k] },
             ub := { d.ub with sc := scaleBoxSc ubA pre.dubInv pre.dxInv,
                               val := headMap pre.nub d.ub.val fun k => d.ub.val[k] * pre.dubInv[k] } }

/-! the scale_* / unscale_* family (identity preconditioner: `kind = .identity` returns the argument) -/

def Precond.unscaleCost (kind : PrecKind) (pre : Precond K n p m) (v : K) : K :=
  if kind = .identity then v else pre.cInv * v
def Precond.scaleCost (kind : PrecKind) (pre : Precond K n p m) (v : K) : K :=
  if kind = .identity then v else pre.c * v

def Precond.unscalePrimal (kind : PrecKind) (pre : Precond K n p m) (x : Vec K n) : Vec K n :=
  if kind = .identity then x else Vector.ofFn fun i => x[i] * pre.dx[i]
def Precond.scalePrimal (kind : PrecKind) (pre : Precond K n p m) (x : Vec K n) : Vec K n :=
  if kind = .identity then x else Vector.ofFn fun i => x[i] * pre.dxInv[i]

def Precond.unscaleDualEq (kind : PrecKind) (pre : Precond K n p m) (y : Vec K p) : Vec K p :=
  if kind = .identity then y else Vector.ofFn fun i => y[i] * pre.cInv * pre.dy[i]
def Precond.scaleDualEq (kind : PrecKind) (pre : Precond K n p m) (y : Vec K p) : Vec K p :=
  if kind = .identity then y else Vector.ofFn fun i => y[i] * pre.c * pre.dyInv[i]

def Precond.unscaleDualIneq (kind : PrecKind) (pre : Precond K n p m) (z : Vec K m) : Vec K m :=
  if kind = .identity then z else Vector.ofFn fun i => z[i] * pre.cInv * pre.dz[i]
def Precond.scaleDualIneq (kind : PrecKind) (pre : Precond K n p m) (z : Vec K m) : Vec K m :=
  if kind = .identity then z else Vector.ofFn fun i => z[i] * pre.c * pre.dzInv[i]

/-- head-only (`head(n_lb)`) versions return the head transformed and the tail as it was -/
def Precond.unscaleDualLb (kind : PrecKind) (pre : Precond K n p m) (z : Vec K n) : Vec K n :=
  if kind = .identity then z else headMap pre.nlb z fun i => z[i] * pre.cInv * pre.dlb[i]
def Precond.scaleDualLb (kind : PrecKind) (pre : Precond K n p m) (z : Vec K n) : Vec K n :=
  if kind = .identity then z else headMap pre.nlb z fun i => z[i] * pre.c * pre.dlbInv[i]
def Precond.unscaleDualUb (kind : PrecKind) (pre : Precond K n p m) (z : Vec K n) : Vec K n :=
  if kind = .identity then z else headMap pre.nub z fun i => z[i] * pre.cInv * pre.dub[i]
def Precond.scaleDualUb (kind : PrecKind) (pre : Precond K n p m) (z : Vec K n) : Vec K n :=
  if kind = .identity then z else headMap pre.nub z fun i => z[i] * pre.c * pre.dubInv[i]

def Precond.unscaleSlackIneq (kind : PrecKind) (pre : Precond K n p m) (s : Vec K m) : Vec K m :=
  if kind = .identity then s else Vector.ofFn fun i => s[i] * pre.dzInv[i]
def Precond.scaleSlackIneq (kind : PrecKind) (pre : Precond K n p m) (s : Vec K m) : Vec K m :=
  if kind = .identity then s else Vector.ofFn fun i => s[i] * pre.dz[i]
def Precond.unscaleSlackLb (kind : PrecKind) (pre : Precond K n p m) (s : Vec K n) : Vec K n :=
  if kind = .identity then s else headMap pre.nlb s fun i => s[i] * pre.dlbInv[i]
def Precond.scaleSlackLb (kind : PrecKind) (pre : Precond K n p m) (s : Vec K n) : Vec K n :=
  if kind = .identity then s else headMap pre.nlb s fun i => s[i] * pre.dlb[i]
def Precond.unscaleSlackUb (kind : PrecKind) (pre : Precond K n p m) (s : Vec K n) : Vec K n :=
  if kind = .identity then s else headMap pre.nub s fun i => s[i] * pre.dubInv[i]
def Precond.scaleSlackUb (kind : PrecKind) (pre : Precond K n p m) (s : Vec K n) : Vec K n :=
  if kind = .identity then s else headMap pre.nub s fun i => s[i] * pre.dub[i]

def Precond.unscalePrimalResEq (kind : PrecKind) (pre : Precond K n p m) (r : Vec K p) : Vec K p :=
  if kind = .identity then r else Vector.ofFn fun i => r[i] * pre.dyInv[i]
def Precond.scalePrimalResEq (kind : PrecKind) (pre : Precond K n p m) (r : Vec K p) : Vec K p :=
  if kind = .identity then r else Vector.ofFn fun i => r[i] * pre.dy[i]
def Precond.unscalePrimalResIneq (kind : PrecKind) (pre : Precond K n p m) (r : Vec K m) : Vec K m :=
  if kind = .identity then r else Vector.ofFn fun i => r[i] * pre.dzInv[i]
def Precond.scalePrimalResIneq (kind : PrecKind) (pre : Precond K n p m) (r : Vec K m) : Vec K m :=
  if kind = .identity then r else Vector.ofFn fun i => r[i] * pre.dz[i]
def Precond.unscalePrimalResLb (kind : PrecKind) (pre : Precond K n p m) (r : Vec K n) : Vec K n :=
  if kind = .identity then r else headMap pre.nlb r fun i => r[i] * pre.dlbInv[i]
def Precond.scalePrimalResLb (kind : PrecKind) (pre : Precond K n p m) (r : Vec K n) : Vec K n :=
  if kind = .identity then r else headMap pre.nlb r fun i => r[i] * pre.dlb[i]
def Precond.unscalePrimalResUb (kind : PrecKind) (pre : Precond K n p m) (r : Vec K n) : Vec K n :=
  if kind = .identity then r else headMap pre.nub r fun i => r[i] * pre.dubInv[i]
def Precond.scalePrimalResUb (kind : PrecKind) (pre : Precond K n p m) (r : Vec K n) : Vec K n :=
  if kind = .identity then r else headMap pre.nub r fun i => r[i] * pre.dub[i]

def Precond.unscaleDualRes (kind : PrecKind) (pre : Precond K n p m) (r : Vec K n) : Vec K n :=
  if kind = .identity then r else Vector.ofFn fun i => r[i] * pre.cInv * pre.dxInv[i]
def Precond.scaleDualRes (kind : PrecKind) (pre : Precond K n p m) (r : Vec K n) : Vec K n :=
  if kind = .identity then r else Vector.ofFn fun i => r[i] * pre.c * pre.dx[i]

end
end Piqp
