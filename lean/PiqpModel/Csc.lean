/-
  Compressed sparse column storage and the storage-level kernels of include/piqp/sparse/utils.hpp, written loop by loop as
  the C++ does (index arithmetic on the three arrays), so that the theorems of PiqpProofs/Properties/C14.lean about them are
  statements about the *storage* algorithm and not about its dense denotation:

  * `preMultDiag`  : `pre_mult_diagonal`   (A ← D·A, every stored value times the diagonal entry of its row)
  * `postMultDiag` : `post_mult_diagonal`  (A ← A·D, every stored value times the diagonal entry of its column)
  * `transposeInto`: `transpose_no_allocation` (C ← Aᵀ re-using the arrays of `C`, whose pattern must already be that of
                     `Aᵀ`; the outer-index array of `C` is used as a cursor and shifted back afterwards)

  `Csc.get` is the dense denotation (sum of the stored entries of column `j` whose row index is `i`).
-/
import PiqpModel.Scalar

namespace Piqp

structure Csc (K : Type) where
  rows : Nat
  cols : Nat
  /-- `cols + 1` column starts (`outerIndexPtr`) -/
  outer : Array Nat
  /-- row index of every stored entry (`innerIndexPtr`) -/
  inner : Array Nat
  /-- stored values (`valuePtr`) -/
  vals : Array K

namespace Csc
variable {K : Type}

/-- the positions `outer[j] … outer[j+1]-1` of column `j` -/
def colRange (A : Csc K) (j : Nat) : List Nat :=
  List.range' (A.outer.getD j 0) (A.outer.getD (j + 1) 0 - A.outer.getD j 0)

/-- dense denotation: the sum of the stored entries of column `j` with row index `i` (Eigen sums duplicates) -/
def get [Add K] [Zero K] (A : Csc K) (i j : Nat) : K :=
  (A.colRange j).foldl (fun acc k => if A.inner.getD k 0 = i then acc + A.vals.getD k 0 else acc) 0

/-- compressed, column by column with increasing rows, from `r*c` optional entries in row-major order
    (what `setFromTriplets` + `makeCompressed` produce from the harness' raw matrix) -/
def ofOpt (r c : Nat) (ent : Array (Option K)) : Csc K :=
  let step (acc : Array Nat × Array Nat × Array K) (j : Nat) : Array Nat × Array Nat × Array K :=
    let col := (List.range r).foldl (fun (a : Array Nat × Array K) i =>
      match ent.getD (i * c + j) none with
      | some v => (a.1.push i, a.2.push v)
      | none => a) (acc.2.1, acc.2.2)
    (acc.1.push col.1.size, col.1, col.2)
  let res := (List.range c).foldl step (#[0], #[], #[])
  { rows := r, cols := c, outer := res.1, inner := res.2.1, vals := res.2.2 }

/-- `pre_mult_diagonal`: for every column, for every stored entry, `value *= diag(row)` -/
def preMultDiag [Mul K] [Zero K] (A : Csc K) (diag : Array K) : Csc K :=
  { A with vals := (List.range A.cols).foldl (fun v j =>
      (A.colRange j).foldl (fun v k => v.modify k (fun x => x * diag.getD (A.inner.getD k 0) 0)) v) A.vals }

/-- `post_mult_diagonal`: for every column `j`, the `outer[j+1]-outer[j]` values starting at `outer[j]` times `diag(j)` -/
def postMultDiag [Mul K] [Zero K] (A : Csc K) (diag : Array K) : Csc K :=
  { A with vals := (List.range A.cols).foldl (fun v j =>
      (A.colRange j).foldl (fun v k => v.modify k (fun x => x * diag.getD j 0)) v) A.vals }

/-- `transpose_no_allocation(A, C)`: the arrays of `C` are overwritten in place; `C.outer[i]` serves as the write cursor of
    column `i` of `C` and is shifted back at the end -/
def transposeInto [Zero K] (A C : Csc K) : Csc K :=
  let body (st : Array Nat × Array Nat × Array K) (j : Nat) : Array Nat × Array Nat × Array K :=
    (A.colRange j).foldl (fun st k =>
      let i := A.inner.getD k 0
      let q := st.1.getD i 0
      (st.1.modify i (· + 1), st.2.1.setIfInBounds q j, st.2.2.setIfInBounds q (A.vals.getD k 0))) st
  let st := (List.range A.cols).foldl body (C.outer, C.inner, C.vals)
  -- revert the outer index: for j = m-1 … 1: outer[j] = outer[j-1]; outer[0] = 0
  let m := A.rows
  let out1 := (List.range (m - 1)).foldl (fun o t => let j := m - 1 - t; o.setIfInBounds j (o.getD (j - 1) 0)) st.1
  let out2 := out1.setIfInBounds 0 0
  { C with outer := out2, inner := st.2.1, vals := st.2.2 }


/-- the binary search of `is_transpose_pattern`: first position in `[lo, hi)` whose row index is not below `j` -/
def bsearch (inner : Array Nat) (j lo hi : Nat) : Nat :=
  if h : lo < hi then
    let mid := lo + (hi - lo) / 2
    if inner.getD mid 0 < j then bsearch inner j (mid + 1) hi else bsearch inner j lo mid
  else lo
termination_by hi - lo
decreasing_by
  all_goals simp_wf
  · omega
  · have : (hi - lo) / 2 < hi - lo := Nat.div_lt_self (by omega) (by omega)
    omega

/-- `is_transpose_pattern(A, C)`: dimensions and entry counts agree, every column of `A` has strictly increasing rows, and every
    stored entry `(i, j)` of `A` is found (binary search) as row `j` in column `i` of `C` -/
def isTransposePattern (A C : Csc K) : Bool :=
  if A.cols ≠ C.rows || A.rows ≠ C.cols || A.outer.getD A.cols 0 ≠ C.outer.getD C.cols 0 then false
  else
    (List.range A.cols).all fun j =>
      (A.colRange j).all fun k =>
        let i := A.inner.getD k 0
        !(decide (A.outer.getD j 0 < k) && decide (i ≤ A.inner.getD (k - 1) 0)) &&
        (let lo := bsearch C.inner j (C.outer.getD i 0) (C.outer.getD (i + 1) 0)
         !(lo == C.outer.getD (i + 1) 0 || C.inner.getD lo 0 != j))

/-- `permute_sparse_symmetric_matrix(A, C, ordering)`: `C = A(p,p)` (upper triangle in, upper triangle out) in two bucket passes;
    `pinv` is `ordering.inv`.  Returns `C` and the map from the value slots of `A` to those of `C` (`Ai_to_Ci`; slots of `A` below
    the diagonal keep the initial value, the C++ leaves them unwritten). -/
def permuteSym [Zero K] (A : Csc K) (pinv : Array Nat) : Csc K × Array Nat :=
  let n := A.rows
  let upper (j : Nat) : List Nat := (A.colRange j).filter fun k => A.inner.getD k 0 ≤ j
  -- 1st pass: count the entries of each column of CT (lower triangle of the permuted matrix, by min(i2, j2))
  let w := (List.range n).foldl (fun (w : Array Nat) j =>
    let j2 := pinv.getD j 0
    (upper j).foldl (fun w k => let i2 := pinv.getD (A.inner.getD k 0) 0; w.modify (if i2 < j2 then i2 else j2) (· + 1)) w) (Array.replicate n 0)
  let ctOuter := (List.range n).foldl (fun (o : Array Nat) i => o.push (o.getD i 0 + w.getD i 0)) #[0]
  let tot := ctOuter.getD n 0
  let w := ctOuter.extract 0 n
  let st := (List.range n).foldl (fun (st : Array Nat × Array Nat × Array K × Array Nat) j =>
    let j2 := pinv.getD j 0
    (upper j).foldl (fun st k =>
      let (w, inn, vl, back) := st
      let i2 := pinv.getD (A.inner.getD k 0) 0
      let col := if i2 < j2 then i2 else j2
      let q := w.getD col 0
      (w.modify col (· + 1), inn.setIfInBounds q (if i2 > j2 then i2 else j2), vl.setIfInBounds q (A.vals.getD k 0), back.setIfInBounds q k)) st)
    (w, Array.replicate tot 0, Array.replicate tot 0, Array.replicate tot 0)
  let ctInner := st.2.1
  let ctVals := st.2.2.1
  let ctBack := st.2.2.2
  -- 2nd pass: transpose CT into C (upper triangle, rows sorted)
  let cnt := (List.range tot).foldl (fun (c : Array Nat) k => c.modify (ctInner.getD k 0) (· + 1)) (Array.replicate n 0)
  let cOuter := (List.range n).foldl (fun (o : Array Nat) j => o.push (o.getD j 0 + cnt.getD j 0)) #[0]
  let w2 := cOuter.extract 0 n
  let st2 := (List.range n).foldl (fun (st : Array Nat × Array Nat × Array K × Array Nat) j =>
    (List.range' (ctOuter.getD j 0) (ctOuter.getD (j + 1) 0 - ctOuter.getD j 0)).foldl (fun st k =>
      let (w, inn, vl, map) := st
      let i := ctInner.getD k 0
      let q := w.getD i 0
      (w.modify i (· + 1), inn.setIfInBounds q j, vl.setIfInBounds q (ctVals.getD k 0), map.setIfInBounds (ctBack.getD k 0) q)) st)
    (w2, Array.replicate tot 0, Array.replicate tot 0, Array.replicate (A.outer.getD A.cols 0) 0)
  ({ rows := n, cols := n, outer := cOuter, inner := st2.2.1, vals := st2.2.2.1 }, st2.2.2.2)

end Csc
end Piqp
