/-
  Executable inner solvers for the KKT model: assemble the kept blocks into one `(n+p+m)²` matrix,
  permute it with the fill-reducing permutation the implementation used, and run the pivot-free
  factorisations of `LinAlg`.

  Eliminated blocks are replaced by decoupled identity rows (pivot 1, zero right-hand side): they do not
  interact with the kept part, so the pivots met for the kept part are exactly those of the smaller matrix
  the implementation factorises.  This keeps all sizes `n+p+m` and avoids dependent index arithmetic.
-/
import PiqpModel.KKT

namespace Piqp
variable {K : Type}

inductive Blk (n p m : Nat) where
  | x (i : Fin n) | y (i : Fin p) | z (i : Fin m)

def Blk.decode {n p m : Nat} (i : Fin (n + p + m)) : Blk n p m :=
  if h : i.val < n then .x ⟨i.val, h⟩
  else if h2 : i.val < n + p then .y ⟨i.val - n, by omega⟩
  else .z ⟨i.val - n - p, by omega⟩

section
variable [Add K] [Sub K] [Mul K] [Div K] [Neg K] [Zero K] [One K]
variable {n p m : Nat}

/-- the assembled symmetric reduced matrix (identity on eliminated blocks) -/
def assemble (be : Backend) (kb : KBlocks K n p m) : Mat K (n + p + m) (n + p + m) :=
  Mat.ofFn fun i j =>
    match Blk.decode i, Blk.decode j with
    | .x a, .x b => kb.xx[a][b]
    | .x a, .y b => if be.keepY then kb.xy[a][b] else 0
    | .y a, .x b => if be.keepY then kb.xy[b][a] else 0
    | .x a, .z b => if be.keepZ then kb.xz[a][b] else 0
    | .z a, .x b => if be.keepZ then kb.xz[b][a] else 0
    | .y a, .y b => if a = b then (if be.keepY then kb.yy[a] else 1) else 0
    | .z a, .z b => if a = b then (if be.keepZ then kb.zz[a] else 1) else 0
    | .y _, .z _ => 0
    | .z _, .y _ => 0

def assembleRhs (be : Backend) (rx : Vec K n) (ry : Vec K p) (rz : Vec K m) : Vec K (n + p + m) :=
  Vector.ofFn fun i =>
    match Blk.decode (n := n) (p := p) (m := m) i with
    | .x a => rx[a]
    | .y a => if be.keepY then ry[a] else 0
    | .z a => if be.keepZ then rz[a] else 0

def splitSol (v : Vec K (n + p + m)) : Vec K n × Vec K p × Vec K m :=
  (Vector.ofFn fun i => v[(⟨i.val, by omega⟩ : Fin (n + p + m))],
   Vector.ofFn fun i => v[(⟨n + i.val, by omega⟩ : Fin (n + p + m))],
   Vector.ofFn fun i => v[(⟨n + p + i.val, by omega⟩ : Fin (n + p + m))])

/-- forward substitution with a lower-triangular `L`; `unit = true` ignores the stored diagonal -/
def fwdSubst {N : Nat} (unit : Bool) (L : Mat K N N) (b : Vec K N) : Vec K N :=
  Fin.foldl N (fun y i =>
    let t := b[i] - sumFin N (fun j => if j.val < i.val then L[i][j] * y[j] else 0)
    y.set i (if unit then t else t / L[i][i])) b

/-- backward substitution with `Lᵀ` -/
def bwdSubst {N : Nat} (unit : Bool) (L : Mat K N N) (y : Vec K N) : Vec K N :=
  Fin.foldr N (fun i x =>
    let t := y[i] - sumFin N (fun j => if i.val < j.val then L[j][i] * x[j] else 0)
    x.set i (if unit then t else t / L[i][i])) y

/-- inner factorisation of the sparse back ends: LDLᵀ of `K(perm, perm)`, then `L⁻¹`, `D⁻¹`, `L⁻ᵀ` -/
def innerLDLT [BEq K] (be : Backend) (perm : Vector (Fin (n + p + m)) (n + p + m)) : Inner K n p m :=
  fun kb =>
    match ldlt (n + p + m) (permSym (assemble be kb) perm) with
    | .error _ => none
    | .ok (L, D) =>
      some fun rx ry rz =>
        splitSol (permtVec perm (solveLD (n + p + m) L D (permVec perm (assembleRhs be rx ry rz))))

/-- inner factorisation of the dense back end: LLᵀ of the `n × n` matrix (natural order, abstract sqrt) -/
def innerLLT [LE K] [DecidableLE K] (sqrtF : K → K) : Inner K n p m :=
  fun kb =>
    match llt sqrtF n kb.xx with
    | .error _ => none
    | .ok L =>
      some fun rx _ _ => (solveLL n L rx, Vector.ofFn fun _ => 0, Vector.ofFn fun _ => 0)

end
end Piqp
