/-
  `QQ`: exact rationals with `+∞`, `-∞` and `poison` tags.  Twin of the C++ scalar `Q`
  (/verif/harness/qscalar.hpp) that the real PIQP templates are instantiated with.

  Semantics shared by both sides (checked by the correspondence, not assumed):
    * default-constructed / never written  = poison
    * arithmetic with a poison or infinite operand = poison (negation keeps infinities)
    * division by zero = poison
    * every comparison involving poison is false; infinities order as usual
    * sqrt is a fixed rational function `sqrtQ k` (see below)
-/
import PiqpModel.Scalar

namespace Piqp

inductive QQ where
  | fin (r : Rat)
  | pinf
  | ninf
  | poison
  deriving Inhabited

namespace QQ

def bin (f : Rat → Rat → Rat) : QQ → QQ → QQ
  | fin a, fin b => fin (f a b)
  | _, _ => poison

instance : Add QQ := ⟨bin (· + ·)⟩
instance : Sub QQ := ⟨bin (· - ·)⟩
instance : Mul QQ := ⟨bin (· * ·)⟩
instance : Div QQ := ⟨fun a b => match a, b with
  | fin x, fin y => if y = 0 then poison else fin (x / y)
  | _, _ => poison⟩
instance : Neg QQ := ⟨fun a => match a with
  | fin x => fin (-x) | pinf => ninf | ninf => pinf | poison => poison⟩
instance : Zero QQ := ⟨fin 0⟩
instance : One QQ := ⟨fin 1⟩
instance : OfNat QQ n := ⟨fin (n : Rat)⟩
instance : NatCast QQ := ⟨fun n => fin (n : Rat)⟩

def ltB : QQ → QQ → Bool
  | fin a, fin b => decide (a < b)
  | fin _, pinf => true
  | ninf, fin _ => true
  | ninf, pinf => true
  | _, _ => false

def leB : QQ → QQ → Bool
  | fin a, fin b => decide (a ≤ b)
  | fin _, pinf => true
  | ninf, fin _ => true
  | ninf, pinf => true
  | pinf, pinf => true
  | ninf, ninf => true
  | _, _ => false

/-- `==` as the C++ scalar defines it (IEEE-like): unordered values are never equal -/
def eqB : QQ → QQ → Bool
  | fin a, fin b => decide (a = b)
  | pinf, pinf => true
  | ninf, ninf => true
  | _, _ => false

instance : BEq QQ := ⟨eqB⟩

instance : LT QQ := ⟨fun a b => ltB a b = true⟩
instance : LE QQ := ⟨fun a b => leB a b = true⟩
instance : DecidableLT QQ := fun a b => inferInstanceAs (Decidable (ltB a b = true))
instance : DecidableLE QQ := fun a b => inferInstanceAs (Decidable (leB a b = true))

def isPoison : QQ → Bool
  | poison => true
  | _ => false

def hexDigit (d : Nat) : Char :=
  if d < 10 then Char.ofNat (48 + d) else Char.ofNat (87 + d)

/-- exactly `digits` lower-case hex characters of `n < 16^digits` (zero padded), divide and conquer so that
    10⁵-digit numbers print in `n log n` instead of the quadratic time of `Nat.repr` -/
def hexPad (n : Nat) (digits : Nat) : String :=
  if h : digits ≤ 16 then
    String.ofList ((List.range digits).map fun k => hexDigit ((n >>> (4 * (digits - 1 - k))) % 16))
  else
    let lo := digits / 2
    let hi := digits - lo
    hexPad (n >>> (4 * lo)) hi ++ hexPad (n % (2 ^ (4 * lo))) lo
termination_by digits
decreasing_by all_goals omega

def natToHex (n : Nat) : String :=
  if n = 0 then "0" else
  let digits := Nat.log2 n / 4 + 1
  hexPad n digits

def intToHex (i : Int) : String :=
  if i < 0 then "-" ++ natToHex i.natAbs else natToHex i.natAbs

/-- rationals are printed in hexadecimal (`-1a/3f`), the format of `mpz_get_str(…, 16, …)` on the C++ side -/
def ratToString (r : Rat) : String :=
  if r.den = 1 then intToHex r.num else intToHex r.num ++ "/" ++ natToHex r.den

def toStr : QQ → String
  | fin r => ratToString r
  | pinf => "inf"
  | ninf => "-inf"
  | poison => "poison"

instance : ToString QQ := ⟨toStr⟩

def parseInt? (s : String) : Option Int :=
  if s.startsWith "-" then (s.drop 1).toNat?.map (fun n => -(n : Int))
  else s.toNat?.map (fun n => (n : Int))

def parse? (s : String) : Option QQ :=
  if s = "inf" then some pinf
  else if s = "-inf" then some ninf
  else if s = "poison" then some poison
  else match s.splitOn "/" with
    | [a] => (parseInt? a).map (fun i => fin (i : Rat))
    | [a, b] => do
        let i ← parseInt? a
        let d ← b.toNat?
        if d = 0 then none else some (fin ((i : Rat) / (d : Rat)))
    | _ => none

/-- floor square root by Newton iteration from above, started at a power of two `≥ √n`
    (core `Nat.sqrt` starts at `n/2` and needs `log n` steps, which is too slow for 10⁵-digit arguments).
    Fuel `log2 n + 2` is more than the quadratic convergence needs. -/
def isqrt (n : Nat) : Nat :=
  if n ≤ 1 then n else
  let rec go (fuel g : Nat) : Nat :=
    match fuel with
    | 0 => g
    | fuel + 1 =>
      let next := (g + n / g) / 2
      if next < g then go fuel next else g
  go (Nat.log2 n + 2) (2 ^ (Nat.log2 n / 2 + 1))

/-- The shared rational square root.  Mode `k ≥ 0`: `⌊√(a·b·4ᵏ)⌋ / (b·2ᵏ)` for `a/b ≥ 0`
    (so the result is within `2⁻ᵏ/b`-ish of the true root and exact on perfect squares of dyadics
    when `k` is large enough).  Negative argument, infinities and poison give poison. -/
def sqrtK (k : Nat) : QQ → QQ
  | fin r =>
    if r < 0 then poison
    else
      let a : Nat := r.num.toNat
      let b : Nat := r.den
      fin ((isqrt (a * b * 4 ^ k) : Rat) / ((b * 2 ^ k : Nat) : Rat))
  | _ => poison

/-- power-of-two mode: `2^e` with `e` the largest integer such that `4^e ≤ x`; `sqrt 0 = 0`. -/
def sqrtPow2 : QQ → QQ
  | fin r =>
    if r < 0 then poison
    else if r = 0 then fin 0
    else
      let a : Nat := r.num.toNat
      let b : Nat := r.den
      if b ≤ a then
        let e := Nat.log2 (a / b) / 2
        fin ((2 ^ e : Nat) : Rat)
      else
        -- smallest f ≥ 1 with 4^f * a ≥ b
        let rec go (fuel f : Nat) : Nat :=
          match fuel with
          | 0 => f
          | fuel + 1 => if 4 ^ f * a < b then go fuel (f + 1) else f
        let f := go (Nat.log2 b + 2) 1
        fin (1 / ((2 ^ f : Nat) : Rat))
  | _ => poison

/-- sqrt selected by the harness-wide mode: `k ≥ 0` → `sqrtK k`, negative → `sqrtPow2` -/
def sqrtMode (mode : Int) (x : QQ) : QQ :=
  if mode < 0 then sqrtPow2 x else sqrtK mode.toNat x

end QQ
end Piqp
