/-
  Scalar layer of the PIQP model.

  Every model function is written over an arbitrary scalar type `K` that is
  only assumed to carry the operations the C++ template parameter `T` needs.
  The same definitions are
    * reasoned about with `K` a `Field` + `LinearOrder` (files under PiqpProofs/),
    * executed with `K = QQ` (exact rationals with ±∞ / poison tags, the twin of the
      C++ scalar `Q` in /verif/harness/qscalar.hpp),
    * executed with `K = Float` for the scalar control skeleton only.

  No Mathlib import is allowed in this directory.
-/

namespace Piqp

universe u
variable {K : Type}

/-- `std::max(a, b)` is `(a < b) ? b : a`. -/
@[inline] def vmax [LT K] [DecidableLT K] (a b : K) : K := if a < b then b else a

/-- `std::min(a, b)` is `(b < a) ? b : a`. -/
@[inline] def vmin [LT K] [DecidableLT K] (a b : K) : K := if b < a then b else a

/-- `std::abs` / Eigen `abs` on a signed scalar. -/
@[inline] def vabs [LT K] [DecidableLT K] [Neg K] [Zero K] (a : K) : K := if a < 0 then -a else a

/-- Left-to-right sum of `f 0 … f (n-1)` (the order is irrelevant in exact arithmetic). -/
def sumFin [Add K] [Zero K] : (n : Nat) → (Fin n → K) → K
  | 0, _ => 0
  | n + 1, f => sumFin n (fun i => f i.castSucc) + f (Fin.last n)

/-- Left-to-right `vmax`-fold starting from `init` (Eigen's `maxCoeff`, `lpNorm<Infinity>` with `init = 0`). -/
def maxFin [LT K] [DecidableLT K] (init : K) : (n : Nat) → (Fin n → K) → K
  | 0, _ => init
  | n + 1, f => vmax (maxFin init n (fun i => f i.castSucc)) (f (Fin.last n))

/-- Left-to-right `vmin`-fold starting from `init`. -/
def minFin [LT K] [DecidableLT K] (init : K) : (n : Nat) → (Fin n → K) → K
  | 0, _ => init
  | n + 1, f => vmin (minFin init n (fun i => f i.castSucc)) (f (Fin.last n))

/-- `vmax`-fold of `f 0 … f (cnt-1)` only (loops `for i < n_lb`), starting from `init`. -/
def maxFinHead [LT K] [DecidableLT K] (init : K) (cnt : Nat) : (n : Nat) → (Fin n → K) → K
  | 0, _ => init
  | n + 1, f =>
    let acc := maxFinHead init cnt n (fun i => f i.castSucc)
    if n < cnt then vmax acc (f (Fin.last n)) else acc

abbrev Vec (K : Type) (n : Nat) := Vector K n
abbrev Mat (K : Type) (m n : Nat) := Vector (Vector K n) m

namespace Vec
variable {n m : Nat}

@[inline] def ofFn (f : Fin n → K) : Vec K n := Vector.ofFn f
@[inline] def const (n : Nat) (a : K) : Vec K n := Vector.replicate n a

/-- infinity norm, `v.lpNorm<Eigen::Infinity>()` = `cwiseAbs().maxCoeff()`: the reduction starts from the
    first element (this matters only for unordered values such as NaN/poison); `0` for an empty vector. -/
def infNorm [LT K] [DecidableLT K] [Neg K] [Zero K] (v : Vec K n) : K :=
  if h : 0 < n then
    let init := vabs v[0]
    maxFin init n (fun i => if i.val = 0 then init else vabs v[i])
  else 0

/-- `v.head(cnt).lpNorm<Eigen::Infinity>()` -/
def headInfNorm [LT K] [DecidableLT K] [Neg K] [Zero K] (cnt : Nat) (v : Vec K n) : K :=
  if h : 0 < n ∧ 0 < cnt then
    let init := vabs (v[0]'h.1)
    maxFin init n (fun i => if i.val = 0 ∨ cnt ≤ i.val then init else vabs v[i])
  else 0

def dot [Add K] [Mul K] [Zero K] (a b : Vec K n) : K := sumFin n (fun i => a[i] * b[i])
def sum [Add K] [Zero K] (a : Vec K n) : K := sumFin n (fun i => a[i])

end Vec

namespace Mat
variable {n m : Nat}

@[inline] def ofFn (f : Fin m → Fin n → K) : Mat K m n := Vector.ofFn fun i => Vector.ofFn fun j => f i j

/-- `A * x` -/
def mulVec [Add K] [Mul K] [Zero K] (A : Mat K m n) (x : Vec K n) : Vec K m :=
  Vector.ofFn fun i => sumFin n (fun j => A[i][j] * x[j])

/-- `Aᵀ * y` -/
def mulVecT [Add K] [Mul K] [Zero K] (A : Mat K m n) (y : Vec K m) : Vec K n :=
  Vector.ofFn fun j => sumFin m (fun i => A[i][j] * y[i])

def transpose (A : Mat K m n) : Mat K n m := Mat.ofFn fun j i => A[i][j]

end Mat

end Piqp
