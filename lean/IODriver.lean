/-
IODriver.lean — executable side of the C20 model (PiqpModel/IO.lean), same line protocol as harness/hio.cpp.
Run:  cd /verif/lean && lake env lean --run IODriver.lean < cases.txt

  case NAME
  dmat F rows cols v*             dense matrix field (column-major 16-digit hex bit patterns)
  dvec F n v*                     vector field
  smat F rows cols nnz jc* ir* v* sparse CSC field
  unc F                           (harness only: Eigen uncompressed storage of the same logical matrix) — no-op here
  save dense|sparse               store := saveDense / saveSparse model store
  del F                           store := store.delete F
  raw3 F                          store := store.write F (.other .rankNot2)
  load dense|sparse               loadDenseFull / loadSparseFull store; prints the predicted model and std::cout lines
  layout                          prints the predicted store: names in file order, kinds, dims, njc/nir/ndata, contents
  names                           prints the four literal field-name sequences of the model
-/
import PiqpModel.IO
open Piqp.IO

abbrev Tok := UInt64

def hexDigit (c : Char) : Option Nat :=
  if '0' ≤ c ∧ c ≤ '9' then some (c.toNat - '0'.toNat)
  else if 'a' ≤ c ∧ c ≤ 'f' then some (c.toNat - 'a'.toNat + 10)
  else if 'A' ≤ c ∧ c ≤ 'F' then some (c.toNat - 'A'.toNat + 10)
  else none

def parseHex (s : String) : Option Tok :=
  if s.isEmpty then none else
  (s.toList.foldl (fun acc c => do let a ← acc; let d ← hexDigit c; pure (a * 16 + d)) (some 0)).map UInt64.ofNat

def hex16 (v : Tok) : String :=
  let ds := Nat.toDigits 16 v.toNat
  String.ofList (List.replicate (16 - ds.length) '0' ++ ds)

def parseAll {β : Type} (f : String → Option β) (l : List String) : Option (List β) :=
  l.foldr (fun s acc => do let x ← f s; let r ← acc; pure (x :: r)) (some [])

def joinToks (l : List String) : String := " ".intercalate l

structure St where
  dm : List (String × DMat Tok) := []
  dv : List (String × DVec Tok) := []
  sm : List (String × SMat Tok) := []
  store : Store Tok := []

def put {β : Type} (l : List (String × β)) (k : String) (v : β) : List (String × β) :=
  (k, v) :: l.filter (fun e => e.1 != k)

def showDMat (f : String) (M : DMat Tok) : String :=
  joinToks (["dmat", f, toString M.rows, toString M.cols] ++ M.data.map hex16)

def showDVec (f : String) (v : DVec Tok) : String :=
  joinToks (["dvec", f, toString v.length] ++ v.map hex16)

def showSMat (f : String) (M : SMat Tok) : String :=
  joinToks (["smat", f, toString M.rows, toString M.cols, toString M.ir.length]
    ++ M.jc.map toString ++ M.ir.map toString ++ M.data.map hex16)

def showVar (name : String) : MatVar Tok → String
  | .dense r c d => joinToks (["var", name, "dense", toString r, toString c] ++ d.map hex16)
  | .sparse r c jc ir d =>
    joinToks (["var", name, "sparse", toString r, toString c, "njc", toString jc.length, "nir", toString ir.length,
      "ndata", toString d.length] ++ jc.map toString ++ ir.map toString ++ d.map hex16)
  | .other _ => joinToks ["var", name, "other"]

def showNames (tag : String) (f : FieldNames) : String := joinToks (["names", tag] ++ f.toList)

def step (st : St) (toks : List String) : St × List String :=
  match toks with
  | [] => (st, [])
  | "case" :: rest => ({}, [joinToks ("case" :: rest)])
  | "dmat" :: f :: r :: c :: vals =>
    match r.toNat?, c.toNat?, parseAll parseHex vals with
    | some r, some c, some d =>
      if d.length = r * c then ({ st with dm := put st.dm f ⟨r, c, d⟩ }, []) else (st, ["error dmat count"])
    | _, _, _ => (st, ["error dmat args"])
  | "dvec" :: f :: n :: vals =>
    match n.toNat?, parseAll parseHex vals with
    | some n, some d => if d.length = n then ({ st with dv := put st.dv f d }, []) else (st, ["error dvec count"])
    | _, _ => (st, ["error dvec args"])
  | "smat" :: f :: r :: c :: nnz :: rest =>
    match r.toNat?, c.toNat?, nnz.toNat? with
    | some r, some c, some nnz =>
      if rest.length = (c + 1) + 2 * nnz then
        match parseAll String.toNat? (rest.take (c + 1)), parseAll String.toNat? ((rest.drop (c + 1)).take nnz),
              parseAll parseHex (rest.drop (c + 1 + nnz)) with
        | some jc, some ir, some d => ({ st with sm := put st.sm f ⟨r, c, jc, ir, d⟩ }, [])
        | _, _, _ => (st, ["error smat values"])
      else (st, ["error smat count"])
    | _, _, _ => (st, ["error smat args"])
  | ["unc", f] => if (st.sm.lookup f).isSome then (st, []) else (st, ["error unc field"])
  | ["save", "dense"] =>
    match st.dm.lookup "P", st.dv.lookup "c", st.dm.lookup "A", st.dv.lookup "b", st.dm.lookup "G", st.dv.lookup "h",
          st.dv.lookup "x_lb", st.dv.lookup "x_ub" with
    | some P, some c, some A, some b, some G, some h, some xl, some xu =>
      ({ st with store := saveDense ⟨P, c, A, b, G, h, xl, xu⟩ st.store }, ["saved dense"])
    | _, _, _, _, _, _, _, _ => (st, ["error save dense: fields missing"])
  | ["save", _] =>
    match st.sm.lookup "P", st.dv.lookup "c", st.sm.lookup "A", st.dv.lookup "b", st.sm.lookup "G", st.dv.lookup "h",
          st.dv.lookup "x_lb", st.dv.lookup "x_ub" with
    | some P, some c, some A, some b, some G, some h, some xl, some xu =>
      ({ st with store := saveSparse ⟨P, c, A, b, G, h, xl, xu⟩ st.store }, ["saved sparse"])
    | _, _, _, _, _, _, _, _ => (st, ["error save sparse: fields missing"])
  | ["del", f] => ({ st with store := st.store.delete f }, [])
  | ["raw3", f] => ({ st with store := st.store.write f (.other .rankNot2) }, [])
  | ["load", "dense"] =>
    match loadDenseFull st.store with
    | none => (st, ["abort"])
    | some (m, msgs) =>
      (st, ["loaded dense"] ++ msgs.map ("cout " ++ ·) ++
        [showDMat "P" m.P, showDVec "c" m.c, showDMat "A" m.A, showDVec "b" m.b, showDMat "G" m.G, showDVec "h" m.h,
         showDVec "x_lb" m.x_lb, showDVec "x_ub" m.x_ub])
  | ["load", _] =>
    match loadSparseFull st.store with
    | none => (st, ["abort"])
    | some (m, msgs) =>
      (st, ["loaded sparse"] ++ msgs.map ("cout " ++ ·) ++
        [showSMat "P" m.P, showDVec "c" m.c, showSMat "A" m.A, showDVec "b" m.b, showSMat "G" m.G, showDVec "h" m.h,
         showDVec "x_lb" m.x_lb, showDVec "x_ub" m.x_ub])
  | ["layout"] => (st, ("layout " ++ toString st.store.length) :: st.store.map (fun e => showVar e.1 e.2))
  | ["names"] =>
    (st, [showNames "save_dense" saveDenseNames, showNames "save_sparse" saveSparseNames,
          showNames "load_dense" loadDenseNames, showNames "load_sparse" loadSparseNames])
  | cmd :: _ => if cmd.startsWith "#" then (st, []) else (st, ["error unknown command " ++ cmd])

partial def loop (hin hout : IO.FS.Stream) (st : St) : IO Unit := do
  let line ← hin.getLine
  if line.isEmpty then return ()
  let toks := (line.splitOn " ").map (fun t => (t.replace "\n" "").replace "\r" "") |>.filter (· ≠ "")
  let (st', outs) := step st toks
  for o in outs do hout.putStrLn o
  loop hin hout st'

def main : IO Unit := do
  let hin ← IO.getStdin
  let hout ← IO.getStdout
  loop hin hout {}
