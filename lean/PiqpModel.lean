import PiqpModel.Scalar
import PiqpModel.QQ
