import PiqpModel.Scalar
import PiqpModel.QQ
import PiqpModel.Data
import PiqpModel.LinAlg
import PiqpModel.KKT
