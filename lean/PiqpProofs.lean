import PiqpProofs.Basic
