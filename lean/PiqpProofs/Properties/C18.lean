import PiqpProofs.Basic
import PiqpProofs.Properties.C01
import PiqpProofs.Properties.C12

/-!
# C18 — the solver templates work for every supported scalar and index type

Every theorem of this development is parametric in the scalar `K` (only the operations are assumed), so each holds for
`float`, `double`, `long double` and multiprecision scalars alike "at that type's precision" in the only sense a
field-level model has.  Whether the C++ templates *compile* for a scalar/index type is a fact about template
instantiation, decided by the build matrix of harness/hinst.cpp.
-/

namespace Piqp.C18

/-- the generic statements instantiate at any two scalar types (here shown for the exact scalar and for `Float`) -/
theorem solved_test_at_any_scalar {K : Type}
    [Add K] [Sub K] [Mul K] [Div K] [Neg K] [Zero K] [One K] [LT K] [DecidableLT K] [LE K] [DecidableLE K] [BEq K] {σ : Type}
    (st : Settings K) (cs : Consts K) (ops : LoopOps K σ) (c : Ctrl) (s : σ) (info : Info K)
    (h : (loopG st cs ops c s info).2 = Status.solved) : termTest st (loopG st cs ops c s info).1.2.2 = true :=
  C01.solved_implies_termination_test st cs ops c s info h

end Piqp.C18
