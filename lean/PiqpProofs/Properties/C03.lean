import PiqpProofs.Basic
import PiqpModel.Control

/-!
# C03 — verdicts are never contradicted by exact ground truth (decision logic part)
-/

namespace Piqp.C03

variable {K : Type}
variable [Add K] [Sub K] [Mul K] [Div K] [Neg K] [Zero K] [One K] [LT K] [DecidableLT K] [LE K] [DecidableLE K] [BEq K]
variable {σ : Type}

omit [Neg K] [LE K] [DecidableLE K] in
/-- PRIMAL_INFEASIBLE is returned only at a loop head where the rule holds: more than `min(5, threshold)` iterations
    without dual update, proximal distance of the multipliers above 1e12, regularised primal residual within tolerance -/
theorem primal_verdict_requires_rule (st : Settings K) (cs : Consts K) (ops : LoopOps K σ) (c : Ctrl) (s : σ) (info : Info K)
    (h : (loopG st cs ops c s info).2 = Status.primalInfeasible) :
    primalInfeasRuleS st cs (loopG st cs ops c s info).1.2.2 (ops.pprox (loopG st cs ops c s info).1.2.1)
      (ops.pinfR (loopG st cs ops c s info).1.2.1) = true := by
  fun_induction loopG st cs ops c s info <;> simp_all [primalInfeasRuleS]

omit [Neg K] [LE K] [DecidableLE K] in
theorem dual_verdict_requires_rule (st : Settings K) (cs : Consts K) (ops : LoopOps K σ) (c : Ctrl) (s : σ) (info : Info K)
    (h : (loopG st cs ops c s info).2 = Status.dualInfeasible) :
    dualInfeasRuleS st cs (loopG st cs ops c s info).1.2.2 (ops.dprox (loopG st cs ops c s info).1.2.1)
      (ops.dinfR (loopG st cs ops c s info).1.2.1) = true := by
  fun_induction loopG st cs ops c s info <;> simp_all [dualInfeasRuleS]

end Piqp.C03
