import PiqpProofs.Basic
import PiqpModel.Control
import Mathlib.Tactic.Linarith
import Mathlib.Tactic.Ring
import Mathlib.Tactic.LinearCombination
import Mathlib.Tactic.NormNum
import Mathlib.Data.Rat.Defs
import Mathlib.Algebra.BigOperators.Ring.Finset
import Mathlib.Algebra.Order.BigOperators.Group.Finset

/-!
# C03 — verdicts are never contradicted by exact ground truth (decision logic part)
-/

namespace Piqp.C03

variable {K : Type}
variable [Add K] [Sub K] [Mul K] [Div K] [Neg K] [Zero K] [One K] [LT K] [DecidableLT K] [LE K] [DecidableLE K] [BEq K]
variable {σ : Type}

omit [Neg K] [LE K] [DecidableLE K] in
/-- PRIMAL_INFEASIBLE is returned only at a loop head where the rule holds: more than `min(5, threshold)` iterations
    without dual update, proximal distance of the multipliers above 1e12, regularised primal residual within tolerance -/
theorem primal_verdict_requires_rule (st : Settings K) (cs : Consts K) (ops : LoopOps K σ) (c : Ctrl) (s : σ) (info : Info K)
    (h : (loopG st cs ops c s info).2 = Status.primalInfeasible) :
    primalInfeasRuleS st cs (loopG st cs ops c s info).1.2.2 (ops.pprox (loopG st cs ops c s info).1.2.1)
      (ops.pinfR (loopG st cs ops c s info).1.2.1) = true := by
  fun_induction loopG st cs ops c s info <;> simp_all [primalInfeasRuleS]

omit [Neg K] [LE K] [DecidableLE K] in
theorem dual_verdict_requires_rule (st : Settings K) (cs : Consts K) (ops : LoopOps K σ) (c : Ctrl) (s : σ) (info : Info K)
    (h : (loopG st cs ops c s info).2 = Status.dualInfeasible) :
    dualInfeasRuleS st cs (loopG st cs ops c s info).1.2.2 (ops.dprox (loopG st cs ops c s info).1.2.1)
      (ops.dinfR (loopG st cs ops c s info).1.2.1) = true := by
  fun_induction loopG st cs ops c s info <;> simp_all [dualInfeasRuleS]

end Piqp.C03

/-!
## Soundness of the ground truth

Check C03 classifies every generated problem outside the solver, in exact rational arithmetic, and re-verifies the
certificate it found (`vlib/exactlp.py: verify_feasible / verify_recession` and the Farkas vector). The two theorems below say
what those certificates mean: a Farkas vector excludes every feasible point, a recession direction from a feasible point
makes the objective unbounded below. So a PIQP_SOLVED on a Farkas-certified problem, or on a recession-certified one, is
contradicted by a theorem, not by another numerical solver.
-/

namespace Piqp.C03
set_option linter.unusedVariables false
section groundtruth
open Finset
variable {K : Type} [Field K] [LinearOrder K] [IsStrictOrderedRing K]
variable {n p m : Nat}

/-- a convex QP in the user's terms: `min ½xᵀPx + cᵀx  s.t.  Ax = b, Gx ≤ h, lb ≤ x ≤ ub` (absent bounds = `none`) -/
structure QP (K : Type) (n p m : Nat) where
  P : Fin n → Fin n → K
  c : Fin n → K
  A : Fin p → Fin n → K
  b : Fin p → K
  G : Fin m → Fin n → K
  h : Fin m → K
  lb : Fin n → Option K
  ub : Fin n → Option K

def QP.Feasible (q : QP K n p m) (x : Fin n → K) : Prop :=
  (∀ i, ∑ j, q.A i j * x j = q.b i) ∧ (∀ i, ∑ j, q.G i j * x j ≤ q.h i) ∧
  (∀ j l, q.lb j = some l → l ≤ x j) ∧ (∀ j u, q.ub j = some u → x j ≤ u)

/-- a Farkas certificate of primal infeasibility, as the exact classifier of check C03 produces and re-verifies -/
structure Farkas (q : QP K n p m) (y : Fin p → K) (z : Fin m → K) (wl wu : Fin n → K) : Prop where
  z_nonneg : ∀ i, 0 ≤ z i
  wl_nonneg : ∀ j, 0 ≤ wl j
  wu_nonneg : ∀ j, 0 ≤ wu j
  wl_absent : ∀ j, q.lb j = none → wl j = 0
  wu_absent : ∀ j, q.ub j = none → wu j = 0
  stat : ∀ j, (∑ i, q.A i j * y i) + (∑ i, q.G i j * z i) - wl j + wu j = 0
  neg : (∑ i, q.b i * y i) + (∑ i, q.h i * z i) - (∑ j, (q.lb j).getD 0 * wl j) + (∑ j, (q.ub j).getD 0 * wu j) < 0

/-- **C03 ground truth, soundness of the infeasibility certificate.** -/
theorem farkas_sound (q : QP K n p m) (y : Fin p → K) (z : Fin m → K) (wl wu : Fin n → K) (hF : Farkas q y z wl wu) :
    ¬ ∃ x, q.Feasible x := by
  rintro ⟨x, hA, hG, hl, hu⟩
  -- 0 = Σ_j x_j * stat_j
  have h0 : ∑ j, x j * ((∑ i, q.A i j * y i) + (∑ i, q.G i j * z i) - wl j + wu j) = 0 :=
    Finset.sum_eq_zero fun j _ => by rw [hF.stat j]; ring
  have eA : ∑ j, x j * (∑ i, q.A i j * y i) = ∑ i, q.b i * y i := by
    simp only [Finset.mul_sum]
    rw [Finset.sum_comm]
    refine Finset.sum_congr rfl fun i _ => ?_
    rw [← hA i, Finset.sum_mul]
    exact Finset.sum_congr rfl fun j _ => by ring
  have eG : ∑ j, x j * (∑ i, q.G i j * z i) = ∑ i, (∑ j, q.G i j * x j) * z i := by
    simp only [Finset.mul_sum, Finset.sum_mul]
    rw [Finset.sum_comm]
    exact Finset.sum_congr rfl fun i _ => Finset.sum_congr rfl fun j _ => by ring
  have lG : ∑ i, (∑ j, q.G i j * x j) * z i ≤ ∑ i, q.h i * z i :=
    Finset.sum_le_sum fun i _ => mul_le_mul_of_nonneg_right (hG i) (hF.z_nonneg i)
  have lL : ∑ j, (q.lb j).getD 0 * wl j ≤ ∑ j, x j * wl j := by
    refine Finset.sum_le_sum fun j _ => ?_
    cases hlb : q.lb j with
    | none => rw [hF.wl_absent j hlb]; simp
    | some l => simp only [Option.getD_some]; exact mul_le_mul_of_nonneg_right (hl j l hlb) (hF.wl_nonneg j)
  have lU : ∑ j, x j * wu j ≤ ∑ j, (q.ub j).getD 0 * wu j := by
    refine Finset.sum_le_sum fun j _ => ?_
    cases hub : q.ub j with
    | none => rw [hF.wu_absent j hub]; simp
    | some u => simp only [Option.getD_some]; exact mul_le_mul_of_nonneg_right (hu j u hub) (hF.wu_nonneg j)
  have hsplit : ∑ j, x j * ((∑ i, q.A i j * y i) + (∑ i, q.G i j * z i) - wl j + wu j) =
      (∑ j, x j * (∑ i, q.A i j * y i)) + (∑ j, x j * (∑ i, q.G i j * z i)) - (∑ j, x j * wl j) + (∑ j, x j * wu j) := by
    rw [← Finset.sum_add_distrib, ← Finset.sum_sub_distrib, ← Finset.sum_add_distrib]
    exact Finset.sum_congr rfl fun j _ => by ring
  have := hF.neg
  rw [hsplit, eA, eG] at h0
  linarith

def QP.obj (q : QP K n p m) (x : Fin n → K) : K := (1 / 2) * (∑ i, x i * ∑ j, q.P i j * x j) + ∑ j, q.c j * x j

/-- a recession direction along which the objective decreases, from a feasible point: the certificate of
    "unbounded below" the exact classifier of check C03 produces and re-verifies -/
structure Recession (q : QP K n p m) (x0 d : Fin n → K) : Prop where
  feas : q.Feasible x0
  sym : ∀ i j, q.P i j = q.P j i
  Pd : ∀ i, ∑ j, q.P i j * d j = 0
  Ad : ∀ i, ∑ j, q.A i j * d j = 0
  Gd : ∀ i, ∑ j, q.G i j * d j ≤ 0
  dl : ∀ j l, q.lb j = some l → 0 ≤ d j
  du : ∀ j u, q.ub j = some u → d j ≤ 0
  cd : ∑ j, q.c j * d j < 0

theorem ray_feasible (q : QP K n p m) (x0 d : Fin n → K) (hR : Recession q x0 d) (t : K) (ht : 0 ≤ t) :
    q.Feasible (fun j => x0 j + t * d j) := by
  obtain ⟨hA, hG, hl, hu⟩ := hR.feas
  refine ⟨fun i => ?_, fun i => ?_, fun j l hj => ?_, fun j u hj => ?_⟩
  · have : ∑ j, q.A i j * (x0 j + t * d j) = (∑ j, q.A i j * x0 j) + t * ∑ j, q.A i j * d j := by
      rw [Finset.mul_sum, ← Finset.sum_add_distrib]; exact Finset.sum_congr rfl fun j _ => by ring
    rw [this, hA i, hR.Ad i]; ring
  · have : ∑ j, q.G i j * (x0 j + t * d j) = (∑ j, q.G i j * x0 j) + t * ∑ j, q.G i j * d j := by
      rw [Finset.mul_sum, ← Finset.sum_add_distrib]; exact Finset.sum_congr rfl fun j _ => by ring
    rw [this]
    have := mul_nonpos_of_nonneg_of_nonpos ht (hR.Gd i)
    linarith [hG i]
  · have := mul_nonneg ht (hR.dl j l hj); linarith [hl j l hj]
  · have := mul_nonpos_of_nonneg_of_nonpos ht (hR.du j u hj); linarith [hu j u hj]

theorem ray_obj (q : QP K n p m) (x0 d : Fin n → K) (hR : Recession q x0 d) (t : K) :
    q.obj (fun j => x0 j + t * d j) = q.obj x0 + t * ∑ j, q.c j * d j := by
  unfold QP.obj
  have hPx : ∀ i, ∑ j, q.P i j * (x0 j + t * d j) = ∑ j, q.P i j * x0 j := by
    intro i
    have : ∑ j, q.P i j * (x0 j + t * d j) = (∑ j, q.P i j * x0 j) + t * ∑ j, q.P i j * d j := by
      rw [Finset.mul_sum, ← Finset.sum_add_distrib]; exact Finset.sum_congr rfl fun j _ => by ring
    rw [this, hR.Pd i]; ring
  have hdPx : ∑ i, d i * ∑ j, q.P i j * x0 j = 0 := by
    have : ∑ i, d i * ∑ j, q.P i j * x0 j = ∑ j, x0 j * ∑ i, q.P j i * d i := by
      simp only [Finset.mul_sum]
      rw [Finset.sum_comm]
      exact Finset.sum_congr rfl fun j _ => Finset.sum_congr rfl fun i _ => by rw [hR.sym i j]; ring
    rw [this]
    exact Finset.sum_eq_zero fun j _ => by rw [hR.Pd j]; ring
  have h1 : ∑ i, (x0 i + t * d i) * ∑ j, q.P i j * (x0 j + t * d j) = ∑ i, x0 i * ∑ j, q.P i j * x0 j := by
    simp only [hPx]
    have : ∑ i, (x0 i + t * d i) * ∑ j, q.P i j * x0 j =
        (∑ i, x0 i * ∑ j, q.P i j * x0 j) + t * ∑ i, d i * ∑ j, q.P i j * x0 j := by
      rw [Finset.mul_sum, ← Finset.sum_add_distrib]; exact Finset.sum_congr rfl fun i _ => by ring
    rw [this, hdPx]; ring
  have h2 : ∑ j, q.c j * (x0 j + t * d j) = (∑ j, q.c j * x0 j) + t * ∑ j, q.c j * d j := by
    rw [Finset.mul_sum, ← Finset.sum_add_distrib]; exact Finset.sum_congr rfl fun j _ => by ring
  rw [h1, h2]; ring

/-- **C03 ground truth, soundness of the unboundedness certificate**: below every level there is a feasible point -/
theorem recession_sound (q : QP K n p m) (x0 d : Fin n → K) (hR : Recession q x0 d) (M : K) :
    ∃ x, q.Feasible x ∧ q.obj x < M := by
  set cd := ∑ j, q.c j * d j with hcd
  have hneg : cd < 0 := hR.cd
  set t : K := max 0 ((q.obj x0 - M) / (-cd)) + 1 with ht
  have ht0 : 0 ≤ t := by have := le_max_left (0:K) ((q.obj x0 - M) / (-cd)); linarith
  refine ⟨fun j => x0 j + t * d j, ray_feasible q x0 d hR t ht0, ?_⟩
  rw [ray_obj q x0 d hR t]
  have hpos : 0 < -cd := by linarith
  have h1 : (q.obj x0 - M) / (-cd) < t := by have := le_max_right (0:K) ((q.obj x0 - M) / (-cd)); linarith
  have h2 : q.obj x0 - M < t * (-cd) := by
    have := (div_lt_iff₀ hpos).mp h1
    linarith
  linarith

/-- an exact KKT point of the QP (multipliers `y` free, `z, wl, wu ≥ 0`, complementary) -/
structure KKTPoint (q : QP K n p m) (x : Fin n → K) (y : Fin p → K) (z : Fin m → K) (wl wu : Fin n → K) : Prop where
  feas : q.Feasible x
  z_nonneg : ∀ i, 0 ≤ z i
  wl_nonneg : ∀ j, 0 ≤ wl j
  wu_nonneg : ∀ j, 0 ≤ wu j
  wl_absent : ∀ j, q.lb j = none → wl j = 0
  wu_absent : ∀ j, q.ub j = none → wu j = 0
  stat : ∀ j, (∑ k, q.P j k * x k) + q.c j + (∑ i, q.A i j * y i) + (∑ i, q.G i j * z i) - wl j + wu j = 0
  compG : ∀ i, z i * (q.h i - ∑ j, q.G i j * x j) = 0
  compL : ∀ j l, q.lb j = some l → wl j * (x j - l) = 0
  compU : ∀ j u, q.ub j = some u → wu j * (u - x j) = 0

/-- **C03 ground truth, the third class.** For a symmetric positive semidefinite `P`, an exact KKT point is a global
    minimiser: the certificate with which the classifier declares a problem "has an optimal solution". -/
theorem kkt_sufficient (q : QP K n p m) (hsym : ∀ i j, q.P i j = q.P j i)
    (hpsd : ∀ v : Fin n → K, 0 ≤ ∑ i, v i * ∑ j, q.P i j * v j)
    (x : Fin n → K) (y : Fin p → K) (z : Fin m → K) (wl wu : Fin n → K) (hk : KKTPoint q x y z wl wu)
    (x' : Fin n → K) (hf : q.Feasible x') : q.obj x ≤ q.obj x' := by
  obtain ⟨hA, hG, hl, hu⟩ := hk.feas
  obtain ⟨hA', hG', hl', hu'⟩ := hf
  set d : Fin n → K := fun j => x' j - x j with hd
  -- obj x' - obj x = g·d + ½ dᵀPd with g = Px + c
  have hquad : q.obj x' = q.obj x + (∑ j, ((∑ k, q.P j k * x k) + q.c j) * d j) + (1 / 2) * ∑ i, d i * ∑ j, q.P i j * d j := by
    unfold QP.obj
    have e1 : ∀ i, ∑ j, q.P i j * x' j = (∑ j, q.P i j * x j) + ∑ j, q.P i j * d j := by
      intro i; rw [← Finset.sum_add_distrib]; exact Finset.sum_congr rfl fun j _ => by simp only [hd]; ring
    have e2 : ∑ i, x' i * ∑ j, q.P i j * x' j =
        (∑ i, x i * ∑ j, q.P i j * x j) + (∑ i, x i * ∑ j, q.P i j * d j) + (∑ i, d i * ∑ j, q.P i j * x j) + ∑ i, d i * ∑ j, q.P i j * d j := by
      simp only [e1]
      rw [← Finset.sum_add_distrib, ← Finset.sum_add_distrib, ← Finset.sum_add_distrib]
      exact Finset.sum_congr rfl fun i _ => by simp only [hd]; ring
    have e3 : ∑ i, x i * ∑ j, q.P i j * d j = ∑ i, d i * ∑ j, q.P i j * x j := by
      simp only [Finset.mul_sum]
      rw [Finset.sum_comm]
      exact Finset.sum_congr rfl fun j _ => Finset.sum_congr rfl fun i _ => by rw [hsym i j]; ring
    have e4 : ∑ j, q.c j * x' j = (∑ j, q.c j * x j) + ∑ j, q.c j * d j := by
      rw [← Finset.sum_add_distrib]; exact Finset.sum_congr rfl fun j _ => by simp only [hd]; ring
    have e5 : ∑ j, ((∑ k, q.P j k * x k) + q.c j) * d j = (∑ i, d i * ∑ j, q.P i j * x j) + ∑ j, q.c j * d j := by
      rw [← Finset.sum_add_distrib]; exact Finset.sum_congr rfl fun j _ => by ring
    rw [e2, e3, e4, e5]; ring
  -- g·d = -(Aᵀy + Gᵀz - wl + wu)·d ≥ 0
  have hg : ∑ j, ((∑ k, q.P j k * x k) + q.c j) * d j =
      -(∑ j, (∑ i, q.A i j * y i) * d j) - (∑ j, (∑ i, q.G i j * z i) * d j) + (∑ j, wl j * d j) - ∑ j, wu j * d j := by
    rw [← Finset.sum_neg_distrib, ← Finset.sum_sub_distrib, ← Finset.sum_add_distrib, ← Finset.sum_sub_distrib]
    refine Finset.sum_congr rfl fun j _ => ?_
    have := hk.stat j
    linear_combination (d j) * this
  have hAd : ∑ j, (∑ i, q.A i j * y i) * d j = 0 := by
    simp only [Finset.sum_mul]
    rw [Finset.sum_comm]
    refine Finset.sum_eq_zero fun i _ => ?_
    have : ∑ j, q.A i j * y i * d j = y i * ((∑ j, q.A i j * x' j) - ∑ j, q.A i j * x j) := by
      rw [← Finset.sum_sub_distrib, Finset.mul_sum]; exact Finset.sum_congr rfl fun j _ => by simp only [hd]; ring
    rw [this, hA i, hA' i]; ring
  have hGd : ∑ j, (∑ i, q.G i j * z i) * d j ≤ 0 := by
    simp only [Finset.sum_mul]
    rw [Finset.sum_comm]
    refine Finset.sum_nonpos fun i _ => ?_
    have : ∑ j, q.G i j * z i * d j = z i * ((∑ j, q.G i j * x' j) - q.h i) + z i * (q.h i - ∑ j, q.G i j * x j) := by
      have : ∑ j, q.G i j * z i * d j = z i * ((∑ j, q.G i j * x' j) - ∑ j, q.G i j * x j) := by
        rw [← Finset.sum_sub_distrib, Finset.mul_sum]; exact Finset.sum_congr rfl fun j _ => by simp only [hd]; ring
      rw [this]; ring
    rw [this, hk.compG i, add_zero]
    exact mul_nonpos_of_nonneg_of_nonpos (hk.z_nonneg i) (by linarith [hG' i])
  have hwl : 0 ≤ ∑ j, wl j * d j := by
    refine Finset.sum_nonneg fun j _ => ?_
    cases hlb : q.lb j with
    | none => rw [hk.wl_absent j hlb]; simp
    | some l =>
      have h1 := hk.compL j l hlb
      have : wl j * d j = wl j * (x' j - l) - wl j * (x j - l) := by simp only [hd]; ring
      rw [this, h1, sub_zero]
      exact mul_nonneg (hk.wl_nonneg j) (by linarith [hl' j l hlb])
  have hwu : ∑ j, wu j * d j ≤ 0 := by
    refine Finset.sum_nonpos fun j _ => ?_
    cases hub : q.ub j with
    | none => rw [hk.wu_absent j hub]; simp
    | some u =>
      have h1 := hk.compU j u hub
      have : wu j * d j = wu j * (u - x j) - wu j * (u - x' j) := by simp only [hd]; ring
      rw [this, h1, zero_sub]
      exact neg_nonpos.mpr (mul_nonneg (hk.wu_nonneg j) (by linarith [hu' j u hub]))
  have hp := hpsd d
  rw [hquad, hg, hAd]
  nlinarith [hp]

/-- non-vacuity: `1 ≤ x ≤ 0` has the Farkas certificate `w_lb = w_ub = 1` -/
example : Farkas (K := ℚ) (n := 1) (p := 0) (m := 0)
    { P := fun _ _ => 0, c := fun _ => 0, A := fun i => i.elim0, b := fun i => i.elim0, G := fun i => i.elim0, h := fun i => i.elim0,
      lb := fun _ => some 1, ub := fun _ => some 0 } (fun i => i.elim0) (fun i => i.elim0) (fun _ => 1) (fun _ => 1) where
  z_nonneg := fun i => i.elim0
  wl_nonneg := fun _ => by norm_num
  wu_nonneg := fun _ => by norm_num
  wl_absent := fun _ h => by simp at h
  wu_absent := fun _ h => by simp at h
  stat := fun _ => by simp
  neg := by simp
end groundtruth
end Piqp.C03
