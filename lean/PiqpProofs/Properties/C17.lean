/-
C17 -- All language bindings expose the same fields with the same meaning.

Every theorem below is one (binding × table × direction) obligation over the tables that
`translate/tables.py` regenerates from the working tree of PIQP on every check
(`PiqpProofs/Generated/Tables.lean`).  All are closed by kernel evaluation (`decide`): no axioms.

Conventions: a *pair* is `(destination, source)` of one copy statement / binding call;
`Wired` = both sides carry the same name; `Covers xs fields` = `xs` lists every core field exactly once
and nothing else; `SameTable` = same rows (name ↦ value) irrespective of order.
The predicates and the small fixed vocabularies (type maps, the `status_val` alias) are in
`PiqpProofs/TableLogic.lean`.

`vlib/props/c17.py` checks on every run that each statement here is, textually, the statement its
failing-input search recomputes.
-/
import PiqpProofs.TableLogic

namespace Piqp.C17
open Piqp.Gen Piqp.Tab

/-- the core tables are not vacuous -/
theorem core_tables_nonempty :
    (coreSettingsFields != [] && coreInfoFields != [] && coreResultFields != [] && coreStatus != []) = true := by decide

/-- Result<T> = Vec members + info -/
theorem core_result_shape :
    coreResultTypes.filter (fun p => p.2 != "Vec<T>") = [("info", "Info<T>")] := by decide

/-- status_to_string has a case for every Status enumerator -/
theorem core_status_strings_complete :
    Covers (keys coreStatusStrings) (keys coreStatus) = true := by decide

/-- status strings (what Matlab/Octave users see) are distinct -/
theorem core_status_strings_distinct :
    NoDup (vals coreStatusStrings) = true := by decide

/-- piqp_settings has exactly the members of Settings<T> -/
theorem c_settings_fields_complete :
    Covers cSettingsFields coreSettingsFields = true := by decide

/-- piqp_settings member types correspond to Settings<T> -/
theorem c_settings_types_match :
    TypesMatch cTypeMap coreSettingsTypes cSettingsTypes = true := by decide

/-- piqp_info has exactly the members of Info<T> -/
theorem c_info_fields_complete :
    Covers cInfoFields coreInfoFields = true := by decide

/-- piqp_info member types correspond to Info<T> -/
theorem c_info_types_match :
    TypesMatch cTypeMap coreInfoTypes cInfoTypes = true := by decide

/-- piqp_result has exactly the members of Result<T> -/
theorem c_result_fields_complete :
    Covers cResultFields coreResultFields = true := by decide

/-- piqp_result member types correspond to Result<T> -/
theorem c_result_types_match :
    TypesMatch cTypeMap coreResultTypes cResultTypes = true := by decide

/-- Settings/Info/Result/Status/DenseSolver/SparseSolver are bound under their own names -/
theorem py_classes_named :
    (Wired pyClasses && Covers (keys pyClasses) pyRequiredClasses) = true := by decide

/-- def_readwrite("X", &piqp::Settings<T>::X) -/
theorem py_settings_wired :
    Wired pySettingsPairs = true := by decide

/-- every member of Settings<T> is bound exactly once -/
theorem py_settings_complete :
    Covers (keys pySettingsPairs) coreSettingsFields = true := by decide

/-- def_readwrite("X", &piqp::Info<T>::X) -/
theorem py_info_wired :
    Wired pyInfoPairs = true := by decide

/-- every member of Info<T> is bound exactly once -/
theorem py_info_complete :
    Covers (keys pyInfoPairs) coreInfoFields = true := by decide

/-- def_readwrite("X", &piqp::Result<T>::X) -/
theorem py_result_wired :
    Wired pyResultPairs = true := by decide

/-- every member of Result<T> is bound exactly once -/
theorem py_result_complete :
    Covers (keys pyResultPairs) coreResultFields = true := by decide

/-- every Settings attribute can be read and written from Python -/
theorem py_settings_writable :
    AllVals pySettingsKinds ["readwrite"] = true := by decide

/-- every Info/Result attribute can be read from Python -/
theorem py_info_result_readable :
    (AllVals pyInfoKinds ["readwrite", "readonly"] && AllVals pyResultKinds ["readwrite", "readonly"]) = true := by decide

/-- .value("X", piqp::Status::X) -/
theorem py_status_wired :
    Wired pyStatusPairs = true := by decide

/-- every Status enumerator is bound exactly once -/
theorem py_status_complete :
    Covers (keys pyStatusPairs) (keys coreStatus) = true := by decide

/-- status codes are exported to module level (piqp.PIQP_SOLVED) -/
theorem py_status_exported :
    pyStatusExported = true := by decide

/-- both solvers expose settings (read-write) and result (read-only) -/
theorem py_solver_props :
    (SameTriples pyDenseSolverProps solverProps && SameTriples pySparseSolverProps solverProps) = true := by decide

/-- class Settings in __init__.pyi lists exactly the members of Settings<T> -/
theorem pyi_settings_fields_complete :
    Covers pyiSettingsFields coreSettingsFields = true := by decide

/-- annotations of class Settings correspond to the core types -/
theorem pyi_settings_types_match :
    TypesMatch pyiTypeMap coreSettingsTypes pyiSettingsTypes = true := by decide

/-- class Info in __init__.pyi lists exactly the members of Info<T> -/
theorem pyi_info_fields_complete :
    Covers pyiInfoFields coreInfoFields = true := by decide

/-- annotations of class Info correspond to the core types -/
theorem pyi_info_types_match :
    TypesMatch pyiTypeMap coreInfoTypes pyiInfoTypes = true := by decide

/-- class Result in __init__.pyi lists exactly the members of Result<T> -/
theorem pyi_result_fields_complete :
    Covers pyiResultFields coreResultFields = true := by decide

/-- annotations of class Result correspond to the core types -/
theorem pyi_result_types_match :
    TypesMatch pyiTypeMap coreResultTypes pyiResultTypes = true := by decide

/-- class Status in the stub: names and values -/
theorem pyi_status_table :
    SameTable pyiStatus coreStatus = true := by decide

/-- X: ClassVar[Status]  # value = <Status.X: n> -/
theorem pyi_status_wired :
    Wired pyiStatusPairs = true := by decide

/-- module-level exported status values -/
theorem pyi_module_status_table :
    SameTable pyiModuleStatus coreStatus = true := by decide

/-- X: piqp.Status  # value = <Status.X: n> -/
theorem pyi_module_status_wired :
    Wired pyiModuleStatusPairs = true := by decide

/-- PIQP_SETTINGS_FIELDS = members of Settings<T> -/
theorem mex_settings_array_complete :
    Covers mexSettingsFieldArray coreSettingsFields = true := by decide

/-- PIQP_INFO_FIELDS = members of Info<T> + status_val -/
theorem mex_info_array_complete :
    Covers mexInfoFieldArray (coreInfoFields ++ (keys infoAliases)) = true := by decide

/-- PIQP_RESULT_FIELDS = members of Result<T> -/
theorem mex_result_array_complete :
    Covers mexResultFieldArray coreResultFields = true := by decide

/-- each Matlab struct is created from its own field-name array -/
theorem mex_struct_arrays :
    mexStructArrays = [("settings", "PIQP_SETTINGS_FIELDS"), ("info", "PIQP_INFO_FIELDS"), ("result", "PIQP_RESULT_FIELDS")] := by decide

/-- settings_to_mx_struct: key "X" <- settings.X -/
theorem mex_settings_to_struct_wired :
    Wired mexSettingsToStruct = true := by decide

/-- every Settings member is written to the struct once -/
theorem mex_settings_to_struct_complete :
    Covers (keys mexSettingsToStruct) coreSettingsFields = true := by decide

/-- copy_mx_struct_to_settings: settings.X <- key "X" -/
theorem mex_struct_to_settings_wired :
    Wired mexStructToSettings = true := by decide

/-- every Settings member is read from the struct once -/
theorem mex_struct_to_settings_complete :
    Covers (keys mexStructToSettings) coreSettingsFields = true := by decide

/-- the cast used for each member matches the member's core type -/
theorem mex_struct_to_settings_typed :
    TypesMatch mexCastMap coreSettingsTypes mexStructToSettingsConv = true := by decide

/-- result_to_mx_struct: info key "X" <- result.info.X (status_val <- status allowed) -/
theorem mex_info_to_struct_wired :
    WiredUpTo infoAliases mexInfoToStruct = true := by decide

/-- every Info member (+ status_val) is written once -/
theorem mex_info_to_struct_complete :
    Covers (keys mexInfoToStruct) (coreInfoFields ++ (keys infoAliases)) = true := by decide

/-- result_to_mx_struct: key "X" <- result.X -/
theorem mex_result_to_struct_wired :
    Wired mexResultToStruct = true := by decide

/-- every Result member is written once -/
theorem mex_result_to_struct_complete :
    Covers (keys mexResultToStruct) coreResultFields = true := by decide

/-- get_settings/update_settings/setup/solve call the copy functions for both backends -/
theorem mex_entry_point_uses :
    SameTriples mexUses mexRequiredUses = true := by decide

/-- settings_to_ov_struct: key "X" <- settings.X -/
theorem oct_settings_to_struct_wired :
    Wired octSettingsToStruct = true := by decide

/-- every Settings member is written to the struct once -/
theorem oct_settings_to_struct_complete :
    Covers (keys octSettingsToStruct) coreSettingsFields = true := by decide

/-- copy_ov_struct_to_settings: settings.X <- key "X" -/
theorem oct_struct_to_settings_wired :
    Wired octStructToSettings = true := by decide

/-- every Settings member is read from the struct once -/
theorem oct_struct_to_settings_complete :
    Covers (keys octStructToSettings) coreSettingsFields = true := by decide

/-- the accessor used for each member matches the member's core type -/
theorem oct_struct_to_settings_typed :
    TypesMatch octAccessorMap coreSettingsTypes octStructToSettingsConv = true := by decide

/-- result_to_ov_struct: info key "X" <- result.info.X (status_val <- status allowed) -/
theorem oct_info_to_struct_wired :
    WiredUpTo infoAliases octInfoToStruct = true := by decide

/-- every Info member (+ status_val) is written once -/
theorem oct_info_to_struct_complete :
    Covers (keys octInfoToStruct) (coreInfoFields ++ (keys infoAliases)) = true := by decide

/-- result_to_ov_struct: key "X" <- result.X -/
theorem oct_result_to_struct_wired :
    Wired octResultToStruct = true := by decide

/-- every Result member is written once -/
theorem oct_result_to_struct_complete :
    Covers (keys octResultToStruct) coreResultFields = true := by decide

/-- get_settings/update_settings/setup/solve call the copy functions for both backends -/
theorem oct_entry_point_uses :
    SameTriples octUses octRequiredUses = true := by decide

/-- docs/interfaces/settings.md: every setting with the default of settings.hpp -/
theorem docs_defaults_match :
    SameTable docsSettingsDefaults coreSettingsDefaults = true := by decide

/-- docs/_common/status_code_table.md: names and values -/
theorem docs_status_table :
    SameTable docsStatus coreStatus = true := by decide

/-- interfaces/c/src/piqp.cpp piqp_update_result: result->X = solver_result.X.data() -/
theorem c_result_wired :
    Wired cUpdateResultPairs = true := by decide

/-- every Vec member of Result<T> is copied exactly once -/
theorem c_result_complete :
    Covers (keys cUpdateResultPairs) resultVecFields = true := by decide

/-- interfaces/c/src/piqp.cpp piqp_update_result: result->info.X = solver_result.info.X -/
theorem c_result_info_wired :
    Wired cUpdateResultInfoPairs = true := by decide

/-- every member of Info<T> is copied exactly once -/
theorem c_result_info_complete :
    Covers (keys cUpdateResultInfoPairs) coreInfoFields = true := by decide

/-- interfaces/c/src/piqp.cpp piqp_set_default_settings: settings->X = default_settings.X -/
theorem c_defaults_wired :
    Wired cDefaultsPairs = true := by decide

/-- every Settings member receives its default exactly once -/
theorem c_defaults_complete :
    Covers (keys cDefaultsPairs) coreSettingsFields = true := by decide

/-- defaults come from a default-constructed piqp::Settings<piqp_float> -/
theorem c_defaults_source :
    cDefaultsSourceType = "piqp::Settings<piqp_float>" := by decide

/-- interfaces/c/src/piqp.cpp piqp_update_settings, dense branch -/
theorem c_settings_wired_dense :
    Wired cUpdateSettingsDensePairs = true := by decide

/-- every Settings member is transferred exactly once -/
theorem c_settings_complete_dense :
    Covers (keys cUpdateSettingsDensePairs) coreSettingsFields = true := by decide

/-- interfaces/c/src/piqp.cpp piqp_update_settings, sparse branch -/
theorem c_settings_wired_sparse :
    Wired cUpdateSettingsSparsePairs = true := by decide

/-- every Settings member is transferred exactly once -/
theorem c_settings_complete_sparse :
    Covers (keys cUpdateSettingsSparsePairs) coreSettingsFields = true := by decide

/-- the is_dense branch writes the DenseSolver, the else branch the SparseSolver -/
theorem c_settings_branch_solvers :
    (cUpdateSettingsSolvers == [("dense", "DenseSolver"), ("sparse", "SparseSolver")] && cSolverAliases == [("DenseSolver", "piqp::DenseSolver<piqp_float>"), ("SparseSolver", "piqp::SparseSolver<piqp_float,piqp_int>")]) = true := by decide

/-- piqp_status enumerators and values = piqp::Status -/
theorem c_status_values_equal :
    SameTable cStatus coreStatus = true := by decide

end Piqp.C17
