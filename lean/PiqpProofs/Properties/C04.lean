import PiqpProofs.Garbage
import PiqpProofs.Basic
import PiqpModel.Api
import PiqpProofs.Properties.C01
import PiqpProofs.Properties.C08
import PiqpProofs.Properties.C13
import PiqpProofs.Properties.C15

/-!
# C04 — an updated solver is equivalent to a freshly set-up solver
-/

namespace Piqp.C04

variable {K : Type}
variable [Add K] [Sub K] [Mul K] [Div K] [Neg K] [Zero K] [One K] [LT K] [DecidableLT K] [LE K] [DecidableLE K]
variable [NatCast K] [BEq K] [Inhabited K]
variable {n p m : Nat}

/-- `update` never changes the settings, the result vectors, the refinement flag or the back end: it only touches
    data, preconditioner and KKT caches, and it always forces the next `solve` to rebuild the scaling dependent
    part of the KKT matrix (`kktInitState = false`) -/
theorem updateTyped_frame (cs : Consts K) (sqrtF : K → K) (sparse : Bool) (maskP : Array Bool) (s : Solver K n p m)
    (P : Option (Mat K n n)) (c : Option (Vec K n)) (A : Option (Mat K p n)) (b : Option (Vec K p))
    (G : Option (Mat K m n)) (h : Option (Vec K m)) (xlb xub : Option (Vec K n)) (reuse : Bool) :
    let s' := updateTyped cs sqrtF sparse maskP s P c A b G h xlb xub reuse
    s'.st = s.st ∧ s'.w = s.w ∧ s'.info = s.info ∧ s'.be = s.be ∧ s'.pk = s.pk ∧
    s'.kktInitState = false ∧ s'.setupDone = s.setupDone ∧ s'.refineOn = s.refineOn := by
  unfold updateTyped
  exact ⟨rfl, rfl, rfl, rfl, rfl, rfl, rfl, rfl⟩

end Piqp.C04

/-!
## Coherence of the solver state over call histories

`Good s d0` packages the three invariants the other properties' theorems need of a solver state: the stored data are `d0`
under the preconditioner's change of variables (C15 `Scaled`), the inverse scalings are inverses (C15 `InvFull`), and the
KKT caches agree with the stored data (C13 `CachesOk`). `setup_good`, `update_good`, `solve_good` show that every
operation of the interface establishes/preserves it, for every argument subset, both `reuse_preconditioner` values, dense
and sparse, every back end; `solve_solved_certificate` then applies C01's certificate theorem to whatever problem the
solver has been updated to.
-/

namespace Piqp.C04
set_option linter.unusedSectionVars false
set_option linter.unusedSimpArgs false
set_option linter.unusedVariables false
section coherence
open Piqp.C13 Piqp.C15
variable {K : Type} [Field K] [LinearOrder K] [IsStrictOrderedRing K] [Inhabited K]
variable {n p m : Nat}

/-- the solver state is a coherent image of the unscaled data `d0`: data = `d0` under the preconditioner's change of
    variables, inverse scalings are inverses, and every KKT cache agrees with the (scaled) data -/
structure Good (s : Solver K n p m) (d0 : Data K n p m) : Prop where
  scaled : Scaled d0 s.data s.pre
  inv : InvFull s.pre
  caches : CachesOk s.be s.data s.kkt

theorem setup_good (cs : Consts K) (sqrtF : K → K) (poison : K) (hg : GoodConsts cs sqrtF) (hn : 0 < n)
    (be : Backend) (pk : PrecKind) (hk : pk ≠ .identity) (st : Settings K) (prevInfo : Info K)
    (P : Mat K n n) (c : Vec K n) (AT : Mat K n p) (b : Vec K p) (GT : Mat K n m) (h : Option (Vec K m))
    (xlb xub : Option (Vec K n)) :
    Good (setupTyped cs sqrtF poison hn be pk st prevInfo P c AT b GT h xlb xub)
      (setupRaw cs poison hn P c AT b GT h xlb xub) := by
  unfold setupTyped
  exact ⟨scaleData_scaled pk hk sqrtF cs _ _ false _ _, scaleData_invFull pk hk sqrtF cs hg _ _ false _ _ (fun h => by cases h),
    init_cachesOk _ _ _ _ _ _ _ _⟩

theorem mat_ext {r c : Nat} (A B : Mat K r c) (h : ∀ (i : Fin r) (j : Fin c), A[i][j] = B[i][j]) : A = B := by
  apply Vector.ext; intro i hi
  apply Vector.ext; intro j hj
  exact h ⟨i, hi⟩ ⟨j, hj⟩

theorem scale_unscale_P (pre : Precond K n p m) (hi : InvFull pre) (P : Mat K n n) :
    scaleP (scaleAll (scaleP (scaleAll P pre.cInv) pre.dxInv) pre.c) pre.dx = P := by
  apply mat_ext
  intro i j
  have hc := hi.c; have h1 := hi.dx i; have h2 := hi.dx j
  simp only [scaleP, scaleAll, C15.matOfFn_get]
  by_cases hij : i.val ≤ j.val
  · simp only [hij, if_true]
    calc P[i][j] * pre.cInv * pre.dxInv[i] * pre.dxInv[j] * pre.c * pre.dx[i] * pre.dx[j]
        = P[i][j] * (pre.c * pre.cInv) * (pre.dx[i] * pre.dxInv[i]) * (pre.dx[j] * pre.dxInv[j]) := by ring
      _ = P[i][j] := by rw [hc, h1, h2]; ring
  · simp only [hij, if_false]
    calc P[i][j] * pre.cInv * pre.c = P[i][j] * (pre.c * pre.cInv) := by ring
      _ = P[i][j] := by rw [hc]; ring

theorem scale_unscale_AT (pre : Precond K n p m) (hi : InvFull pre) (M : Mat K n p) :
    scaleMat (scaleMat M pre.dxInv pre.dyInv) pre.dx pre.dy = M := by
  apply mat_ext
  intro i j
  have h1 := hi.dx i; have h2 := hi.dy j
  simp only [scaleMat, C15.matOfFn_get]
  calc pre.dx[i] * (pre.dxInv[i] * M[i][j] * pre.dyInv[j]) * pre.dy[j]
      = M[i][j] * (pre.dx[i] * pre.dxInv[i]) * (pre.dy[j] * pre.dyInv[j]) := by ring
    _ = M[i][j] := by rw [h1, h2]; ring

theorem scale_unscale_GT (pre : Precond K n p m) (hi : InvFull pre) (M : Mat K n m) :
    scaleMat (scaleMat M pre.dxInv pre.dzInv) pre.dx pre.dz = M := by
  apply mat_ext
  intro i j
  have h1 := hi.dx i; have h2 := hi.dz j
  simp only [scaleMat, C15.matOfFn_get]
  calc pre.dx[i] * (pre.dxInv[i] * M[i][j] * pre.dzInv[j]) * pre.dz[j]
      = M[i][j] * (pre.dx[i] * pre.dxInv[i]) * (pre.dz[j] * pre.dzInv[j]) := by ring
    _ = M[i][j] := by rw [h1, h2]; ring

theorem updateRaw_P_none (cs : Consts K) (sparse : Bool) (maskP : Array Bool) (s : Solver K n p m)
    (c : Option (Vec K n)) (A : Option (Mat K p n)) (b : Option (Vec K p))
    (G : Option (Mat K m n)) (h : Option (Vec K m)) (xlb xub : Option (Vec K n)) :
    (updateRaw cs sparse maskP s none c A b G h xlb xub).P = (Precond.unscaleData s.pk s.data s.pre).P := by
  unfold updateRaw
  cases A <;> cases G <;> cases c <;> cases b <;> cases h <;> cases xlb <;> cases xub <;> rfl

theorem updateRaw_AT_none (cs : Consts K) (sparse : Bool) (maskP : Array Bool) (s : Solver K n p m)
    (P : Option (Mat K n n)) (c : Option (Vec K n)) (b : Option (Vec K p))
    (G : Option (Mat K m n)) (h : Option (Vec K m)) (xlb xub : Option (Vec K n)) :
    (updateRaw cs sparse maskP s P c none b G h xlb xub).AT = (Precond.unscaleData s.pk s.data s.pre).AT := by
  unfold updateRaw
  cases P <;> cases G <;> cases c <;> cases b <;> cases h <;> cases xlb <;> cases xub <;> (try cases sparse) <;> rfl

theorem updateRaw_GT_none (cs : Consts K) (sparse : Bool) (maskP : Array Bool) (s : Solver K n p m)
    (P : Option (Mat K n n)) (c : Option (Vec K n)) (A : Option (Mat K p n)) (b : Option (Vec K p))
    (h : Option (Vec K m)) (xlb xub : Option (Vec K n)) :
    (updateRaw cs sparse maskP s P c A b none h xlb xub).GT =
      match h with
      | some hv => (disableInf cs (Precond.unscaleData s.pk s.data s.pre).GT hv).1
      | none => (Precond.unscaleData s.pk s.data s.pre).GT := by
  unfold updateRaw
  cases P <;> cases A <;> cases c <;> cases b <;> cases h <;> cases xlb <;> cases xub <;> (try cases sparse) <;> rfl

theorem disableInf_noop (cs : Consts K) (GT : Mat K n m) (h : Vec K m)
    (hno : (List.finRange m).any (fun i => (infMask cs h)[i]) = false) : (disableInf cs GT h).1 = GT := by
  apply mat_ext
  intro j i
  have hi : (infMask cs h)[i] = false := by
    have := List.any_eq_false.mp hno i (List.mem_finRange i)
    simpa using this
  simp only [infMask, C15.ofFn_get] at hi
  simp only [disableInf, C15.matOfFn_get, hi, Bool.false_eq_true, if_false]

theorem scaleData_reuse_fields (pk : PrecKind) (hk : pk ≠ .identity) (sqrtF : K → K) (cs : Consts K)
    (d : Data K n p m) (pre : Precond K n p m) (sc : Bool) (it : Nat) :
    (pre.scaleData pk sqrtF cs d true sc it).1.P = scaleP (scaleAll d.P pre.c) pre.dx ∧
    (pre.scaleData pk sqrtF cs d true sc it).1.AT = scaleMat d.AT pre.dx pre.dy ∧
    (pre.scaleData pk sqrtF cs d true sc it).1.GT = scaleMat d.GT pre.dx pre.dz := by
  cases pk
  · exact ⟨rfl, rfl, rfl⟩
  · exact ⟨rfl, rfl, rfl⟩
  · exact absurd rfl hk

/-- **C04, `update()` keeps the solver a coherent image of the data it now stands for.** For every argument subset
    (each of `P, c, A, b, G, h, x_lb, x_ub` present or absent), dense or sparse `P` update, `reuse_preconditioner` on or
    off: the new state is `Good` for `updateRaw …` — the previous data unscaled with the passed blocks replaced. In
    particular the KKT caches (`AᵀA`, the `G` copy, `P` diagonal, KKT off-diagonals) agree with the new scaled data: the
    option mask `update()` passes to `update_data` covers everything that changed. -/
theorem update_good (cs : Consts K) (sqrtF : K → K) (hg : GoodConsts cs sqrtF) (sparse : Bool) (maskP : Array Bool)
    (s : Solver K n p m) (hk : s.pk ≠ .identity) (dprev : Data K n p m) (hgood : Good s dprev)
    (P : Option (Mat K n n)) (c : Option (Vec K n)) (A : Option (Mat K p n)) (b : Option (Vec K p))
    (G : Option (Mat K m n)) (h : Option (Vec K m)) (xlb xub : Option (Vec K n)) (reuse : Bool) :
    Good (updateTyped cs sqrtF sparse maskP s P c A b G h xlb xub reuse) (updateRaw cs sparse maskP s P c A b G h xlb xub) := by
  have hinv := hgood.inv
  unfold updateTyped
  refine ⟨scaleData_scaled s.pk hk sqrtF cs _ _ reuse _ _, scaleData_invFull s.pk hk sqrtF cs hg _ _ reuse _ _ (fun _ => hinv), ?_⟩
  refine (updateData_ok s.be _ s.data s.kkt _ _ _ ⟨?_, ?_, ?_⟩ hgood.caches).1
  · -- P not flagged: P absent and the scaling reused
    intro hf
    have hP : P = none := by cases P <;> simp_all
    have hr : reuse = true := by cases reuse <;> simp_all
    subst hP; subst hr
    rw [(scaleData_reuse_fields s.pk hk sqrtF cs _ s.pre _ _).1, updateRaw_P_none, unscaleData_eq s.pk hk]
    exact scale_unscale_P s.pre hinv s.data.P
  · intro hf
    have hA : A = none := by cases A <;> simp_all
    have hr : reuse = true := by cases reuse <;> simp_all
    subst hA; subst hr
    rw [(scaleData_reuse_fields s.pk hk sqrtF cs _ s.pre _ _).2.1, updateRaw_AT_none, unscaleData_eq s.pk hk]
    exact scale_unscale_AT s.pre hinv s.data.AT
  · intro hf
    have hG : G = none := by cases G <;> simp_all
    have hr : reuse = true := by cases reuse <;> simp_all
    subst hG; subst hr
    rw [(scaleData_reuse_fields s.pk hk sqrtF cs _ s.pre _ _).2.2, updateRaw_GT_none, unscaleData_eq s.pk hk]
    cases h with
    | none => exact scale_unscale_GT s.pre hinv s.data.GT
    | some hv =>
      have hno : (List.finRange m).any (fun i => (infMask cs hv)[i]) = false := by simp_all
      simp only
      rw [disableInf_noop cs _ hv hno]
      exact scale_unscale_GT s.pre hinv s.data.GT

/-- an invariant of `rescale` and `factor` is an invariant of the factorisation-retry loop before the first iterate -/
theorem initLoopG_invariant {σ : Type} (st : Settings K) (cs : Consts K) (ops : LoopOps K σ) (Inv : σ → Prop)
    (hr : ∀ s info, Inv s → Inv (ops.rescale s info)) (hf : ∀ b s, Inv s → Inv (ops.factor b s).1)
    (refineOn : Bool) (retries : Nat) (s : σ) (info : Info K) (h : Inv s) :
    Inv (initLoopG st cs ops refineOn retries s info).2.2.1 := by
  fun_induction initLoopG st cs ops refineOn retries s info
  · exact hf _ _ h
  · rename_i ih; exact ih (hf _ _ h)
  · rename_i ih; exact ih (hr _ _ (hf _ _ h))
  · exact hf _ _ h

theorem regFactor_cachesOk (be : Backend) (st : KKTSettings K) (d : Data K n p m) (k : KKT K n p m) (refine : Bool)
    (inner : Inner K n p m) (hc : CachesOk be d k) : CachesOk be d (KKT.regFactor be st d k refine inner) :=
  hc.transfer rfl rfl rfl (fun _ _ _ _ => rfl) (fun _ => rfl) (fun _ => rfl)

/-- every numeric operation of the real solver keeps the KKT caches in agreement with the data -/
theorem realOps_preserve_caches (e : Env K n p m) :
    C08.OpsPreserve (realOps e) (fun s : NumState K n p m => CachesOk e.be e.data s.2) where
  head := fun b s info h => h
  reg := fun s info h => h
  shift := fun s info h => h
  rescale := fun s info h => (updateScalings_coherent e.be e.data s.2 _ _ _ _ _ _ _ _ h).2
  factor := fun b s h => regFactor_cachesOk _ _ _ _ _ _ h
  stepNum := fun b s info h => h
  applyFlags := fun s a b h => h

theorem solveStart_caches (cs : Consts K) (sqrtF : K → K) (s : Solver K n p m) (perm : Vector (Fin (n + p + m)) (n + p + m))
    (hc : CachesOk s.be s.data s.kkt) : CachesOk s.be s.data (solveStart cs sqrtF s perm).2.1 := by
  unfold solveStart
  simp only
  split
  · exact (updateScalings_coherent s.be s.data s.kkt _ _ _ _ _ _ _ _ hc).2
  · exact hc

theorem initialPoint_kkt (cs : Consts K) (s : Solver K n p m) (e : Env K n p m) (w0 : Work K n p m) (kkt1 : KKT K n p m)
    (info1 : Info K) (refineOn : Bool) : (initialPoint cs s e w0 kkt1 info1 refineOn).kkt = kkt1 := by
  unfold initialPoint
  rfl

/-- **C04, `solve()` keeps the solver coherent** (data and preconditioner are not touched; the KKT caches stay in
    agreement through every rescaling and every (re)factorisation of the initial retry loop and of the main loop) -/
theorem solve_good (cs : Consts K) (sqrtF : K → K) (s : Solver K n p m) (perm : Vector (Fin (n + p + m)) (n + p + m))
    (d0 : Data K n p m) (hgood : Good s d0) : Good (solveTyped cs sqrtF s perm).1 d0 := by
  have hil := initLoopG_invariant s.st cs (realOps (Solver.env cs sqrtF s perm)) (fun st : NumState K n p m => CachesOk s.be s.data st.2)
    (realOps_preserve_caches (Solver.env cs sqrtF s perm)).rescale (realOps_preserve_caches (Solver.env cs sqrtF s perm)).factor
    s.refineOn 0 ((solveStart cs sqrtF s perm).1, (solveStart cs sqrtF s perm).2.1) (solveStart cs sqrtF s perm).2.2
    (solveStart_caches cs sqrtF s perm hgood.caches)
  unfold solveTyped
  split
  · exact ⟨hgood.scaled, hgood.inv, hgood.caches⟩
  · simp only
    split
    · exact ⟨hgood.scaled, hgood.inv, hil⟩
    · refine ⟨hgood.scaled, hgood.inv, ?_⟩
      have := C08.loopG_invariant s.st cs (realOps (Solver.env cs sqrtF s perm))
        (fun st : NumState K n p m => CachesOk s.be s.data st.2) (realOps_preserve_caches (Solver.env cs sqrtF s perm))
      unfold mainLoop
      exact this _ _ _ (by rw [initialPoint_kkt]; exact hil)

theorem initialPoint_iter (cs : Consts K) (s : Solver K n p m) (e : Env K n p m) (w0 : Work K n p m) (kkt1 : KKT K n p m)
    (info1 : Info K) (refineOn : Bool) : (initialPoint cs s e w0 kkt1 info1 refineOn).c.iter = 0 := by
  unfold initialPoint
  rfl

/-- **C04 + C01, end to end at the interface level.**  Let `s` be any solver state that is `Good` for data `d0` —
    by `setup_good`, `update_good`, `solve_good` that is every state reachable by `setup`, any number of `update`s with any
    argument subsets and either `reuse_preconditioner`, and any number of `solve`s, with `d0` the data the last
    `setup`/`update` handed to the preconditioner.  If `solve()` returns SOLVED, the returned vectors are the unscaled
    (and, for the bound multipliers and slacks, re-indexed) image of a loop iterate `wl` for which the optimality
    certificate of `d0` holds within the tolerances: an updated solver certifies the problem it has been updated to,
    exactly as a freshly set-up one would. -/
theorem solve_solved_certificate (cs : Consts K) (sqrtF : K → K) (s : Solver K n p m) (perm : Vector (Fin (n + p + m)) (n + p + m))
    (d0 : Data K n p m) (hk : s.pk ≠ .identity) (hgood : Good s d0)
    (hsolved : (solveTyped cs sqrtF s perm).2 = Status.solved) :
    ∃ wl : Work K n p m,
      let res := (solveTyped cs sqrtF s perm).1
      let x := s.pre.unscalePrimal s.pk wl.x
      let y := s.pre.unscaleDualEq s.pk wl.y
      let z := s.pre.unscaleDualIneq s.pk wl.z
      let zl := s.pre.unscaleDualLb s.pk wl.z_lb
      let zu := s.pre.unscaleDualUb s.pk wl.z_ub
      res.w.x = x ∧ res.w.y = y ∧ res.w.z = z ∧ res.w.s = s.pre.unscaleSlackIneq s.pk wl.s ∧
      res.w.z_lb = restoreBox s.data.lb 0 zl ∧ res.w.z_ub = restoreBox s.data.ub 0 zu ∧
      res.w.s_lb = restoreBox s.data.lb cs.posInf (s.pre.unscaleSlackLb s.pk wl.s_lb) ∧
      res.w.s_ub = restoreBox s.data.ub cs.posInf (s.pre.unscaleSlackUb s.pk wl.s_ub) ∧
      (∀ i : Fin n, vabs (C01.userDualRes d0 x y z zl zu i) < s.st.epsAbs + s.st.epsRel * res.info.dualRelInf) ∧
      (∀ t : Fin p, vabs (d0.b[t] - ∑ i : Fin n, d0.AT[i][t] * x[i]) < s.st.epsAbs + s.st.epsRel * res.info.primalRelInf) ∧
      (∀ t : Fin m, vabs (d0.h[t] - (∑ i : Fin n, d0.GT[i][t] * x[i]) - (s.pre.unscaleSlackIneq s.pk wl.s)[t])
          < s.st.epsAbs + s.st.epsRel * res.info.primalRelInf) ∧
      (∀ a : Fin n, a.val < d0.lb.cnt →
          vabs (d0.lb.sc[a] * x[d0.lb.idx[a]] + d0.lb.val[a] - (s.pre.unscaleSlackLb s.pk wl.s_lb)[a])
            < s.st.epsAbs + s.st.epsRel * res.info.primalRelInf) ∧
      (∀ a : Fin n, a.val < d0.ub.cnt →
          vabs (-d0.ub.sc[a] * x[d0.ub.idx[a]] + d0.ub.val[a] - (s.pre.unscaleSlackUb s.pk wl.s_ub)[a])
            < s.st.epsAbs + s.st.epsRel * res.info.primalRelInf) ∧
      (s.st.checkDualityGap = true → res.info.dualityGap < s.st.epsGapAbs + s.st.epsGapRel * res.info.dualityGapRel) := by
  unfold solveTyped at hsolved ⊢
  split at hsolved
  · exact absurd hsolved (by simp)
  · simp only at hsolved
    split at hsolved
    · exact absurd hsolved (by simp)
    · rename_i hv hok
      simp only [hv, hok, if_false, Bool.false_eq_true]
      have hc := C01.solved_certificate (Solver.env cs sqrtF s perm) d0 hk hgood.scaled hgood.inv _
        (initialPoint_iter cs s (Solver.env cs sqrtF s perm) _ _ _ _) hsolved
      obtain ⟨c1, c2, c3, c4, c5, c6, c7⟩ := hc
      exact ⟨_, rfl, rfl, rfl, rfl, rfl, rfl, rfl, rfl, c1, c2, c3, c4, c5, c6⟩


/-! ### Shape of the state (positive scalings, packed bounds) and C08's statement at the interface level

`C08.results_wellformed` and `C08.solve_loop_in_cone` need, besides `Good`, that the scalings are positive and the bound
packing strictly increasing. Both are invariants of the interface (`setup_shape`, `update_shape`; `solve` does not touch
data or preconditioner), so `solve_result_wellformed` holds for every reachable state. -/

open Piqp.C08

/-- a packed side of the box: at most `n` slots, strictly increasing variable indices -/
def Packed (b : BoxSide K n) : Prop := b.cnt ≤ n ∧ StrictIdx b.idx b.cnt

/-- what the result well-formedness needs of a solver state besides `C04.Good`: positive scalings and packed bounds -/
structure Shape (s : Solver K n p m) : Prop where
  pos : Pos s.pre
  lb : Packed s.data.lb
  ub : Packed s.data.ub

theorem packed_setupLb (cs : Consts K) (old : BoxSide K n) (ho : Packed old) (x : Option (Vec K n)) : Packed (setupLb cs old x) := by
  cases x with
  | none => exact ⟨Nat.zero_le _, fun a b _ hb => absurd hb (Nat.not_lt_zero _)⟩
  | some v => exact ⟨(setupLb_packed cs old v).1, (setupLb_packed cs old v).2.1⟩

theorem packed_setupUb (cs : Consts K) (old : BoxSide K n) (ho : Packed old) (x : Option (Vec K n)) : Packed (setupUb cs old x) := by
  cases x with
  | none => exact ⟨Nat.zero_le _, fun a b _ hb => absurd hb (Nat.not_lt_zero _)⟩
  | some v => exact ⟨(setupUb_packed cs old v).1, (setupUb_packed cs old v).2.1⟩

/-- `scale_data` does not touch the packing -/
theorem scaled_packed {d0 d : Data K n p m} {pre : Precond K n p m} (hs : Scaled d0 d pre) (hl : Packed d0.lb) (hu : Packed d0.ub) :
    Packed d.lb ∧ Packed d.ub := by
  unfold Packed at *
  rw [hs.lbcnt, hs.lbidx, hs.ubcnt, hs.ubidx]
  exact ⟨hl, hu⟩

theorem setup_shape (cs : Consts K) (sqrtF : K → K) (poison : K) (hg : PosConsts cs sqrtF) (hn : 0 < n)
    (be : Backend) (pk : PrecKind) (hk : pk ≠ .identity) (st : Settings K) (prevInfo : Info K)
    (P : Mat K n n) (c : Vec K n) (AT : Mat K n p) (b : Vec K p) (GT : Mat K n m) (h : Option (Vec K m))
    (xlb xub : Option (Vec K n)) :
    Shape (setupTyped cs sqrtF poison hn be pk st prevInfo P c AT b GT h xlb xub) := by
  have hgood := setup_good cs sqrtF poison hg.good hn be pk hk st prevInfo P c AT b GT h xlb xub
  have box0 : Packed ({ cnt := 0, idx := Vector.replicate n ⟨0, hn⟩, sc := Vec.const n 1, val := Vec.const n poison } : BoxSide K n) :=
    ⟨Nat.zero_le _, fun a b _ hb => absurd hb (Nat.not_lt_zero _)⟩
  have hl : Packed (setupRaw cs poison hn P c AT b GT h xlb xub).lb := by
    unfold setupRaw; exact packed_setupLb cs _ box0 xlb
  have hu : Packed (setupRaw cs poison hn P c AT b GT h xlb xub).ub := by
    unfold setupRaw; exact packed_setupUb cs _ box0 xub
  obtain ⟨pl, pu⟩ := scaled_packed hgood.scaled hl hu
  refine ⟨?_, pl, pu⟩
  unfold setupTyped
  exact scaleData_pos pk hk sqrtF cs hg _ _ false _ _ (fun h => by cases h)

theorem unscale_lb_shape (pk : PrecKind) (d : Data K n p m) (pre : Precond K n p m) :
    (Precond.unscaleData pk d pre).lb.cnt = d.lb.cnt ∧ (Precond.unscaleData pk d pre).lb.idx = d.lb.idx ∧
    (Precond.unscaleData pk d pre).ub.cnt = d.ub.cnt ∧ (Precond.unscaleData pk d pre).ub.idx = d.ub.idx := by
  cases pk <;> exact ⟨rfl, rfl, rfl, rfl⟩

theorem updateRaw_packed (cs : Consts K) (sparse : Bool) (maskP : Array Bool) (s : Solver K n p m)
    (hl : Packed s.data.lb) (hu : Packed s.data.ub)
    (P : Option (Mat K n n)) (c : Option (Vec K n)) (A : Option (Mat K p n)) (b : Option (Vec K p))
    (G : Option (Mat K m n)) (h : Option (Vec K m)) (xlb xub : Option (Vec K n)) :
    Packed (updateRaw cs sparse maskP s P c A b G h xlb xub).lb ∧ Packed (updateRaw cs sparse maskP s P c A b G h xlb xub).ub := by
  obtain ⟨e1, e2, e3, e4⟩ := unscale_lb_shape s.pk s.data s.pre
  have hl0 : Packed (Precond.unscaleData s.pk s.data s.pre).lb := by unfold Packed; rw [e1, e2]; exact hl
  have hu0 : Packed (Precond.unscaleData s.pk s.data s.pre).ub := by unfold Packed; rw [e3, e4]; exact hu
  have elb : (updateRaw cs sparse maskP s P c A b G h xlb xub).lb =
      match xlb with | some _ => setupLb cs (Precond.unscaleData s.pk s.data s.pre).lb xlb | none => (Precond.unscaleData s.pk s.data s.pre).lb := by
    unfold updateRaw
    cases P <;> cases A <;> cases G <;> cases c <;> cases b <;> cases h <;> cases xlb <;> cases xub <;> (try cases sparse) <;> rfl
  have eub : (updateRaw cs sparse maskP s P c A b G h xlb xub).ub =
      match xub with | some _ => setupUb cs (Precond.unscaleData s.pk s.data s.pre).ub xub | none => (Precond.unscaleData s.pk s.data s.pre).ub := by
    unfold updateRaw
    cases P <;> cases A <;> cases G <;> cases c <;> cases b <;> cases h <;> cases xlb <;> cases xub <;> (try cases sparse) <;> rfl
  rw [elb, eub]
  constructor
  · cases xlb with
    | none => exact hl0
    | some v => exact packed_setupLb cs _ hl0 (some v)
  · cases xub with
    | none => exact hu0
    | some v => exact packed_setupUb cs _ hu0 (some v)

theorem update_shape (cs : Consts K) (sqrtF : K → K) (hg : PosConsts cs sqrtF) (sparse : Bool) (maskP : Array Bool)
    (s : Solver K n p m) (hk : s.pk ≠ .identity) (dprev : Data K n p m) (hgood : Good s dprev) (hsh : Shape s)
    (P : Option (Mat K n n)) (c : Option (Vec K n)) (A : Option (Mat K p n)) (b : Option (Vec K p))
    (G : Option (Mat K m n)) (h : Option (Vec K m)) (xlb xub : Option (Vec K n)) (reuse : Bool) :
    Shape (updateTyped cs sqrtF sparse maskP s P c A b G h xlb xub reuse) := by
  have hg2 := update_good cs sqrtF hg.good sparse maskP s hk dprev hgood P c A b G h xlb xub reuse
  obtain ⟨pl0, pu0⟩ := updateRaw_packed cs sparse maskP s hsh.lb hsh.ub P c A b G h xlb xub
  obtain ⟨pl, pu⟩ := scaled_packed hg2.scaled pl0 pu0
  refine ⟨?_, pl, pu⟩
  unfold updateTyped
  exact scaleData_pos s.pk hk sqrtF cs hg _ _ reuse _ _ (fun _ => hsh.pos)

/-- **C08 end to end.** Let `s` be any solver state reachable through the interface (`Good`, `Shape`: by `setup_good/shape`,
    `update_good/shape`, `solve_good`). If `solve()` has valid settings and gets past the initial factorisation, then — whatever
    the main loop returns (SOLVED, a verdict, MAX_ITER at any budget, NUMERICS) — the stored result vectors are well formed:
    `s > 0`, `z > 0`; in original indexing `z_lb, z_ub` are exactly `0` or positive and `s_lb, s_ub` exactly `+∞` or positive. -/
theorem solve_result_wellformed (cs : Consts K) (sqrtF : K → K) (s : Solver K n p m) (perm : Vector (Fin (n + p + m)) (n + p + m))
    (d0 : Data K n p m) (hk : s.pk ≠ .identity) (hgood : Good s d0) (hsh : Shape s)
    (h15 : 1 ≤ cs.c1_5) (h05 : 0 < cs.c0_5) (hτ0 : 0 < s.st.tau) (hτ1 : s.st.tau < 1) (heps : 0 ≤ cs.machEps)
    (hv : s.st.verify = true)
    (hok : (initLoopG s.st cs (realOps (Solver.env cs sqrtF s perm)) s.refineOn 0
        ((solveStart cs sqrtF s perm).1, (solveStart cs sqrtF s perm).2.1) (solveStart cs sqrtF s perm).2.2).2.2.2.2 = true)
    (hguard : m + s.data.lb.cnt + s.data.ub.cnt ≠ 0 →
      0 < (mehrotraShift cs s.data (ipBeforeShift cs s (Solver.env cs sqrtF s perm) (solveStart cs sqrtF s perm).1
        (initLoopG s.st cs (realOps (Solver.env cs sqrtF s perm)) s.refineOn 0
          ((solveStart cs sqrtF s perm).1, (solveStart cs sqrtF s perm).2.1) (solveStart cs sqrtF s perm).2.2).2.2.1.2
        (initLoopG s.st cs (realOps (Solver.env cs sqrtF s perm)) s.refineOn 0
          ((solveStart cs sqrtF s perm).1, (solveStart cs sqrtF s perm).2.1) (solveStart cs sqrtF s perm).2.2).1)).2.2) :
    let res := (solveTyped cs sqrtF s perm).1.w
    (∀ t : Fin m, 0 < res.s[t]) ∧ (∀ t : Fin m, 0 < res.z[t]) ∧
    (∀ j : Fin n, res.z_lb[j] = 0 ∨ 0 < res.z_lb[j]) ∧ (∀ j : Fin n, res.z_ub[j] = 0 ∨ 0 < res.z_ub[j]) ∧
    (∀ j : Fin n, res.s_lb[j] = cs.posInf ∨ 0 < res.s_lb[j]) ∧ (∀ j : Fin n, res.s_ub[j] = cs.posInf ∨ 0 < res.s_ub[j]) := by
  have hnl : s.pre.nlb = s.data.lb.cnt := by rw [hgood.scaled.nlb, hgood.scaled.lbcnt]
  have hnu : s.pre.nub = s.data.ub.cnt := by rw [hgood.scaled.nub, hgood.scaled.ubcnt]
  have hcone := solve_loop_in_cone cs sqrtF s perm (solveStart cs sqrtF s perm).1
    (initLoopG s.st cs (realOps (Solver.env cs sqrtF s perm)) s.refineOn 0
      ((solveStart cs sqrtF s perm).1, (solveStart cs sqrtF s perm).2.1) (solveStart cs sqrtF s perm).2.2).2.2.1.2
    (initLoopG s.st cs (realOps (Solver.env cs sqrtF s perm)) s.refineOn 0
      ((solveStart cs sqrtF s perm).1, (solveStart cs sqrtF s perm).2.1) (solveStart cs sqrtF s perm).2.2).2.2.2.1
    (initLoopG s.st cs (realOps (Solver.env cs sqrtF s perm)) s.refineOn 0
      ((solveStart cs sqrtF s perm).1, (solveStart cs sqrtF s perm).2.1) (solveStart cs sqrtF s perm).2.2).1
    hsh.lb.1 hsh.ub.1 h15 h05 hτ0 hτ1 heps hguard
  have hres := results_wellformed cs s.pk hk s.data s.pre hsh.pos hgood.inv hnl hnu hsh.lb.1 hsh.ub.1 hsh.lb.2 hsh.ub.2 _ hcone
  unfold solveTyped
  simp only [hv, Bool.not_true, Bool.false_eq_true, if_false]
  have hok' : (!(initLoopG (Solver.env cs sqrtF s perm).st (Solver.env cs sqrtF s perm).cs (realOps (Solver.env cs sqrtF s perm)) s.refineOn 0
        ((solveStart cs sqrtF s perm).1, (solveStart cs sqrtF s perm).2.1) (solveStart cs sqrtF s perm).2.2).2.2.2.2) = false := by
    have : (initLoopG (Solver.env cs sqrtF s perm).st (Solver.env cs sqrtF s perm).cs (realOps (Solver.env cs sqrtF s perm)) s.refineOn 0
        ((solveStart cs sqrtF s perm).1, (solveStart cs sqrtF s perm).2.1) (solveStart cs sqrtF s perm).2.2).2.2.2.2 = true := hok
    rw [this]; rfl
  simp only [hok', Bool.false_eq_true, if_false]
  exact hres

end coherence
end Piqp.C04

/-! ### The identity preconditioner

Nothing is scaled, so no invariant is needed: the stored data *are* the effective problem, and C01's identity version of the
certificate theorem applies to every state. -/

namespace Piqp.C04
section identity
open Piqp.C13 Piqp.C15
variable {K : Type} [Field K] [LinearOrder K] [IsStrictOrderedRing K] [Inhabited K]
variable {n p m : Nat}

/-- with the identity preconditioner the stored data are the data `setup` packed, unscaled -/
theorem setup_data_identity (cs : Consts K) (sqrtF : K → K) (poison : K) (hn : 0 < n) (be : Backend) (st : Settings K) (prevInfo : Info K)
    (P : Mat K n n) (c : Vec K n) (AT : Mat K n p) (b : Vec K p) (GT : Mat K n m) (h : Option (Vec K m))
    (xlb xub : Option (Vec K n)) :
    (setupTyped cs sqrtF poison hn be .identity st prevInfo P c AT b GT h xlb xub).data = setupRaw cs poison hn P c AT b GT h xlb xub := rfl

/-- … and after any `update` they are the previous data with the passed blocks replaced -/
theorem update_data_identity (cs : Consts K) (sqrtF : K → K) (sparse : Bool) (maskP : Array Bool) (s : Solver K n p m)
    (hk : s.pk = .identity) (P : Option (Mat K n n)) (c : Option (Vec K n)) (A : Option (Mat K p n)) (b : Option (Vec K p))
    (G : Option (Mat K m n)) (h : Option (Vec K m)) (xlb xub : Option (Vec K n)) (reuse : Bool) :
    (updateTyped cs sqrtF sparse maskP s P c A b G h xlb xub reuse).data = updateRaw cs sparse maskP s P c A b G h xlb xub ∧
    (updateTyped cs sqrtF sparse maskP s P c A b G h xlb xub reuse).pk = .identity := by
  unfold updateTyped
  simp only [hk]
  exact ⟨rfl, trivial⟩

/-- **C04 + C01 for the identity preconditioner, end to end**: for *every* solver state with the identity preconditioner
    (no invariant needed: nothing is scaled), SOLVED certifies the stored data — which by `setup_data_identity` /
    `update_data_identity` are exactly the effective problem — at the returned point. -/
theorem solve_solved_certificate_identity (cs : Consts K) (sqrtF : K → K) (s : Solver K n p m) (perm : Vector (Fin (n + p + m)) (n + p + m))
    (hk : s.pk = .identity) (hsolved : (solveTyped cs sqrtF s perm).2 = Status.solved) :
    ∃ wl : Work K n p m,
      let res := (solveTyped cs sqrtF s perm).1
      res.w.x = wl.x ∧ res.w.y = wl.y ∧ res.w.z = wl.z ∧ res.w.s = wl.s ∧
      res.w.z_lb = restoreBox s.data.lb 0 wl.z_lb ∧ res.w.z_ub = restoreBox s.data.ub 0 wl.z_ub ∧
      res.w.s_lb = restoreBox s.data.lb cs.posInf wl.s_lb ∧ res.w.s_ub = restoreBox s.data.ub cs.posInf wl.s_ub ∧
      (∀ i : Fin n, vabs (C01.userDualRes s.data wl.x wl.y wl.z wl.z_lb wl.z_ub i) < s.st.epsAbs + s.st.epsRel * res.info.dualRelInf) ∧
      (∀ t : Fin p, vabs (s.data.b[t] - ∑ i : Fin n, s.data.AT[i][t] * wl.x[i]) < s.st.epsAbs + s.st.epsRel * res.info.primalRelInf) ∧
      (∀ t : Fin m, vabs (s.data.h[t] - (∑ i : Fin n, s.data.GT[i][t] * wl.x[i]) - wl.s[t]) < s.st.epsAbs + s.st.epsRel * res.info.primalRelInf) ∧
      (∀ a : Fin n, a.val < s.data.lb.cnt →
          vabs (s.data.lb.sc[a] * wl.x[s.data.lb.idx[a]] + s.data.lb.val[a] - wl.s_lb[a]) < s.st.epsAbs + s.st.epsRel * res.info.primalRelInf) ∧
      (∀ a : Fin n, a.val < s.data.ub.cnt →
          vabs (-s.data.ub.sc[a] * wl.x[s.data.ub.idx[a]] + s.data.ub.val[a] - wl.s_ub[a]) < s.st.epsAbs + s.st.epsRel * res.info.primalRelInf) ∧
      (s.st.checkDualityGap = true → res.info.dualityGap < s.st.epsGapAbs + s.st.epsGapRel * res.info.dualityGapRel) := by
  unfold solveTyped at hsolved ⊢
  split at hsolved
  · exact absurd hsolved (by simp)
  · simp only at hsolved
    split at hsolved
    · exact absurd hsolved (by simp)
    · rename_i hv hok
      simp only [hv, hok, if_false, Bool.false_eq_true]
      have hc := C01.solved_certificate_identity (Solver.env cs sqrtF s perm) hk _
        (initialPoint_iter cs s (Solver.env cs sqrtF s perm) _ _ _ _) hsolved
      obtain ⟨c1, c2, c3, c4, c5, c6, c7⟩ := hc
      refine ⟨_, ?_, ?_, ?_, ?_, ?_, ?_, ?_, ?_, c1, c2, c3, c4, c5, c6⟩
      all_goals simp only [restoreBoxDual, unscaleResults, hk, C01.id_primal, C01.id_dualEq, C01.id_dualIneq, C01.id_dualLb, C01.id_dualUb,
        Precond.unscaleSlackIneq, Precond.unscaleSlackLb, Precond.unscaleSlackUb, if_true]
end identity
end Piqp.C04

namespace Piqp.C04
section identityCaches
open Piqp.C13 Piqp.C15
variable {K : Type} [Field K] [LinearOrder K] [IsStrictOrderedRing K] [Inhabited K]
variable {n p m : Nat}

/-- identity preconditioner: the KKT caches agree with the stored data after `setup` -/
theorem setup_caches_identity (cs : Consts K) (sqrtF : K → K) (poison : K) (hn : 0 < n) (be : Backend) (st : Settings K) (prevInfo : Info K)
    (P : Mat K n n) (c : Vec K n) (AT : Mat K n p) (b : Vec K p) (GT : Mat K n m) (h : Option (Vec K m))
    (xlb xub : Option (Vec K n)) :
    let s := setupTyped cs sqrtF poison hn be .identity st prevInfo P c AT b GT h xlb xub
    CachesOk s.be s.data s.kkt := by
  unfold setupTyped
  exact init_cachesOk _ _ _ _ _ _ _ _

/-- … and after every `update` (every argument subset, either `reuse` value): the option mask covers what changed -/
theorem update_caches_identity (cs : Consts K) (sqrtF : K → K) (sparse : Bool) (maskP : Array Bool)
    (s : Solver K n p m) (hk : s.pk = .identity) (hc : CachesOk s.be s.data s.kkt)
    (P : Option (Mat K n n)) (c : Option (Vec K n)) (A : Option (Mat K p n)) (b : Option (Vec K p))
    (G : Option (Mat K m n)) (h : Option (Vec K m)) (xlb xub : Option (Vec K n)) (reuse : Bool) :
    let s' := updateTyped cs sqrtF sparse maskP s P c A b G h xlb xub reuse
    CachesOk s'.be s'.data s'.kkt := by
  have hun : Precond.unscaleData s.pk s.data s.pre = s.data := by rw [hk]; rfl
  unfold updateTyped
  simp only [hk]
  refine (updateData_ok s.be _ s.data s.kkt _ _ _ ⟨?_, ?_, ?_⟩ hc).1
  · intro hf
    have hP : P = none := by cases P <;> simp_all
    subst hP
    show (updateRaw cs sparse maskP s none c A b G h xlb xub).P = s.data.P
    rw [updateRaw_P_none, hun]
  · intro hf
    have hA : A = none := by cases A <;> simp_all
    subst hA
    show (updateRaw cs sparse maskP s P c none b G h xlb xub).AT = s.data.AT
    rw [updateRaw_AT_none, hun]
  · intro hf
    have hG : G = none := by cases G <;> simp_all
    subst hG
    show (updateRaw cs sparse maskP s P c A b none h xlb xub).GT = s.data.GT
    rw [updateRaw_GT_none, hun]
    cases h with
    | none => rfl
    | some hv =>
      have hno : (List.finRange m).any (fun i => (infMask cs hv)[i]) = false := by simp_all
      simp only
      exact disableInf_noop cs _ hv hno

/-- `solve()` keeps the caches in agreement with the data, for either preconditioner kind -/
theorem solve_caches (cs : Consts K) (sqrtF : K → K) (s : Solver K n p m) (perm : Vector (Fin (n + p + m)) (n + p + m))
    (hc : CachesOk s.be s.data s.kkt) :
    CachesOk (solveTyped cs sqrtF s perm).1.be (solveTyped cs sqrtF s perm).1.data (solveTyped cs sqrtF s perm).1.kkt := by
  have hil := initLoopG_invariant s.st cs (realOps (Solver.env cs sqrtF s perm)) (fun st : NumState K n p m => CachesOk s.be s.data st.2)
    (realOps_preserve_caches (Solver.env cs sqrtF s perm)).rescale (realOps_preserve_caches (Solver.env cs sqrtF s perm)).factor
    s.refineOn 0 ((solveStart cs sqrtF s perm).1, (solveStart cs sqrtF s perm).2.1) (solveStart cs sqrtF s perm).2.2
    (solveStart_caches cs sqrtF s perm hc)
  unfold solveTyped
  split
  · exact hc
  · simp only
    split
    · exact hil
    · have := C08.loopG_invariant s.st cs (realOps (Solver.env cs sqrtF s perm))
        (fun st : NumState K n p m => CachesOk s.be s.data st.2) (realOps_preserve_caches (Solver.env cs sqrtF s perm))
      unfold mainLoop
      exact this _ _ _ (by rw [initialPoint_kkt]; exact hil)
end identityCaches
end Piqp.C04

/-! ## `reuse_preconditioner = false` forgets the previous scaling (dense Ruiz preconditioner) -/

set_option linter.unusedSectionVars false
namespace Piqp.C04
open Piqp.C07
variable {K : Type}
variable [Add K] [Sub K] [Mul K] [Div K] [Neg K] [Zero K] [One K] [LT K] [DecidableLT K] [LE K] [DecidableLE K]
variable [NatCast K] [BEq K] [Inhabited K]
variable {n p m : Nat}

/-- the cost-scaling inverse is a passenger of the Ruiz iteration: never read, carried along -/
theorem ruizBody_cInv (kind : PrecKind) (sqrtF : K → K) (cs : Consts K) (sc : Bool) (d : Data K n p m) (pre : Precond K n p m) (a : K) :
    ruizBody kind sqrtF cs sc ⟨d, { pre with cInv := a }⟩ =
      ⟨(ruizBody kind sqrtF cs sc ⟨d, pre⟩).d, { (ruizBody kind sqrtF cs sc ⟨d, pre⟩).pre with cInv := a }⟩ := by
  unfold ruizBody
  cases sc
  · simp only [Bool.false_eq_true, if_false]
  · simp only [if_true]

theorem ruizLoop_cInv (kind : PrecKind) (sqrtF : K → K) (cs : Consts K) (sc : Bool) (a : K) : ∀ (fuel : Nat) (d : Data K n p m) (pre : Precond K n p m),
    ruizLoop kind sqrtF cs sc fuel ⟨d, { pre with cInv := a }⟩ =
      ⟨(ruizLoop kind sqrtF cs sc fuel ⟨d, pre⟩).d, { (ruizLoop kind sqrtF cs sc fuel ⟨d, pre⟩).pre with cInv := a }⟩
  | 0, d, pre => rfl
  | fuel+1, d, pre => by
    simp only [ruizLoop]
    have hc : ruizCond cs (⟨d, { pre with cInv := a }⟩ : RuizState K n p m) = ruizCond cs ⟨d, pre⟩ := rfl
    rw [hc]
    split
    · rw [ruizBody_cInv]
      exact ruizLoop_cInv kind sqrtF cs sc a fuel _ _
    · rfl

/-- the preconditioner state `scale_data(reuse = false)` starts its iteration from, with the one field it does not reset -/
def preBase (d : Data K n p m) (a : K) : Precond K n p m :=
  { nlb := d.lb.cnt, nub := d.ub.cnt, c := 1, dx := Vec.const n 1, dy := Vec.const p 1, dz := Vec.const m 1,
    dlb := Vec.const n 1, dub := Vec.const n 1, cInv := a, dxInv := Vec.const n 0, dyInv := Vec.const p 0, dzInv := Vec.const m 0,
    dlbInv := Vec.const n 0, dubInv := Vec.const n 0 }

/-- the last step of `scale_data(reuse = false)`: all inverse vectors are recomputed from the final scalings -/
def finishFresh (st : RuizState K n p m) : Data K n p m × Precond K n p m :=
  (st.d, { st.pre with cInv := 1 / st.pre.c,
                       dxInv := Vector.ofFn fun k => 1 / st.pre.dx[k],
                       dyInv := Vector.ofFn fun k => 1 / st.pre.dy[k],
                       dzInv := Vector.ofFn fun k => 1 / st.pre.dz[k],
                       dlbInv := Vector.ofFn fun k => 1 / st.pre.dlb[k],
                       dubInv := Vector.ofFn fun k => 1 / st.pre.dub[k] })

/-- **a fresh scaling forgets the previous one (dense Ruiz preconditioner)**: `scale_data(reuse_prev_scaling = false)` returns the same
    scaled data and the same scaling vectors whatever the preconditioner object held before — `update(…, reuse_preconditioner = false)`
    stores exactly what a newly constructed preconditioner would compute for the same data -/
theorem scaleData_fresh_forgets (sqrtF : K → K) (cs : Consts K) (d : Data K n p m) (pre pre' : Precond K n p m) (sc : Bool) (it : Nat) :
    Precond.scaleData .denseRuiz sqrtF cs d pre false sc it = Precond.scaleData .denseRuiz sqrtF cs d pre' false sc it := by
  rw [scaleData_eq, scaleData_eq]
  simp only [reduceCtorEq, if_false]
  congr 1
  unfold scaleCore
  simp only [Bool.not_false, if_true]
  have key : ∀ a : K,
      ruizLoop .denseRuiz sqrtF cs sc it ⟨d, (preBase d a)⟩ =
      ⟨(ruizLoop .denseRuiz sqrtF cs sc it ⟨d, (preBase d 0)⟩).d,
       { (ruizLoop .denseRuiz sqrtF cs sc it ⟨d, (preBase d 0)⟩).pre with cInv := a }⟩ :=
    fun a => ruizLoop_cInv .denseRuiz sqrtF cs sc a it d (preBase d 0)
  show finishFresh (ruizLoop .denseRuiz sqrtF cs sc it ⟨d, preBase d pre.cInv⟩) = finishFresh (ruizLoop .denseRuiz sqrtF cs sc it ⟨d, preBase d pre'.cInv⟩)
  rw [key pre.cInv, key pre'.cInv]
  rfl

/-- **C04, `update(…, reuse_preconditioner = false)` stores what `setup()` would store** (dense Ruiz preconditioner): the scaled data and
    the scaling vectors after the update are those a newly initialised preconditioner computes for the updated raw data `updateRaw …`
    — nothing of the previous scaling survives -/
theorem update_fresh_is_setup_scaling (cs : Consts K) (sqrtF : K → K) (sparse : Bool) (maskP : Array Bool) (s : Solver K n p m)
    (hk : s.pk = .denseRuiz)
    (P : Option (Mat K n n)) (c : Option (Vec K n)) (A : Option (Mat K p n)) (b : Option (Vec K p))
    (G : Option (Mat K m n)) (h : Option (Vec K m)) (xlb xub : Option (Vec K n)) :
    let d8 := updateRaw cs sparse maskP s P c A b G h xlb xub
    let fresh := Precond.scaleData .denseRuiz sqrtF cs d8 (Precond.init d8) false s.st.precScaleCost s.st.precIter.toNat
    (updateTyped cs sqrtF sparse maskP s P c A b G h xlb xub false).data = fresh.1 ∧
    (updateTyped cs sqrtF sparse maskP s P c A b G h xlb xub false).pre = fresh.2 := by
  intro d8 fresh
  unfold updateTyped
  simp only
  rw [hk, scaleData_fresh_forgets sqrtF cs _ s.pre (Precond.init d8)]
  exact ⟨rfl, rfl⟩
end Piqp.C04
