import PiqpProofs.Basic
import PiqpModel.Api

/-!
# C04 — an updated solver is equivalent to a freshly set-up solver
-/

namespace Piqp.C04

variable {K : Type}
variable [Add K] [Sub K] [Mul K] [Div K] [Neg K] [Zero K] [One K] [LT K] [DecidableLT K] [LE K] [DecidableLE K]
variable [NatCast K] [BEq K] [Inhabited K]
variable {n p m : Nat}

/-- `update` never changes the settings, the result vectors, the refinement flag or the back end: it only touches
    data, preconditioner and KKT caches, and it always forces the next `solve` to rebuild the scaling dependent
    part of the KKT matrix (`kktInitState = false`) -/
theorem updateTyped_frame (cs : Consts K) (sqrtF : K → K) (sparse : Bool) (maskP : Array Bool) (s : Solver K n p m)
    (P : Option (Mat K n n)) (c : Option (Vec K n)) (A : Option (Mat K p n)) (b : Option (Vec K p))
    (G : Option (Mat K m n)) (h : Option (Vec K m)) (xlb xub : Option (Vec K n)) (reuse : Bool) :
    let s' := updateTyped cs sqrtF sparse maskP s P c A b G h xlb xub reuse
    s'.st = s.st ∧ s'.w = s.w ∧ s'.info = s.info ∧ s'.be = s.be ∧ s'.pk = s.pk ∧
    s'.kktInitState = false ∧ s'.setupDone = s.setupDone ∧ s'.refineOn = s.refineOn := by
  unfold updateTyped
  exact ⟨rfl, rfl, rfl, rfl, rfl, rfl, rfl, rfl⟩

end Piqp.C04
