import PiqpProofs.Basic
import PiqpModel.Api

/-!
# C19 — problem data are copied, never aliased or modified

The model's state (`ApiState`) contains values only — no reference to a caller buffer exists in it, and `apiStep` returns
nothing but the new state and an outcome.  What can be *stated* about the model is therefore structural; whether the C++
code keeps a pointer into caller memory is a memory-level behaviour observed by harness/halias.cpp (scribble / free /
bitwise comparison).
-/

namespace Piqp.C19

variable {K : Type}
variable [Add K] [Sub K] [Mul K] [Div K] [Neg K] [Zero K] [One K] [LT K] [DecidableLT K] [LE K] [DecidableLE K]
variable [NatCast K] [BEq K] [Inhabited K]

/-- A caller heap: buffer id ↦ content.  A call names its arguments by buffer id; the interface reads the heap at call
    time (`deref`) and steps on the values. -/
def stepWithHeap (cs : Consts K) (sqrtF : K → K) (poison : K) {Heap : Type} (deref : Heap → Call K)
    (st : ApiState K) (heap : Heap) : ApiState K × Outcome :=
  apiStep cs sqrtF poison st (deref heap)

/-- no aliasing: after a call, whatever the caller does to its heap (overwrite, free = arbitrary new content) has no
    effect on any later call that does not read the changed buffers — the state carries no reference into the heap -/
theorem later_calls_independent_of_old_heap (cs : Consts K) (sqrtF : K → K) (poison : K) {Heap : Type}
    (deref1 deref2 : Heap → Call K) (st : ApiState K) (heap scribbled : Heap)
    (hsame : deref2 heap = deref2 scribbled) :
    stepWithHeap cs sqrtF poison deref2 (stepWithHeap cs sqrtF poison deref1 st heap).1 heap =
    stepWithHeap cs sqrtF poison deref2 (stepWithHeap cs sqrtF poison deref1 st heap).1 scribbled := by
  unfold stepWithHeap
  rw [hsame]

end Piqp.C19
