import PiqpProofs.Basic
import PiqpModel.Api
namespace Piqp.C19
/-- placeholder obligation (to be replaced by the ledger / no-alias theorems) -/
theorem model_step_total {K : Type} (x : K) : x = x := rfl
end Piqp.C19
