import PiqpProofs.Basic
import PiqpModel.Api

/-!
# C10 — the answer does not depend on back end, KKT formulation or storage of P
-/

namespace Piqp.C10

variable {K : Type}
variable [Zero K]
variable {n : Nat}

/-- only the upper triangle of the `P` argument is read: two arguments that agree on and above the diagonal are
    stored identically -/
theorem upperOfMat_reads_upper_only (A B : Mat K n n)
    (h : ∀ i j : Fin n, i.val ≤ j.val → A[i][j] = B[i][j]) : upperOfMat A = upperOfMat B := by
  unfold upperOfMat Mat.ofFn
  apply Vector.ext
  intro i hi
  simp only [Vector.getElem_ofFn]
  apply Vector.ext
  intro j hj
  simp only [Vector.getElem_ofFn]
  split
  · rename_i hle
    exact h ⟨i, hi⟩ ⟨j, hj⟩ hle
  · rfl

end Piqp.C10
