import PiqpProofs.Basic
import PiqpModel.Api
import PiqpProofs.Properties.C13
import Mathlib.Tactic.SplitIfs

/-!
# C10 — the answer does not depend on back end, KKT formulation or storage of P
-/

namespace Piqp.C10

variable {K : Type}
variable [Zero K]
variable {n : Nat}

/-- only the upper triangle of the `P` argument is read: two arguments that agree on and above the diagonal are
    stored identically -/
theorem upperOfMat_reads_upper_only (A B : Mat K n n)
    (h : ∀ i j : Fin n, i.val ≤ j.val → A[i][j] = B[i][j]) : upperOfMat A = upperOfMat B := by
  unfold upperOfMat Mat.ofFn
  apply Vector.ext
  intro i hi
  simp only [Vector.getElem_ofFn]
  apply Vector.ext
  intro j hj
  simp only [Vector.getElem_ofFn]
  split
  · rename_i hle
    exact h ⟨i, hi⟩ ⟨j, hj⟩ hle
  · rfl

end Piqp.C10

namespace Piqp.C10
set_option linter.unusedSectionVars false
set_option linter.unusedVariables false
section agree
open Piqp.C13
variable {K : Type} [Field K] [LinearOrder K]
variable {n p m : Nat}

/-- two KKT states (of possibly different back ends) carry the same regularisation and scalings -/
structure SameScalings (k1 k2 : KKT K n p m) : Prop where
  rho : k1.rho = k2.rho
  delta : k1.delta = k2.delta
  s : k1.s = k2.s
  zinv : k1.zinv = k2.zinv
  s_lb : k1.s_lb = k2.s_lb
  zinv_lb : k1.zinv_lb = k2.zinv_lb
  s_ub : k1.s_ub = k2.s_ub
  zinv_ub : k1.zinv_ub = k2.zinv_ub

theorem multiply_congr (d : Data K n p m) (k1 k2 : KKT K n p m) (h : SameScalings k1 k2) (v old : Step K n p m) :
    KKT.multiply d k1 v old = KKT.multiply d k2 v old := by
  unfold KKT.multiply
  rw [h.rho, h.delta, h.s, h.zinv, h.s_lb, h.zinv_lb, h.s_ub, h.zinv_ub]

/-- **C10, all back ends compute the same step.** Two back ends (any two of dense / full / eq- / ineq- / all-eliminated)
    whose reduced matrices are coherent with the same data and scalings and whose inner factorisations are exact return
    steps with the same image under the full Newton operator; if that operator is injective (the system is nonsingular,
    which positive `ρ, δ` and an interior iterate guarantee for a convex problem), the steps are equal. -/
theorem backends_agree_exact (be1 be2 : Backend) (st1 st2 : KKTSettings K) (d : Data K n p m) (k1 k2 : KKT K n p m)
    (r old out1 out2 : Step K n p m) (slv1 slv2 : SolveFn K n p m)
    (hsame : SameScalings k1 k2)
    (hf1 : k1.fsol = some slv1) (hc1 : Coherent be1 d k1) (he1 : InnerExact be1 k1.k slv1) (hi1 : Interior d k1)
    (hf2 : k2.fsol = some slv2) (hc2 : Coherent be2 d k2) (he2 : InnerExact be2 k2.k slv2) (hi2 : Interior d k2)
    (h1 : KKT.solve be1 st1 d k1 r old false = some out1) (h2 : KKT.solve be2 st2 d k2 r old false = some out2) :
    KKT.multiply d k1 out1 old = KKT.multiply d k1 out2 old ∧
    ((∀ v v' : Step K n p m, KKT.multiply d k1 v old = KKT.multiply d k1 v' old → v = v') → out1 = out2) := by
  have A := solve_solves_full_system be1 st1 d k1 r old out1 slv1 hf1 hc1 he1 hi1 h1
  have B := solve_solves_full_system be2 st2 d k2 r old out2 slv2 hf2 hc2 he2 hi2 h2
  rw [← multiply_congr d k1 k2 hsame out2 old] at B
  obtain ⟨a1, a2, a3, a4, a5, a6, a7, a8⟩ := A
  obtain ⟨b1, b2, b3, b4, b5, b6, b7, b8⟩ := B
  have key : KKT.multiply d k1 out1 old = KKT.multiply d k1 out2 old := by
    have ext : ∀ (u v : Step K n p m), u.x = v.x → u.y = v.y → u.z = v.z → u.z_lb = v.z_lb → u.z_ub = v.z_ub →
        u.s = v.s → u.s_lb = v.s_lb → u.s_ub = v.s_ub → u = v := by
      intro u v e1 e2 e3 e4 e5 e6 e7 e8; cases u; cases v; simp_all
    apply ext
    · exact Vector.ext fun i hi => by have := a1 ⟨i, hi⟩; have := b1 ⟨i, hi⟩; simp_all
    · exact Vector.ext fun i hi => by have := a2 ⟨i, hi⟩; have := b2 ⟨i, hi⟩; simp_all
    · exact Vector.ext fun i hi => by have := a3 ⟨i, hi⟩; have := b3 ⟨i, hi⟩; simp_all
    · exact Vector.ext fun i hi => by have := a5 ⟨i, hi⟩; have := b5 ⟨i, hi⟩; simp_all
    · exact Vector.ext fun i hi => by have := a7 ⟨i, hi⟩; have := b7 ⟨i, hi⟩; simp_all
    · exact Vector.ext fun i hi => by have := a4 ⟨i, hi⟩; have := b4 ⟨i, hi⟩; simp_all
    · exact Vector.ext fun i hi => by have := a6 ⟨i, hi⟩; have := b6 ⟨i, hi⟩; simp_all
    · exact Vector.ext fun i hi => by have := a8 ⟨i, hi⟩; have := b8 ⟨i, hi⟩; simp_all
  exact ⟨key, fun hinj => hinj _ _ key⟩

end agree
end Piqp.C10

namespace Piqp.C10
set_option linter.unusedSectionVars false
set_option linter.unusedSimpArgs false
set_option linter.unusedVariables false
section api
variable {K : Type}
variable [Add K] [Sub K] [Mul K] [Div K] [Neg K] [Zero K] [One K] [LT K] [DecidableLT K] [LE K] [DecidableLE K]
variable [NatCast K] [BEq K] [Inhabited K]

/-- `P` with other entries: same shape, arbitrary content -/
def withEnt (P : RawMat K) (ent : Array (Option K)) : RawMat K := { P with ent := ent }

/-- the two arguments agree on and above the diagonal (values and storedness) -/
def UpperAgree (P : RawMat K) (ent : Array (Option K)) : Prop :=
  ∀ i j : Nat, i ≤ j → j < P.cols → P.get i j = (withEnt P ent).get i j

theorem toMat_upper (P : RawMat K) (ent : Array (Option K)) (h : UpperAgree P ent) (hsq : P.cols = P.rows) :
    upperOfMat (P.toMat P.rows P.rows) = upperOfMat ((withEnt P ent).toMat P.rows P.rows) := by
  apply upperOfMat_reads_upper_only
  intro i j hij
  simp only [RawMat.toMat, Mat.ofFn, Fin.getElem_fin, Vector.getElem_ofFn]
  rw [h i.val j.val hij (by rw [hsq]; exact j.isLt)]

theorem upperMask_upper (P : RawMat K) (ent : Array (Option K)) (h : UpperAgree P ent) :
    upperMask P = upperMask (withEnt P ent) := by
  unfold upperMask
  show Array.ofFn _ = Array.ofFn (n := P.rows * P.cols) _
  congr 1
  funext k
  simp only [withEnt]
  by_cases hle : k.val / P.cols ≤ k.val % P.cols
  · have hc : 0 < P.cols := by
      rcases Nat.eq_zero_or_pos P.cols with h0 | h0
      · have hk : k.val < P.rows * P.cols := k.isLt
        have : P.rows * P.cols = 0 := by rw [h0]; exact Nat.mul_zero _
        omega
      · exact h0
    have := h (k.val / P.cols) (k.val % P.cols) hle (Nat.mod_lt _ hc)
    simp only [RawMat.stored, this, withEnt]
    rfl
  · simp [hle]

variable (cs : Consts K) (sqrtF : K → K) (poison : K)

theorem setupTyped_congr_P {n p m : Nat} (hn : 0 < n) (be : Backend) (pk : PrecKind) (st : Settings K) (prevInfo : Info K)
    (P P' : Mat K n n) (c : Vec K n) (AT : Mat K n p) (b : Vec K p) (GT : Mat K n m) (h : Option (Vec K m))
    (xlb xub : Option (Vec K n)) (hP : upperOfMat P = upperOfMat P') :
    setupTyped cs sqrtF poison hn be pk st prevInfo P c AT b GT h xlb xub =
    setupTyped cs sqrtF poison hn be pk st prevInfo P' c AT b GT h xlb xub := by
  unfold setupTyped setupRaw
  simp only [hP]

/-- **C10, storage of `P` at `setup`**: whatever the caller stores strictly below the diagonal of `P` (nothing, the
    symmetric values, garbage), every back end reaches the same state. -/
theorem setup_lower_triangle_irrelevant (st : ApiState K) (be : Backend) (pk : PrecKind) (P : RawMat K) (ent : Array (Option K))
    (c : RawVec K) (A : Option (RawMat K)) (b : Option (RawVec K)) (G : Option (RawMat K)) (h : Option (RawVec K))
    (xlb xub : Option (RawVec K)) (hu : UpperAgree P ent) :
    apiStep cs sqrtF poison st (.setup be pk P c A b G h xlb xub) =
    apiStep cs sqrtF poison st (.setup be pk (withEnt P ent) c A b G h xlb xub) := by
  simp only [apiStep]
  have hval : validateSetup (withEnt P ent) c A b G h xlb xub = validateSetup P c A b G h xlb xub := rfl
  rw [hval]
  cases hv : validateSetup P c A b G h xlb xub with
  | some msg => rfl
  | none =>
    simp only
    have hsq : P.cols = P.rows := by
      unfold validateSetup at hv
      simp only at hv
      split_ifs at hv with h1
      exact Classical.not_not.mp h1
    by_cases hn : 0 < P.rows
    · have hn' : 0 < (withEnt P ent).rows := hn
      simp only [hn, hn', dite_true]
      rw [← upperMask_upper P ent hu]
      simp only [withEnt] at *
      rw [setupTyped_congr_P cs sqrtF poison hn be pk st.settings _ _ _ _ _ _ _ _ _ _ (toMat_upper P ent hu hsq)]
      rfl
    · have hn' : ¬ 0 < (withEnt P ent).rows := hn
      simp only [hn, hn', dite_false]

theorem orElse_none_left {α : Type} {x y : Option α} (h : (x <|> y) = none) : x = none := by
  cases x with
  | none => rfl
  | some v => cases h

theorem validateUpdate_dims (a : AnySolver K) (P : RawMat K) (c : Option (RawVec K))
    (A : Option (RawMat K)) (b : Option (RawVec K)) (G : Option (RawMat K)) (h : Option (RawVec K))
    (xlb xub : Option (RawVec K)) (hv : validateUpdate a false (some P) c A b G h xlb xub = none) :
    P.rows = a.n ∧ P.cols = a.n := by
  unfold validateUpdate at hv
  simp only at hv
  have h1 := orElse_none_left hv
  by_contra hne
  have hc : (decide (P.rows ≠ a.n) || decide (P.cols ≠ a.n)) = true := by
    simp only [Bool.or_eq_true, decide_eq_true_eq, ne_eq]
    by_cases h1 : P.rows = a.n
    · right; intro h2; exact hne ⟨h1, h2⟩
    · left; exact h1
  rw [if_pos hc] at h1
  cases h1

theorem updateTyped_congr_P {n p m : Nat} (maskP : Array Bool) (s : Solver K n p m)
    (P P' : Mat K n n) (c : Option (Vec K n)) (A : Option (Mat K p n)) (b : Option (Vec K p))
    (G : Option (Mat K m n)) (h : Option (Vec K m)) (xlb xub : Option (Vec K n)) (reuse : Bool) (hP : upperOfMat P = upperOfMat P') :
    updateTyped cs sqrtF false maskP s (some P) c A b G h xlb xub reuse =
    updateTyped cs sqrtF false maskP s (some P') c A b G h xlb xub reuse := by
  unfold updateTyped updateRaw
  simp only [hP, Bool.false_eq_true, if_false, Option.isSome_some]

/-- **C10, storage of `P` at `update` (dense back end)**: the strictly lower triangle of a new `P` is never read. -/
theorem update_lower_triangle_irrelevant (st : ApiState K) (a : AnySolver K) (hsol : st.sol = some a) (hd : a.s.be.isDense = true)
    (P : RawMat K) (ent : Array (Option K))
    (c : Option (RawVec K)) (A : Option (RawMat K)) (b : Option (RawVec K)) (G : Option (RawMat K)) (h : Option (RawVec K))
    (xlb xub : Option (RawVec K)) (reuse : Bool) (hu : UpperAgree P ent) :
    apiStep cs sqrtF poison st (.update (some P) c A b G h xlb xub reuse) =
    apiStep cs sqrtF poison st (.update (some (withEnt P ent)) c A b G h xlb xub reuse) := by
  simp only [apiStep, hsol, hd, Bool.not_true]
  have hval : validateUpdate a false (some (withEnt P ent)) c A b G h xlb xub = validateUpdate a false (some P) c A b G h xlb xub := rfl
  rw [hval]
  cases hv : validateUpdate a false (some P) c A b G h xlb xub with
  | some msg => rfl
  | none =>
    simp only
    have hdim : P.rows = a.n ∧ P.cols = a.n := validateUpdate_dims a _ _ _ _ _ _ _ _ hv
    obtain ⟨n, p, m, hn, s, mP, mA, mG, perm⟩ := a
    simp only at hdim hd ⊢
    obtain ⟨h1, h2⟩ := hdim
    have hsq : P.cols = P.rows := by rw [h1, h2]
    have hmat : upperOfMat (P.toMat n n) = upperOfMat ((withEnt P ent).toMat n n) := by
      have := toMat_upper P ent hu hsq
      rw [h1] at this
      exact this
    simp only [optMat, Option.map_some]
    rw [updateTyped_congr_P cs sqrtF mP s _ _ _ _ _ _ _ _ _ reuse hmat]
end api
end Piqp.C10
