import PiqpProofs.Basic
import PiqpModel.Api
import PiqpProofs.Properties.C13

/-!
# C10 — the answer does not depend on back end, KKT formulation or storage of P
-/

namespace Piqp.C10

variable {K : Type}
variable [Zero K]
variable {n : Nat}

/-- only the upper triangle of the `P` argument is read: two arguments that agree on and above the diagonal are
    stored identically -/
theorem upperOfMat_reads_upper_only (A B : Mat K n n)
    (h : ∀ i j : Fin n, i.val ≤ j.val → A[i][j] = B[i][j]) : upperOfMat A = upperOfMat B := by
  unfold upperOfMat Mat.ofFn
  apply Vector.ext
  intro i hi
  simp only [Vector.getElem_ofFn]
  apply Vector.ext
  intro j hj
  simp only [Vector.getElem_ofFn]
  split
  · rename_i hle
    exact h ⟨i, hi⟩ ⟨j, hj⟩ hle
  · rfl

end Piqp.C10

namespace Piqp.C10
set_option linter.unusedSectionVars false
set_option linter.unusedVariables false
section agree
open Piqp.C13
variable {K : Type} [Field K] [LinearOrder K]
variable {n p m : Nat}

/-- two KKT states (of possibly different back ends) carry the same regularisation and scalings -/
structure SameScalings (k1 k2 : KKT K n p m) : Prop where
  rho : k1.rho = k2.rho
  delta : k1.delta = k2.delta
  s : k1.s = k2.s
  zinv : k1.zinv = k2.zinv
  s_lb : k1.s_lb = k2.s_lb
  zinv_lb : k1.zinv_lb = k2.zinv_lb
  s_ub : k1.s_ub = k2.s_ub
  zinv_ub : k1.zinv_ub = k2.zinv_ub

theorem multiply_congr (d : Data K n p m) (k1 k2 : KKT K n p m) (h : SameScalings k1 k2) (v old : Step K n p m) :
    KKT.multiply d k1 v old = KKT.multiply d k2 v old := by
  unfold KKT.multiply
  rw [h.rho, h.delta, h.s, h.zinv, h.s_lb, h.zinv_lb, h.s_ub, h.zinv_ub]

/-- **C10, all back ends compute the same step.** Two back ends (any two of dense / full / eq- / ineq- / all-eliminated)
    whose reduced matrices are coherent with the same data and scalings and whose inner factorisations are exact return
    steps with the same image under the full Newton operator; if that operator is injective (the system is nonsingular,
    which positive `ρ, δ` and an interior iterate guarantee for a convex problem), the steps are equal. -/
theorem backends_agree_exact (be1 be2 : Backend) (st1 st2 : KKTSettings K) (d : Data K n p m) (k1 k2 : KKT K n p m)
    (r old out1 out2 : Step K n p m) (slv1 slv2 : SolveFn K n p m)
    (hsame : SameScalings k1 k2)
    (hf1 : k1.fsol = some slv1) (hc1 : Coherent be1 d k1) (he1 : InnerExact be1 k1.k slv1) (hi1 : Interior d k1)
    (hf2 : k2.fsol = some slv2) (hc2 : Coherent be2 d k2) (he2 : InnerExact be2 k2.k slv2) (hi2 : Interior d k2)
    (h1 : KKT.solve be1 st1 d k1 r old false = some out1) (h2 : KKT.solve be2 st2 d k2 r old false = some out2) :
    KKT.multiply d k1 out1 old = KKT.multiply d k1 out2 old ∧
    ((∀ v v' : Step K n p m, KKT.multiply d k1 v old = KKT.multiply d k1 v' old → v = v') → out1 = out2) := by
  have A := solve_solves_full_system be1 st1 d k1 r old out1 slv1 hf1 hc1 he1 hi1 h1
  have B := solve_solves_full_system be2 st2 d k2 r old out2 slv2 hf2 hc2 he2 hi2 h2
  rw [← multiply_congr d k1 k2 hsame out2 old] at B
  obtain ⟨a1, a2, a3, a4, a5, a6, a7, a8⟩ := A
  obtain ⟨b1, b2, b3, b4, b5, b6, b7, b8⟩ := B
  have key : KKT.multiply d k1 out1 old = KKT.multiply d k1 out2 old := by
    have ext : ∀ (u v : Step K n p m), u.x = v.x → u.y = v.y → u.z = v.z → u.z_lb = v.z_lb → u.z_ub = v.z_ub →
        u.s = v.s → u.s_lb = v.s_lb → u.s_ub = v.s_ub → u = v := by
      intro u v e1 e2 e3 e4 e5 e6 e7 e8; cases u; cases v; simp_all
    apply ext
    · exact Vector.ext fun i hi => by have := a1 ⟨i, hi⟩; have := b1 ⟨i, hi⟩; simp_all
    · exact Vector.ext fun i hi => by have := a2 ⟨i, hi⟩; have := b2 ⟨i, hi⟩; simp_all
    · exact Vector.ext fun i hi => by have := a3 ⟨i, hi⟩; have := b3 ⟨i, hi⟩; simp_all
    · exact Vector.ext fun i hi => by have := a5 ⟨i, hi⟩; have := b5 ⟨i, hi⟩; simp_all
    · exact Vector.ext fun i hi => by have := a7 ⟨i, hi⟩; have := b7 ⟨i, hi⟩; simp_all
    · exact Vector.ext fun i hi => by have := a4 ⟨i, hi⟩; have := b4 ⟨i, hi⟩; simp_all
    · exact Vector.ext fun i hi => by have := a6 ⟨i, hi⟩; have := b6 ⟨i, hi⟩; simp_all
    · exact Vector.ext fun i hi => by have := a8 ⟨i, hi⟩; have := b8 ⟨i, hi⟩; simp_all
  exact ⟨key, fun hinj => hinj _ _ key⟩

end agree
end Piqp.C10
