import PiqpProofs.Basic
import PiqpModel.Api
import PiqpProofs.Properties.C13
import PiqpProofs.Properties.C14
import Mathlib.Tactic.SplitIfs

/-!
# C10 — the answer does not depend on back end, KKT formulation or storage of P
-/

namespace Piqp.C10

variable {K : Type}
variable [Zero K]
variable {n : Nat}

/-- only the upper triangle of the `P` argument is read: two arguments that agree on and above the diagonal are
    stored identically -/
theorem upperOfMat_reads_upper_only (A B : Mat K n n)
    (h : ∀ i j : Fin n, i.val ≤ j.val → A[i][j] = B[i][j]) : upperOfMat A = upperOfMat B := by
  unfold upperOfMat Mat.ofFn
  apply Vector.ext
  intro i hi
  simp only [Vector.getElem_ofFn]
  apply Vector.ext
  intro j hj
  simp only [Vector.getElem_ofFn]
  split
  · rename_i hle
    exact h ⟨i, hi⟩ ⟨j, hj⟩ hle
  · rfl

end Piqp.C10

namespace Piqp.C10
set_option linter.unusedSectionVars false
set_option linter.unusedVariables false
section agree
open Piqp.C13
variable {K : Type} [Field K] [LinearOrder K]
variable {n p m : Nat}

/-- two KKT states (of possibly different back ends) carry the same regularisation and scalings -/
structure SameScalings (k1 k2 : KKT K n p m) : Prop where
  rho : k1.rho = k2.rho
  delta : k1.delta = k2.delta
  s : k1.s = k2.s
  zinv : k1.zinv = k2.zinv
  s_lb : k1.s_lb = k2.s_lb
  zinv_lb : k1.zinv_lb = k2.zinv_lb
  s_ub : k1.s_ub = k2.s_ub
  zinv_ub : k1.zinv_ub = k2.zinv_ub

theorem multiply_congr (d : Data K n p m) (k1 k2 : KKT K n p m) (h : SameScalings k1 k2) (v old : Step K n p m) :
    KKT.multiply d k1 v old = KKT.multiply d k2 v old := by
  unfold KKT.multiply
  rw [h.rho, h.delta, h.s, h.zinv, h.s_lb, h.zinv_lb, h.s_ub, h.zinv_ub]

/-- **C10, all back ends compute the same step.** Two back ends (any two of dense / full / eq- / ineq- / all-eliminated)
    whose reduced matrices are coherent with the same data and scalings and whose inner factorisations are exact return
    steps with the same image under the full Newton operator; if that operator is injective (the system is nonsingular,
    which positive `ρ, δ` and an interior iterate guarantee for a convex problem), the steps are equal. -/
theorem backends_agree_exact (be1 be2 : Backend) (st1 st2 : KKTSettings K) (d : Data K n p m) (k1 k2 : KKT K n p m)
    (r old out1 out2 : Step K n p m) (slv1 slv2 : SolveFn K n p m)
    (hsame : SameScalings k1 k2)
    (hf1 : k1.fsol = some slv1) (hc1 : Coherent be1 d k1) (he1 : InnerExact be1 k1.k slv1) (hi1 : Interior d k1)
    (hf2 : k2.fsol = some slv2) (hc2 : Coherent be2 d k2) (he2 : InnerExact be2 k2.k slv2) (hi2 : Interior d k2)
    (h1 : KKT.solve be1 st1 d k1 r old false = some out1) (h2 : KKT.solve be2 st2 d k2 r old false = some out2) :
    KKT.multiply d k1 out1 old = KKT.multiply d k1 out2 old ∧
    ((∀ v v' : Step K n p m, KKT.multiply d k1 v old = KKT.multiply d k1 v' old → v = v') → out1 = out2) := by
  have A := solve_solves_full_system be1 st1 d k1 r old out1 slv1 hf1 hc1 he1 hi1 h1
  have B := solve_solves_full_system be2 st2 d k2 r old out2 slv2 hf2 hc2 he2 hi2 h2
  rw [← multiply_congr d k1 k2 hsame out2 old] at B
  obtain ⟨a1, a2, a3, a4, a5, a6, a7, a8⟩ := A
  obtain ⟨b1, b2, b3, b4, b5, b6, b7, b8⟩ := B
  have key : KKT.multiply d k1 out1 old = KKT.multiply d k1 out2 old := by
    have ext : ∀ (u v : Step K n p m), u.x = v.x → u.y = v.y → u.z = v.z → u.z_lb = v.z_lb → u.z_ub = v.z_ub →
        u.s = v.s → u.s_lb = v.s_lb → u.s_ub = v.s_ub → u = v := by
      intro u v e1 e2 e3 e4 e5 e6 e7 e8; cases u; cases v; simp_all
    apply ext
    · exact Vector.ext fun i hi => by have := a1 ⟨i, hi⟩; have := b1 ⟨i, hi⟩; simp_all
    · exact Vector.ext fun i hi => by have := a2 ⟨i, hi⟩; have := b2 ⟨i, hi⟩; simp_all
    · exact Vector.ext fun i hi => by have := a3 ⟨i, hi⟩; have := b3 ⟨i, hi⟩; simp_all
    · exact Vector.ext fun i hi => by have := a5 ⟨i, hi⟩; have := b5 ⟨i, hi⟩; simp_all
    · exact Vector.ext fun i hi => by have := a7 ⟨i, hi⟩; have := b7 ⟨i, hi⟩; simp_all
    · exact Vector.ext fun i hi => by have := a4 ⟨i, hi⟩; have := b4 ⟨i, hi⟩; simp_all
    · exact Vector.ext fun i hi => by have := a6 ⟨i, hi⟩; have := b6 ⟨i, hi⟩; simp_all
    · exact Vector.ext fun i hi => by have := a8 ⟨i, hi⟩; have := b8 ⟨i, hi⟩; simp_all
  exact ⟨key, fun hinj => hinj _ _ key⟩

end agree
end Piqp.C10

namespace Piqp.C10
set_option linter.unusedSectionVars false
set_option linter.unusedSimpArgs false
set_option linter.unusedVariables false
section api
variable {K : Type}
variable [Add K] [Sub K] [Mul K] [Div K] [Neg K] [Zero K] [One K] [LT K] [DecidableLT K] [LE K] [DecidableLE K]
variable [NatCast K] [BEq K] [Inhabited K]

/-- `P` with other entries: same shape, arbitrary content -/
def withEnt (P : RawMat K) (ent : Array (Option K)) : RawMat K := { P with ent := ent }

/-- the two arguments agree on and above the diagonal (values and storedness) -/
def UpperAgree (P : RawMat K) (ent : Array (Option K)) : Prop :=
  ∀ i j : Nat, i ≤ j → j < P.cols → P.get i j = (withEnt P ent).get i j

theorem toMat_upper (P : RawMat K) (ent : Array (Option K)) (h : UpperAgree P ent) (hsq : P.cols = P.rows) :
    upperOfMat (P.toMat P.rows P.rows) = upperOfMat ((withEnt P ent).toMat P.rows P.rows) := by
  apply upperOfMat_reads_upper_only
  intro i j hij
  simp only [RawMat.toMat, Mat.ofFn, Fin.getElem_fin, Vector.getElem_ofFn]
  rw [h i.val j.val hij (by rw [hsq]; exact j.isLt)]

theorem upperMask_upper (P : RawMat K) (ent : Array (Option K)) (h : UpperAgree P ent) :
    upperMask P = upperMask (withEnt P ent) := by
  unfold upperMask
  show Array.ofFn _ = Array.ofFn (n := P.rows * P.cols) _
  congr 1
  funext k
  simp only [withEnt]
  by_cases hle : k.val / P.cols ≤ k.val % P.cols
  · have hc : 0 < P.cols := by
      rcases Nat.eq_zero_or_pos P.cols with h0 | h0
      · have hk : k.val < P.rows * P.cols := k.isLt
        have : P.rows * P.cols = 0 := by rw [h0]; exact Nat.mul_zero _
        omega
      · exact h0
    have := h (k.val / P.cols) (k.val % P.cols) hle (Nat.mod_lt _ hc)
    simp only [RawMat.stored, this, withEnt]
    rfl
  · simp [hle]

variable (cs : Consts K) (sqrtF : K → K) (poison : K)

theorem setupTyped_congr_P {n p m : Nat} (hn : 0 < n) (be : Backend) (pk : PrecKind) (st : Settings K) (prevInfo : Info K)
    (P P' : Mat K n n) (c : Vec K n) (AT : Mat K n p) (b : Vec K p) (GT : Mat K n m) (h : Option (Vec K m))
    (xlb xub : Option (Vec K n)) (hP : upperOfMat P = upperOfMat P') :
    setupTyped cs sqrtF poison hn be pk st prevInfo P c AT b GT h xlb xub =
    setupTyped cs sqrtF poison hn be pk st prevInfo P' c AT b GT h xlb xub := by
  unfold setupTyped setupRaw
  simp only [hP]

/-- **C10, storage of `P` at `setup`**: whatever the caller stores strictly below the diagonal of `P` (nothing, the
    symmetric values, garbage), every back end reaches the same state. -/
theorem setup_lower_triangle_irrelevant (st : ApiState K) (be : Backend) (pk : PrecKind) (P : RawMat K) (ent : Array (Option K))
    (c : RawVec K) (A : Option (RawMat K)) (b : Option (RawVec K)) (G : Option (RawMat K)) (h : Option (RawVec K))
    (xlb xub : Option (RawVec K)) (hu : UpperAgree P ent) :
    apiStep cs sqrtF poison st (.setup be pk P c A b G h xlb xub) =
    apiStep cs sqrtF poison st (.setup be pk (withEnt P ent) c A b G h xlb xub) := by
  simp only [apiStep]
  have hval : validateSetup (withEnt P ent) c A b G h xlb xub = validateSetup P c A b G h xlb xub := rfl
  rw [hval]
  cases hv : validateSetup P c A b G h xlb xub with
  | some msg => rfl
  | none =>
    simp only
    have hsq : P.cols = P.rows := by
      unfold validateSetup at hv
      simp only at hv
      split_ifs at hv with h1
      exact Classical.not_not.mp h1
    by_cases hn : 0 < P.rows
    · have hn' : 0 < (withEnt P ent).rows := hn
      simp only [hn, hn', dite_true]
      rw [← upperMask_upper P ent hu]
      simp only [withEnt] at *
      rw [setupTyped_congr_P cs sqrtF poison hn be pk st.settings _ _ _ _ _ _ _ _ _ _ (toMat_upper P ent hu hsq)]
      rfl
    · have hn' : ¬ 0 < (withEnt P ent).rows := hn
      simp only [hn, hn', dite_false]

theorem orElse_none_left {α : Type} {x y : Option α} (h : (x <|> y) = none) : x = none := by
  cases x with
  | none => rfl
  | some v => cases h

theorem validateUpdate_dims (a : AnySolver K) (P : RawMat K) (c : Option (RawVec K))
    (A : Option (RawMat K)) (b : Option (RawVec K)) (G : Option (RawMat K)) (h : Option (RawVec K))
    (xlb xub : Option (RawVec K)) (hv : validateUpdate a false (some P) c A b G h xlb xub = none) :
    P.rows = a.n ∧ P.cols = a.n := by
  unfold validateUpdate at hv
  simp only at hv
  have h1 := orElse_none_left hv
  by_contra hne
  have hc : (decide (P.rows ≠ a.n) || decide (P.cols ≠ a.n)) = true := by
    simp only [Bool.or_eq_true, decide_eq_true_eq, ne_eq]
    by_cases h1 : P.rows = a.n
    · right; intro h2; exact hne ⟨h1, h2⟩
    · left; exact h1
  rw [if_pos hc] at h1
  cases h1

theorem updateTyped_congr_P {n p m : Nat} (maskP : Array Bool) (s : Solver K n p m)
    (P P' : Mat K n n) (c : Option (Vec K n)) (A : Option (Mat K p n)) (b : Option (Vec K p))
    (G : Option (Mat K m n)) (h : Option (Vec K m)) (xlb xub : Option (Vec K n)) (reuse : Bool) (hP : upperOfMat P = upperOfMat P') :
    updateTyped cs sqrtF false maskP s (some P) c A b G h xlb xub reuse =
    updateTyped cs sqrtF false maskP s (some P') c A b G h xlb xub reuse := by
  unfold updateTyped updateRaw
  simp only [hP, Bool.false_eq_true, if_false, Option.isSome_some]

/-- **C10, storage of `P` at `update` (dense back end)**: the strictly lower triangle of a new `P` is never read. -/
theorem update_lower_triangle_irrelevant (st : ApiState K) (a : AnySolver K) (hsol : st.sol = some a) (hd : a.s.be.isDense = true)
    (P : RawMat K) (ent : Array (Option K))
    (c : Option (RawVec K)) (A : Option (RawMat K)) (b : Option (RawVec K)) (G : Option (RawMat K)) (h : Option (RawVec K))
    (xlb xub : Option (RawVec K)) (reuse : Bool) (hu : UpperAgree P ent) :
    apiStep cs sqrtF poison st (.update (some P) c A b G h xlb xub reuse) =
    apiStep cs sqrtF poison st (.update (some (withEnt P ent)) c A b G h xlb xub reuse) := by
  simp only [apiStep, hsol, hd, Bool.not_true]
  have hval : validateUpdate a false (some (withEnt P ent)) c A b G h xlb xub = validateUpdate a false (some P) c A b G h xlb xub := rfl
  rw [hval]
  cases hv : validateUpdate a false (some P) c A b G h xlb xub with
  | some msg => rfl
  | none =>
    simp only
    have hdim : P.rows = a.n ∧ P.cols = a.n := validateUpdate_dims a _ _ _ _ _ _ _ _ hv
    obtain ⟨n, p, m, hn, s, mP, mA, mG, perm⟩ := a
    simp only at hdim hd ⊢
    obtain ⟨h1, h2⟩ := hdim
    have hsq : P.cols = P.rows := by rw [h1, h2]
    have hmat : upperOfMat (P.toMat n n) = upperOfMat ((withEnt P ent).toMat n n) := by
      have := toMat_upper P ent hu hsq
      rw [h1] at this
      exact this
    simp only [optMat, Option.map_some]
    rw [updateTyped_congr_P cs sqrtF mP s _ _ _ _ _ _ _ _ _ reuse hmat]
end api
end Piqp.C10

/-! ## Injectivity of the full Newton operator, and equal steps across back ends

`backends_agree_exact` concludes `out1 = out2` from an injectivity hypothesis that, as stated there (for *all* steps, dead tails
included), no state with an inactive box slot can meet. `multiply_injective` proves the injectivity that is actually needed —
on steps agreeing on the dead tails — for convex problems at interior iterates (energy argument, `newton_kernel_trivial`), and
`backends_agree_convex` is the resulting statement without unmet hypotheses. -/

set_option linter.unusedSectionVars false
set_option linter.unusedSimpArgs false
set_option linter.unusedVariables false
namespace Piqp.C10
open Finset
section kernel
variable {K : Type} [Field K] [LinearOrder K] [IsStrictOrderedRing K]
variable {n p m : Nat}

theorem sum_scatter_f (act : Fin n → Prop) [DecidablePred act] (idx : Fin n → Fin n) (f x : Fin n → K) :
    (∑ j : Fin n, x j * ∑ a : Fin n, if act a ∧ idx a = j then f a else 0) = ∑ a : Fin n, if act a then f a * x (idx a) else 0 := by
  simp only [Finset.mul_sum]
  rw [Finset.sum_comm]
  refine Finset.sum_congr rfl fun a _ => ?_
  by_cases ha : act a
  · simp only [ha, true_and, if_true]
    rw [Finset.sum_eq_single (idx a)]
    · rw [if_pos rfl]; ring
    · intro j _ hj
      have : ¬ idx a = j := fun e => hj e.symm
      rw [if_neg this, mul_zero]
    · intro h; exact absurd (Finset.mem_univ _) h
  · simp [ha]

theorem sum_swap_f {q : Nat} (M : Fin n → Fin q → K) (x : Fin n → K) (y : Fin q → K) :
    (∑ j : Fin n, x j * ∑ t : Fin q, M j t * y t) = ∑ t : Fin q, y t * ∑ j : Fin n, M j t * x j := by
  simp only [Finset.mul_sum]
  rw [Finset.sum_comm]
  exact Finset.sum_congr rfl fun t _ => Finset.sum_congr rfl fun j _ => by ring

theorem slack_of (sv zinv wz ws : K) (hz : 0 < zinv) (h : sv * wz + (1 / zinv) * ws = 0) : ws = -(sv * zinv) * wz := by
  have hne : zinv ≠ 0 := ne_of_gt hz
  have h2 : ws = -(sv * wz) * zinv := by
    have : (1 / zinv) * ws = -(sv * wz) := by linear_combination h
    calc ws = zinv * ((1 / zinv) * ws) := by field_simp
      _ = zinv * (-(sv * wz)) := by rw [this]
      _ = -(sv * wz) * zinv := by ring
  rw [h2]; ring

/-- **the full regularised Newton operator of a convex problem at an interior iterate has a trivial kernel** (on the live
    slots), stated for plain index functions: the energy argument
    `0 = wxᵀ(row x) = wxᵀP wx + ρ‖wx‖² + δ‖wy‖² + Σ (δ + s·z⁻¹) wz² + Σ_act (…) wzl² + Σ_act (…) wzu²` -/
theorem newton_kernel_trivial (Pm : Fin n → Fin n → K) (AT : Fin n → Fin p → K) (GT : Fin n → Fin m → K)
    (actl actu : Fin n → Prop) [DecidablePred actl] [DecidablePred actu] (idxl idxu : Fin n → Fin n) (scl scu : Fin n → K)
    (ρ δ : K) (sv zinv : Fin m → K) (sl zl su zu : Fin n → K)
    (hP : ∀ x : Fin n → K, 0 ≤ ∑ j : Fin n, x j * ∑ c : Fin n, Pm j c * x c) (hρ : 0 < ρ) (hδ : 0 < δ)
    (hs : ∀ t, 0 < sv t) (hz : ∀ t, 0 < zinv t)
    (hsl : ∀ a, actl a → 0 < sl a) (hzl : ∀ a, actl a → 0 < zl a) (hsu : ∀ a, actu a → 0 < su a) (hzu : ∀ a, actu a → 0 < zu a)
    (wx : Fin n → K) (wy : Fin p → K) (wz ws : Fin m → K) (wzl wsl wzu wsu : Fin n → K)
    (hX : ∀ j, (∑ c, Pm j c * wx c) + ρ * wx j + ((∑ t, AT j t * wy t) + ∑ t, GT j t * wz t)
        - (∑ a, if actl a ∧ idxl a = j then scl a * wzl a else 0) + (∑ a, if actu a ∧ idxu a = j then scu a * wzu a else 0) = 0)
    (hY : ∀ t, (∑ i, AT i t * wx i) - δ * wy t = 0)
    (hZ : ∀ t, (∑ i, GT i t * wx i) - δ * wz t + ws t = 0)
    (hZL : ∀ a, actl a → -scl a * wx (idxl a) - δ * wzl a + wsl a = 0)
    (hZU : ∀ a, actu a → scu a * wx (idxu a) - δ * wzu a + wsu a = 0)
    (hS : ∀ t, sv t * wz t + (1 / zinv t) * ws t = 0)
    (hSL : ∀ a, actl a → sl a * wzl a + (1 / zl a) * wsl a = 0)
    (hSU : ∀ a, actu a → su a * wzu a + (1 / zu a) * wsu a = 0) :
    (∀ j, wx j = 0) ∧ (∀ t, wy t = 0) ∧ (∀ t, wz t = 0) ∧ (∀ t, ws t = 0) ∧
    (∀ a, actl a → wzl a = 0 ∧ wsl a = 0) ∧ (∀ a, actu a → wzu a = 0 ∧ wsu a = 0) := by
  have ews : ∀ t, ws t = -(sv t * zinv t) * wz t := fun t => slack_of _ _ _ _ (hz t) (hS t)
  have ewsl : ∀ a, actl a → wsl a = -(sl a * zl a) * wzl a := fun a ha => slack_of _ _ _ _ (hzl a ha) (hSL a ha)
  have ewsu : ∀ a, actu a → wsu a = -(su a * zu a) * wzu a := fun a ha => slack_of _ _ _ _ (hzu a ha) (hSU a ha)
  have hE : (∑ j, wx j * ((∑ c, Pm j c * wx c) + ρ * wx j + ((∑ t, AT j t * wy t) + ∑ t, GT j t * wz t)
        - (∑ a, if actl a ∧ idxl a = j then scl a * wzl a else 0) + (∑ a, if actu a ∧ idxu a = j then scu a * wzu a else 0))) = 0 :=
    Finset.sum_eq_zero fun j _ => by rw [hX j, mul_zero]
  simp only [mul_add, mul_sub, Finset.sum_add_distrib, Finset.sum_sub_distrib] at hE
  rw [sum_swap_f AT wx wy, sum_swap_f GT wx wz, sum_scatter_f actl idxl (fun a => scl a * wzl a) wx,
    sum_scatter_f actu idxu (fun a => scu a * wzu a) wx] at hE
  have tY : (∑ t, wy t * ∑ j, AT j t * wx j) = ∑ t, δ * (wy t * wy t) :=
    Finset.sum_congr rfl fun t _ => by have := hY t; linear_combination wy t * this
  have tZ : (∑ t, wz t * ∑ j, GT j t * wx j) = ∑ t, (δ + sv t * zinv t) * (wz t * wz t) :=
    Finset.sum_congr rfl fun t _ => by have := hZ t; have e := ews t; linear_combination wz t * this - wz t * e
  have tL : (∑ a, if actl a then scl a * wzl a * wx (idxl a) else 0) =
      -∑ a, if actl a then (δ + sl a * zl a) * (wzl a * wzl a) else 0 := by
    rw [← Finset.sum_neg_distrib]
    refine Finset.sum_congr rfl fun a _ => ?_
    by_cases ha : actl a
    · simp only [ha, if_true]
      have := hZL a ha; have e := ewsl a ha
      linear_combination (-wzl a) * this + wzl a * e
    · simp [ha]
  have tU : (∑ a, if actu a then scu a * wzu a * wx (idxu a) else 0) =
      ∑ a, if actu a then (δ + su a * zu a) * (wzu a * wzu a) else 0 := by
    refine Finset.sum_congr rfl fun a _ => ?_
    by_cases ha : actu a
    · simp only [ha, if_true]
      have := hZU a ha; have e := ewsu a ha
      linear_combination wzu a * this - wzu a * e
    · simp [ha]
  rw [tY, tZ, tL, tU] at hE
  have q1 : 0 ≤ ∑ j, wx j * ∑ c, Pm j c * wx c := hP wx
  have n2 : ∀ j ∈ (Finset.univ : Finset (Fin n)), 0 ≤ wx j * (ρ * wx j) := fun j _ => by nlinarith [mul_self_nonneg (wx j)]
  have n3 : ∀ t ∈ (Finset.univ : Finset (Fin p)), 0 ≤ δ * (wy t * wy t) := fun t _ => mul_nonneg (le_of_lt hδ) (mul_self_nonneg _)
  have n4 : ∀ t ∈ (Finset.univ : Finset (Fin m)), 0 ≤ (δ + sv t * zinv t) * (wz t * wz t) :=
    fun t _ => mul_nonneg (by have := mul_pos (hs t) (hz t); linarith) (mul_self_nonneg _)
  have n5 : ∀ a ∈ (Finset.univ : Finset (Fin n)), 0 ≤ (if actl a then (δ + sl a * zl a) * (wzl a * wzl a) else 0) := fun a _ => by
    split
    · rename_i ha; exact mul_nonneg (by have := mul_pos (hsl a ha) (hzl a ha); linarith) (mul_self_nonneg _)
    · exact le_refl _
  have n6 : ∀ a ∈ (Finset.univ : Finset (Fin n)), 0 ≤ (if actu a then (δ + su a * zu a) * (wzu a * wzu a) else 0) := fun a _ => by
    split
    · rename_i ha; exact mul_nonneg (by have := mul_pos (hsu a ha) (hzu a ha); linarith) (mul_self_nonneg _)
    · exact le_refl _
  have q2 := Finset.sum_nonneg n2
  have q3 := Finset.sum_nonneg n3
  have q4 := Finset.sum_nonneg n4
  have q5 := Finset.sum_nonneg n5
  have q6 := Finset.sum_nonneg n6
  have z2 : (∑ j, wx j * (ρ * wx j)) = 0 := by linarith
  have z3 : (∑ t, δ * (wy t * wy t)) = 0 := by linarith
  have z4 : (∑ t, (δ + sv t * zinv t) * (wz t * wz t)) = 0 := by linarith
  have z5 : (∑ a, if actl a then (δ + sl a * zl a) * (wzl a * wzl a) else 0) = 0 := by linarith
  have z6 : (∑ a, if actu a then (δ + su a * zu a) * (wzu a * wzu a) else 0) = 0 := by linarith
  have hx0 : ∀ j, wx j = 0 := by
    intro j
    have := (Finset.sum_eq_zero_iff_of_nonneg n2).mp z2 j (Finset.mem_univ j)
    have h2 : wx j * wx j = 0 := by
      have : ρ * (wx j * wx j) = 0 := by linarith
      rcases mul_eq_zero.mp this with h | h
      · exact absurd h (ne_of_gt hρ)
      · exact h
    exact mul_self_eq_zero.mp h2
  have hy0 : ∀ t, wy t = 0 := by
    intro t
    have := (Finset.sum_eq_zero_iff_of_nonneg n3).mp z3 t (Finset.mem_univ t)
    rcases mul_eq_zero.mp this with h | h
    · exact absurd h (ne_of_gt hδ)
    · exact mul_self_eq_zero.mp h
  have hz0 : ∀ t, wz t = 0 := by
    intro t
    have := (Finset.sum_eq_zero_iff_of_nonneg n4).mp z4 t (Finset.mem_univ t)
    rcases mul_eq_zero.mp this with h | h
    · have := mul_pos (hs t) (hz t); linarith
    · exact mul_self_eq_zero.mp h
  have hzl0 : ∀ a, actl a → wzl a = 0 := by
    intro a ha
    have := (Finset.sum_eq_zero_iff_of_nonneg n5).mp z5 a (Finset.mem_univ a)
    simp only [ha, if_true] at this
    rcases mul_eq_zero.mp this with h | h
    · have := mul_pos (hsl a ha) (hzl a ha); linarith
    · exact mul_self_eq_zero.mp h
  have hzu0 : ∀ a, actu a → wzu a = 0 := by
    intro a ha
    have := (Finset.sum_eq_zero_iff_of_nonneg n6).mp z6 a (Finset.mem_univ a)
    simp only [ha, if_true] at this
    rcases mul_eq_zero.mp this with h | h
    · have := mul_pos (hsu a ha) (hzu a ha); linarith
    · exact mul_self_eq_zero.mp h
  refine ⟨hx0, hy0, hz0, fun t => by rw [ews t, hz0 t, mul_zero], fun a ha => ⟨hzl0 a ha, by rw [ewsl a ha, hzl0 a ha, mul_zero]⟩,
    fun a ha => ⟨hzu0 a ha, by rw [ewsu a ha, hzu0 a ha, mul_zero]⟩⟩
end kernel

section inj
open Piqp.C13
variable {K : Type} [Field K] [LinearOrder K] [IsStrictOrderedRing K]
variable {n p m : Nat}

theorem mult_x (d : Data K n p m) (k : KKT K n p m) (v old : Step K n p m) (j : Fin n) :
    (KKT.multiply d k v old).x[j] = (∑ c : Fin n, d.Psym[j][c] * v.x[c]) + k.rho * v.x[j] +
      ((∑ t : Fin p, d.AT[j][t] * v.y[t]) + ∑ t : Fin m, d.GT[j][t] * v.z[t])
      - (∑ a : Fin n, if d.lb.act a ∧ d.lb.idx[a] = j then d.lb.sc[a] * v.z_lb[a] else 0)
      + (∑ a : Fin n, if d.ub.act a ∧ d.ub.idx[a] = j then d.ub.sc[a] * v.z_ub[a] else 0) := by
  simp only [KKT.multiply, C13.ofFn_get, C13.mulVec_get, C13.scatter_get]
theorem mult_y (d : Data K n p m) (k : KKT K n p m) (v old : Step K n p m) (t : Fin p) :
    (KKT.multiply d k v old).y[t] = (∑ i : Fin n, d.AT[i][t] * v.x[i]) - k.delta * v.y[t] := by
  simp only [KKT.multiply, C13.ofFn_get, C13.mulVecT_get]
theorem mult_z (d : Data K n p m) (k : KKT K n p m) (v old : Step K n p m) (t : Fin m) :
    (KKT.multiply d k v old).z[t] = (∑ i : Fin n, d.GT[i][t] * v.x[i]) - k.delta * v.z[t] + v.s[t] := by
  simp only [KKT.multiply, C13.ofFn_get, C13.mulVecT_get]
theorem mult_s (d : Data K n p m) (k : KKT K n p m) (v old : Step K n p m) (t : Fin m) :
    (KKT.multiply d k v old).s[t] = k.s[t] * v.z[t] + (1 / k.zinv[t]) * v.s[t] := by
  simp only [KKT.multiply, C13.ofFn_get]
theorem mult_zl (d : Data K n p m) (k : KKT K n p m) (v old : Step K n p m) (a : Fin n) (ha : d.lb.act a) :
    (KKT.multiply d k v old).z_lb[a] = -d.lb.sc[a] * v.x[d.lb.idx[a]] - k.delta * v.z_lb[a] + v.s_lb[a] := by
  simp only [KKT.multiply, C13.headUpd_get, ha, if_true]
theorem mult_zu (d : Data K n p m) (k : KKT K n p m) (v old : Step K n p m) (a : Fin n) (ha : d.ub.act a) :
    (KKT.multiply d k v old).z_ub[a] = d.ub.sc[a] * v.x[d.ub.idx[a]] - k.delta * v.z_ub[a] + v.s_ub[a] := by
  simp only [KKT.multiply, C13.headUpd_get, ha, if_true]
theorem mult_sl (d : Data K n p m) (k : KKT K n p m) (v old : Step K n p m) (a : Fin n) (ha : d.lb.act a) :
    (KKT.multiply d k v old).s_lb[a] = k.s_lb[a] * v.z_lb[a] + (1 / k.zinv_lb[a]) * v.s_lb[a] := by
  simp only [KKT.multiply, C13.headUpd_get, ha, if_true]
theorem mult_su (d : Data K n p m) (k : KKT K n p m) (v old : Step K n p m) (a : Fin n) (ha : d.ub.act a) :
    (KKT.multiply d k v old).s_ub[a] = k.s_ub[a] * v.z_ub[a] + (1 / k.zinv_ub[a]) * v.s_ub[a] := by
  simp only [KKT.multiply, C13.headUpd_get, ha, if_true]

theorem sum_mul_sub {q : Nat} (f x y : Fin q → K) : (∑ a, f a * (x a - y a)) = (∑ a, f a * x a) - ∑ a, f a * y a := by
  simp only [mul_sub, Finset.sum_sub_distrib]

theorem sum_ite_mul_sub {q : Nat} (c : Fin q → Prop) [DecidablePred c] (f x y : Fin q → K) :
    (∑ a, if c a then f a * (x a - y a) else 0) = (∑ a, if c a then f a * x a else 0) - ∑ a, if c a then f a * y a else 0 := by
  rw [← Finset.sum_sub_distrib]
  refine Finset.sum_congr rfl fun a _ => ?_
  split
  · ring
  · ring

theorem step_ext (u v : Step K n p m) (e1 : u.x = v.x) (e2 : u.y = v.y) (e3 : u.z = v.z) (e4 : u.z_lb = v.z_lb) (e5 : u.z_ub = v.z_ub)
    (e6 : u.s = v.s) (e7 : u.s_lb = v.s_lb) (e8 : u.s_ub = v.s_ub) : u = v := by
  cases u; cases v; simp_all

/-- **the full regularised Newton operator is injective on a convex problem at an interior iterate** (for steps that agree on
    the dead tails of the box blocks, which `KKT.multiply` does not read) -/
theorem multiply_injective (d : Data K n p m) (k : KKT K n p m) (old : Step K n p m)
    (hP : ∀ x : Vec K n, 0 ≤ C14.quad d.Psym x) (hρ : 0 < k.rho) (hδ : 0 < k.delta)
    (hs : ∀ t : Fin m, 0 < k.s[t]) (hz : ∀ t : Fin m, 0 < k.zinv[t])
    (hsl : ∀ a : Fin n, d.lb.act a → 0 < k.s_lb[a]) (hzl : ∀ a : Fin n, d.lb.act a → 0 < k.zinv_lb[a])
    (hsu : ∀ a : Fin n, d.ub.act a → 0 < k.s_ub[a]) (hzu : ∀ a : Fin n, d.ub.act a → 0 < k.zinv_ub[a])
    (u v : Step K n p m)
    (htl : ∀ a : Fin n, ¬ d.lb.act a → u.z_lb[a] = v.z_lb[a] ∧ u.s_lb[a] = v.s_lb[a])
    (htu : ∀ a : Fin n, ¬ d.ub.act a → u.z_ub[a] = v.z_ub[a] ∧ u.s_ub[a] = v.s_ub[a])
    (h : KKT.multiply d k u old = KKT.multiply d k v old) : u = v := by
  have hP' : ∀ x : Fin n → K, 0 ≤ ∑ j : Fin n, x j * ∑ c : Fin n, d.Psym[j][c] * x c := by
    intro x
    have := hP (Vector.ofFn x)
    unfold C14.quad at this
    simpa only [C13.ofFn_get] using this
  have hk := newton_kernel_trivial (fun j c => d.Psym[j][c]) (fun j t => d.AT[j][t]) (fun j t => d.GT[j][t])
    d.lb.act d.ub.act (fun a => d.lb.idx[a]) (fun a => d.ub.idx[a]) (fun a => d.lb.sc[a]) (fun a => d.ub.sc[a])
    k.rho k.delta (fun t => k.s[t]) (fun t => k.zinv[t]) (fun a => k.s_lb[a]) (fun a => k.zinv_lb[a]) (fun a => k.s_ub[a]) (fun a => k.zinv_ub[a])
    hP' hρ hδ hs hz hsl hzl hsu hzu
    (fun j => u.x[j] - v.x[j]) (fun t => u.y[t] - v.y[t]) (fun t => u.z[t] - v.z[t]) (fun t => u.s[t] - v.s[t])
    (fun a => u.z_lb[a] - v.z_lb[a]) (fun a => u.s_lb[a] - v.s_lb[a]) (fun a => u.z_ub[a] - v.z_ub[a]) (fun a => u.s_ub[a] - v.s_ub[a])
    (by
      intro j
      have e := congrArg (fun s => s.x[j]) h
      simp only [mult_x] at e
      simp only [sum_mul_sub, sum_ite_mul_sub]
      linear_combination e)
    (by
      intro t
      have e := congrArg (fun s => s.y[t]) h
      simp only [mult_y] at e
      simp only [sum_mul_sub]
      linear_combination e)
    (by
      intro t
      have e := congrArg (fun s => s.z[t]) h
      simp only [mult_z] at e
      simp only [sum_mul_sub]
      linear_combination e)
    (by
      intro a ha
      have e := congrArg (fun s => s.z_lb[a]) h
      simp only [mult_zl d k _ old a ha] at e
      linear_combination e)
    (by
      intro a ha
      have e := congrArg (fun s => s.z_ub[a]) h
      simp only [mult_zu d k _ old a ha] at e
      linear_combination e)
    (by
      intro t
      have e := congrArg (fun s => s.s[t]) h
      simp only [mult_s] at e
      linear_combination e)
    (by
      intro a ha
      have e := congrArg (fun s => s.s_lb[a]) h
      simp only [mult_sl d k _ old a ha] at e
      linear_combination e)
    (by
      intro a ha
      have e := congrArg (fun s => s.s_ub[a]) h
      simp only [mult_su d k _ old a ha] at e
      linear_combination e)
  obtain ⟨kx, ky, kz, ks, kl, ku⟩ := hk
  apply step_ext
  · exact Vector.ext fun i hi => sub_eq_zero.mp (kx ⟨i, hi⟩)
  · exact Vector.ext fun i hi => sub_eq_zero.mp (ky ⟨i, hi⟩)
  · exact Vector.ext fun i hi => sub_eq_zero.mp (kz ⟨i, hi⟩)
  · exact Vector.ext fun i hi => by
      by_cases ha : d.lb.act ⟨i, hi⟩
      · exact sub_eq_zero.mp (kl ⟨i, hi⟩ ha).1
      · exact (htl ⟨i, hi⟩ ha).1
  · exact Vector.ext fun i hi => by
      by_cases ha : d.ub.act ⟨i, hi⟩
      · exact sub_eq_zero.mp (ku ⟨i, hi⟩ ha).1
      · exact (htu ⟨i, hi⟩ ha).1
  · exact Vector.ext fun i hi => sub_eq_zero.mp (ks ⟨i, hi⟩)
  · exact Vector.ext fun i hi => by
      by_cases ha : d.lb.act ⟨i, hi⟩
      · exact sub_eq_zero.mp (kl ⟨i, hi⟩ ha).2
      · exact (htl ⟨i, hi⟩ ha).2
  · exact Vector.ext fun i hi => by
      by_cases ha : d.ub.act ⟨i, hi⟩
      · exact sub_eq_zero.mp (ku ⟨i, hi⟩ ha).2
      · exact (htu ⟨i, hi⟩ ha).2

theorem recover_tails (be : Backend) (d : Data K n p m) (k : KKT K n p m) (r old : Step K n p m) (sol : Vec K n × Vec K p × Vec K m) :
    (∀ a : Fin n, ¬ d.lb.act a → (recover be d k r old sol).z_lb[a] = old.z_lb[a] ∧ (recover be d k r old sol).s_lb[a] = old.s_lb[a]) ∧
    (∀ a : Fin n, ¬ d.ub.act a → (recover be d k r old sol).z_ub[a] = old.z_ub[a] ∧ (recover be d k r old sol).s_ub[a] = old.s_ub[a]) := by
  unfold recover
  refine ⟨fun a ha => ?_, fun a ha => ?_⟩
  · simp only [C13.headUpd_get, ha, if_false]; exact ⟨trivial, trivial⟩
  · simp only [C13.headUpd_get, ha, if_false]; exact ⟨trivial, trivial⟩

/-- **C10, all back ends compute the same step on a convex problem.** Any two of the five back ends whose reduced matrices are
    coherent with the same data and scalings and whose inner factorisations are exact return *equal* steps at an interior
    iterate of a convex problem (`P ⪰ 0`, `ρ, δ > 0`): the injectivity that `backends_agree_exact` asks for holds
    (`multiply_injective`), so this statement has no unmet hypothesis. -/
theorem backends_agree_convex (be1 be2 : Backend) (st1 st2 : KKTSettings K) (d : Data K n p m) (k1 k2 : KKT K n p m)
    (r old out1 out2 : Step K n p m) (slv1 slv2 : SolveFn K n p m)
    (hsame : SameScalings k1 k2)
    (hf1 : k1.fsol = some slv1) (hc1 : Coherent be1 d k1) (he1 : InnerExact be1 k1.k slv1) (hi1 : Interior d k1)
    (hf2 : k2.fsol = some slv2) (hc2 : Coherent be2 d k2) (he2 : InnerExact be2 k2.k slv2) (hi2 : Interior d k2)
    (h1 : KKT.solve be1 st1 d k1 r old false = some out1) (h2 : KKT.solve be2 st2 d k2 r old false = some out2)
    (hP : ∀ x : Vec K n, 0 ≤ C14.quad d.Psym x) (hρ : 0 < k1.rho) (hδ : 0 < k1.delta)
    (hs : ∀ t : Fin m, 0 < k1.s[t]) (hz : ∀ t : Fin m, 0 < k1.zinv[t])
    (hsl : ∀ a : Fin n, d.lb.act a → 0 < k1.s_lb[a]) (hzl : ∀ a : Fin n, d.lb.act a → 0 < k1.zinv_lb[a])
    (hsu : ∀ a : Fin n, d.ub.act a → 0 < k1.s_ub[a]) (hzu : ∀ a : Fin n, d.ub.act a → 0 < k1.zinv_ub[a]) :
    out1 = out2 := by
  have key := (backends_agree_exact be1 be2 st1 st2 d k1 k2 r old out1 out2 slv1 slv2 hsame hf1 hc1 he1 hi1 hf2 hc2 he2 hi2 h1 h2).1
  have e1 := solve_eq_recover be1 st1 d k1 r old out1 slv1 hf1 h1
  have e2 := solve_eq_recover be2 st2 d k2 r old out2 slv2 hf2 h2
  obtain ⟨t1l, t1u⟩ := recover_tails be1 d k1 r old (slv1 (rxOf be1 d k1 r) r.y (zbarOf be1 k1 r))
  obtain ⟨t2l, t2u⟩ := recover_tails be2 d k2 r old (slv2 (rxOf be2 d k2 r) r.y (zbarOf be2 k2 r))
  rw [← e1] at t1l t1u
  rw [← e2] at t2l t2u
  exact multiply_injective d k1 old hP hρ hδ hs hz hsl hzl hsu hzu out1 out2
    (fun a ha => ⟨(t1l a ha).1.trans (t2l a ha).1.symm, (t1l a ha).2.trans (t2l a ha).2.symm⟩)
    (fun a ha => ⟨(t1u a ha).1.trans (t2u a ha).1.symm, (t1u a ha).2.trans (t2u a ha).2.symm⟩) key
end inj
end Piqp.C10
